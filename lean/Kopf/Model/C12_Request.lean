/-
  C12 model, part 1 — `kopf._cogs.clients.api.request` (the function under `@authenticated`, i.e.
  with an explicit `context=`) and `errors.check_response`. Core Lean only.

  Time is integer ticks (1 tick = 2⁻¹⁰ s). One *attempt* = one `context.session.request(...)` call
  followed by `errors.check_response(response)`.

  Mechanism mirrored (api.py):
    backoffs := settings.networking.error_backoffs  (scalar ↦ [scalar])
    for retry, backoff in enumerate(chain(backoffs, repeat(None)), 1):
        try:  response = await session.request(...); await check_response(response)
        except RuntimeError:  session.closed ? raise APISessionClosed : raise
        except (ClientConnectionError, APIServerError, TimeoutError, APIForbiddenError,
                APITooManyRequestsError) as e:
            if APIError (429, 5xx, 403): retry_after := header "Retry-After" (truthy) ▸ _parse_retry_after(.)
                               | details.retryAfterSeconds (truthy) ▸ ceil(float(.)) | None
                    -- _parse_retry_after: ceil(float(v)) | HTTP-date ▸ max(0, ceil(when - now)) | None
                    if retry_after is not None and backoff is not None:
                        if enforce_retry_after or retry_after > backoff: backoff = retry_after
            if SSL-marker in str(e): raise APISessionClosed
            elif backoff is None: raise
            else: await asyncio.sleep(backoff)
        else: return response
-/
namespace Kopf.C12

/-- The exception classes that can leave one attempt (errors.py hierarchy + the network ones). -/
inductive ErrClass where
  | unauthorized | forbidden | notFound | conflict | unprocessable | tooMany
  | client        -- APIClientError proper: other 4xx
  | server        -- APIServerError: 5xx
  | apiError      -- APIError proper: status ≥ 600
  | conn          -- aiohttp.ClientConnectionError (and subclasses)
  | timeout       -- asyncio.TimeoutError
  | sessionClosed -- errors.APISessionClosed
  | other         -- anything else (escapes the loop untouched)
  deriving DecidableEq, Repr, Inhabited

/-- `errors.check_response`: the status → class chain (only consulted for status ≥ 400). -/
def classify (status : Nat) : ErrClass :=
  if status = 401 then .unauthorized
  else if status = 403 then .forbidden
  else if status = 404 then .notFound
  else if status = 409 then .conflict
  else if status = 422 then .unprocessable
  else if status = 429 then .tooMany
  else if 400 ≤ status ∧ status < 500 then .client
  else if 500 ≤ status ∧ status < 600 then .server
  else .apiError

/-- `check_response` raises iff `status >= 400`. -/
def raises (status : Nat) : Bool := decide (400 ≤ status)

/-- The `except (...)` tuple of the retry loop, as a predicate on the class that was raised.
    (`forbidden`/`tooMany` are listed explicitly; `server` covers all 5xx; `client` is NOT there.) -/
def retryable : ErrClass → Bool
  | .conn | .server | .timeout | .forbidden | .tooMany => true
  | _ => false

/-- How the error body reached `APIError._payload` (check_response). -/
inductive PayloadKind where
  | statusJson   -- a JSON dict with kind == 'Status'  → kept
  | otherJson    -- a JSON dict of another kind        → dropped (payload = None)
  | text         -- not JSON                           → a string (no `.details`)
  | empty
  | otherValue   -- a JSON body that is a truthy list / number / bool: kept as the payload, carries no
                 -- message and no details (F6 fixed in ba57df1: it used to raise AttributeError)
  | badDetails   -- a `Status` dict whose `details` is a truthy non-dict (string, list): no details
                 -- (F6 fixed: `isinstance(e.details, dict)`)
  deriving DecidableEq, Repr, Inhabited

/-- The `Retry-After` header as `api._parse_retry_after` sees it. Values are in ticks. -/
inductive Hdr where
  | absent                  -- no header, or an empty string (falsy: the details branch is consulted)
  | secs (x : Int)          -- delay-seconds (anything `float()` parses to a finite number)
  | date (delta : Int)      -- an HTTP-date; `delta = when - now` at the moment the handler runs
  | garbage                 -- neither: parsed to None — and the details are NOT consulted
  | otherCase (x : Int)     -- delay-seconds sent under another spelling of the name (`retry-after`, as
                            -- HTTP/2 and proxies do): found by the case-insensitive lookup (F4, fixed in
                            -- aac39f2) and handled exactly like `secs`
  | overflow                -- `float()` gives ±inf ("inf", "1e999"): OverflowError is caught (F2, fixed in
                            -- ae1ab5d), the date parse fails too: None, like garbage
  deriving DecidableEq, Repr, Inhabited

/-- What one HTTP error response carries, as far as the loop reads it. -/
structure Resp where
  status : Nat
  hdr : Hdr
  payload : PayloadKind
  detRA : Option Int          -- `details.retryAfterSeconds` in the JSON body, if present (ticks)
  detBad : Bool               -- `details.retryAfterSeconds` is present and truthy but `math.ceil(float(.))`
                              -- raises on it ("soon", NaN, Infinity, [5]): caught, no Retry-After (F6 fixed)
  deriving DecidableEq, Repr, Inhabited

/-- What the fake session does on one attempt. -/
inductive Fault where
  | ok                                          -- status < 400
  | http (r : Resp)                             -- any response; raises iff status ≥ 400
  | exc (conn timeout runtime ssl closed : Bool)
      -- an exception from `session.request`: is it a ClientConnectionError / a TimeoutError /
      -- a RuntimeError; does its text carry the SSL close-notify marker; is `session.closed` set
  deriving DecidableEq, Repr, Inhabited

structure Att where
  fault : Fault
  lat : Nat                    -- ticks the attempt takes before it answers / raises
  deriving DecidableEq, Repr, Inhabited

def tickPerSec : Int := 1024

/-- `math.ceil(x)` on a value given in ticks: whole seconds upwards, back in ticks. -/
def ceilSec (x : Int) : Int := -(((-x) / tickPerSec) * tickPerSec)

/-- `details.retryAfterSeconds` (the old style): truthiness of the raw value (0 counts as absent),
    then `math.ceil(float(..))` (F5, fixed in e640e5e); details exist only when the body was a
    `Status` JSON. -/
def detailsRA (r : Resp) : Option Int :=
  if r.payload = .statusJson then
    match r.detRA with
    | some d => if r.detBad then none else if d ≠ 0 then some (ceilSec d) else none
    | none => none
  else none

/-- The `retry_after` of a retried API error (any status, since f4c61b5 — F7 fixed): the header first (any non-empty string is truthy, "0" included):
    delay-seconds rounded up to whole seconds (under any spelling of the name), an HTTP-date as `max(0, ceil(when - now))`, anything else None;
    only without a header `details.retryAfterSeconds` (truthy, so 0 counts as absent; details exist
    only when the body was a `Status` JSON). -/
def retryAfter (r : Resp) : Option Int :=
  match r.hdr with
  | .secs h => some (ceilSec h)
  | .otherCase h => some (ceilSec h)
  | .date d => some (if ceilSec d < 0 then 0 else ceilSec d)
  | .garbage => none
  | .overflow => none
  | .absent => detailsRA r

/-- What the SERVER asked for (the specification side; never used by `run`): the delay-seconds
    as sent (fractions included, under any spelling of the header name), the time to the HTTP-date,
    or — without a usable header — the body's `retryAfterSeconds`. -/
def requested (r : Resp) : Option Int :=
  match r.hdr with
  | .secs h => some h
  | .otherCase h => some h
  | .date d => some (if d < 0 then 0 else d)
  | .garbage | .overflow => none
  | .absent =>
    if r.payload = .statusJson then
      match r.detRA with
      | some d => if r.detBad then none else if d ≠ 0 then some d else none
      | none => none
    else none

/-- The `backoff` after the Retry-After override (only evaluated when `backoff` is not None). -/
def effDelay (enforce : Bool) (ra : Option Int) (b : Int) : Int :=
  match ra with
  | some r => if enforce || decide (r > b) then r else b
  | none => b

/-- What one attempt means for the loop. -/
inductive Verdict where
  | success
  | raise (c : ErrClass)                  -- leaves `request` at once
  | retry (c : ErrClass) (ra : Option Int) -- caught by the retry clause; `ra`: the server's Retry-After
  deriving DecidableEq, Repr

def verdict : Fault → Verdict
  | .ok => .success
  | .http r =>
    if raises r.status then
      let c := classify r.status
      if retryable c then .retry c (retryAfter r)
      else .raise c
    else .success
  | .exc conn timeout runtime ssl closed =>
    -- `except RuntimeError` comes first in the source
    if runtime then (if closed then .raise .sessionClosed else .raise .other)
    else if conn || timeout then
      -- caught by the retry clause; the SSL close-notify marker in `str(e)` turns it into
      -- APISessionClosed whatever the backoff
      if ssl then .raise .sessionClosed
      else if conn then .retry .conn none else .retry .timeout none
    else .raise .other

inductive Outcome where
  | ok
  | escalated (c : ErrClass)
  deriving DecidableEq, Repr, Inhabited

structure Run where
  times : List Int      -- start time of every attempt
  waits : List Int      -- the argument of every `asyncio.sleep(backoff)` between attempts
  outcome : Outcome
  fin : Int             -- time at which `request` returned / raised
  deriving DecidableEq, Repr, Inhabited

/-- Backoff configuration as the loop sees it: the `i`-th element of the iteration, `none` once
    exhausted (`itertools.repeat(None)`). Finite lists/tuples, scalars and RE-ITERABLE objects are of this
    form (every request iterates from index 0). A one-shot generator object is consumed across requests:
    excluded (the property quantifies over re-iterable configurations; see ASSUMPTIONS). -/
abbrev Backoffs := Nat → Option Int

def ofList (l : List Int) : Backoffs := fun i => l[i]?
def ofScalar (b : Int) : Backoffs := ofList [b]

/-- `asyncio.sleep(d)` advances the clock by `max 0 d`. -/
def slept (d : Int) : Int := if d < 0 then 0 else d

/-- The retry loop on a script of per-attempt behaviours; once the script is exhausted the server
    answers 200 with no latency. `i` = index of the next backoff, `t` = now. -/
def run (bo : Backoffs) (enforce : Bool) : List Att → Nat → Int → Run
  | [], _, t => ⟨[t], [], .ok, t⟩
  | a :: rest, i, t =>
    let t' := t + a.lat
    match verdict a.fault with
    | .success => ⟨[t], [], .ok, t'⟩
    | .raise c => ⟨[t], [], .escalated c, t'⟩
    | .retry c ra =>
      match bo i with
      | none => ⟨[t], [], .escalated c, t'⟩
      | some b =>
        let d := effDelay enforce ra b
        let r := run bo enforce rest (i + 1) (t' + slept d)
        ⟨t :: r.times, d :: r.waits, r.outcome, r.fin⟩

def request (bo : Backoffs) (enforce : Bool) (script : List Att) (t0 : Int) : Run :=
  run bo enforce script 0 t0

/-- `api.get / post / patch / delete`: `response = await request(...)` and then
    `async with response: return await response.json()` — the body is read OUTSIDE the retry loop.
    `bodyReadFails`: reading the body of the final, successful answer raises a network error. -/
def getJson (bo : Backoffs) (enforce : Bool) (script : List Att) (t0 : Int) (bodyReadFails : Bool) : Run :=
  let r := request bo enforce script t0
  match r.outcome with
  | .ok => if bodyReadFails then { r with outcome := .escalated .conn } else r
  | _ => r

end Kopf.C12
