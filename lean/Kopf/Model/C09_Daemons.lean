/-
  C09 model — lifecycle of ONE (object, daemon/timer handler id) pair, as `kopf/_core/engines/daemons.py`
  and `processing.process_spawning_cause` drive it.

  * `Inst`   — the `Daemon` record of a live instance: its `DaemonStopper` (`reason` flags + `when`),
               whether `task.cancel()` was called, and the start times of the daemon-killer's
               `stop_daemon` coroutines working on it.
  * `St`     — the slice of `DaemonsMemory` for this id (`running_daemons[id]`, `id ∈ forever_stopped`),
               whether the memory is still in the inventory (`known`), the clock, and ghost counters
               (`live` = runner tasks alive, `spawns`).
  * `stage`  — the if/elif chain of `stop_daemons` (regenerated from the AST, see Tie/C09.lean).
  * `stopOne`— `stop_daemons` for one daemon;  `cycle` — `process_spawning_cause` for this id: `spawnAct` (what
               `spawn_daemons` does for one selected handler), `matchVisits` / `revisitNow` (whom `match_daemons` hands to
               `stop_daemons`, when it asks for an immediate re-visit) — all three regenerated from the AST as well;
  * `step`   — the labelled transition system: a processing cycle, the daemon killer's `stop_daemon`
               stages, the instance ending (`_runner`'s `finally`), time passing.
  * `tstep`  — micro-steps of `_timer`'s control flow, each tagged suspending or not.

  Integer ticks (1 tick = 1/64 s). Core Lean only.
-/
namespace Kopf.C09

abbrev Tick := Int

/-- `stoppers.DaemonStoppingReason` (an `enum.Flag`; a stopper carries a set of them). -/
inductive Reason where
  | done | mismatch | deleted | pausing | exiting | signalled | cancelled | abandoned
  deriving DecidableEq, Repr, Inhabited

/-- the reasons that *ask* a daemon to stop (first argument of `stop_daemons`/`stop_daemon`) -/
def Reason.primary : Reason → Bool
  | .mismatch | .deleted | .pausing | .exiting => true
  | _ => false

/-- What the stopping logic reads of a handler. For timers both `stop_daemons` and `stop_daemon`
    force `backoff = timeout = None`. -/
structure Cfg where
  backoff : Option Tick      -- cancellation_backoff
  timeout : Option Tick      -- cancellation_timeout
  polling : Tick             -- cancellation_polling or settings.background.cancellation_polling
  stopsGone : Bool := true      -- tree variant (since /repo 25da2b9): on a DELETED event the daemons of the forgotten
                                -- memory are stopped by background `stop_daemon`s and nothing is spawned for it
  marksExiting : Bool := true   -- tree variant (since /repo 1d3a667): the killer's exit sweep first marks the
                                -- memories `operator_exiting`; `spawn_daemons` spawns nothing then
  escorts : Bool := true        -- tree variant (since /repo ef26531): `match_daemons` keeps visiting a daemon that carries
                                -- FILTERS_MISMATCH also when its handler matches again (and asks for an immediate re-visit
                                -- when it has ended meanwhile); `spawn_daemons` returns a re-check delay when it skips a
                                -- selected handler whose previous instance is still stopping
  deriving DecidableEq, Repr

/-- the variants of the tree under test (tied to the AST: `Tie.stops_gone`, `Tie.marks_exiting`, `Tie.spawn_act_eq`, `Tie.match_visits_eq`, `Tie.revisit_now_eq`) -/
def treeStopsGone : Bool := true
def treeMarksExiting : Bool := true
def treeEscorts : Bool := true

def Cfg.b0 (c : Cfg) : Tick := c.backoff.getD 0     -- `(backoff or 0)`
def Cfg.t0 (c : Cfg) : Tick := c.timeout.getD 0

/-- A live instance. `reasons`/`when` are the `FlagSetter`: the only mutator is `set`, which sets the
    events, `when` (first time only) and the reason together, so "the flag is set" ⇔ `when ≠ none`
    ⇔ `reasons ≠ []`, and `is_set(reason=r)` ⇔ `r ∈ reasons`. -/
structure Inst where
  reasons : List Reason
  when : Option Tick
  cancelAt : Option Tick     -- first `daemon.task.cancel()` by the stopping logic
  abandonAt : Option Tick    -- when DAEMON_ABANDONED was set (ghost)
  kstarts : List Tick        -- start times of `stop_daemon` coroutines of the daemon killer (ghost)
  since : Tick               -- when the instance was put into `running_daemons` (ghost)
  deriving DecidableEq, Repr

def Inst.fresh (now : Tick) : Inst :=
  { reasons := [], when := none, cancelAt := none, abandonAt := none, kstarts := [], since := now }

/-- `FlagSetter.set(reason)` at loop time `now`. -/
def Inst.set (i : Inst) (r : Reason) (now : Tick) : Inst :=
  { i with reasons := if r ∈ i.reasons then i.reasons else i.reasons ++ [r],
           when := some (i.when.getD now) }

def Inst.has (i : Inst) (r : Reason) : Bool := decide (r ∈ i.reasons)

structure St where
  now : Tick
  run : Option Inst          -- memory.running_daemons.get(id)
  forever : Bool             -- id in memory.forever_stopped
  known : Bool               -- the memory is in `memories._items` (reachable by the daemon killer / next events)
  live : Nat                 -- ghost: `_runner` tasks of this id that have not ended
  spawns : Nat               -- ghost: how many instances were ever created
  paused : Option Tick       -- `operator_paused` is on since that moment (the daemon killer's rounds: p, p+64, …)
  killerDone : Bool          -- the daemon killer has done its exit sweep (its `finally:`) and is gone
  exitAt : Option Tick       -- the daemon killer's `finally:` has begun then (`memories.mark_operator_exiting()`)
  goneAt : Option Tick       -- the DELETED event of the object was processed then (`memory.object_gone`)
  deriving DecidableEq, Repr

def St.init (t0 : Tick) : St :=
  { now := t0, run := none, forever := false, known := true, live := 0, spawns := 0, paused := none, killerDone := false,
    exitAt := none, goneAt := none }

/-! ### The stage chain of `stop_daemons` (tied to the source by the translator) -/

/-- The facts the if/elif chain reads. -/
structure Atoms where
  taskDone : Bool        -- daemon.task.done()
  backoffSome : Bool     -- backoff is not None
  ageLtBackoff : Bool    -- age < backoff
  timeoutSome : Bool     -- timeout is not None
  ageLtDeadline : Bool   -- age < timeout + (backoff or 0)
  deriving DecidableEq, Repr

inductive Delay where
  | backoffLeft      -- backoff - age
  | deadlineLeft     -- timeout + (backoff or 0) - age
  | polling
  deriving DecidableEq, Repr

/-- What one branch of the chain does. -/
structure Act where
  set : Option Reason      -- `if not stopper.is_set(reason=R): stopper.set(reason=R); …`
  cancel : Bool            -- … `daemon.task.cancel()` inside that block
  wait : Bool              -- … `await _wait_for_instant_exit(...)` inside that block
  delay : Option Delay     -- `delays.append(...)`
  delayIfAlive : Bool      -- the append is guarded by `if not daemon.task.done()`
  deriving DecidableEq, Repr

def stage (a : Atoms) : Act :=
  if a.taskDone then { set := none, cancel := false, wait := false, delay := none, delayIfAlive := false }
  else if a.backoffSome && a.ageLtBackoff then
    { set := some .signalled, cancel := false, wait := true, delay := some .backoffLeft, delayIfAlive := true }
  else if a.timeoutSome && a.ageLtDeadline then
    { set := some .cancelled, cancel := true, wait := true, delay := some .deadlineLeft, delayIfAlive := true }
  else if a.timeoutSome then
    { set := some .abandoned, cancel := false, wait := false, delay := none, delayIfAlive := false }
  else { set := none, cancel := false, wait := false, delay := some .polling, delayIfAlive := false }

/-- The phases of the linear `stop_daemon` (daemon killer): (needs backoff / needs timeout / always),
    reason set, whether the task is cancelled, what is awaited afterwards. -/
inductive KWait where
  | backoff | timeout | nothing
  deriving DecidableEq, Repr

structure KPhase where
  needsBackoff : Bool
  needsTimeout : Bool
  set : Reason
  cancel : Bool
  wait : KWait
  deriving DecidableEq, Repr

def killerPhases : List KPhase :=
  [ { needsBackoff := true,  needsTimeout := false, set := .signalled, cancel := false, wait := .backoff },
    { needsBackoff := false, needsTimeout := true,  set := .cancelled, cancel := true,  wait := .timeout },
    { needsBackoff := false, needsTimeout := false, set := .abandoned, cancel := false, wait := .nothing } ]

/-! ### `stop_daemons` for one daemon -/

/-- What the stopping coroutine observes of the task: `d0` — already ended when the loop reached it
    (it is only in the snapshot `list(daemons.values())`); `d1` — `daemon.task.done()` after the first
    instant-exit wait; `d2` — after the second one. -/
structure Ex where
  d0 : Bool
  d1 : Bool
  d2 : Bool
  deriving DecidableEq, Repr

def Ex.never : Ex := { d0 := false, d1 := false, d2 := false }

inductive Out where
  | alive (i : Inst) (delay : Option Tick)
  | ended (i : Inst)          -- the instance ended; `i` = its stopper at that moment
  deriving DecidableEq, Repr

def age (i : Inst) (now : Tick) : Tick :=
  match i.when with
  | some w => now - w
  | none => 0            -- `now - (stopper.when if stopper.when is not None else now)`

def atomsOf (c : Cfg) (a : Tick) (done : Bool) : Atoms :=
  { taskDone := done,
    backoffSome := c.backoff.isSome,
    ageLtBackoff := (match c.backoff with | some b => decide (a < b) | none => false),
    timeoutSome := c.timeout.isSome,
    ageLtDeadline := (match c.timeout with | some t => decide (a < t + c.b0) | none => false) }

def delayVal (c : Cfg) (a : Tick) : Delay → Tick
  | .backoffLeft => c.b0 - a
  | .deadlineLeft => c.t0 + c.b0 - a
  | .polling => c.polling

/-- Apply a branch's `set` (with its cancel mark). Returns the instance and whether the block ran
    (i.e. the reason was not yet set, so an instant-exit wait follows if the branch has one). -/
def applySet (act : Act) (i : Inst) (now : Tick) : Inst × Bool :=
  match act.set with
  | none => (i, false)
  | some r =>
    if r ∈ i.reasons then (i, false)
    else
      let j := i.set r now
      let j := if act.cancel then { j with cancelAt := some (j.cancelAt.getD now) } else j
      let j := if r = .abandoned then { j with abandonAt := some (j.abandonAt.getD now) } else j
      (j, true)

def stopOne (c : Cfg) (now : Tick) (r : Reason) (i : Inst) (ex : Ex) : Out :=
  if ex.d0 then .ended i else
  let a := age i now                                  -- computed before the flag is set
  let i1 := if r ∈ i.reasons then i else i.set r now  -- "this flag must be surely set"
  let act := stage (atomsOf c a ex.d1)
  if ex.d1 then .ended i1 else
  let (i2, _) := applySet act i1 now
  if act.delayIfAlive && ex.d2 then .ended i2 else
  .alive i2 (act.delay.map (delayVal c a))

/-! ### One processing cycle (`process_spawning_cause`) for this handler id -/

structure CycIn where
  matching : Bool   -- the handler's filters match the body
  marked : Bool      -- finalizers.is_deletion_ongoing(body)
  paused : Bool      -- operator_paused.is_on() when pause_daemons runs
  deleted : Bool     -- raw event type is DELETED: `memories.forget` ran before the processing
  ex1 : Ex           -- observations of the deletion / mismatch stop
  ex2 : Ex           -- observations of the pause stop
  deriving DecidableEq, Repr

/-- `_runner`'s `finally`: remember own exits forever, erase the entry; the task ends. -/
def endInst (s : St) (i : Inst) : St :=
  { s with run := none, forever := s.forever || i.reasons.isEmpty, live := s.live - 1 }

def applyOut (s : St) : Out → St × List Tick
  | .alive i d => ({ s with run := some i }, d.toList)
  | .ended i => (endInst s i, [])

/-- `spawn_daemons` for one handler: a new `Daemon` with a fresh stopper and a new runner task. -/
def spawn (s : St) : St :=
  { s with run := some (Inst.fresh s.now), live := s.live + 1, spawns := s.spawns + 1 }

def stopIf (c : Cfg) (s : St) (cond : Bool) (r : Reason) (ex : Ex) : St × List Tick :=
  match cond, s.run with
  | true, some i => applyOut s (stopOne c s.now r i ex)
  | _, _ => (s, [])

/-- `spawn_daemons` returns at once: `memory.operator_exiting` or `memory.object_gone` -/
def St.spawnBlocked (c : Cfg) (s : St) : Bool :=
  (c.marksExiting && s.exitAt.isSome) || (c.stopsGone && s.goneAt.isSome)

/-- `running_daemons[id].stopper.is_set()`: the previous instance is there and was asked to stop (for whatever reason) -/
def St.stopping (s : St) : Bool :=
  match s.run with
  | some i => !i.reasons.isEmpty
  | none => false

/-- `running_daemons[id].stopper.is_set(reason=FILTERS_MISMATCH)` -/
def St.flaggedMismatch (s : St) : Bool :=
  match s.run with
  | some i => i.has .mismatch
  | none => false

/-! #### what the translator reads of `spawn_daemons` and `match_daemons` (Tie/C09.lean: `spawn_act_eq`, `match_visits_eq`,
     `revisit_now_eq`); `escorts` = the tree variant since /repo ef26531 -/

/-- What `spawn_daemons` does for ONE selected handler. -/
structure SpawnAct where
  spawn : Bool             -- a new `Daemon` record with a fresh stopper and a runner task
  delay : Option Delay     -- `delays.append(...)`
  deriving DecidableEq, Repr

/-- `if handler.id in daemons: (if daemons[handler.id].stopper.is_set(): delays.append(polling)) else: <spawn>`;
    before ef26531: `if handler.id not in daemons: <spawn>` and no delay at all. -/
def spawnAct (escorts idTaken stopperSet : Bool) : SpawnAct :=
  if idTaken then
    (if escorts && stopperSet then { spawn := false, delay := some .polling } else { spawn := false, delay := none })
  else { spawn := true, delay := none }

/-- `match_daemons`' selection of a running daemon: its handler is not among the selected ones, or (since ef26531) it
    carries FILTERS_MISMATCH — once asked for a mismatch, escorted to the end whatever the object does. -/
def matchVisits (escorts notSelected flaggedMismatch : Bool) : Bool := notSelected || (escorts && flaggedMismatch)

/-- `any(id in matching_daemon_ids and id not in daemons for id in mismatching_daemons)` for one visited daemon (since
    ef26531): it has ended in the visit while it is selected → `delays.append(0)`. -/
def revisitNow (escorts selected gone : Bool) : Bool := escorts && selected && gone

def escorted (c : Cfg) (selected : Bool) (s : St) : Bool := matchVisits c.escorts (!selected) s.flaggedMismatch

/-- `match_daemons` then `pause_daemons` of an unmarked cycle, after `spawn_daemons` has left the state `s1` and the delays
    `ds`: the visited (`visits`) are (further) stopped for FILTERS_MISMATCH; `delays.append(0)` as `revisit` says of whether
    the instance is gone after that visit; then the pause stop (strictly after the spawning, #1266). -/
def cycleCore (c : Cfg) (inp : CycIn) (s1 : St) (ds : List Tick) (visits : Bool) (revisit : Bool → Bool) : St × List Tick :=
  let p2 := stopIf c s1 visits .mismatch inp.ex1
  let dz := if revisit p2.1.run.isNone then [0] else []
  let p3 := stopIf c p2.1 inp.paused .pausing inp.ex2
  (p3.1, ds ++ p2.2 ++ dz ++ p3.2)

def cycle (c : Cfg) (inp : CycIn) (s : St) : St × List Tick :=
  -- DELETED: `memories.forget`, then `stop_daemons_of_gone_object` marks the memory (its background
  -- `stop_daemon`s are the label `kBegin .deleted`, at this very instant: `tickOk`)
  let s := if inp.deleted then { s with known := false, goneAt := some s.now } else s
  if inp.marked then
    stopIf c s true .deleted inp.ex1                       -- stop_daemons(all running)
  else
    let selected := inp.matching && !s.forever              -- get_handlers(cause, excluded=forever_stopped)
    -- spawn_daemons (its loop reaches this handler when it is selected and the memory is not marked exiting / gone):
    -- a new instance if the id is free; a re-check delay if the previous instance is still stopping
    let reached := selected && !s.spawnBlocked c
    let sa := spawnAct c.escorts s.run.isSome s.stopping
    let s1 := if reached && sa.spawn then spawn s else s
    let ds := if reached then (sa.delay.map (delayVal c 0)).toList else []
    -- match_daemons: the not selected and the flagged-for-mismatch are (further) stopped; `delays.append(0)` when one
    -- of the visited has ended right now while it is selected (the spawning of this cycle has skipped it)
    cycleCore c inp s1 ds (escorted c selected s)
      (fun gone => s1.run.isSome && escorted c selected s && revisitNow c.escorts selected gone)

/-! ### The killer's periodic re-sweep while the operator is paused, and the urgency of its timers -/

/-- `async with asyncio.timeout(1.0): await operator_paused.wait_for(False)`: while paused, the killer
    repeats its sweep every second (64 ticks); the sweep itself takes no time. -/
def killerPeriod : Tick := 64

/-- One round of the pausing loop for one listed daemon: `stop_daemon(OPERATOR_PAUSING)` is spawned
    UNCONDITIONALLY — also for a daemon that already carries OPERATOR_PAUSING because `pause_daemons`
    set it in a processing cycle (the #1266 safeguard). That cycle cannot escalate: its delays lead to
    a touch whose event never arrives while the streams are paused; the re-sweeps are what cancels. -/
def sweepSpawns (_i : Inst) : Bool := true

/-- The first round at or after `t`, rounds being at `p`, `p + 64`, `p + 128`, … (pause toggled at `p`). -/
def nextRound (p t : Tick) : Tick := p + ((t - p + 63) / 64) * 64

/-- `t` is a round of the killer's pausing loop started at `p`. -/
def isRound (p t : Tick) : Bool := decide (p ≤ t) && decide ((t - p) % 64 = 0)

/-- the operator is paused and `now` is one of the rounds of the killer's pausing loop -/
def St.atRound (s : St) : Bool :=
  match s.paused with
  | some p => isRound p s.now
  | none => false

/-- The first round strictly after `t` (and not before `p`): the first sweep that surely lists a daemon that
    is in `running_daemons` since `t`. -/
def firstDue (p t : Tick) : Tick := if t < p then p else p + ((t - p) / 64 + 1) * 64

/-- which `stop_daemon` may be started now: by a round of the pausing loop, by the exit sweep (after the
    mark, before the killer is gone), by the processing of the object's DELETED event -/
def St.mayBegin (c : Cfg) (s : St) : Reason → Bool
  | .pausing => s.known && !s.killerDone && s.atRound
  | .exiting => s.known && !s.killerDone && s.exitAt.isSome
  | .deleted => c.stopsGone && (s.goneAt == some s.now)
  | _ => false

/-- the exit sweep lists this instance for sure: its memory is still there, and either nothing is spawned
    after the mark (since 1d3a667: every instance was there when the sweep began), or the instance is in
    `running_daemons` since before the instant of the sweep -/
def St.exitDue (c : Cfg) (s : St) (i : Inst) (x : Tick) : Bool :=
  s.known && (c.marksExiting || decide (i.since < x))

/-- the exit sweep has covered the instance (if it had to) -/
def St.sweptForExit (c : Cfg) (s : St) : Bool :=
  match s.exitAt, s.run with
  | some x, some i => !s.exitDue c i x || (decide (x ∈ i.kstarts) && i.has .exiting)
  | _, _ => true

/-- asyncio fires due timers: may the clock advance by `d` from `s`? Not past a stage of a running
    `stop_daemon` coroutine that has not happened yet (its `aiotasks.wait(..., timeout=backoff / timeout)`
    returns at the deadline and the stage is done at once), and — while paused — not past a round of the
    killer that has not yet started `stop_daemon` for a daemon that was listed before that round; nor at all
    before the background `stop_daemon`s of a gone object / of the exit sweep have started. -/
def tickOk (c : Cfg) (s : St) (d : Nat) : Bool :=
  match s.run with
  | none => true
  | some i =>
    i.kstarts.all (fun st =>
      (!c.timeout.isSome || i.cancelAt.isSome || decide (s.now + d ≤ st + c.b0)) &&
      (i.abandonAt.isSome || decide (s.now + d ≤ st + c.b0 + c.t0))) &&
    (match s.paused with
     | some p =>
       if s.known && !s.killerDone then
         let r := nextRound p s.now              -- the first round at or after now
         if decide (r ∈ i.kstarts) || decide (r ≤ i.since) then decide (s.now + d ≤ r + killerPeriod)
         else decide (s.now + d ≤ r)
       else true
     | none => true) &&
    -- the background `stop_daemon`s of a gone object start in the instant its DELETED event is processed
    (match s.goneAt with
     | some g => !c.stopsGone || (decide (g ∈ i.kstarts) && i.has .deleted) || decide (d = 0)
     | none => true) &&
    -- the killer's exit sweep covers, in the instant it begins, every daemon that was listed before
    (match s.exitAt with
     | some x =>
       if s.exitDue c i x && !s.killerDone then (decide (x ∈ i.kstarts) && i.has .exiting) || decide (d = 0)
       else true
     | none => true)

/-! ### The transition system -/

inductive Label where
  | tick (d : Nat)               -- time passes
  | cycle (inp : CycIn)          -- one processing cycle of the object
  | exit                         -- the instance ends (returns / raises / is cancelled): `_runner`'s finally
  | kBegin (r : Reason)          -- `stop_daemon(reason)` starts for the instance: a round of the pausing loop, the exit
                                 -- sweep, or (reason deleted) `stop_daemons_of_gone_object`
  | kSignal (start : Tick)       -- … its DAEMON_SIGNALLED stage
  | kCancel (start : Tick)       -- … its DAEMON_CANCELLED stage (after awaiting the backoff)
  | kAbandon (start : Tick)      -- … its DAEMON_ABANDONED stage (after awaiting the timeout)
  | pause                        -- `operator_paused` turns on (peering): the killer's pausing loop starts its rounds
  | resume                       -- `operator_paused` turns off
  | exitBegin                    -- the killer's `finally:` begins: `memories.mark_operator_exiting()`, then the sweep
  | kFinal                       -- the killer's exit sweep (`finally:`) is over: no `stop_daemon` is started any more
  | failForGood                  -- `_timer`: the series has failed for good (`state.done and state.counts.failure`):
                                 -- `memory.forever_stopped.add(handler.id)` while the task keeps running (since a6c10de)
  deriving DecidableEq, Repr

def step (c : Cfg) (s : St) : Label → Option St
  | .tick d => if tickOk c s d then some { s with now := s.now + d } else none
  | .pause => if s.paused.isNone && !s.killerDone then some { s with paused := some s.now } else none
  | .resume => if s.paused.isSome then some { s with paused := none } else none
  | .exitBegin => if s.exitAt.isNone && !s.killerDone then some { s with exitAt := some s.now } else none
  | .kFinal => if s.exitAt.isSome && s.sweptForExit c then some { s with killerDone := true } else none
  | .failForGood => if s.run.isSome then some { s with forever := true } else none
  | .cycle inp => if s.known then some (cycle c inp s).1 else none   -- no event follows a uid's DELETED event
  | .exit =>
    match s.run with
    | some i => some (endInst s i)
    | none => none
  | .kBegin r =>
    match s.run with
    | some i =>
      if s.mayBegin c r then
        some { s with run := some { i.set r s.now with kstarts := s.now :: i.kstarts } }
      else none
    | none => none
  | .kSignal st =>
    match s.run with
    | some i =>
      if st ∈ i.kstarts ∧ c.backoff.isSome then some { s with run := some (i.set .signalled s.now) } else none
    | none => none
  | .kCancel st =>
    match s.run with
    | some i =>
      if st ∈ i.kstarts ∧ c.timeout.isSome ∧ st + c.b0 ≤ s.now then
        some { s with run := some { i.set .cancelled s.now with cancelAt := some (i.cancelAt.getD s.now) } }
      else none
    | none => none
  | .kAbandon st =>
    match s.run with
    | some i =>
      if st ∈ i.kstarts ∧ st + c.b0 + c.t0 ≤ s.now then
        some { s with run := some { i.set .abandoned s.now with abandonAt := some (i.abandonAt.getD s.now) } }
      else none
    | none => none

def runs (c : Cfg) : St → List Label → Option St
  | s, [] => some s
  | s, l :: ls => match step c s l with
    | some s' => runs c s' ls
    | none => none

/-- Reachable from an initial state by any list of labels. -/
def Reach (c : Cfg) (s : St) : Prop := ∃ t0 ls, runs c (St.init t0) ls = some s

/-- The phases of `stop_daemon` executed in order: a phase runs when the task is not done at its
    check (`done k`) and its needed option is set; then its wait moves the clock. -/
def runPhases (c : Cfg) (done : Nat → Bool) : List KPhase → Nat → Tick → List (Tick × Reason)
  | [], _, _ => []
  | p :: ps, k, t =>
    if !done k && (!p.needsBackoff || c.backoff.isSome) && (!p.needsTimeout || c.timeout.isSome) then
      (t, p.set) :: runPhases c done ps (k + 1)
        (t + match p.wait with | .backoff => c.b0 | .timeout => c.t0 | .nothing => 0)
    else runPhases c done ps (k + 1) t

/-- What the linear `stop_daemon` does when started at `start`, as a function of what it observes of
    the task (`done k` = `daemon.task.done()` at the check of its k-th phase): the reasons it sets,
    with times (the instant-exit wait takes no time, see the assumptions). -/
def killerPlan (c : Cfg) (r : Reason) (start : Tick) (done : Nat → Bool) : List (Tick × Reason) :=
  (start, r) :: runPhases c done killerPhases 0 start

/-! ### The daemon killer's sweep over the daemons -/

inductive IterRes where
  | finished | raised
  deriving DecidableEq, Repr

/-- `for daemon in list(memory.running_daemons.values()): await scheduler.spawn(...)` (since /repo
    06bf1c1): the list is built before the first await. `sizes` = the dict's size at each successive
    iteration step, chosen by the environment (between two steps other tasks run and stopped daemons
    erase their own entries); a list iterator does not look at it. Returns the daemons visited. -/
def iterSnapshot {α : Type} : List α → List Nat → List α → IterRes × List α
  | [], _, acc => (.finished, acc.reverse)
  | x :: xs, [], acc => iterSnapshot xs [] (x :: acc)
  | x :: xs, _ :: szs, acc => iterSnapshot xs szs (x :: acc)

/-- HISTORICAL (the code before 06bf1c1, finding F11): iterating the live dict view. CPython's
    dict-view iterator is created when the dict has `size0` entries; every `next()` first compares the
    current size with `size0` and raises RuntimeError when they differ. -/
def iterLive (size0 : Nat) : Nat → List Nat → IterRes
  | _, [] => .finished
  | pos, sz :: rest =>
    if sz ≠ size0 then .raised
    else if size0 ≤ pos then .finished
    else iterLive size0 (pos + 1) rest

/-! ### Micro-steps of `_timer`'s control flow -/

structure TCfg where
  initialDelay : Option Tick
  idle : Option Tick
  interval : Option Tick
  sharp : Bool
  guarded : Bool        -- the after-run idle loop also tests `not stopper.is_set()`: true for the current tree
                        -- (since /repo 6ccf081); false only describes the code before that repair
  yielding : Bool       -- every iteration of the main loop starts with `await asyncio.sleep(0)`: true for the
                        -- current tree (since /repo b04c26c); false only describes the code before that repair
  deriving DecidableEq, Repr

/-- The variant of the tree under test: the loop is `while memory.idle_reset_time <= started and not
    stopper.is_set()`. Tied to the AST on every run (Tie/C09.lean: `timer_loop_guarded`). -/
def treeGuarded : Bool := true

/-- The variant of the tree under test: the retry loops of `_timer` and `_daemon` yield to the event loop on
    every iteration. Tied to the AST on every run (Tie/C09.lean: `loops_yield_each_iteration`). -/
def treeYielding : Bool := true

/-- Everything another task could change; frozen while `_timer` runs without suspending. -/
structure TEnv where
  now : Tick
  stop : Bool           -- stopper.is_set()  (= the wake-up event of every sleep is set)
  idleReset : Tick      -- memory.idle_reset_time
  deriving DecidableEq, Repr

inductive PC where
  | init        -- before the initial delay
  | head        -- `while not stopper.is_set()`
  | idleHead    -- `while not stopper.is_set() and clock() - idle_reset_time < idle`
  | idleDone    -- `if stopper.is_set(): continue`
  | invoke      -- started = clock(); execute_handlers_once; patch_and_check
  | post        -- the if/elif chain after the run
  | idleLoop    -- `while memory.idle_reset_time <= started [and not stopper.is_set()]`
  deriving DecidableEq, Repr

structure TLoc where
  pc : PC
  started : Tick
  done : Bool           -- state.done
  failed : Bool         -- state.counts.failure > 0: the series has failed for good (no reset, since af4d77a)
  errDelay : Tick       -- min(state.delays) when not done (never negative in the code: `max(0, …)`)
  runs : Nat            -- how many times the handler was invoked so far (indexes the outcome stream)
  deriving DecidableEq, Repr

/-- What one handler run reports (adversarial: any value, a different one at every run).
    `yields` — the run gave control to the event loop at least once: true for sync handlers (they
    run in the executor), for async handlers that await something, and whenever a non-empty patch
    is sent. NOTHING in `execute_handlers_once` / `invocation.invoke` / `patch_and_check` (empty
    patch) suspends by itself: an `async def` handler that returns or raises without awaiting
    (e.g. `raise kopf.TemporaryError(delay=0)`) makes the whole run a non-suspending step. -/
structure Outcome where
  done : Bool
  failed : Bool
  errDelay : Tick
  yields : Bool
  deriving DecidableEq, Repr

/-- HISTORICAL (the code before /repo b04c26c, `yielding = false`): the guard outside which the retry loop
    never suspended — a run that does not yield and is to be retried must be retried after a positive
    delay. The current tree needs no such guard (`progress`). -/
def Outcome.good (o : Outcome) : Bool := o.yields || o.done || decide (0 < o.errDelay)

inductive TRes where
  | cont (l : TLoc)     -- went on without giving control to the event loop
  | susp (l : TLoc)     -- suspended (a real sleep / an awaited call); resumes at `l`
  | exit (own : Bool)   -- `_timer` returned (`own` = by `break`, with the stopper unset)
  deriving DecidableEq, Repr

/-- `aiotime.sleep(delay, wakeup=stopper.async_event)`: returns at once when `delay <= 0`, and
    (`asyncio.wait_for(event.wait(), …)` on CPython 3.12) also when the event is already set. -/
def sleepSuspends (delay : Tick) (e : TEnv) : Bool := decide (0 < delay) && !e.stop

def sleepTo (delay : Tick) (e : TEnv) (l : TLoc) : TRes :=
  if sleepSuspends delay e then .susp l else .cont l

def tstep (c : TCfg) (e : TEnv) (os : Nat → Outcome) (l : TLoc) : TRes :=
  match l.pc with
  | .init =>
    match c.initialDelay with
    | some d => sleepTo d e { l with pc := .head }
    | none => .cont { l with pc := .head }
  | .head =>
    if e.stop then .exit false
    else
      -- `if state.done and not state.counts.failure: state = from_scratch()`: a failed series stays done
      let l := if l.done && !l.failed then { l with done := false } else l
      let l := { l with pc := (match c.idle with | some _ => PC.idleHead | none => PC.invoke) }
      -- `await asyncio.sleep(0)` at the top of the loop body (since b04c26c): a suspension point
      if c.yielding then .susp l else .cont l
  | .idleHead =>
    match c.idle with
    | some idle =>
      if !e.stop && decide (e.now - e.idleReset < idle) then
        sleepTo (e.idleReset + idle - e.now) e l
      else .cont { l with pc := .idleDone }
    | none => .cont { l with pc := .invoke }
  | .idleDone => if e.stop then .cont { l with pc := .head } else .cont { l with pc := .invoke }
  | .invoke =>
    if l.done && l.failed then
      -- a series that has failed for good (after at least one attempt; a failed state without any attempt is
      -- made fresh again after the idle wait since 9118944 and is represented here as not done): nothing is
      -- left to invoke, nothing to patch: never suspends; the state stays done
      .cont { l with pc := .post, started := e.now }
    else
      -- the handler call and the patch round-trip: suspends or not, as the run reports
      let o := os l.runs
      let l' := { l with pc := .post, started := e.now, done := o.done, failed := o.failed,
                         errDelay := o.errDelay, runs := l.runs + 1 }
      if o.yields then .susp l' else .cont l'
  | .post =>
    if !l.done then sleepTo l.errDelay e { l with pc := .head }
    else match c.interval with
      | some v =>
        if c.sharp then sleepTo (v - ((e.now - l.started) % v)) e { l with pc := .head }
        else sleepTo v e { l with pc := .head }
      | none =>
        match c.idle with
        | some _ => .cont { l with pc := .idleLoop }
        | none => .exit true
  | .idleLoop =>
    match c.idle with
    | some idle =>
      if decide (e.idleReset ≤ l.started) && (!c.guarded || !e.stop) then sleepTo idle e l
      else .cont { l with pc := .head }
    | none => .cont { l with pc := .head }

/-- Within `k` micro-steps (the environment frozen: nothing else runs meanwhile) the coroutine
    suspends or returns. -/
def settles (c : TCfg) (e : TEnv) (outcome : Nat → Outcome) : Nat → TLoc → Bool
  | 0, _ => false
  | k + 1, l =>
    match tstep c e outcome l with
    | .susp _ => true
    | .exit _ => true
    | .cont l' => settles c e outcome k l'

/-- HISTORICAL (the code before /repo 6ccf081, `guarded = false`): the states from which the
    unguarded idle-only loop is entered and never left. Empty for the current tree. -/
def spinning (c : TCfg) (e : TEnv) (l : TLoc) : Bool :=
  !c.guarded && c.idle.isSome && e.stop && decide (e.idleReset ≤ l.started) &&
    (l.pc == .idleLoop || (l.pc == .post && l.done && c.interval.isNone))

/-! ### Micro-steps of `_daemon`'s control flow -/

inductive DPC where
  | init        -- before the initial delay
  | head        -- `while not stopper.is_set() and not state.done`
  | invoke      -- execute_handlers_once; patch_and_check
  | post        -- `if state.delay: await aiotime.sleep(state.delay, wakeup=stopper)`
  deriving DecidableEq, Repr

structure DLoc where
  pc : DPC
  done : Bool
  delay : Tick          -- `state.delay` (0 also stands for None: both are falsy)
  runs : Nat
  deriving DecidableEq, Repr

inductive DRes where
  | cont (l : DLoc)
  | susp (l : DLoc)
  | exit
  deriving DecidableEq, Repr

def dsleepTo (delay : Tick) (e : TEnv) (l : DLoc) : DRes :=
  if sleepSuspends delay e then .susp l else .cont l

def dstep (initialDelay : Option Tick) (yielding : Bool) (e : TEnv) (os : Nat → Outcome) (l : DLoc) : DRes :=
  match l.pc with
  | .init =>
    match initialDelay with
    | some d => dsleepTo d e { l with pc := .head }
    | none => .cont { l with pc := .head }
  | .head =>
    if e.stop || l.done then .exit
    else if yielding then .susp { l with pc := .invoke }     -- `await asyncio.sleep(0)` (since b04c26c)
    else .cont { l with pc := .invoke }
  | .invoke =>
    let o := os l.runs
    let l' := { l with pc := .post, done := o.done, delay := o.errDelay, runs := l.runs + 1 }
    if o.yields then .susp l' else .cont l'
  | .post =>
    if l.delay ≠ 0 then dsleepTo l.delay e { l with pc := .head }     -- `if state.delay:`
    else .cont { l with pc := .head }

def dsettles (initialDelay : Option Tick) (yielding : Bool) (e : TEnv) (os : Nat → Outcome) : Nat → DLoc → Bool
  | 0, _ => false
  | k + 1, l =>
    match dstep initialDelay yielding e os l with
    | .susp _ => true
    | .exit => true
    | .cont l' => dsettles initialDelay yielding e os k l'

/-! ### Obeying the stop flag: the wrapper returns at once, without calling the function again -/

/-- Follow `_timer` from `l` for at most `k` micro-steps while nothing else runs: `some n` = it has RETURNED without
    ever suspending, having invoked the handler `n` times in all; `none` = it suspended, or is still inside. -/
def returnsAtOnce (c : TCfg) (e : TEnv) (os : Nat → Outcome) : Nat → TLoc → Option Nat
  | 0, _ => none
  | k + 1, l =>
    match tstep c e os l with
    | .exit _ => some l.runs
    | .cont l' => returnsAtOnce c e os k l'
    | .susp _ => none

/-- the same for `_daemon` -/
def dreturnsAtOnce (initialDelay : Option Tick) (yielding : Bool) (e : TEnv) (os : Nat → Outcome) : Nat → DLoc → Option Nat
  | 0, _ => none
  | k + 1, l =>
    match dstep initialDelay yielding e os l with
    | .exit => some l.runs
    | .cont l' => dreturnsAtOnce initialDelay yielding e os k l'
    | .susp _ => none

/-! ### Statement vocabulary of the property theorems -/

/-- The memory was forgotten (`known = false`: a DELETED event was processed) while an instance that
    was never asked to stop is running and no daemon-killer coroutine works on it (finding F10). -/
def Orphan (s : St) : Prop := s.known = false ∧ ∀ i, s.run = some i → i.reasons = [] ∧ i.kstarts = []


end Kopf.C09
