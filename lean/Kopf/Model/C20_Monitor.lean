/-
  C20 — the orchestrator's BOOKKEEPING of which ensemble tasks carry its done-callback (`exception_handler`).

  `Kopf.Model.C20_Lifecycle` has ONE edge "failed ensemble task → orchestrator" for every `sub i` (variant `fixed`): it takes for
  granted that EVERY task of the ensemble — of whatever generation under its key — carries the callback. This file models the
  mechanism that is to establish it (kopf/_core/reactor/orchestration.py, `orchestrator()`'s adjusting loop):

      await adjust_tasks(...)              # terminate_redundancies (keys no longer served, keys with an exited task: `del_keys`),
                                           # spawn_missing_peerings / spawn_missing_watchers (a NEW task object under a missing key)
      current_tasks = set(ensemble.get_tasks(ensemble.get_keys()))
      for task in current_tasks - monitored_tasks:
          task.add_done_callback(exception_handler)
      monitored_tasks = current_tasks

  The keys of the ensemble are (resource, namespace) pairs: here `Nat`s. A task object is a fresh `Nat` (`next`). One adjustment is
  `(drop, add)`: `drop` = the keys `terminate_redundancies` finds redundant (not served any more, or one of whose tasks has exited
  on its own — HTTP 404), `add` = the keys served after it (a task is spawned for those of them that have none).
  Variant `byTask := true` is the code: the bookkeeping is a set of TASK OBJECTS, rebuilt at every adjustment.
  Variant `byTask := false` keeps KEYS and never forgets them (the seeded change C20g; a set of task objects that is only ever
  added to would be harmless, a set of keys is not: a key is served again by a NEW task).
-/
namespace Kopf.C20.Monitor

abbrev Key := Nat
abbrev Tid := Nat

structure St where
  tasks : List (Key × Tid)        -- the ensemble: the task object under every key that has one
  next : Tid                      -- the next fresh task object
  monTasks : List Tid             -- `monitored_tasks` (variant byTask)
  monKeys : List Key              -- the keys "already watched for failures" (variant by key)
  cbs : List Tid                  -- GHOST: the task objects that carry `exception_handler` as a done-callback
deriving Repr, DecidableEq

def init : St := { tasks := [], next := 0, monTasks := [], monKeys := [], cbs := [] }

def hasKey (ts : List (Key × Tid)) (k : Key) : Bool := ts.any (fun p => p.1 == k)

/-- `terminate_redundancies` + `Ensemble.del_keys` -/
def terminate (ts : List (Key × Tid)) (drop : List Key) : List (Key × Tid) :=
  ts.filter (fun p => !drop.contains p.1)

/-- `spawn_missing_*`: a new task object under every key of `add` that has none -/
def spawn : List (Key × Tid) → Tid → List Key → List (Key × Tid) × Tid
  | ts, n, [] => (ts, n)
  | ts, n, k :: ks => if hasKey ts k then spawn ts n ks else spawn (ts ++ [(k, n)]) (n + 1) ks

/-- one iteration of the orchestrator's loop -/
def adjust (byTask : Bool) (s : St) (drop add : List Key) : St :=
  let (ts, n) := spawn (terminate s.tasks drop) s.next add
  let cur := ts.map (·.2)
  if byTask then
    { s with tasks := ts, next := n, cbs := s.cbs ++ cur.filter (fun t => !s.monTasks.contains t), monTasks := cur }
  else
    let newKeys := (ts.map (·.1)).filter (fun k => !s.monKeys.contains k)
    { s with tasks := ts, next := n, monKeys := s.monKeys ++ newKeys,
             cbs := s.cbs ++ (ts.filter (fun p => newKeys.contains p.1)).map (·.2) }

def run (byTask : Bool) : St → List (List Key × List Key) → St
  | s, [] => s
  | s, (d, a) :: rest => run byTask (adjust byTask s d a) rest

/-- does the failure of the task object under key `k` reach the orchestrator? (it carries the callback) -/
def escalates (s : St) (k : Key) : Bool :=
  s.tasks.all (fun p => p.1 != k || s.cbs.contains p.2)

/-- the bookkeeping of the current tree (tie T: `Kopf.C20.Tie.monitors_by_task_eq`) -/
def headMonitorsByTask : Bool := true

end Kopf.C20.Monitor
