/-
  C19 model, part 3 — `orchestration.orchestrator` and the observers around the condition variable
  `insights.revised` (an `asyncio.Condition`), as a labelled transition system.

      async with insights.revised:                 # the orchestrator holds the lock for the whole loop …
          while True:
              await insights.revised.wait()        # … except inside wait(): released, re-acquired when notified
              await adjust_tasks(...)              # a pass: suspends (aiotasks.stop of redundant watchers, toggles)

      # observers (namespace_observer / resource_observer and their event processors):
      async with insights.revised:                 # must acquire the same lock
          revise_namespaces(...) / revise_resources(...)
          insights.revised.notify_all()

  Labels are the atomic segments between suspension points:
    revise ins'  an observer got the lock, replaced the insights, notified, released — enabled only while
                 the lock is free: the orchestrator is inside `wait()` (`waiting`, or `notified` = woken but
                 not yet running). A waiting orchestrator is woken; a notified one stays notified.
    acquire      `wait()` returns with the lock; `adjust_tasks` starts: `terminate_redundancies` computes the
                 redundant keys from `insights.watched_resources | …, insights.namespaces | {None}` and the
                 tasks' `done()` — a snapshot — and suspends in `aiotasks.stop()`. (The keys are deleted after
                 the stop; nobody reads the ensemble in between, so the model drops them here.)
    termDone     the redundant tasks have stopped (this needs their cooperation: a handler that never
                 returns keeps the pass, and with it the lock, forever)
    spawnAll     `spawn_missing_watchers(watched_resources=insights.watched_resources, …)` reads the LIVE
                 insights (`itertools.product` materialises them now), spawns, the pass ends, `wait()` again
    die k        the watcher under key `k` exits on its own (HTTP 404 out of its stream while its CRD is away):
                 `exception_handler` lets `APINotFoundError` pass, takes no lock, NOTIFIES NOBODY. Any time.
                 (A task ending with any other error cancels the orchestrator and stops the operator: C20.)
  `lockedPass = true` is the code as it is. `lockedPass = false` is the variant that leaves the
  `async with` before the pass (`while True: async with revised: await revised.wait()` and the pass outside):
  then `revise` is enabled during the pass too, and wakes nobody.
  Assumption (start-up): the orchestrator reaches its first `wait()` before the first revision — the
  observers need API round-trips first; all tasks start on the same `started_flag`.
  Core Lean only.
-/
import Kopf.Model.C19_Ensemble
namespace Kopf.C19.Orch
open Kopf.C19.Ens

inductive Pc where
  | waiting      -- in `wait()`, not notified: the lock is free
  | notified     -- woken, about to re-acquire the lock
  | stopping     -- in `terminate_redundancies`, suspended in `aiotasks.stop()`
  | spawning     -- between `terminate_redundancies` and `spawn_missing_watchers`
  deriving DecidableEq, Repr

inductive Label where
  | revise (ins : Insights)
  | acquire
  | termDone
  | spawnAll
  | die (k : Key)
  deriving Repr

structure State where
  lockedPass : Bool
  ins : Insights
  ens : Ensemble
  pc : Pc
  revs : List Insights      -- ghost: every revision so far, newest first
  hist : List Ev            -- ghost: completed passes and deaths, in the order they took effect
  pend : List Key           -- ghost: deaths during the running pass (they take effect after it)
  diedSince : List Key      -- ghost: deaths since the last completed pass looked at the tasks
  deriving Repr

def init (lockedPass : Bool) : State :=
  { lockedPass := lockedPass, ins := ⟨[], []⟩, ens := Ens.empty, pc := .waiting, revs := [], hist := [],
    pend := [], diedSince := [] }

def lockFree (s : State) : Bool :=
  match s.pc with
  | .waiting | .notified => true
  | _ => !s.lockedPass

def killMany (e : Ensemble) (ks : List Key) : Ensemble := ks.foldl kill e

def step (s : State) : Label → Option State
  | .revise ins' =>
      if lockFree s then
        some { s with ins := ins', revs := ins' :: s.revs,
                      pc := match s.pc with | .waiting => .notified | pc => pc }
      else none
  | .acquire =>
      match s.pc with
      | .notified => some { s with ens := terminate s.ens s.ins, pc := .stopping }
      | _ => none
  | .termDone =>
      match s.pc with
      | .stopping => some { s with pc := .spawning }
      | _ => none
  | .spawnAll =>
      match s.pc with
      | .spawning => some { s with ens := spawn s.ens (pairs s.ins), pc := .waiting,
                                   hist := s.hist ++ [.pass s.ins] ++ s.pend.map Ev.die,
                                   diedSince := s.pend, pend := [] }
      | _ => none
  | .die k =>
      if s.ens.keys.contains k then
        match s.pc with
        | .waiting | .notified =>
            some { s with ens := kill s.ens k, hist := s.hist ++ [.die k], diedSince := s.diedSince ++ [k] }
        | _ => some { s with ens := kill s.ens k, pend := s.pend ++ [k] }
      else none

def run (s : State) : List Label → Option State
  | [] => some s
  | l :: ls => match step s l with
      | some s' => run s' ls
      | none => none

/-- Nothing of the orchestrator is pending: it sits in `wait()` and nobody has notified it. -/
def Quiescent (s : State) : Prop := s.pc = .waiting

/-- the segments of the orchestrator's own coroutine -/
def Label.isOrch : Label → Bool
  | .acquire | .termDone | .spawnAll => true
  | _ => false

end Kopf.C19.Orch
