/-
  C19 model, part 3 — `orchestration.orchestrator` and the observers around the condition variable
  `insights.revised` (an `asyncio.Condition`), as a labelled transition system.

      async with insights.revised:                 # the orchestrator holds the lock for the whole loop …
          while True:
              await insights.revised.wait()        # … except inside wait(): released, re-acquired when notified
              await adjust_tasks(...)              # a pass: suspends (aiotasks.stop of redundant watchers, toggles)

      # observers (namespace_observer / resource_observer and their event processors):
      async with insights.revised:                 # must acquire the same lock
          revise_namespaces(...) / revise_resources(...)
          insights.revised.notify_all()

  Labels are the atomic segments between suspension points:
    revise ins'  an observer got the lock, replaced the insights, notified, released — enabled only while
                 the lock is free: the orchestrator is inside `wait()` (`waiting`, or `notified` = woken but
                 not yet running). A waiting orchestrator is woken; a notified one stays notified.
    acquire      `wait()` returns with the lock; `adjust_tasks` starts: `terminate_redundancies` is called
                 with `insights.watched_resources | …, insights.namespaces | {None}` — new sets, i.e. a
                 snapshot — and suspends in `aiotasks.stop()`
    termDone     the redundant tasks have stopped: `ensemble.del_keys(redundant_keys)`
    spawnAll     `spawn_missing_watchers(watched_resources=insights.watched_resources, …)` reads the LIVE
                 insights (`itertools.product` materialises them now), spawns, the pass ends, `wait()` again
  `lockedPass = true` is the code as it is. `lockedPass = false` is the variant that leaves the
  `async with` before the pass (`while True: async with revised: await revised.wait()` and the pass outside):
  then `revise` is enabled during the pass too, and wakes nobody.
  Assumption (start-up): the orchestrator reaches its first `wait()` before the first revision — the
  observers need API round-trips first; all tasks start on the same `started_flag`.
  Core Lean only.
-/
import Kopf.Model.C19_Ensemble
namespace Kopf.C19.Orch
open Kopf.C19.Ens

inductive Pc where
  | waiting                       -- in `wait()`, not notified: the lock is free
  | notified                      -- woken, about to re-acquire the lock
  | stopping (snap : Insights)    -- in `terminate_redundancies`, suspended in `aiotasks.stop()`
  | spawning                      -- between `terminate_redundancies` and `spawn_missing_watchers`
  deriving DecidableEq, Repr

inductive Label where
  | revise (ins : Insights)
  | acquire
  | termDone
  | spawnAll
  deriving Repr

structure State where
  lockedPass : Bool
  ins : Insights
  ens : Ensemble
  pc : Pc
  revs : List Insights      -- ghost: every revision so far, newest first
  hist : List Insights      -- ghost: the insights each completed pass ended with, oldest first
  deriving Repr

def init (lockedPass : Bool) : State :=
  { lockedPass := lockedPass, ins := ⟨[], []⟩, ens := Ens.empty, pc := .waiting, revs := [], hist := [] }

def lockFree (s : State) : Bool :=
  match s.pc with
  | .waiting | .notified => true
  | _ => !s.lockedPass

def step (s : State) : Label → Option State
  | .revise ins' =>
      if lockFree s then
        some { s with ins := ins', revs := ins' :: s.revs,
                      pc := match s.pc with | .waiting => .notified | pc => pc }
      else none
  | .acquire =>
      match s.pc with
      | .notified => some { s with pc := .stopping s.ins }
      | _ => none
  | .termDone =>
      match s.pc with
      | .stopping snap => some { s with ens := terminate s.ens snap, pc := .spawning }
      | _ => none
  | .spawnAll =>
      match s.pc with
      | .spawning => some { s with ens := spawn s.ens (pairs s.ins), pc := .waiting, hist := s.hist ++ [s.ins] }
      | _ => none

def run (s : State) : List Label → Option State
  | [] => some s
  | l :: ls => match step s l with
      | some s' => run s' ls
      | none => none

/-- Nothing of the orchestrator is pending: it sits in `wait()` and nobody has notified it. -/
def Quiescent (s : State) : Prop := s.pc = .waiting

end Kopf.C19.Orch
