/-
  C04 — ONE storage object serving MANY objects.

  In an operator the diff-base storage is one long-lived instance (`settings.persistence.diffbase_storage`):
  every object of every served kind goes through its `build`. The mechanism that could carry anything from one
  object to the next is `StorageKeyMarkingConvention._detect_marked_prefixes` (a method of that instance). In the
  code it computes a LOCAL set from the keys of the one object at hand; this file models the method as a method —
  memory before, the annotation names of one object ↦ memory after, the prefixes — so that the contract
  "the answer for an object is a function of that object alone" can be stated, proved for the code's policy
  (`statelessDetect`) and refuted for a remembering one (`rememberingDetect`: seeded change C04g, "a prefix once
  detected as a Kopf operator's is remembered by the storage").
-/
import Kopf.Model.C04_Essence
import Kopf.Model.C04_Diff
namespace Kopf.C04
open Kopf Kopf.J

/-- what the storage object remembers between two calls (prefixes). -/
abbrev Memo := List (List Char)

/-- `_detect_marked_prefixes` as a method of a long-lived object. -/
abbrev DetectPolicy := Memo → List String → Memo × List (List Char)

/-- the code: `prefixes: set[str] = set()` is local to the call; nothing is remembered. -/
def statelessDetect : DetectPolicy := fun m ks => (m, markedPrefixes ks)

/-- the variant that remembers every prefix it has ever detected and answers with all of them. -/
def rememberingDetect : DetectPolicy := fun m ks => (m ++ markedPrefixes ks, m ++ markedPrefixes ks)

/-- the memory after the objects of `history` (their annotation names, in the order served) went through. -/
def serveAll (pol : DetectPolicy) : Memo → List (List String) → Memo
  | m, [] => m
  | m, ks :: rest => serveAll pol (pol m ks).1 rest

/-- the prefixes the storage takes for other Kopf operators' when it looks at an object with annotation names `ks`
    after having served `history`. -/
def servedPrefixes (pol : DetectPolicy) (history : List (List String)) (ks : List String) : List (List Char) :=
  (pol (serveAll pol [] history) ks).2

/-- the annotation names that stay in the essence (the `del annotations[annotation]` loop of `build`). -/
def servedKept (pol : DetectPolicy) (history : List (List String)) (ks : List String) : List String :=
  ks.filter (keepAnnotation (servedPrefixes pol history ks))

/-- `DiffBaseStorage.build` of the base class with the detection of marked prefixes as a parameter
    (`baseBuild` = this with `markedPrefixes`: `baseBuildWith_marked`). -/
def baseBuildWith (detect : List String → List (List Char)) (ignored extra : List (List String)) (body : J) : Except Err J :=
  match body with
  | .obj kvs => do
      let e0 := J.obj (erase "status" (erase "metadata" (erase "kind" (erase "apiVersion" kvs))))
      let e1 ← cherrypick body e0 [["metadata", "labels"], ["metadata", "annotations"]]
      if !metaOK e1 then throw .unmodelled
      let prefixes := match metaGet e1 "annotations" with
        | some (.obj anns) => detect (keys anns)
        | _ => []
      let e2 := filterAnnotations (keepAnnotation prefixes) e1
      let e3 ← cherrypickSkip body e2 extra
      if !metaOK e3 then throw .unmodelled
      let e4 := removeEmptyStanzas e3
      ignoreFields e4 ignored
  | _ => .error .unmodelled

/-- the annotation names of a body as `build` sees them. -/
def annKeys : J → List String
  | .obj kvs =>
      match lookup "metadata" kvs with
      | some (.obj m) => match lookup "annotations" m with
        | some (.obj anns) => keys anns
        | _ => []
      | _ => []
  | _ => []

/-- `build` of a storage object that has served the bodies of `history` before. -/
def servedBuild (pol : DetectPolicy) (history : List J) (ignored extra : List (List String)) (body : J) : Except Err J :=
  baseBuildWith (servedPrefixes pol (history.map annKeys)) ignored extra body

/-- number of diff items between what the served storage builds for two bodies. -/
def servedDiffLen (pol : DetectPolicy) (history : List J) (a b : J) : Option Nat :=
  match servedBuild pol history [] [] a, servedBuild pol history [] [] b with
  | .ok x, .ok y => some (diff x y []).length
  | _, _ => none

end Kopf.C04
