/-
C06 — the daemons of one object as the code keeps them: `memory.running_daemons`, a dict keyed by the HANDLER ID
(kopf/_core/engines/daemons.py), next to the tasks that are really alive.

* `spawn_daemons`: for a matching handler, `if handler.id in daemons:` nothing is started (the previous invocation
  is still recorded: come back later) `else:` a new invocation is started and recorded under the id.
* `stop_daemons` / `match_daemons` / `stop_daemon`: work on the RECORDED invocation only: set its stopper, later
  (timeouts over) flag it DAEMON_ABANDONED; an abandoned invocation yields no delay any more.
* `_runner` epilogue, when an invocation's task ends: `del daemons[handler.id]` — BY ID, whatever is recorded there.

So the by-id deletion is safe only because nothing is ever recorded over a live invocation. `spawnRule reuse`:
`reuse = false` is the code; `reuse = true` is the variant that starts a new invocation over a recorded one which
is flagged abandoned (seeded change C06h). 1 instance = 1 serial number; the flags live with the instance.
-/
namespace Kopf.C06

/-- One invocation of a daemon/timer handler for one object. -/
structure Inst where
  n : Nat                     -- serial number of the invocation
  told : Bool := false        -- its stopper is set (it was told to stop, for whatever reason)
  abandoned : Bool := false   -- DAEMON_ABANDONED is in its stopper (given up on after its timeouts)
  deriving DecidableEq, Repr

/-- The record under the handler's id + the invocations whose task has not ended + the next serial. -/
structure Slots where
  slot : Option Nat := none
  live : List Inst := []
  next : Nat := 0
  deriving DecidableEq, Repr

inductive SLabel where
  | spawn            -- a cycle on an unmarked object that the handler matches: `spawn_daemons`
  | tell             -- `stop_daemons`/`match_daemons`/`stop_daemon`, first stage: the recorded invocation is told to stop
  | abandon          -- ... last stage: timeouts over, the recorded invocation is given up on
  | exit (n : Nat)   -- the task of invocation `n` ends: the `_runner` epilogue
  deriving DecidableEq, Repr

def Slots.recorded (s : Slots) : Option Inst :=
  match s.slot with
  | none => none
  | some k => s.live.find? (fun i => i.n == k)

def Slots.update (s : Slots) (k : Nat) (f : Inst → Inst) : Slots :=
  { s with live := s.live.map fun i => if i.n == k then f i else i }

/-- May `spawn_daemons` start a new invocation? The code: only if nothing is recorded under the id. -/
def spawnRule (reuse : Bool) (s : Slots) : Bool :=
  match s.slot with
  | none => true
  | some _ => reuse && (match s.recorded with | some i => i.abandoned | none => false)

def sstep (reuse : Bool) (s : Slots) : SLabel → Option Slots
  | .spawn =>
      if spawnRule reuse s then
        some { slot := some s.next, live := s.live ++ [{ n := s.next }], next := s.next + 1 }
      else some s           -- still recorded: a delay, nothing started
  | .tell =>
      match s.slot with
      | none => some s
      | some k => some (s.update k fun i => { i with told := true })
  | .abandon =>
      match s.recorded with
      | some i => if i.told then some (s.update i.n fun j => { j with abandoned := true }) else none
      | none => none
  | .exit n =>
      if s.live.any (fun i => i.n == n) then
        some { s with live := s.live.filter (fun i => !(i.n == n)), slot := none }   -- `del daemons[handler.id]`: by id
      else none

def srun (reuse : Bool) : Slots → List SLabel → Option Slots
  | s, [] => some s
  | s, l :: ls => (sstep reuse s l).bind fun s' => srun reuse s' ls

def SReach (reuse : Bool) (s : Slots) : Prop := ∃ ls, srun reuse {} ls = some s

/-- `stop_daemons` on the deletion reports no delay (and so the cycle may release the finalizer, `spawnDelays`):
nothing is recorded, or the recorded invocation is flagged abandoned. -/
def Slots.noDelay (s : Slots) : Bool :=
  match s.slot with
  | none => true
  | some _ => match s.recorded with | some i => i.abandoned | none => true

end Kopf.C06
