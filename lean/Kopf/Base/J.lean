/-
  Kopf.Base.J — JSON values as kopf sees them after `json.loads`, core Lean only.

  * numbers are integers (generators never emit floats: stated modelling limit);
  * objects are association lists in document order; `J.WF` (keys unique, recursively)
    is a separate predicate, never a subtype;
  * `J.pyEq` mirrors Python's `==` on parsed JSON (`True == 1`, `False == 0`, dicts compare
    as unordered maps), next to structural equality.
-/
namespace Kopf

inductive J where
  | null
  | bool (b : Bool)
  | num (n : Int)
  | str (s : String)
  | arr (xs : List J)
  | obj (kvs : List (String × J))
  deriving Repr, Inhabited

namespace J

/-- association-list lookup, first match wins (what a parsed dict does with unique keys). -/
def lookup (k : String) : List (String × J) → Option J
  | [] => none
  | (k', v) :: rest => if k' = k then some v else lookup k rest

@[simp] theorem lookup_nil (k : String) : lookup k [] = none := rfl
theorem lookup_cons (k k' : String) (v : J) (rest : List (String × J)) :
    lookup k ((k', v) :: rest) = if k' = k then some v else lookup k rest := rfl

def erase (k : String) : List (String × J) → List (String × J)
  | [] => []
  | (k', v) :: rest => if k' = k then erase k rest else (k', v) :: erase k rest

/-- set a key: replace in place if present (Python dict keeps position), else append. -/
def insert (k : String) (v : J) : List (String × J) → List (String × J)
  | [] => [(k, v)]
  | (k', v') :: rest => if k' = k then (k, v) :: rest else (k', v') :: insert k v rest

def keys (kvs : List (String × J)) : List String := kvs.map (·.1)

def isObj : J → Bool
  | obj _ => true
  | _ => false

def isNull : J → Bool
  | null => true
  | _ => false

/-- Python truthiness of a parsed JSON value. -/
def truthy : J → Bool
  | null => false
  | bool b => b
  | num n => n != 0
  | str s => s != ""
  | arr xs => !xs.isEmpty
  | obj kvs => !kvs.isEmpty

mutual
  /-- structural equality (document order of keys matters). -/
  def beq : J → J → Bool
    | null, null => true
    | bool a, bool b => a == b
    | num a, num b => a == b
    | str a, str b => a == b
    | arr a, arr b => beqList a b
    | obj a, obj b => beqKvs a b
    | _, _ => false
  def beqList : List J → List J → Bool
    | [], [] => true
    | x :: xs, y :: ys => beq x y && beqList xs ys
    | _, _ => false
  def beqKvs : List (String × J) → List (String × J) → Bool
    | [], [] => true
    | (k, x) :: xs, (k', y) :: ys => k == k' && beq x y && beqKvs xs ys
    | _, _ => false
end

instance : BEq J := ⟨beq⟩

/-- numeric view of a scalar for Python `==`: `True == 1`, `False == 0`. -/
def numView : J → Option Int
  | bool b => some (if b then 1 else 0)
  | num n => some n
  | _ => none

mutual
  /-- Python `==` on parsed JSON. Dicts: same key set and equal values, order-insensitive.
      For well-formed (unique-key) objects `subKvs a b && subKvs b a` is exactly that. -/
  def pyEq : J → J → Bool
    | null, null => true
    | bool a, bool b => a == b
    | bool a, num b => (if a then 1 else 0) == b
    | num a, bool b => a == (if b then 1 else 0)
    | num a, num b => a == b
    | str a, str b => a == b
    | arr a, arr b => pyEqList a b
    | obj a, obj b => a.length == b.length && pyEqSub a b
    | _, _ => false
  def pyEqList : List J → List J → Bool
    | [], [] => true
    | x :: xs, y :: ys => pyEq x y && pyEqList xs ys
    | _, _ => false
  /-- every binding of `a` has a `pyEq` binding in `b` (structural on the first argument). -/
  def pyEqSub : List (String × J) → List (String × J) → Bool
    | [], _ => true
    | (k, x) :: xs, b =>
        (match lookup k b with
         | some y => pyEq x y
         | none => false) && pyEqSub xs b
end

mutual
  /-- well-formed: object keys unique at every level. -/
  def wf : J → Bool
    | arr xs => wfList xs
    | obj kvs => wfKvs kvs
    | _ => true
  def wfList : List J → Bool
    | [] => true
    | x :: xs => wf x && wfList xs
  def wfKvs : List (String × J) → Bool
    | [] => true
    | (k, x) :: xs => !(xs.any (·.1 == k)) && wf x && wfKvs xs
end

def WF (j : J) : Prop := wf j = true

/-- `dict.get(k)` on a value that may not be a dict (`{}.get` for non-dicts is an error in
    Python; callers in kopf only use it after `.get('metadata', {})` patterns, so the model
    returns `none` for non-objects and the harness never feeds non-dict metadata). -/
def get? (j : J) (k : String) : Option J :=
  match j with
  | obj kvs => lookup k kvs
  | _ => none

/-- `dicts.resolve(d, path, default=None)`: non-mapping intermediate or missing key → none. -/
def resolve? : J → List String → Option J
  | j, [] => some j
  | obj kvs, k :: ks => match lookup k kvs with
      | some v => resolve? v ks
      | none => none
  | _, _ :: _ => none

/-- `resolve(..., default=None)` as a JSON value (None ↦ null). -/
def resolveD (j : J) (p : List String) : J := (resolve? j p).getD null

end J
end Kopf
