/-
  Kopf.Base.Merge — RFC 7386 merge-patch and kopf's dict path helpers (`dicts.ensure/remove`),
  on `J`. Definitions only; lemmas live with the properties that need them.
-/
import Kopf.Base.J
namespace Kopf
namespace J

mutual
  /-- RFC 7386 `MergePatch(target, patch)`. Structural on the patch. -/
  def mergePatch (target : J) : J → J
    | obj pkvs =>
        match target with
        | obj tkvs => obj (mergeKvs tkvs pkvs)
        | _ => obj (mergeKvs [] pkvs)
    | p => p
  /-- fold the patch bindings into the target bindings, left to right. -/
  def mergeKvs (t : List (String × J)) : List (String × J) → List (String × J)
    | [] => t
    | (k, v) :: rest =>
        match v with
        | null => mergeKvs (erase k t) rest
        | _ => mergeKvs (insert k (mergePatch ((lookup k t).getD null) v) t) rest
end

mutual
  /-- remove `null`-valued keys from objects, recursively, not descending into arrays
      (what the API server does with a stored merge-patch result; also the `≈` of C04). -/
  def dropNulls : J → J
    | obj kvs => obj (dropNullsKvs kvs)
    | j => j
  def dropNullsKvs : List (String × J) → List (String × J)
    | [] => []
    | (k, v) :: rest =>
        match v with
        | null => dropNullsKvs rest
        | _ => (k, dropNulls v) :: dropNullsKvs rest
end

inductive DictErr where
  | typeError | keyError | valueError
  deriving DecidableEq, Repr

/-- `dicts.ensure(d, path, value)`: creates missing parents; a non-mapping parent is a TypeError
    (Python: `result[key]` on a scalar/None). Empty path is a ValueError. -/
def ensure : J → List String → J → Except DictErr J
  | _, [], _ => .error .valueError
  | obj kvs, [k], v => .ok (obj (insert k v kvs))
  | obj kvs, k :: k2 :: ks, v =>
      match lookup k kvs with
      | some child => do
          let c' ← ensure child (k2 :: ks) v
          pure (obj (insert k c' kvs))
      | none => do
          let c' ← ensure (obj []) (k2 :: ks) v
          pure (obj (insert k c' kvs))
  | _, _ :: _, _ => .error .typeError

/-- `dicts.remove(d, path)`: absent keys are fine; parents that became `{}` are removed too;
    a non-mapping intermediate raises TypeError in Python (`d[path[0]]` on a scalar). -/
def remove : J → List String → Except DictErr J
  | _, [] => .error .valueError
  | obj kvs, [k] => .ok (obj (erase k kvs))
  | obj kvs, k :: k2 :: ks =>
      match lookup k kvs with
      | none => .ok (obj kvs)
      | some child => do
          let c' ← remove child (k2 :: ks)
          match c' with
          | obj [] => pure (obj (erase k kvs))
          | _ => pure (obj (insert k c' kvs))
  | _, _ :: _ => .error .typeError

end J
end Kopf
