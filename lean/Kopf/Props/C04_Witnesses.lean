/-
  C04 — property theorems, second file: the concrete witnesses (negations of unguarded clauses =
  the known findings, and the regression instance of the repaired C04-F9), evaluated on the model by
  `decide`. Each is replayed on the real code through `corpus/C04/`.
-/
import Kopf.Props.C04
namespace Kopf.C04
open Kopf Kopf.J

def bodyWithAnn (anns : List (String × J)) : J :=
  .obj [("kind", .str "KopfExample"), ("metadata", .obj [("name", .str "obj"), ("annotations", .obj anns)]),
        ("spec", .obj [("a", .num 1)])]

def cfgDefault0 : Cfg :=
  ⟨.leaf (.annotations "kopf.zalando.org" "last-handled-configuration" true []),
   [.annotations "kopf.zalando.org", .status ["status", "kopf", "progress"]], hashes0⟩

def diffLen0 (x y : Except Err J) : Option Nat :=
  match x, y with
  | .ok e, .ok e' => some (diff e e' []).length
  | _, _ => none

/-- C04-N1: a Kopf operator with prefix `kopf.dev` gets no marker (`_store_marker` skips prefixes
    starting with `kopf.`), `kopf.dev` is not recognised by itself, and its touch-dummy is an essential
    change for the default-configured operator; the same write under `my-op.example.com` (marker
    written along) is not. -/
theorem kopf_prefix_unmarked_witness :
    keys (storeMarker "kopf.dev" [("note", .str "u")] [("kopf.dev/touch-dummy", .str "2020")]) = ["kopf.dev/touch-dummy"]
    ∧ knownish "kopf.dev".toList = false
    ∧ diffLen0 (essence cfgDefault0 [] (bodyWithAnn [("note", .str "u")]))
        (essence cfgDefault0 [] (bodyWithAnn [("note", .str "u"), ("kopf.dev/touch-dummy", .str "2020")])) = some 1
    ∧ diffLen0 (essence cfgDefault0 [] (bodyWithAnn [("note", .str "u")]))
        (essence cfgDefault0 [] (bodyWithAnn ([("note", .str "u")] ++
          storeMarker "my-op.example.com" [("note", .str "u")] [("my-op.example.com/touch-dummy", .str "2020")]))) = some 0 := by
  decide

/-- C04-F11, the marker matters the other way round too: the *first* write under a custom, not yet
    marked prefix removes a user's annotation under that prefix from the essence — the operator's own
    write is an essential change (once). -/
theorem marker_first_write_witness :
    diffLen0 (essence cfgDefault0 [] (bodyWithAnn [("my-op.example.com/user-option", .str "x")]))
      (essence cfgDefault0 [] (bodyWithAnn ([("my-op.example.com/user-option", .str "x")] ++
        storeMarker "my-op.example.com" [("my-op.example.com/user-option", .str "x")]
          [("my-op.example.com/touch-dummy", .str "2020")]))) = some 1 := by
  decide

/-- C04-N2: adoption. Adding a Deployment owner to a handled ReplicaSet leaves the essence unchanged
    but switches the annotation names to `-ofDRS`: the stored last-handled state is not found any more
    (`fetch` gives `None` → the object is handled as created again). -/
theorem adoption_loses_last_handled_witness :
    let anns := [("kopf.zalando.org/last-handled-configuration", J.str "{}")]
    let rs (owners : List (String × J)) : J :=
      .obj [("kind", .str "ReplicaSet"), ("metadata", .obj ([("name", .str "rs"), ("annotations", .obj anns)] ++ owners)),
            ("spec", .obj [("replicas", .num 1)])]
    let adopted := rs [("ownerReferences", .arr [.obj [("kind", .str "Deployment")]])]
    diffLen0 (essence cfgDefault0 [] (rs [])) (essence cfgDefault0 [] adopted) = some 0
    ∧ ((keysFor hashes0 true "kopf.zalando.org" "last-handled-configuration" (rs [])).toOption.bind
        (fun ks => fetchRaw ks anns)).isSome = true
    ∧ ((keysFor hashes0 true "kopf.zalando.org" "last-handled-configuration" adopted).toOption.bind
        (fun ks => fetchRaw ks anns)).isSome = false := by
  decide

/-- C04-N3: `StatusProgressStorage.clear` removes the progress `field` only; a touch field outside
    `status` (here `kopf.dummy`, progress under `kopf.progress`) stays in the essence: the framework's
    own touch is an essential change. -/
theorem touch_field_witness :
    let cfg : Cfg := ⟨.leaf (.annotations "kopf.zalando.org" "last-handled-configuration" true []),
      [.status ["kopf", "progress"]], hashes0⟩
    diffLen0 (essence cfg [] (.obj [("metadata", .obj [("name", .str "x")]), ("spec", .obj [("a", .num 1)])]))
      (essence cfg [] (.obj [("metadata", .obj [("name", .str "x")]), ("spec", .obj [("a", .num 1)]),
        ("kopf", .obj [("dummy", .str "2020")])])) = some 1 := by
  decide

/-! ## the excluded points, executed (witnesses for the known findings F8, F9) -/

def diffLen (x y : Except Err J) : Option Nat :=
  match x, y with
  | .ok e, .ok e' => some (diff e e' []).length
  | _, _ => none

def cfgStatusProgress : Cfg :=
  ⟨.leaf (.annotations "kopf.zalando.org" "last-handled-configuration" true []),
   [.status ["status", "kopf", "progress"]], hashes0⟩

/-- F8: with `StatusProgressStorage` and a handler on field `status` (outside `ExtraAvoids "status"`),
    kopf's own touch (`status.kopf.dummy`) is an essential change. -/
theorem extra_status_witness :
    diffLen
      (essence cfgStatusProgress [["status"]]
        (.obj [("metadata", .obj [("name", .str "x")]), ("spec", .obj [("a", .num 1)]), ("status", .obj [("x", .num 1)])]))
      (essence cfgStatusProgress [["status"]]
        (.obj [("metadata", .obj [("name", .str "x")]), ("spec", .obj [("a", .num 1)]),
               ("status", .obj [("x", .num 1), ("kopf", .obj [("dummy", .str "2020")])])]))
      = some 1 := by decide

def cfgMultiDev : Cfg :=
  ⟨.multi [.annotations "kopf.dev" "last-handled-configuration" true []],
   [.annotations "kopf.zalando.org", .status ["status", "kopf", "progress"]], hashes0⟩

def rsBody (anns : List (String × J)) : J :=
  .obj [("kind", .str "ReplicaSet"),
        ("metadata", .obj [("name", .str "rs"), ("ownerReferences", .arr [.obj [("kind", .str "Deployment")]]),
                           ("annotations", .obj anns)]),
        ("spec", .obj [("replicas", .num 1)])]

/-- the `-ofDRS` key is an own key (`OwnKeyOf`) of the Multi configuration for the ReplicaSet, and unmarked. -/
example : OwnKeyOf cfgMultiDev (rsBody [("plain", .str "v")]) "kopf.dev/last-handled-configuration-ofDRS"
    ∧ markedPrefix? "kopf.dev/last-handled-configuration-ofDRS" = none :=
  ⟨Or.inl ⟨"kopf.dev", "last-handled-configuration", true, [], "last-handled-configuration-ofDRS".toList,
    ["kopf.dev/last-handled-configuration-ofDRS"], by simp [cfgMultiDev, diffbaseLeaves], rfl, rfl, by decide⟩,
   by decide⟩

/-- the former witness of finding C04-F9 (fixed in kopf 55b75e2), now a positive instance:
    `MultiDiffBaseStorage` hands `kind` and `metadata.ownerReferences` to the nested storages, so the
    `-ofDRS`-marked last-handled key of a Deployment-owned ReplicaSet under the unmarked prefix
    `kopf.dev` is cleaned — the framework's own last-handled write is no essential change. -/
theorem multi_drs_own_key_invisible :
    diffLen (essence cfgMultiDev [] (rsBody [("plain", .str "v")]))
      (essence cfgMultiDev [] (rsBody [("plain", .str "v"), ("kopf.dev/last-handled-configuration-ofDRS", .str "{}")]))
      = some 0 := by decide

end Kopf.C04
