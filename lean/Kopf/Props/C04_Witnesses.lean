/-
  C04 — property theorems, second file: the concrete witnesses (negations of unguarded clauses =
  the known findings, and the regression instances of the repaired C04-F9 / C04-F13), evaluated on the model by
  `decide`. Each is replayed on the real code through `corpus/C04/`.
-/
import Kopf.Props.C04
namespace Kopf.C04
open Kopf Kopf.J

def bodyWithAnn (anns : List (String × J)) : J :=
  .obj [("kind", .str "KopfExample"), ("metadata", .obj [("name", .str "obj"), ("annotations", .obj anns)]),
        ("spec", .obj [("a", .num 1)])]

def cfgDefault0 : Cfg :=
  ⟨.leaf (.annotations "kopf.zalando.org" "last-handled-configuration" true []),
   [.annotations "kopf.zalando.org", .status ["status", "kopf", "progress"] ["status", "kopf", "dummy"]], hashes0⟩

def diffLen0 (x y : Except Err J) : Option Nat :=
  match x, y with
  | .ok e, .ok e' => some (diff e e' []).length
  | _, _ => none

/-- the former witness of finding C04-N1 (fixed in kopf ef55390), now a positive instance: a Kopf
    operator with prefix `kopf.dev` does get the `kopf-managed` marker, and its touch is no essential
    change for the default-configured operator (an instance of `kopf_storage_write_invisible`). -/
theorem kopf_dev_touch_invisible :
    keys (storeMarker "kopf.dev" [("note", .str "u")] [("kopf.dev/touch-dummy", .str "2020")]) =
      ["kopf.dev/touch-dummy", "kopf.dev/kopf-managed"]
    ∧ knownish "kopf.dev".toList = false
    ∧ diffLen0 (essence cfgDefault0 [] (bodyWithAnn [("note", .str "u")]))
        (essence cfgDefault0 [] (bodyWithAnn (mergeKvs [("note", .str "u")]
          (storeMarker "kopf.dev" [("note", .str "u")] [("kopf.dev/touch-dummy", .str "2020")])))) = some 0 := by
  decide

/-- C04-F11, the marker matters the other way round too: the *first* write under a custom, not yet
    marked prefix removes a user's annotation under that prefix from the essence — the operator's own
    write is an essential change (once). -/
theorem marker_first_write_witness :
    diffLen0 (essence cfgDefault0 [] (bodyWithAnn [("my-op.example.com/user-option", .str "x")]))
      (essence cfgDefault0 [] (bodyWithAnn ([("my-op.example.com/user-option", .str "x")] ++
        storeMarker "my-op.example.com" [("my-op.example.com/user-option", .str "x")]
          [("my-op.example.com/touch-dummy", .str "2020")]))) = some 1 := by
  decide

/-- C04-N2: adoption. Adding a Deployment owner to a handled ReplicaSet leaves the essence unchanged
    but switches the annotation names to `-ofDRS`: the stored last-handled state is not found any more
    (`fetch` gives `None` → the object is handled as created again). -/
theorem adoption_loses_last_handled_witness :
    let anns := [("kopf.zalando.org/last-handled-configuration", J.str "{}")]
    let rs (owners : List (String × J)) : J :=
      .obj [("kind", .str "ReplicaSet"), ("metadata", .obj ([("name", .str "rs"), ("annotations", .obj anns)] ++ owners)),
            ("spec", .obj [("replicas", .num 1)])]
    let adopted := rs [("ownerReferences", .arr [.obj [("kind", .str "Deployment")]])]
    diffLen0 (essence cfgDefault0 [] (rs [])) (essence cfgDefault0 [] adopted) = some 0
    ∧ ((keysFor hashes0 true "kopf.zalando.org" "last-handled-configuration" (rs [])).toOption.bind
        (fun ks => fetchRaw ks anns)).isSome = true
    ∧ ((keysFor hashes0 true "kopf.zalando.org" "last-handled-configuration" adopted).toOption.bind
        (fun ks => fetchRaw ks anns)).isSome = false := by
  decide

/-- the former witness of finding C04-N3 (fixed in kopf dbb523b), now a positive instance:
    `StatusProgressStorage.clear` removes the touch field as well; a touch field outside `status`
    (here `kopf.dummy`, progress under `kopf.progress`) is no essential change. -/
theorem touch_field_cleaned :
    let cfg : Cfg := ⟨.leaf (.annotations "kopf.zalando.org" "last-handled-configuration" true []),
      [.status ["kopf", "progress"] ["kopf", "dummy"]], hashes0⟩
    diffLen0 (essence cfg [] (.obj [("metadata", .obj [("name", .str "x")]), ("spec", .obj [("a", .num 1)])]))
      (essence cfg [] (.obj [("metadata", .obj [("name", .str "x")]), ("spec", .obj [("a", .num 1)]),
        ("kopf", .obj [("dummy", .str "2020")])])) = some 0 := by
  decide

/-! ## the excluded points, executed (witnesses for the known findings F8, F9) -/

def diffLen (x y : Except Err J) : Option Nat :=
  match x, y with
  | .ok e, .ok e' => some (diff e e' []).length
  | _, _ => none

def cfgStatusProgress : Cfg :=
  ⟨.leaf (.annotations "kopf.zalando.org" "last-handled-configuration" true []),
   [.status ["status", "kopf", "progress"] ["status", "kopf", "dummy"]], hashes0⟩

/-- the former primary witness of F8, closed by kopf dbb523b: with `StatusProgressStorage` and a
    handler on field `status`, kopf's own touch (`status.kopf.dummy`) is cleaned again. -/
theorem status_handler_touch_invisible :
    diffLen
      (essence cfgStatusProgress [["status"]]
        (.obj [("metadata", .obj [("name", .str "x")]), ("spec", .obj [("a", .num 1)]), ("status", .obj [("x", .num 1)])]))
      (essence cfgStatusProgress [["status"]]
        (.obj [("metadata", .obj [("name", .str "x")]), ("spec", .obj [("a", .num 1)]),
               ("status", .obj [("x", .num 1), ("kopf", .obj [("dummy", .str "2020")])])]))
      = some 0 := by decide

def cfgCustomStatus : Cfg :=
  ⟨.leaf (.annotations "my-op.example.com" "last-handled-configuration" true []),
   [.status ["status", "kopf", "progress"] ["status", "kopf", "dummy"]], hashes0⟩

/-- F8 (still open): a handler field that covers a location the framework itself writes is restored
    into the essence AFTER the cleaning. With a handler on `metadata.annotations`
    (outside `ExtraAnnOK`), a custom-prefix diff-base storage and a status progress storage, the
    `kopf-managed` marker written with the first store is an essential change (the last-handled key
    itself is removed by its exact name). -/
theorem extra_annotations_witness :
    diffLen
      (essence cfgCustomStatus [["metadata", "annotations"]] (bodyWithAnn [("note", .str "u")]))
      (essence cfgCustomStatus [["metadata", "annotations"]] (bodyWithAnn (mergeKvs [("note", .str "u")]
        (storeMarker "my-op.example.com" [("note", .str "u")] [("my-op.example.com/last-handled-configuration", .str "{}")]))))
      = some 1 := by decide

def cfgMultiDev : Cfg :=
  ⟨.multi [.annotations "kopf.dev" "last-handled-configuration" true []],
   [.annotations "kopf.zalando.org", .status ["status", "kopf", "progress"] ["status", "kopf", "dummy"]], hashes0⟩

def rsBody (anns : List (String × J)) : J :=
  .obj [("kind", .str "ReplicaSet"),
        ("metadata", .obj [("name", .str "rs"), ("ownerReferences", .arr [.obj [("kind", .str "Deployment")]]),
                           ("annotations", .obj anns)]),
        ("spec", .obj [("replicas", .num 1)])]

/-- the `-ofDRS` key is an own key (`OwnKeyOf`) of the Multi configuration for the ReplicaSet, and unmarked. -/
example : OwnKeyOf cfgMultiDev (rsBody [("plain", .str "v")]) "kopf.dev/last-handled-configuration-ofDRS"
    ∧ markedPrefix? "kopf.dev/last-handled-configuration-ofDRS" = none :=
  ⟨Or.inl ⟨"kopf.dev", "last-handled-configuration", true, [], "last-handled-configuration-ofDRS".toList,
    ["kopf.dev/last-handled-configuration-ofDRS"], by simp [cfgMultiDev, diffbaseLeaves], rfl, rfl, by decide⟩,
   by decide⟩

/-- the former witness of finding C04-F9 (fixed in kopf 55b75e2), now a positive instance:
    `MultiDiffBaseStorage` hands `kind` and `metadata.ownerReferences` to the nested storages, so the
    `-ofDRS`-marked last-handled key of a Deployment-owned ReplicaSet under the unmarked prefix
    `kopf.dev` is cleaned — the framework's own last-handled write is no essential change. -/
theorem multi_drs_own_key_invisible :
    diffLen (essence cfgMultiDev [] (rsBody [("plain", .str "v")]))
      (essence cfgMultiDev [] (rsBody [("plain", .str "v"), ("kopf.dev/last-handled-configuration-ofDRS", .str "{}")]))
      = some 0 := by decide

/-! ## MultiDiffBaseStorage: the transitional set-up of the docs, status storage first -/

/-- `MultiDiffBaseStorage([StatusDiffBaseStorage(field='status.diff-base'), AnnotationsDiffBaseStorage(prefix='my-op.example.com')])`
    (the status storage is NOT the last one). -/
def cfgTransitional : Cfg :=
  ⟨.multi [.status ["status", "diff-base"] [["spec", "replicas"]],
           .annotations "my-op.example.com" "last-handled-configuration" true []],
   [.annotations "kopf.zalando.org", .status ["status", "kopf", "progress"] ["status", "kopf", "dummy"]], hashes0⟩

def bodyT (status anns : List (String × J)) : J :=
  .obj [("kind", .str "KopfExample"), ("metadata", .obj [("name", .str "obj"), ("annotations", .obj anns)]),
        ("spec", .obj [("a", .num 1), ("replicas", .num 3)]), ("status", .obj status)]

def presentB (x : Except Err J) (p : List String) : Option Bool :=
  match x with
  | .ok e => some (match resolveE e p with | .ok _ => true | .error _ => false)
  | .error _ => none

/-- positive instance of `nested_own_writes_cleaned_partial` / `nested_ignored_fields_cleaned`, executed:
    with handlers on `status` AND on `metadata.annotations`, storing the last-handled state (both nested
    storages write: `status.diff-base`, the annotation) leaves `status.diff-base`, the annotation key and the
    first storage's ignored `spec.replicas` out of the essence; the handler's own part of `status` stays.
    (Seeded change C04d: the first storage's cleaning is lost, `status.diff-base` and `spec.replicas` are present.) -/
theorem multi_transitional_store_invisible :
    let x := [["status"], ["metadata", "annotations"]]
    let after := essence cfgTransitional x (bodyT [("phase", .str "ok"), ("diff-base", .str "{}")]
      [("note", .str "u"), ("my-op.example.com/last-handled-configuration", .str "{}"), ("my-op.example.com/kopf-managed", .str "yes")])
    presentB after ["status", "diff-base"] = some false
    ∧ presentB after ["metadata", "annotations", "my-op.example.com/last-handled-configuration"] = some false
    ∧ presentB after ["spec", "replicas"] = some false
    ∧ presentB after ["status", "phase"] = some true
    ∧ presentB after ["metadata", "annotations", "note"] = some true := by
  decide

/-- F8 in a Multi configuration (still open): the full clause "no location the nested storages write is
    in the essence" is false — the `kopf-managed` marker the annotations storage writes along with its
    first store is restored by a handler on `metadata.annotations` and is an essential change, while
    without that handler field the very same write is invisible. -/
theorem multi_marker_restored_witness :
    let before := bodyT [("phase", .str "ok")] [("note", .str "u")]
    let after := bodyT [("phase", .str "ok"), ("diff-base", .str "{}")]
      [("note", .str "u"), ("my-op.example.com/last-handled-configuration", .str "{}"), ("my-op.example.com/kopf-managed", .str "yes")]
    presentB (essence cfgTransitional [["metadata", "annotations"]] after)
        ["metadata", "annotations", "my-op.example.com/kopf-managed"] = some true
    ∧ diffLen (essence cfgTransitional [["metadata", "annotations"]] before)
        (essence cfgTransitional [["metadata", "annotations"]] after) = some 1
    ∧ diffLen (essence cfgTransitional [["status"]] before) (essence cfgTransitional [["status"]] after) = some 0 := by
  decide

/-! ## regressions of the variants before kopf 571b1b2 (finding C04-F13, fixed) -/

def isTypeError (x : Except Err J) : Bool :=
  match x with
  | .error .typeError => true
  | _ => false

def hiddenBody : J :=
  .obj [("kind", .str "KopfExample"), ("metadata", .obj [("name", .str "obj")]),
        ("spec", .obj [("a", .str "a-string-where-a-mapping-was-expected"), ("n", .num 5)])]

/-- the former witness of C04-F13 (a): a handler on `spec.a.b`, an object whose `spec.a` is a string. The one
    unguarded `dicts.cherrypick` over all handlers' fields (the variant before 571b1b2) raised TypeError —
    the object was never processed; today the essence is built, and it is the essence without that handler. -/
theorem hidden_field_raised_witness :
    isTypeError (cherrypick hiddenBody (.obj [("spec", .obj [("n", .num 5)])]) [["spec", "n"], ["spec", "a", "b"]]) = true
    ∧ diffLen0 (essence cfgDefault0 [["spec", "a", "b"]] hiddenBody) (essence cfgDefault0 [] hiddenBody) = some 0 := by
  decide

/-- the former witness of C04-F13 (b): `status.kopf` overwritten with a scalar, a handler on `status`. The two
    unguarded `dicts.remove` of `StatusProgressStorage.clear` (`remove2`, the variant before 571b1b2) raised
    TypeError; today the removals are skipped — nothing of the framework's is there — and the essence is built. -/
theorem hidden_status_field_raised_witness :
    let e : J := .obj [("spec", .obj [("n", .num 5)]), ("status", .obj [("kopf", .str "overwritten")])]
    isTypeError (liftD (remove2 e ["status", "kopf", "progress"] ["status", "kopf", "dummy"])) = true
    ∧ diffLen0 (clearLeaf e (.status ["status", "kopf", "progress"] ["status", "kopf", "dummy"])) (.ok e) = some 0 := by
  decide

/-! ## one storage object serving many objects: the remembering variant (seeded change C04g) -/

/-- **A storage that remembers marked prefixes loses an ordinary annotation**: after an object carrying another Kopf
    operator's marker `example.com/kopf-managed` went through, the change of the human-set annotation `example.com/team`
    (blue → green) on an object WITHOUT any marker gives the same essence (no diff item: the update is never handled);
    the code's policy sees exactly one item — and sees it after every history (`served_build_history_independent`). -/
theorem remembered_prefixes_witness :
    let marked := bodyWithAnn [("example.com/kopf-managed", .str "yes"), ("example.com/last-handled-configuration", .str "{}")]
    let plain (team : String) := bodyWithAnn [("example.com/team", .str team)]
    servedDiffLen rememberingDetect [marked] (plain "blue") (plain "green") = some 0
    ∧ servedDiffLen rememberingDetect [] (plain "blue") (plain "green") = some 1
    ∧ servedDiffLen statelessDetect [marked] (plain "blue") (plain "green") = some 1 := by
  decide

end Kopf.C04
