/-
  X01 — `no_stale_handling` for the composed system WITH the two-request turn (`work2`, Model/X01_TwoReq.lean: a release whose merge-patch
  and JSON-patch both change the server makes `rv+1` and `rv+2`, queues the intermediate echo and the final echo / DELETED event, the
  worker arms on `rv+2`). Theorems only. (The stuttering form of `reactor_refines_loop` for `work2` is NOT proved: see review/X01_REPORT.md.)
-/
import Kopf.Lemmas.X01_TwoReq
import Kopf.Props.X01
namespace Kopf.X01
open Kopf
variable {E : Type} [DecidableEq E]

/-- **no_stale_handling_two_request.** FULL, over every history, with up to two own versions per iteration: whenever the changing stage ran
    on view version `v`, `v` is not below the (last) version of any own write issued before, or the consistency timeout has elapsed since
    the last own write. In particular the intermediate echo `rv+1` of a two-request turn, dequeued while `rv+2` is awaited, is handled only
    once the deadline is over. -/
theorem no_stale_handling_two_request (T idle : Int) (env : C03.Env) (r0 : RState E) (h0 : Inv T r0) (acts : List (Act E)) :
    ∀ run ∈ (runActs2 T idle env r0 acts).ran,
      (∀ p ∈ run.owns, p.1 ≤ run.ver) ∨ (∃ p tp rest, run.owns = (p, tp) :: rest ∧ tp + T ≤ run.t) :=
  (inv_runActs2 T idle env acts r0 h0).good

theorem no_stale_handling_two_request_created (T idle : Int) (env : C03.Env) (e : E) (t : Int) (acts : List (Act E)) :
    ∀ run ∈ (runActs2 T idle env (created e t) acts).ran,
      (∀ p ∈ run.owns, p.1 ≤ run.ver) ∨ (∃ p tp rest, run.owns = (p, tp) :: rest ∧ tp + T ≤ run.t) :=
  no_stale_handling_two_request T idle env _ (inv_ofLoop T _ 1 (by decide)) acts

/-- a one-request iteration of `work2` is `work`'s: same version counter -/
theorem work2_rv_one_request (T : Int) (env : C03.Env) (d : Nat) (r : RState E) (ev : Ev E) (rest : List (Ev E))
    (hq : r.queue = ev :: rest) (h1 : twoReq env (turn env r ev rest) = false) :
    (work2 T env d r).rv = (work T env d r).rv := by
  have hw : work2 T env d r = work2 T env d { r with queue := ev :: rest } := by
    have : r = { r with queue := ev :: rest } := by cases r; simp_all
    rw [← this]
  have hw' : work T env d r = work T env d { r with queue := ev :: rest } := by
    have : r = { r with queue := ev :: rest } := by cases r; simp_all
    rw [← this]
  rw [hw, hw']
  show lastVer env r (turn env r ev rest) = (if (turn env r ev rest).wrote then r.rv + 1 else r.rv)
  unfold lastVer
  rw [h1]; rfl

end Kopf.X01
