/-
  C14 — resume handlers run once per object per operator process. Property theorems only.
-/
import Kopf.Model.C14_Resume
import Kopf.Lemmas.C14_Resume
import Kopf.Lemmas.C14_Step
import Kopf.Lemmas.C14_Results
import Kopf.Lemmas.C14_Memories
namespace Kopf.C14
open Kopf Kopf.C02

theorem selected_sub_owned (decls : List Decl) (mem : Mem) (e : Event) :
    ∀ i ∈ (cfgOf decls mem e).selected, i ∈ (cfgOf decls mem e).owned := by
  intro i hi
  simp only [cfgOf, selectedOf, List.mem_map, List.mem_filter] at hi ⊢
  obtain ⟨d, ⟨hd, _⟩, rfl⟩ := hi
  exact ⟨d, hd, rfl⟩

/-- Whatever a step invokes passed the gate and the filters for the cause of that step. -/
theorem invoked_gated (decls : List Decl) (m : Option Mem) (P : Store) (e : Event) (i : Id) (n : Nat)
    (h : (i, n) ∈ (step decls m P e).invoked) :
    ∃ d ∈ decls, d.id = i ∧ C05.gate d.gate (causeOf (recall m e) e) = true ∧ e.matchF d.id = true := by
  by_cases hs : e.suppressed = true
  · rw [step_suppressed decls m P e hs] at h; simp at h
  · have hs' : e.suppressed = false := by simpa using hs
    rw [(step_eq decls m P e hs').1] at h
    have := (invoked_selected_awake _ _ e.now e.now1 e.exec (selected_sub_owned decls (recall m e) e) i n h).1
    simp only [cfgOf, selectedOf, List.mem_map, List.mem_filter, Bool.and_eq_true] at this
    obtain ⟨d, ⟨hd, ⟨hg, hm⟩, _⟩, rfl⟩ := this
    exact ⟨d, hd, rfl, hg, hm⟩

/-- A resume handler is only ever invoked for an object first seen in a listing and not yet fully
    handled in this process; never for a creation; on an object being deleted only if it opted in. -/
theorem resume_invoked_only_initial (decls : List Decl) (m : Option Mem) (P : Store) (e : Event)
    (i : Id) (n : Nat) (h : (i, n) ∈ (step decls m P e).invoked)
    (hres : ∀ d ∈ decls, d.id = i → d.gate.initial = true) :
    (recall m e).noticed = some true ∧ (recall m e).fullyHandled = false ∧
    (causeOf (recall m e) e).reason ≠ .create ∧
    (e.marked = true → ∃ d ∈ decls, d.id = i ∧ d.gate.deletedOptIn = true) := by
  obtain ⟨d, hd, hid, hg, _⟩ := invoked_gated decls m P e i n h
  have hini := hres d hd hid
  have hcm : (causeOf (recall m e) e).marked = e.marked := rfl
  have hcinit : (causeOf (recall m e) e).initial =
      (if C05.detectReason (inOf (recall m e) e) = .create then false
       else ((recall m e).isNoticed && !(recall m e).fullyHandled)) := rfl
  have hcr : (causeOf (recall m e) e).reason = C05.detectReason (inOf (recall m e) e) := rfl
  unfold C05.gate at hg
  rw [hini, hcm] at hg
  simp only [Bool.true_and, Bool.and_eq_true, Bool.not_eq_true', Bool.not_eq_false'] at hg
  obtain ⟨⟨⟨_, hci⟩, hdel⟩, _⟩ := hg
  rw [hcinit] at hci
  have hnc : C05.detectReason (inOf (recall m e) e) ≠ .create := by
    intro hc; simp [hc] at hci
  simp only [hnc, if_false, Bool.and_eq_true, Bool.not_eq_true'] at hci
  refine ⟨by simpa [Mem.isNoticed] using hci.1, hci.2, by rw [hcr]; exact hnc, ?_⟩
  intro hm
  refine ⟨d, hd, hid, ?_⟩
  cases hopt : d.gate.deletedOptIn
  · simp [hm, hopt] at hdel
  · rfl

/-- Objects first seen through a watch event (not a listing) never get resume handlers in this
    process: once decided, the memory's `noticed` flag is fixed. -/
theorem not_for_new (decls : List Decl) (events : List Event) :
    ∀ (mem : Mem) (P : Store), mem.noticed = some false → (∀ e ∈ events, e.deleted = false) →
    ∀ l ∈ run decls (some mem) P events, ∀ i n, (i, n) ∈ l →
      ¬ (∀ d ∈ decls, d.id = i → d.gate.initial = true) := by
  induction events with
  | nil => intro mem P _ _ l hl; simp [run] at hl
  | cons e rest ih =>
    intro mem P hn hdel l hl i n hin hres
    simp only [run, List.mem_cons] at hl
    rcases hl with rfl | hl
    · have := (resume_invoked_only_initial decls (some mem) P e i n hin hres).1
      simp [recall, hn] at this
    · have hde : e.deleted = false := hdel e (by simp)
      have hmem : ∃ mem', (step decls (some mem) P e).mem = some mem' ∧ mem'.noticed = some false := by
        unfold step
        by_cases hs : e.suppressed = true
        · simp [hs, hde, recall, hn]
        · simp [hs, hde, recall, hn]
      obtain ⟨mem', hm', hn'⟩ := hmem
      rw [hm'] at hl
      exact ih mem' _ hn' (fun e' he' => hdel e' (by simp [he'])) l hl i n hin hres

/-- Once the object has been fully handled in this process, no resume handler is ever invoked for
    it again: re-listings, reconnects and later changes do not repeat it. -/
theorem after_fully_handled_never (decls : List Decl) (events : List Event) :
    ∀ (mem : Mem) (P : Store), mem.fullyHandled = true → (∀ e ∈ events, e.deleted = false) →
    ∀ l ∈ run decls (some mem) P events, ∀ i n, (i, n) ∈ l →
      ¬ (∀ d ∈ decls, d.id = i → d.gate.initial = true) := by
  induction events with
  | nil => intro mem P _ _ l hl; simp [run] at hl
  | cons e rest ih =>
    intro mem P hf hdel l hl i n hin hres
    simp only [run, List.mem_cons] at hl
    rcases hl with rfl | hl
    · have := (resume_invoked_only_initial decls (some mem) P e i n hin hres).2.1
      rw [recall_some_fullyHandled, hf] at this; cases this
    · have hde : e.deleted = false := hdel e (by simp)
      have hmem : ∃ mem', (step decls (some mem) P e).mem = some mem' ∧ mem'.fullyHandled = true := by
        by_cases hs : e.suppressed = true
        · rw [step_suppressed _ _ _ _ hs]
          simp only [hde, Bool.false_eq_true, if_false]
          exact ⟨_, rfl, by rw [recall_some_fullyHandled]; exact hf⟩
        · have hs' : e.suppressed = false := by simpa using hs
          rw [(step_eq decls (some mem) P e hs').2.2]
          simp only [hde, Bool.false_eq_true, if_false]
          exact ⟨_, rfl, by simp [recall_some_fullyHandled, hf]⟩
      obtain ⟨mem', hm', hf'⟩ := hmem
      rw [hm'] at hl
      exact ih mem' _ hf' (fun e' he' => hdel e' (by simp [he'])) l hl i n hin hres

theorem reason_not_create (mem : Mem) (e : Event) (h : e.oldAbsent = false) :
    C05.detectReason (inOf mem e) ≠ .create := by
  unfold C05.detectReason inOf
  simp only [h]
  cases e.deleted <;> cases e.marked <;> cases e.blocked <;> cases e.diffNonEmpty <;>
    cases (mem.isNoticed && !mem.fullyHandled) <;> simp

/-- An object still to be resumed (listed, not yet fully handled) never yields the no-op cause, so the
    no-op purge of leftover records never removes a resume handler's finished record prematurely. -/
theorem reason_not_noop_of_initial (mem : Mem) (e : Event)
    (h : (mem.isNoticed && !mem.fullyHandled) = true) :
    ((cfgOf decls mem e).reason == "noop") = false := by
  show (reasonStr (C05.detect (inOf mem e)).reason == "noop") = false
  unfold C05.detect C05.detectReason inOf
  simp only [h]
  cases e.deleted <;> cases e.marked <;> cases e.blocked <;> cases e.oldAbsent <;>
    cases e.diffNonEmpty <;> simp [reasonStr]


/-- A matching resume handler of an object still to be resumed, not yet finished in this process, is selected. -/
theorem matching_selected (decls : List Decl) (d : Decl) (hd : d ∈ decls)
    (hini : d.gate.initial = true) (hreason : d.gate.reason = none)
    (mem : Mem) (hn : mem.noticed = some true) (hf : mem.fullyHandled = false) (hnr : d.id ∉ mem.resumed)
    (e : Event) (hold : e.oldAbsent = false) (hmatch : e.matchF d.id = true)
    (hopt : e.marked = true → d.gate.deletedOptIn = true) :
    d.id ∈ (cfgOf decls mem e).selected := by
  simp only [cfgOf, selectedOf, List.mem_map, List.mem_filter, Bool.and_eq_true]
  refine ⟨d, ⟨hd, ⟨?_, hmatch⟩, by simp [hnr]⟩, rfl⟩
  have hcm : (causeOf mem e).marked = e.marked := rfl
  have hcinit : (causeOf mem e).initial =
      (if C05.detectReason (inOf mem e) = .create then false else (mem.isNoticed && !mem.fullyHandled)) := rfl
  have hno : mem.isNoticed = true := by simp [Mem.isNoticed, hn]
  unfold C05.gate
  rw [hini, hreason, hcm, hcinit]
  simp only [reason_not_create mem e hold, if_false, hno, hf]
  cases hm : e.marked
  · simp
  · simp [hopt hm]

/-- An object that exists when the operator starts (seen in the listing), was handled before (a
    last-handled state is stored), carries no progress records and is not being deleted, gets the
    resume cause, and every matching resume handler is selected in its first cycle. -/
theorem eligible_selected (decls : List Decl) (d : Decl) (hd : d ∈ decls)
    (hini : d.gate.initial = true) (hreason : d.gate.reason = none) (e : Event)
    (hl : e.byListing = true) (hdel : e.deleted = false) (hm : e.marked = false)
    (hold : e.oldAbsent = false) (hdiff : e.diffNonEmpty = false) (hmatch : e.matchF d.id = true) :
    (causeOf (recall none e) e).reason = .resume ∧ d.id ∈ (cfgOf decls (recall none e) e).selected := by
  constructor
  · simp [causeOf, C05.detect, C05.detectReason, inOf, Mem.isNoticed, recall, hl, hdel, hm, hold, hdiff]
  · exact matching_selected decls d hd hini hreason (recall none e) (by simp [recall, hl]) (by simp [recall])
      (by simp [recall]) e hold hmatch (by simp [hm])

/-- … and (all-at-once lifecycle, nothing recorded for it yet, positive limits) it is actually invoked
    in that first cycle, as the first attempt — whether the object is unchanged (resume cause) or was
    edited while the operator was down (update cause with the resuming handlers mixed in). -/
theorem eligible_invoked (decls : List Decl) (d : Decl) (hd : d ∈ decls)
    (hini : d.gate.initial = true) (hreason : d.gate.reason = none) (e : Event)
    (hl : e.byListing = true) (hdel : e.deleted = false) (hm : e.marked = false)
    (hold : e.oldAbsent = false) (hmatch : e.matchF d.id = true)
    (hs : e.suppressed = false) (hlc : e.lifecycle = .allAtOnce)
    (P : C02.Store) (hP : P d.id = none)
    (hto : ∀ t, (e.limits d.id).timeout = some t → 0 < t)
    (hre : ∀ n, (e.limits d.id).retries = some n → 0 < n) :
    (d.id, 0) ∈ (step decls none P e).invoked ∧
      (causeOf (recall none e) e).reason = (if e.diffNonEmpty then .update else .resume) := by
  have hsel := matching_selected decls d hd hini hreason (recall none e) (by simp [recall, hl]) (by simp [recall])
      (by simp [recall]) e hold hmatch (by simp [hm])
  have hcause : (causeOf (recall none e) e).reason = (if e.diffNonEmpty then .update else .resume) := by
    simp only [causeOf, C05.detect, C05.detectReason, inOf, Mem.isNoticed, recall, hl, hdel, hm, hold]
    cases e.diffNonEmpty <;> simp
  have hreason' : handlerReasons.contains (cfgOf decls (recall none e) e).reason = true := by
    show handlerReasons.contains (reasonStr (causeOf (recall none e) e).reason) = true
    rw [hcause]
    cases e.diffNonEmpty <;> decide
  have hT : takenOf decls (recall none e) e P d.id = none := takenOf_none hP
  have hinv := due_invoked_all_at_once (cfgOf decls (recall none e) e) (takenOf decls (recall none e) e P)
    e.now e.now1 e.exec
    hreason' hlc d.id hsel (selected_sub_owned decls (recall none e) e d.id hsel)
    (by simp [startRec, hT, fresh, Rec.awakened, Rec.sleeping, Rec.finished])
    (by
      simp only [startRec, hT, fresh, precheckFails]
      show ((match (e.limits d.id).timeout with | some t => decide (e.now - e.now ≥ t) | none => false) ||
            (match (e.limits d.id).retries with | some n => decide (0 ≥ n) | none => false)) = false
      cases ht : (e.limits d.id).timeout with
      | none =>
        cases hn : (e.limits d.id).retries with
        | none => rfl
        | some n => have := hre n hn; simp; omega
      | some t =>
        have h1 := hto t ht
        cases hn : (e.limits d.id).retries with
        | none => simp; omega
        | some n => have h2 := hre n hn; simp; exact ⟨by omega, by omega⟩)
  rw [hT] at hinv
  refine ⟨?_, hcause⟩
  rw [(step_eq decls none P e hs).1]
  exact hinv

/-- A first cycle that is suppressed (the finalizer is being added, or the object's own patch is awaited)
    loses nothing: the object stays "to be resumed", so the next event still carries the resuming cause. -/
theorem suppressed_keeps_initial (decls : List Decl) (e : Event) (P : C02.Store)
    (hl : e.byListing = true) (hdel : e.deleted = false) (hs : e.suppressed = true) :
    (step decls none P e).mem = some { noticed := some true, fullyHandled := false, resumed := [] } ∧
    (step decls none P e).invoked = [] := by
  unfold step
  simp [hs, hdel, recall, hl]

/-- THIRD CLAUSE at the start-up, both directions: an object found by the listing already marked for deletion
    and still held by the operator's finalizer gets the deletion cause with the resuming handlers mixed in —
    and a resuming handler is selected for it exactly if it opted in (`deleted=True`) and its filters match. -/
theorem marked_listed_selected_iff_optin (decls : List Decl) (i : Id)
    (hres : ∀ d ∈ decls, d.id = i → d.gate.initial = true ∧ d.gate.reason = none) (e : Event)
    (hl : e.byListing = true) (hdel : e.deleted = false) (hm : e.marked = true) (hb : e.blocked = true) :
    (causeOf (recall none e) e).reason = .delete ∧
    (i ∈ (cfgOf decls (recall none e) e).selected ↔
      (∃ d ∈ decls, d.id = i ∧ d.gate.deletedOptIn = true) ∧ e.matchF i = true) := by
  have hr : C05.detectReason (inOf (recall none e) e) = .delete := by
    simp [C05.detectReason, inOf, hdel, hm, hb]
  have hcause : causeOf (recall none e) e = { reason := .delete, initial := true, marked := true } := by
    show C05.detect (inOf (recall none e) e) = _
    unfold C05.detect
    rw [hr]
    simp [inOf, Mem.isNoticed, recall, hl, hm]
  refine ⟨by rw [hcause], ?_⟩
  simp only [cfgOf, selectedOf, List.mem_map, List.mem_filter, Bool.and_eq_true, hcause]
  constructor
  · rintro ⟨d, ⟨hd, ⟨hg, hmf⟩, _⟩, rfl⟩
    obtain ⟨hini, hreason⟩ := hres d hd rfl
    refine ⟨⟨d, hd, rfl, ?_⟩, hmf⟩
    cases hopt : d.gate.deletedOptIn
    · simp [C05.gate, hini, hreason, hopt] at hg
    · rfl
  · rintro ⟨⟨d, hd, rfl, hopt⟩, hmf⟩
    obtain ⟨hini, hreason⟩ := hres d hd rfl
    refine ⟨d, ⟨hd, ⟨?_, hmf⟩, ?_⟩, rfl⟩
    · simp [C05.gate, hini, hreason, hopt]
    · simp [recall]

-- non-vacuity: one handler opted in, one did not
example :
    let e : Event :=
      { byListing := true, deleted := false, marked := true, blocked := true, oldAbsent := false,
        diffNonEmpty := false, suppressed := false, matchF := fun _ => true,
        limits := fun _ => ⟨none, none⟩, lifecycle := .allAtOnce, now := 0, now1 := 0,
        exec := fun _ _ => { final := true, delay := none, error := false, subrefs := [] } }
    (step [⟨"r", ⟨none, true, true⟩⟩, ⟨"q", ⟨none, true, false⟩⟩, ⟨"d", ⟨some .delete, false, false⟩⟩] none (fun _ => none) e).invoked
      = [("r", 0), ("d", 0)] := by decide

/-- An object marked for deletion that the operator does not hold (cause FREE: kept alive by somebody else's
    finalizer) gets no handler at all — resuming ones included, opted in or not — and the records the owned handlers
    left behind are purged (/repo 40d09eb: the FREE branch of the whole pass `C02.cycleB`, which `step` runs). -/
theorem free_step_nothing (decls : List Decl) (m : Option Mem) (P : Store) (e : Event)
    (hs : e.suppressed = false) (hfree : (causeOf (recall m e) e).reason = .free) :
    (step decls m P e).invoked = [] ∧ ∀ d ∈ decls, (step decls m P e).P d.id = none := by
  have hf : ((cfgOf decls (recall m e) e).reason == "free") = true := by
    show (reasonStr (causeOf (recall m e) e).reason == "free") = true
    rw [hfree]; decide
  unfold step
  simp only [hs, Bool.false_eq_true, if_false]
  rw [cycleB_free _ _ P e.now e.now1 e.exec hf]
  refine ⟨rfl, ?_⟩
  intro d hd
  have hmem : d.id ∈ (cfgOf decls (recall m e) e).owned := List.mem_map_of_mem hd
  simp [purge, hmem]

/-! ### The first clause in composition with the admission webhooks (finding F10, repaired by /repo 755fd2f)

`recall` above creates the memory from the first PROCESSED event of the object. The code has a second creator:
an admission request for the object (`admission`). One can be served before the listing event of an existing object
is processed — at the start-up the webhook server is up as soon as the resources are scanned, while the listing can
take long or be retried; a stand-by operator paused by the peering keeps serving webhooks and lists only when it
takes over. Before 755fd2f such a memory said "not noticed by the listing" (`admissionOld`), the listing event found
it, and the object was never resumed in that process. Now it says "not known yet", and the first processed event
decides — so the admission requests, wherever they fall in the object's history, are invisible to the handling. -/

/-- The flag is decided by the first processed event and by nothing else: after `recall` it is never undecided (so
    `_detect_causes` never reads a None), a new or undecided memory takes the event's kind, a decided one is left alone
    — a re-listing does not turn an object first seen through the watch stream into a "noticed" one, nor back. -/
theorem first_event_decides (e : Event) :
    (∀ m, (recall m e).noticed ≠ none) ∧
    (recall none e).noticed = some e.byListing ∧
    (∀ mem, mem.noticed = none → (recall (some mem) e).noticed = some e.byListing) ∧
    (∀ mem b, mem.noticed = some b → recall (some mem) e = mem) := by
  refine ⟨?_, rfl, ?_, ?_⟩
  · intro m
    cases m with
    | none => simp [recall]
    | some mem =>
      cases h : mem.noticed with
      | none => simp [recall, h]
      | some b => simp [recall, h]
  · intro mem h; simp [recall, h]
  · intro mem b h; simp [recall, h]

/-- UNGUARDED: whatever admission requests are served for the object, and whenever (before its first event, between
    two events, after a DELETED event forgot the memory), the handlers invoked event by event are exactly those of
    the history without the requests. Every theorem about `run` in this file is thereby a theorem about `runA`. -/
theorem runA_eq_run (decls : List Decl) (inps : List Inp) :
    ∀ (m : Option Mem) (P : Store), runA decls m P inps = run decls m P (eventsOf inps) := by
  induction inps with
  | nil => intro m P; rfl
  | cons x rest ih =>
    intro m P
    cases x with
    | event e => simp only [runA, eventsOf, run, ih]
    | review c => simp only [runA, eventsOf, ih, run_admission]

/-- any number of admission requests before the object's first processed event -/
def admissions (m : Option Mem) (reqs : List Bool) : Option Mem := reqs.foldl admission m

theorem recall_admissions (reqs : List Bool) :
    ∀ (m : Option Mem) (e : Event), recall (admissions m reqs) e = recall m e := by
  induction reqs with
  | nil => intro m e; rfl
  | cons c rest ih =>
    intro m e
    show recall (admissions (admission m c) rest) e = _
    rw [ih, recall_admission]

theorem step_admissions (decls : List Decl) (reqs : List Bool) :
    ∀ (m : Option Mem) (P : Store) (e : Event), step decls (admissions m reqs) P e = step decls m P e := by
  induction reqs with
  | nil => intro m P e; rfl
  | cons c rest ih =>
    intro m P e
    show step decls (admissions (admission m c) rest) P e = _
    rw [ih, step_admission]

theorem run_admissions (decls : List Decl) (reqs : List Bool) (m : Option Mem) (P : Store) (events : List Event) :
    run decls (admissions m reqs) P events = run decls m P events := by
  cases events with
  | nil => rfl
  | cons e rest => simp only [run, step_admissions]

/-- THE FIRST CLAUSE, UNGUARDED in this respect (was FALSE before 755fd2f: `admitted_first_never_resumed`): an object that
    exists when the operator starts gets the resuming cause at its first processed — listing — event and every matching
    resume handler is selected, whether or not admission requests for it were served first, and however many. -/
theorem eligible_selected_admitted (decls : List Decl) (d : Decl) (hd : d ∈ decls)
    (hini : d.gate.initial = true) (hreason : d.gate.reason = none) (e : Event)
    (hl : e.byListing = true) (hdel : e.deleted = false) (hm : e.marked = false)
    (hold : e.oldAbsent = false) (hdiff : e.diffNonEmpty = false) (hmatch : e.matchF d.id = true)
    (reqs : List Bool) :
    (causeOf (recall (admissions none reqs) e) e).reason = .resume ∧
      d.id ∈ (cfgOf decls (recall (admissions none reqs) e) e).selected := by
  rw [recall_admissions]
  exact eligible_selected decls d hd hini hreason e hl hdel hm hold hdiff hmatch

/-- … and it is invoked in that first cycle, as the first attempt (the hypotheses of `eligible_invoked`, nothing more). -/
theorem eligible_invoked_admitted (decls : List Decl) (d : Decl) (hd : d ∈ decls)
    (hini : d.gate.initial = true) (hreason : d.gate.reason = none) (e : Event)
    (hl : e.byListing = true) (hdel : e.deleted = false) (hm : e.marked = false)
    (hold : e.oldAbsent = false) (hmatch : e.matchF d.id = true)
    (hs : e.suppressed = false) (hlc : e.lifecycle = .allAtOnce)
    (P : C02.Store) (hP : P d.id = none)
    (hto : ∀ t, (e.limits d.id).timeout = some t → 0 < t)
    (hre : ∀ n, (e.limits d.id).retries = some n → 0 < n)
    (reqs : List Bool) :
    (d.id, 0) ∈ (step decls (admissions none reqs) P e).invoked := by
  rw [step_admissions]
  exact (eligible_invoked decls d hd hini hreason e hl hdel hm hold hmatch hs hlc P hP hto hre).1

/-- The other side ("creation never mixes with resuming", and no resuming for what appears later): an object whose
    first PROCESSED event comes from the watch stream (ADDED / MODIFIED) — e.g. an object being created, whose
    UPDATE admission requests may well come before that event — is never resumed in this process, admission requests
    or not: the undecided flag is decided by that event as "not noticed by the listing", for good. -/
theorem watched_first_never_resumed (decls : List Decl) (reqs : List Bool) (e : Event) (rest : List Event) (P : Store)
    (hw : e.byListing = false) (hde : e.deleted = false) (hdel : ∀ e' ∈ rest, e'.deleted = false) :
    ∀ l ∈ run decls (admissions none reqs) P (e :: rest), ∀ i n, (i, n) ∈ l →
      ¬ (∀ d ∈ decls, d.id = i → d.gate.initial = true) := by
  rw [run_admissions]
  intro l hl i n hin hres
  simp only [run, List.mem_cons] at hl
  rcases hl with rfl | hl
  · have := (resume_invoked_only_initial decls none P e i n hin hres).1
    simp [recall, hw] at this
  · have hmem : ∃ mem', (step decls none P e).mem = some mem' ∧ mem'.noticed = some false := by
      unfold step
      by_cases hs : e.suppressed = true
      · simp [hs, hde, recall, hw]
      · simp [hs, hde, recall, hw]
    obtain ⟨mem', hm', hn'⟩ := hmem
    rw [hm'] at hl
    exact not_for_new decls rest mem' _ hn' hdel l hl i n hin hres

/-- REGRESSION (finding F10, the pre-755fd2f admission): after an admission request (other than CREATE) for an object
    the operator had not processed yet, no resuming handler was ever invoked for that object in that process,
    whatever events followed — the listing event included. -/
theorem admitted_first_never_resumed (decls : List Decl) (events : List Event) (P : Store)
    (hdel : ∀ e ∈ events, e.deleted = false) :
    ∃ mem, admissionOld none false = some mem ∧
      ∀ l ∈ run decls (some mem) P events, ∀ i n, (i, n) ∈ l →
        ¬ (∀ d ∈ decls, d.id = i → d.gate.initial = true) :=
  ⟨{ noticed := some false, fullyHandled := false }, rfl,
   not_for_new decls events { noticed := some false, fullyHandled := false } P rfl hdel⟩

/-- The witness (replayed on the real code: corpus/C14/F10_admission_first.json — a regression that must pass now):
    the listing event that gets the eligible object resumed (`eligible_invoked`) does so after an UPDATE admission
    request too; with the admission as it was before 755fd2f it did nothing (a no-op cause). -/
theorem admitted_first_witness :
    let e : Event :=
      { byListing := true, deleted := false, marked := false, blocked := false, oldAbsent := false,
        diffNonEmpty := false, suppressed := false, matchF := fun _ => true,
        limits := fun _ => ⟨none, none⟩, lifecycle := .allAtOnce, now := 3, now1 := 3,
        exec := fun _ _ => { final := true, delay := none, error := false, subrefs := [] } }
    let decls : List Decl := [⟨"r1", ⟨none, true, false⟩⟩]
    runA decls none (fun _ => none) [.event e] = [[("r1", 0)]] ∧
    -- now
    runA decls none (fun _ => none) [.review false, .event e] = [[("r1", 0)]] ∧
    (causeOf (recall (admission none false) e) e).reason = .resume ∧
    -- before 755fd2f
    runAOld decls none (fun _ => none) [.review false, .event e] = [[]] ∧
    (causeOf (recall (admissionOld none false) e) e).reason = .noop ∧
    -- a CREATE request leaves no memory behind, and a request for a known object changes nothing
    admission none true = none ∧
    admission (some { noticed := some true, fullyHandled := false }) false = some { noticed := some true, fullyHandled := false } ∧
    -- the undecided memory is decided by the first processed event: a listing one, or one from the watch stream
    (recall (admission none false) e).noticed = some true ∧
    (recall (admission none false) { e with byListing := false }).noticed = some false := by
  refine ⟨by decide, by decide, by decide, by decide, by decide, rfl, rfl, rfl, rfl⟩

/-! ### At most once per object per process

Since /repo 6c4463d the operator remembers, per object, the resuming handlers that reached a final outcome
in this process while the cycle is still open (`resumed_handlers`), and does not select them again; when the
cycle closes, `fully_handled_once` takes over. The statement therefore no longer leans on the progress
records the object carries: it holds for ANY view of them at every later event. -/

/-- A resuming handler remembered as finished in this process is not selected. -/
theorem resumed_not_selected (decls : List Decl) (mem : Mem) (e : Event) (i : Id)
    (hres : ∀ d ∈ decls, d.id = i → d.gate.initial = true) (hin : i ∈ mem.resumed) :
    i ∉ (cfgOf decls mem e).selected := by
  intro hsel
  simp only [cfgOf, selectedOf, List.mem_map, List.mem_filter, Bool.and_eq_true] at hsel
  obtain ⟨d, ⟨hd, _, hnr⟩, hid⟩ := hsel
  have := hres d hd hid
  rw [hid] at hnr
  simp [this, hin] at hnr

/-- The invariant behind it: the object is fully handled, or the handler is remembered as finished. -/
def Settled (i : Id) (m : Option Mem) : Prop :=
  ∃ mem, m = some mem ∧ (mem.fullyHandled = true ∨ i ∈ mem.resumed)

theorem settled_not_invoked (decls : List Decl) (i : Id)
    (hres : ∀ d ∈ decls, d.id = i → d.gate.initial = true)
    (m : Option Mem) (hs : Settled i m) (P : Store) (e : Event) (n : Nat) :
    (i, n) ∉ (step decls m P e).invoked := by
  obtain ⟨mem, rfl, hor⟩ := hs
  intro hin
  rcases hor with hf | hr
  · have := (resume_invoked_only_initial decls (some mem) P e i n hin hres).2.1
    rw [recall_some_fullyHandled, hf] at this; cases this
  · by_cases hsup : e.suppressed = true
    · rw [step_suppressed _ _ _ _ hsup] at hin; simp at hin
    · have hsup' : e.suppressed = false := by simpa using hsup
      rw [(step_eq decls (some mem) P e hsup').1] at hin
      have hsel := (invoked_selected_awake _ _ e.now e.now1 e.exec
        (selected_sub_owned decls (recall (some mem) e) e) i n hin).1
      exact resumed_not_selected decls (recall (some mem) e) e i hres (by rw [recall_some_resumed]; exact hr) hsel

theorem settled_preserved (decls : List Decl) (i : Id) (m : Option Mem) (hs : Settled i m)
    (P : Store) (e : Event) (hde : e.deleted = false) : Settled i (step decls m P e).mem := by
  obtain ⟨mem, rfl, hor⟩ := hs
  by_cases hsup : e.suppressed = true
  · rw [step_suppressed _ _ _ _ hsup]
    simp only [hde, Bool.false_eq_true, if_false]
    exact ⟨_, rfl, by rw [recall_some_fullyHandled, recall_some_resumed]; exact hor⟩
  · have hsup' : e.suppressed = false := by simpa using hsup
    rw [(step_eq decls (some mem) P e hsup').2.2]
    simp only [hde, Bool.false_eq_true, if_false]
    refine ⟨_, rfl, ?_⟩
    rcases hor with hf | hr
    · left; simp [recall_some_fullyHandled, hf]
    · by_cases hc : (passOf decls (recall (some mem) e) e P).closed = true
      · left; simp [hc]
      · right; simp [hc, recall_some_resumed, hr]

/-- An invoked handler whose outcome is final is among the pass's final outcomes. -/
theorem invoked_final_in_finals (cfg : Cfg) (P : Store) (now now1 : Tick) (exec : Id → Nat → Outcome)
    (i : Id) (n : Nat) (hinv : (i, n) ∈ (cycle cfg P now now1 exec).invoked) (hfin : (exec i n).final = true) :
    i ∈ cycleFinals cfg P now exec := by
  by_cases hr : handlerReasons.contains cfg.reason = true
  · by_cases he : cfg.selected.isEmpty = true
    · rw [cycle_no_handlers cfg P now now1 exec hr he] at hinv; simp at hinv
    · have he' : cfg.selected.isEmpty = false := by simpa using he
      rw [cycle_main cfg P now now1 exec hr he'] at hinv
      simp only at hinv
      unfold cycleFinals
      simp only [hr, he', Bool.not_true, Bool.or_self, Bool.false_eq_true, if_false]
      have hpre : preState cfg P now =
          (if hasExtras (withHandlers (fromStorage P cfg.owned) cfg.selected cfg.reason now) (known cfg) cfg.reason
           then repurpose (withHandlers (fromStorage P cfg.owned) cfg.selected cfg.reason now) cfg.selected cfg.reason
           else withHandlers (fromStorage P cfg.owned) cfg.selected cfg.reason now) := rfl
      rw [← hpre]
      simp only [execOnce, List.mem_map, List.mem_filter] at hinv
      obtain ⟨j, ⟨hjpl, hjok⟩, hjeq⟩ := hinv
      simp only [Prod.mk.injEq] at hjeq
      obtain ⟨rfl, rfl⟩ := hjeq
      simp only [List.mem_filter]
      refine ⟨hjpl, ?_⟩
      cases hst : preState cfg P now j with
      | none => simp [hst] at hjok
      | some hs =>
        simp only [hst, Bool.not_eq_true'] at hjok
        simp only [hjok, Bool.false_eq_true, if_false]
        simpa [retriesOf, hst] using hfin
  · have hr' : handlerReasons.contains cfg.reason = false := by simpa using hr
    rw [cycle_not_handler_reason cfg P now now1 exec hr'] at hinv
    simp at hinv

/-- THE PROPERTY'S SECOND CLAUSE, unguarded: after the step in which a resume handler reached a final
    outcome (success or permanent failure), it is never invoked again for this object in this process —
    whatever the later events are (re-listings, reconnects, edits, label flips, deletion marks) and
    WHATEVER VIEW of the stored progress each of them carries (stale bodies after the consistency
    timeout, lost patches, records purged with a superseded cause). -/
theorem completed_never_again (decls : List Decl) (d : Decl) (hd : d ∈ decls)
    (hres : ∀ d' ∈ decls, d'.id = d.id → d'.gate.initial = true)
    (m : Option Mem) (P : Store) (e : Event) (hde : e.deleted = false) (n : Nat)
    (hinv : (d.id, n) ∈ (step decls m P e).invoked) (hfin : (e.exec d.id n).final = true)
    (rest : List (Event × Store)) (hdel : ∀ ep ∈ rest, ep.1.deleted = false) :
    ∀ l ∈ runViews decls (step decls m P e).mem rest, ∀ k, (d.id, k) ∉ l := by
  -- after the completing step the handler is settled
  have hset : Settled d.id (step decls m P e).mem := by
    have hsup : e.suppressed = false := by
      cases hs : e.suppressed
      · rfl
      · rw [step_suppressed _ _ _ _ hs] at hinv; simp at hinv
    rw [(step_eq decls m P e hsup).1] at hinv
    rw [(step_eq decls m P e hsup).2.2]
    simp only [hde, Bool.false_eq_true, if_false]
    refine ⟨_, rfl, ?_⟩
    by_cases hc : (passOf decls (recall m e) e P).closed = true
    · left; simp [hc]
    · right
      simp only [hc, Bool.false_eq_true, if_false, finalsOf, List.mem_append, List.mem_filter]
      right
      refine ⟨invoked_final_in_finals _ _ e.now e.now1 e.exec d.id n hinv hfin, ?_⟩
      simp only [isInitial, List.any_eq_true]
      exact ⟨d, hd, by simp [hres d hd rfl]⟩
  -- and stays settled, hence never invoked, along any continuation
  generalize (step decls m P e).mem = m' at hset
  induction rest generalizing m' with
  | nil => intro l hl; simp [runViews] at hl
  | cons ep rest ih =>
    obtain ⟨e', P'⟩ := ep
    intro l hl k
    simp only [runViews, List.mem_cons] at hl
    rcases hl with rfl | hl
    · exact settled_not_invoked decls d.id hres m' hset P' e' k
    · exact ih (fun ep hep => hdel ep (by simp [hep])) _
        (settled_preserved decls d.id m' hset P' e' (hdel (e', P') (by simp))) l hl k

/-- `run` (every event sees what the previous pass wrote) is one instance of `runViews`. -/
theorem run_eq_runViews (decls : List Decl) :
    ∀ (events : List Event) (m : Option Mem) (P : Store),
      ∃ views : List (Event × Store), views.map (·.1) = events ∧ run decls m P events = runViews decls m views := by
  intro events
  induction events with
  | nil => intro m P; exact ⟨[], rfl, rfl⟩
  | cons e rest ih =>
    intro m P
    obtain ⟨vs, hv, hr⟩ := ih (step decls m P e).mem (step decls m P e).P
    exact ⟨(e, P) :: vs, by simp [hv], by simp [run, runViews, hr]⟩

/-- … in particular along the continuous history. -/
theorem completed_never_again_run (decls : List Decl) (d : Decl) (hd : d ∈ decls)
    (hres : ∀ d' ∈ decls, d'.id = d.id → d'.gate.initial = true)
    (m : Option Mem) (P : Store) (e : Event) (hde : e.deleted = false) (n : Nat)
    (hinv : (d.id, n) ∈ (step decls m P e).invoked) (hfin : (e.exec d.id n).final = true)
    (rest : List Event) (hdel : ∀ e' ∈ rest, e'.deleted = false) :
    ∀ l ∈ run decls (step decls m P e).mem (step decls m P e).P rest, ∀ k, (d.id, k) ∉ l := by
  obtain ⟨vs, hv, hr⟩ := run_eq_runViews decls rest (step decls m P e).mem (step decls m P e).P
  rw [hr]
  refine completed_never_again decls d hd hres m P e hde n hinv hfin vs ?_
  intro ep hep
  exact hdel ep.1 (by rw [← hv]; exact List.mem_map_of_mem hep)

/-- Regression of the repaired finding F9: `r1` (label-filtered) completes, its sibling `r2` is still
    retrying; a label+spec edit makes `r1` stop matching while the reason turns to *update*, so `r1`'s
    finished record is purged with the superseded progress; the label flips back — and `r1` is NOT
    invoked a second time (before 6c4463d the last pass was `[("r1", 0), ("r2", 2)]`). -/
theorem flipflop_regression :
    let ok : Outcome := { final := true, delay := none, error := false, subrefs := [] }
    let again : Outcome := { final := false, delay := some 0, error := true, subrefs := [] }
    let ev (diff m1 : Bool) : Event :=
      { byListing := false, deleted := false, marked := false, blocked := false, oldAbsent := false,
        diffNonEmpty := diff, suppressed := false,
        matchF := fun i => if i = "r1" then m1 else true,
        limits := fun _ => ⟨none, none⟩, lifecycle := .allAtOnce, now := 0, now1 := 0,
        exec := fun i _ => if i = "r2" then again else ok }
    run [⟨"r1", ⟨none, true, false⟩⟩, ⟨"r2", ⟨none, true, false⟩⟩]
        (some { noticed := some true, fullyHandled := false }) (fun _ => none)
        [ev false true, ev true false, ev false true]
      = [[("r1", 0), ("r2", 0)], [("r2", 1)], [("r2", 2)]] := by decide

/-- The same for a stale view (the repaired N1): the second event carries a body WITHOUT the record of
    the just-finished `r1` (an older version processed after the consistency timeout): `r1` is not repeated. -/
theorem stale_view_regression :
    let ok : Outcome := { final := true, delay := none, error := false, subrefs := [] }
    let again : Outcome := { final := false, delay := some 0, error := true, subrefs := [] }
    let ev : Event :=
      { byListing := false, deleted := false, marked := false, blocked := false, oldAbsent := false,
        diffNonEmpty := true, suppressed := false, matchF := fun _ => true,
        limits := fun _ => ⟨none, none⟩, lifecycle := .allAtOnce, now := 0, now1 := 0,
        exec := fun i _ => if i = "r2" then again else ok }
    runViews [⟨"r1", ⟨none, true, false⟩⟩, ⟨"r2", ⟨none, true, false⟩⟩]
        (some { noticed := some true, fullyHandled := false })
        [(ev, fun _ => none), (ev, fun _ => none), (ev, fun _ => none)]
      = [[("r1", 0), ("r2", 0)], [("r2", 0)], [("r2", 0)]] := by decide

-- non-vacuity of `completed_never_again`: the hypotheses hold for "r1" in the first step of the history above
example :
    let ok : Outcome := { final := true, delay := none, error := false, subrefs := [] }
    let again : Outcome := { final := false, delay := some 0, error := true, subrefs := [] }
    let ev : Event :=
      { byListing := false, deleted := false, marked := false, blocked := false, oldAbsent := false,
        diffNonEmpty := true, suppressed := false, matchF := fun _ => true,
        limits := fun _ => ⟨none, none⟩, lifecycle := .allAtOnce, now := 0, now1 := 0,
        exec := fun i _ => if i = "r2" then again else ok }
    let decls : List Decl := [⟨"r1", ⟨none, true, false⟩⟩, ⟨"r2", ⟨none, true, false⟩⟩]
    let s := step decls (some { noticed := some true, fullyHandled := false }) (fun _ => none) ev
    ("r1", 0) ∈ s.invoked ∧ (ev.exec "r1" 0).final = true ∧ s.closed = false ∧
      s.mem = some { noticed := some true, fullyHandled := false, resumed := ["r1"] } := by
  refine ⟨by decide, by decide, by decide, by decide⟩

-- non-vacuity of `eligible_invoked`: a listed, handled-before, unchanged object with one resume handler
example :
    let e : Event :=
      { byListing := true, deleted := false, marked := false, blocked := false, oldAbsent := false,
        diffNonEmpty := false, suppressed := false, matchF := fun _ => true,
        limits := fun _ => ⟨some 5, some 3⟩, lifecycle := .allAtOnce, now := 7, now1 := 7,
        exec := fun _ _ => { final := true, delay := none, error := false, subrefs := [] } }
    (step [⟨"r", ⟨none, true, false⟩⟩] none (fun _ => none) e).invoked = [("r", 0)] ∧
    (step [⟨"r", ⟨none, true, false⟩⟩] none (fun _ => none) e).closed = true := by decide

/-! ### Cycles cut short by an exception: results the framework cannot deliver, patches that do not arrive

`process_changing_cause` notes in the memory which resuming handlers have finished, THEN delivers the handlers' results
into the patch (since /repo 4eb6f10; the other way round before: finding F11), and the patch is sent after that
(`Model/C14_Results.lean`). The at-most-once clause survives every failure after the noting — whatever the results,
whatever is lost; with the old order exactly the failures of the delivery broke it. -/

/-- After the step in which a resuming handler reached a final outcome, it is settled in the memory that step leaves. -/
theorem settled_after_completion (decls : List Decl) (d : Decl) (hd : d ∈ decls)
    (hres : ∀ d' ∈ decls, d'.id = d.id → d'.gate.initial = true)
    (m : Option Mem) (P : Store) (e : Event) (hde : e.deleted = false) (n : Nat)
    (hinv : (d.id, n) ∈ (step decls m P e).invoked) (hfin : (e.exec d.id n).final = true) :
    Settled d.id (step decls m P e).mem := by
  have hsup : e.suppressed = false := by
    cases hs : e.suppressed
    · rfl
    · rw [step_suppressed _ _ _ _ hs] at hinv; simp at hinv
  rw [(step_eq decls m P e hsup).1] at hinv
  rw [(step_eq decls m P e hsup).2.2]
  simp only [hde, Bool.false_eq_true, if_false]
  refine ⟨_, rfl, ?_⟩
  by_cases hc : (passOf decls (recall m e) e P).closed = true
  · left; simp [hc]
  · right
    simp only [hc, Bool.false_eq_true, if_false, finalsOf, List.mem_append, List.mem_filter]
    right
    refine ⟨invoked_final_in_finals _ _ e.now e.now1 e.exec d.id n hinv hfin, ?_⟩
    simp only [isInitial, List.any_eq_true]
    exact ⟨d, hd, by simp [hres d hd rfl]⟩

/-- A settled handler stays settled through a cycle however it ends (through, patch lost, cut in the delivery of the
    results — in either order of the bookkeeping). -/
theorem settled_preserved_with (old : Bool) (raises : List ResultShape → Bool) (decls : List Decl) (i : Id) (m : Option Mem)
    (hs : Settled i m) (P : Store) (x : EventR) (hde : x.e.deleted = false) :
    Settled i (stepWith old raises decls m P x.e x.rs x.patchLost).mem := by
  rcases stepWith_mem old raises decls m P x.e x.rs x.patchLost with h | ⟨h, _, _⟩
  · rw [h]; exact settled_preserved decls i m hs P x.e hde
  · rw [h]
    obtain ⟨mem, rfl, hor⟩ := hs
    cases old
    · simp only [Bool.false_eq_true, if_false, cutAtDelivery_mem, hde]
      refine ⟨_, rfl, ?_⟩
      rcases hor with hf | hr
      · left; simp [recall_some_fullyHandled, hf]
      · right; simp [recall_some_resumed, hr]
    · simp only [if_true, cutBeforeMemoryOld, hde, Bool.false_eq_true, if_false]
      exact ⟨_, rfl, by rw [recall_some_fullyHandled, recall_some_resumed]; exact hor⟩

/-- After the pass in which a resuming handler reached a final outcome it is settled — ALSO when the delivery of the
    pass's results raised (the order of /repo 4eb6f10: the handler is noted before the delivery). -/
theorem settled_after_completion_cut (decls : List Decl) (d : Decl) (hd : d ∈ decls)
    (hres : ∀ d' ∈ decls, d'.id = d.id → d'.gate.initial = true)
    (m : Option Mem) (P : Store) (e : Event) (hde : e.deleted = false) (hsup : e.suppressed = false) (n : Nat)
    (hinv : (d.id, n) ∈ (step decls m P e).invoked) (hfin : (e.exec d.id n).final = true) :
    Settled d.id (cutAtDelivery decls m P e).mem := by
  rw [(step_eq decls m P e hsup).1] at hinv
  rw [cutAtDelivery_mem]
  simp only [hde, Bool.false_eq_true, if_false]
  refine ⟨_, rfl, ?_⟩
  right
  simp only [finalsOf, List.mem_append, List.mem_filter]
  right
  refine ⟨invoked_final_in_finals _ _ e.now e.now1 e.exec d.id n hinv hfin, ?_⟩
  simp only [isInitial, List.any_eq_true]
  exact ⟨d, hd, by simp [hres d hd rfl]⟩

/-- THE SECOND CLAUSE WITH FAILING CYCLES, for either order of the bookkeeping, under one hypothesis: if the delivery of
    the results of the pass in which a resume handler reached its final outcome did not raise (`hok`), the handler is never
    invoked again for this object in this process — whatever the handlers return later, whichever later cycles are cut,
    whichever patches are lost (the completing pass's own included). For ANY rule `raises`. (Before /repo 4eb6f10 this was
    all that held: `uncopyable_result_old_order_witness`.) -/
theorem completed_never_again_results (old : Bool) (raises : List ResultShape → Bool) (decls : List Decl) (d : Decl) (hd : d ∈ decls)
    (hres : ∀ d' ∈ decls, d'.id = d.id → d'.gate.initial = true)
    (m : Option Mem) (P : Store) (x : EventR) (hde : x.e.deleted = false) (n : Nat)
    (hinv : (d.id, n) ∈ (stepWith old raises decls m P x.e x.rs x.patchLost).invoked)
    (hfin : (x.e.exec d.id n).final = true) (hok : raises x.rs = false)
    (rest : List EventR) (hdel : ∀ y ∈ rest, y.e.deleted = false) :
    ∀ l ∈ runWith old raises decls (stepWith old raises decls m P x.e x.rs x.patchLost).mem
            (stepWith old raises decls m P x.e x.rs x.patchLost).P rest, ∀ k, (d.id, k) ∉ l := by
  rw [stepWith_invoked] at hinv
  have hset : Settled d.id (stepWith old raises decls m P x.e x.rs x.patchLost).mem := by
    rw [stepWith_mem_of_not_raises old raises decls m P x.e x.rs x.patchLost hok]
    exact settled_after_completion decls d hd hres m P x.e hde n hinv hfin
  generalize (stepWith old raises decls m P x.e x.rs x.patchLost).mem = m' at hset
  generalize (stepWith old raises decls m P x.e x.rs x.patchLost).P = P'
  induction rest generalizing m' P' with
  | nil => intro l hl; simp [runWith] at hl
  | cons y rest ih =>
    intro l hl k
    simp only [runWith, List.mem_cons] at hl
    rcases hl with rfl | hl
    · rw [stepWith_invoked]; exact settled_not_invoked decls d.id hres m' hset P' y.e k
    · exact ih (fun z hz => hdel z (by simp [hz])) _
        (settled_preserved_with old raises decls d.id m' hset P' y (hdel y (by simp))) _ l hl k

/-- THE SECOND CLAUSE WITH FAILING CYCLES, UNGUARDED (the code as it is since /repo 4eb6f10; was FALSE before:
    `uncopyable_result_old_order_witness`): for EVERY result the handlers of the completing pass return — copyable or not,
    a mapping or not, JSON or not — and for ANY rule `raises` of what makes the delivery raise (so also for the seeded
    variant C14f on this tree), a resume handler that reached its final outcome is never invoked again for this object in
    this process: whatever the later events, results, cuts and lost patches are. -/
theorem completed_never_again_any_result (raises : List ResultShape → Bool) (decls : List Decl) (d : Decl) (hd : d ∈ decls)
    (hres : ∀ d' ∈ decls, d'.id = d.id → d'.gate.initial = true)
    (m : Option Mem) (P : Store) (x : EventR) (hde : x.e.deleted = false) (n : Nat)
    (hinv : (d.id, n) ∈ (stepWith false raises decls m P x.e x.rs x.patchLost).invoked)
    (hfin : (x.e.exec d.id n).final = true)
    (rest : List EventR) (hdel : ∀ y ∈ rest, y.e.deleted = false) :
    ∀ l ∈ runWith false raises decls (stepWith false raises decls m P x.e x.rs x.patchLost).mem
            (stepWith false raises decls m P x.e x.rs x.patchLost).P rest, ∀ k, (d.id, k) ∉ l := by
  rw [stepWith_invoked] at hinv
  have hset : Settled d.id (stepWith false raises decls m P x.e x.rs x.patchLost).mem := by
    rcases stepWith_mem false raises decls m P x.e x.rs x.patchLost with h | ⟨h, hsup, _⟩
    · rw [h]; exact settled_after_completion decls d hd hres m P x.e hde n hinv hfin
    · rw [h]; exact settled_after_completion_cut decls d hd hres m P x.e hde hsup n hinv hfin
  generalize (stepWith false raises decls m P x.e x.rs x.patchLost).mem = m' at hset
  generalize (stepWith false raises decls m P x.e x.rs x.patchLost).P = P'
  induction rest generalizing m' P' with
  | nil => intro l hl; simp [runWith] at hl
  | cons y rest ih =>
    intro l hl k
    simp only [runWith, List.mem_cons] at hl
    rcases hl with rfl | hl
    · rw [stepWith_invoked]; exact settled_not_invoked decls d.id hres m' hset P' y.e k
    · exact ih (fun z hz => hdel z (by simp [hz])) _
        (settled_preserved_with false raises decls d.id m' hset P' y (hdel y (by simp))) _ l hl k

/-- … in particular for the code as it is (`stepR` / `runR`). -/
theorem completed_never_again_any_result_run (decls : List Decl) (d : Decl) (hd : d ∈ decls)
    (hres : ∀ d' ∈ decls, d'.id = d.id → d'.gate.initial = true)
    (m : Option Mem) (P : Store) (x : EventR) (hde : x.e.deleted = false) (n : Nat)
    (hinv : (d.id, n) ∈ (stepR decls m P x.e x.rs x.patchLost).invoked)
    (hfin : (x.e.exec d.id n).final = true)
    (rest : List EventR) (hdel : ∀ y ∈ rest, y.e.deleted = false) :
    ∀ l ∈ runR decls (stepR decls m P x.e x.rs x.patchLost).mem (stepR decls m P x.e x.rs x.patchLost).P rest,
      ∀ k, (d.id, k) ∉ l :=
  completed_never_again_any_result deliveryRaises decls d hd hres m P x hde n hinv hfin rest hdel

/-- REGRESSION, universally, about the order before /repo 4eb6f10: a cycle cut before ANY bookkeeping is repeated IN FULL —
    the same handlers, the same attempt numbers — by the same event seen again, finished resuming handlers included. -/
theorem cut_before_memory_repeats_old (decls : List Decl) (m : Option Mem) (P : Store) (e : Event) (hde : e.deleted = false) :
    (step decls (cutBeforeMemoryOld decls m P e).mem (cutBeforeMemoryOld decls m P e).P e).invoked = (step decls m P e).invoked := by
  simp only [cutBeforeMemoryOld, hde, Bool.false_eq_true, if_false]
  rw [step_recalled]

/-- What is still true of a cycle cut in the delivery (the code as it is): nothing of the pass reaches the object, so the
    handlers that are NOT resuming ones — here the update handler `u`, run beside the resuming `r` for an object found
    changed by the listing — are invoked again, with the same attempt number, by the same event seen again; the finished
    resuming handler is not (at-most-once is promised for resume handlers only; repeating the others is C02/C03's matter). -/
theorem cut_at_delivery_sibling_repeats_witness :
    let e : Event :=
      { byListing := true, deleted := false, marked := false, blocked := false, oldAbsent := false,
        diffNonEmpty := true, suppressed := false, matchF := fun _ => true,
        limits := fun _ => ⟨none, none⟩, lifecycle := .allAtOnce, now := 0, now1 := 0,
        exec := fun _ _ => { final := true, delay := none, error := false, subrefs := [] } }
    let lock : ResultShape := { isNone := false, isMapping := false, copyable := false, jsonRaw := false, jsonPatch := false }
    runR [⟨"u", ⟨some .update, false, false⟩⟩, ⟨"r", ⟨none, true, false⟩⟩] none (fun _ => none)
        [⟨e, [lock], false⟩, ⟨e, [lock], false⟩, ⟨e, [lock], false⟩]
      = [[("u", 0), ("r", 0)], [("u", 0)], [("u", 0)]] := by decide

/-- REGRESSION of the repaired finding F11 (the order before /repo 4eb6f10): a resume handler that returns something
    that is not a mapping and that `copy.deepcopy` rejects (a lock, a generator, a coroutine — the forgotten `await`)
    completed again at every later event of the object; with the order of the code as it is: once.
    Replayed on the real code on every run (corpus/C14/F11_uncopyable_result.json: must pass now). -/
theorem uncopyable_result_old_order_witness :
    let e : Event :=
      { byListing := true, deleted := false, marked := false, blocked := false, oldAbsent := false,
        diffNonEmpty := false, suppressed := false, matchF := fun _ => true,
        limits := fun _ => ⟨none, none⟩, lifecycle := .allAtOnce, now := 0, now1 := 0,
        exec := fun _ _ => { final := true, delay := none, error := false, subrefs := [] } }
    let lock : ResultShape := { isNone := false, isMapping := false, copyable := false, jsonRaw := false, jsonPatch := false }
    let h : List EventR := [⟨e, [lock], false⟩, ⟨e, [lock], false⟩, ⟨e, [lock], false⟩]
    runROld [⟨"r", ⟨none, true, false⟩⟩] none (fun _ => none) h = [[("r", 0)], [("r", 0)], [("r", 0)]] ∧
    runR [⟨"r", ⟨none, true, false⟩⟩] none (fun _ => none) h = [[("r", 0)], [], []] := by decide

/-- The seeded variant C14f (every result normalised through `json.loads(json.dumps(…))` in `deliver_results`) on the tree
    it was written for (before 4eb6f10): a result that Python copies but JSON cannot write down (a dict with a datetime in
    it) repeated the finished handler at every later event, where that tree ran it once. On the code as it is the variant
    no longer repeats it (`completed_never_again_any_result` holds for any `raises`): third conjunct. -/
theorem json_normalised_variant_old_order_witness :
    let e : Event :=
      { byListing := true, deleted := false, marked := false, blocked := false, oldAbsent := false,
        diffNonEmpty := false, suppressed := false, matchF := fun _ => true,
        limits := fun _ => ⟨none, none⟩, lifecycle := .allAtOnce, now := 0, now1 := 0,
        exec := fun _ _ => { final := true, delay := none, error := false, subrefs := [] } }
    let dt : ResultShape := { isNone := false, isMapping := true, copyable := true, jsonRaw := false, jsonPatch := false }
    let h : List EventR := [⟨e, [dt], false⟩, ⟨e, [dt], false⟩, ⟨e, [dt], false⟩]
    runJsonOld [⟨"r", ⟨none, true, false⟩⟩] none (fun _ => none) h = [[("r", 0)], [("r", 0)], [("r", 0)]] ∧
    runROld [⟨"r", ⟨none, true, false⟩⟩] none (fun _ => none) h = [[("r", 0)], [], []] ∧
    runJson [⟨"r", ⟨none, true, false⟩⟩] none (fun _ => none) h = [[("r", 0)], [], []] := by decide

-- non-vacuity of `completed_never_again_any_result`: the uncopyable result, cut in the delivery — the handler is noted
example :
    let e : Event :=
      { byListing := true, deleted := false, marked := false, blocked := false, oldAbsent := false,
        diffNonEmpty := false, suppressed := false, matchF := fun _ => true,
        limits := fun _ => ⟨none, none⟩, lifecycle := .allAtOnce, now := 0, now1 := 0,
        exec := fun _ _ => { final := true, delay := none, error := false, subrefs := [] } }
    let lock : ResultShape := { isNone := false, isMapping := false, copyable := false, jsonRaw := false, jsonPatch := false }
    let s := stepR [⟨"r", ⟨none, true, false⟩⟩] none (fun _ => none) e [lock] false
    ("r", 0) ∈ s.invoked ∧ (e.exec "r" 0).final = true ∧ deliveryRaises [lock] = true ∧
      s.mem = some { noticed := some true, fullyHandled := false, resumed := ["r"] } := by
  refine ⟨by decide, by decide, by decide, by decide⟩

-- non-vacuity of `completed_never_again_results`: the datetime-in-a-dict result, patch lost on the wire
example :
    let e : Event :=
      { byListing := true, deleted := false, marked := false, blocked := false, oldAbsent := false,
        diffNonEmpty := false, suppressed := false, matchF := fun _ => true,
        limits := fun _ => ⟨none, none⟩, lifecycle := .allAtOnce, now := 0, now1 := 0,
        exec := fun _ _ => { final := true, delay := none, error := false, subrefs := [] } }
    let dt : ResultShape := { isNone := false, isMapping := true, copyable := true, jsonRaw := false, jsonPatch := false }
    let s := stepR [⟨"r", ⟨none, true, false⟩⟩] none (fun _ => none) e [dt] false
    ("r", 0) ∈ s.invoked ∧ (e.exec "r" 0).final = true ∧ deliveryRaises [dt] = false ∧ wireRaises [dt] = true ∧
      s.mem = some { noticed := some true, fullyHandled := true, resumed := [] } := by
  refine ⟨by decide, by decide, by decide, by decide, by decide⟩

/-! ### One container for all the objects of the operator (seed C14h)

`inventory.ResourceMemories` is ONE dictionary per operator process, shared by every kind and namespace served; an
object's memory is found by `_build_key` and by nothing else. The theorems above are about one object's own history;
these carry them over to the operator process as a whole: whatever is processed for the OTHER objects, whenever, an
object's own history reads as if it were alone. -/

/-- PROJECTION, unguarded: in any history of the whole operator process — the events of all its objects interleaved in
    any way, every one with its own view of the stored progress — what is invoked for the object remembered under `k`
    is what the per-object model (`runViews`) invokes on that object's own events, from the memory the container had
    for it at the beginning. The other objects (other kinds, namespaces, alike-named or not, re-created, deleted,
    re-listed) do not show. -/
theorem crowd_projection (declsOf : String → List Decl) (k : String) :
    ∀ (as : List Arrival) (M : Memories),
      invokedOf k (runAll declsOf M as) = runViews (declsOf k) (M.get k) (viewsOf k as) := by
  intro as
  induction as with
  | nil => intro M; rfl
  | cons a rest ih =>
    intro M
    by_cases hk : (buildKey a.obj == k) = true
    · have hk' : buildKey a.obj = k := by simpa using hk
      simp only [runAll, stepAt, invokedOf, viewsOf, List.filter_cons, hk, if_true, List.map_cons, runViews]
      rw [hk']
      congr 1
      have := ih (M.put k (step (declsOf k) (M.get k) a.P a.e).mem)
      simp only [invokedOf, viewsOf, get_put_same] at this
      rw [← hk'] at this ⊢
      exact this
    · have hk' : (buildKey a.obj == k) = false := by simpa using hk
      have hkk : (k == buildKey a.obj) = false := by
        cases hh : (k == buildKey a.obj)
        · rfl
        · have : k = buildKey a.obj := by simpa using hh
          rw [this] at hk'; simp at hk'
      simp only [runAll, stepAt, invokedOf, viewsOf, List.filter_cons, hk', Bool.false_eq_true, if_false]
      have := ih (M.put (buildKey a.obj) (step (declsOf (buildKey a.obj)) (M.get (buildKey a.obj)) a.P a.e).mem)
      simp only [invokedOf, viewsOf, get_put_other _ _ _ _ hkk] at this
      exact this

/-- THE SECOND CLAUSE FOR THE WHOLE OPERATOR PROCESS, unguarded: after the processed event in which a resume handler
    reached a final outcome for an object, it is never invoked again for that object in this process — whatever is
    processed afterwards for this object (short of its DELETED event) AND FOR ANY OTHER OBJECT of the operator, of any
    kind, namespace and name, their deletions and re-creations included, in any interleaving. -/
theorem completed_never_again_crowd (declsOf : String → List Decl) (M : Memories) (a : Arrival) (d : Decl)
    (hd : d ∈ declsOf (buildKey a.obj))
    (hres : ∀ d' ∈ declsOf (buildKey a.obj), d'.id = d.id → d'.gate.initial = true)
    (hde : a.e.deleted = false) (n : Nat)
    (hinv : (d.id, n) ∈ (stepAt declsOf M a).2) (hfin : (a.e.exec d.id n).final = true)
    (rest : List Arrival) (hdel : ∀ b ∈ rest, buildKey b.obj = buildKey a.obj → b.e.deleted = false) :
    ∀ l ∈ invokedOf (buildKey a.obj) (runAll declsOf (stepAt declsOf M a).1 rest), ∀ j, (d.id, j) ∉ l := by
  rw [crowd_projection]
  simp only [stepAt, get_put_same]
  refine completed_never_again (declsOf (buildKey a.obj)) d hd hres (M.get (buildKey a.obj)) a.P a.e hde n hinv hfin _ ?_
  intro ep hep
  simp only [viewsOf, List.mem_map, List.mem_filter] at hep
  obtain ⟨b, ⟨hb, hbk⟩, rfl⟩ := hep
  exact hdel b hb (by simpa using hbk)

/-- … and nothing at all once the object is fully handled (re-listings of its own kind or of any other, reconnects,
    later changes, namesakes coming and going): the whole-process form of `after_fully_handled_never`'s premise is kept
    by the container — the memory found for the object is the one its last event left. -/
theorem memory_kept_across_others (declsOf : String → List Decl) (M : Memories) (a : Arrival) (k : String)
    (h : (k == buildKey a.obj) = false) : ((stepAt declsOf M a).1).get k = M.get k := by
  simp only [stepAt, get_put_other _ _ _ _ h]

/-- The changed variant (seed C14h: an index (namespace, name) → latest key; remembering a NEW key drops the memory
    kept under the same name): FAILS the clause. A KopfExample and a KopfSibling named alike in one namespace, both
    handled before; the operator starts (both listed: each resumed once), then each kind is re-listed on its own:
    the resume handlers run to completion again and again. The container as it is (`runAll`) resumes each once.
    (Replayed on the real code: corpus/C14/H1_two_kinds_named_alike_relisted.json must pass.) -/
theorem namesake_index_variant_witness :
    let ok : Outcome := { final := true, delay := none, error := false, subrefs := [] }
    let e : Event :=
      { byListing := true, deleted := false, marked := false, blocked := false, oldAbsent := false,
        diffNonEmpty := false, suppressed := false, matchF := fun _ => true,
        limits := fun _ => ⟨none, none⟩, lifecycle := .allAtOnce, now := 0, now1 := 0, exec := fun _ _ => ok }
    let parent : Ident := ⟨some "uid-1", some "KopfExample", some "kopf.dev/v1", some "webshop", some "ns", none⟩
    let child : Ident := ⟨some "uid-2", some "KopfSibling", some "kopf.dev/v1", some "webshop", some "ns", none⟩
    let declsOf : String → List Decl := fun k => if k = "uid-1" then [⟨"r0", ⟨none, true, false⟩⟩] else [⟨"x0", ⟨none, true, false⟩⟩]
    let history : List Arrival := [⟨parent, fun _ => none, e⟩, ⟨child, fun _ => none, e⟩,
                                   ⟨parent, fun _ => none, e⟩, ⟨child, fun _ => none, e⟩, ⟨parent, fun _ => none, e⟩]
    runAll declsOf [] history
      = [("uid-1", [("r0", 0)]), ("uid-2", [("x0", 0)]), ("uid-1", []), ("uid-2", []), ("uid-1", [])] ∧
    runAllN nsName declsOf ⟨[], []⟩ history
      = [("uid-1", [("r0", 0)]), ("uid-2", [("x0", 0)]), ("uid-1", [("r0", 0)]), ("uid-2", [("x0", 0)]), ("uid-1", [("r0", 0)])] ∧
    -- with distinct names the variant behaves
    runAllN nsName declsOf ⟨[], []⟩ (history.map (fun a => if a.obj.uid = some "uid-2" then { a with obj := { a.obj with name := some "webshop-db" } } else a))
      = [("uid-1", [("r0", 0)]), ("uid-2", [("x0", 0)]), ("uid-1", []), ("uid-2", []), ("uid-1", [])] := by
  refine ⟨by decide, by decide, by decide⟩

-- non-vacuity of `completed_never_again_crowd`: the first event of the history above meets the hypotheses
example :
    let ok : Outcome := { final := true, delay := none, error := false, subrefs := [] }
    let e : Event :=
      { byListing := true, deleted := false, marked := false, blocked := false, oldAbsent := false,
        diffNonEmpty := false, suppressed := false, matchF := fun _ => true,
        limits := fun _ => ⟨none, none⟩, lifecycle := .allAtOnce, now := 0, now1 := 0, exec := fun _ _ => ok }
    let parent : Ident := ⟨some "uid-1", some "KopfExample", some "kopf.dev/v1", some "webshop", some "ns", none⟩
    let declsOf : String → List Decl := fun _ => [⟨"r0", ⟨none, true, false⟩⟩]
    ("r0", 0) ∈ (stepAt declsOf [] ⟨parent, fun _ => none, e⟩).2 ∧ (e.exec "r0" 0).final = true ∧
      buildKey parent = "uid-1" ∧
      -- objects without a uid are kept apart by kind, version, name, namespace and creation time
      buildKey ⟨none, some "ComponentStatus", some "v1", some "scheduler", none, none⟩ = "ComponentStatus//v1//scheduler//-//-" := by
  refine ⟨by decide, by decide, by decide, by decide⟩

end Kopf.C14
