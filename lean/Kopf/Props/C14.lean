/-
  C14 — resume handlers run once per object per operator process. Property theorems only.
-/
import Kopf.Model.C14_Resume
import Kopf.Lemmas.C14_Resume
namespace Kopf.C14
open Kopf Kopf.C02

theorem selected_sub_owned (decls : List Decl) (mem : Mem) (e : Event) :
    ∀ i ∈ (cfgOf decls mem e).selected, i ∈ (cfgOf decls mem e).owned := by
  intro i hi
  simp only [cfgOf, selectedOf, List.mem_map, List.mem_filter] at hi ⊢
  obtain ⟨d, ⟨hd, _⟩, rfl⟩ := hi
  exact ⟨d, hd, rfl⟩

/-- Whatever a step invokes passed the gate and the filters for the cause of that step. -/
theorem invoked_gated (decls : List Decl) (m : Option Mem) (P : Store) (e : Event) (i : Id) (n : Nat)
    (h : (i, n) ∈ (step decls m P e).invoked) :
    ∃ d ∈ decls, d.id = i ∧ C05.gate d.gate (causeOf (recall m e) e) = true ∧ e.matchF d.id = true := by
  unfold step at h
  by_cases hs : e.suppressed = true
  · simp [hs] at h
  · simp only [hs, Bool.false_eq_true, if_false] at h
    have := (invoked_selected_awake _ P e.now e.now1 e.exec (selected_sub_owned decls (recall m e) e) i n h).1
    simp only [cfgOf, selectedOf, List.mem_map, List.mem_filter, Bool.and_eq_true] at this
    obtain ⟨d, ⟨hd, hg, hm⟩, rfl⟩ := this
    exact ⟨d, hd, rfl, hg, hm⟩

/-- A resume handler is only ever invoked for an object first seen in a listing and not yet fully
    handled in this process; never for a creation; on an object being deleted only if it opted in. -/
theorem resume_invoked_only_initial (decls : List Decl) (m : Option Mem) (P : Store) (e : Event)
    (i : Id) (n : Nat) (h : (i, n) ∈ (step decls m P e).invoked)
    (hres : ∀ d ∈ decls, d.id = i → d.gate.initial = true) :
    (recall m e).noticed = true ∧ (recall m e).fullyHandled = false ∧
    (causeOf (recall m e) e).reason ≠ .create ∧
    (e.marked = true → ∃ d ∈ decls, d.id = i ∧ d.gate.deletedOptIn = true) := by
  obtain ⟨d, hd, hid, hg, _⟩ := invoked_gated decls m P e i n h
  have hini := hres d hd hid
  have hcm : (causeOf (recall m e) e).marked = e.marked := rfl
  have hcinit : (causeOf (recall m e) e).initial =
      (if C05.detectReason (inOf (recall m e) e) = .create then false
       else ((recall m e).noticed && !(recall m e).fullyHandled)) := rfl
  have hcr : (causeOf (recall m e) e).reason = C05.detectReason (inOf (recall m e) e) := rfl
  unfold C05.gate at hg
  rw [hini, hcm] at hg
  simp only [Bool.true_and, Bool.and_eq_true, Bool.not_eq_true', Bool.not_eq_false'] at hg
  obtain ⟨⟨_, hci⟩, hdel⟩ := hg
  rw [hcinit] at hci
  have hnc : C05.detectReason (inOf (recall m e) e) ≠ .create := by
    intro hc; simp [hc] at hci
  simp only [hnc, if_false, Bool.and_eq_true, Bool.not_eq_true'] at hci
  refine ⟨hci.1, hci.2, by rw [hcr]; exact hnc, ?_⟩
  intro hm
  refine ⟨d, hd, hid, ?_⟩
  cases hopt : d.gate.deletedOptIn
  · simp [hm, hopt] at hdel
  · rfl

/-- Objects first seen through a watch event (not a listing) never get resume handlers in this
    process: the memory's `noticed` flag is fixed at creation. -/
theorem not_for_new (decls : List Decl) (events : List Event) :
    ∀ (mem : Mem) (P : Store), mem.noticed = false → (∀ e ∈ events, e.deleted = false) →
    ∀ l ∈ run decls (some mem) P events, ∀ i n, (i, n) ∈ l →
      ¬ (∀ d ∈ decls, d.id = i → d.gate.initial = true) := by
  induction events with
  | nil => intro mem P _ _ l hl; simp [run] at hl
  | cons e rest ih =>
    intro mem P hn hdel l hl i n hin hres
    simp only [run, List.mem_cons] at hl
    rcases hl with rfl | hl
    · have := (resume_invoked_only_initial decls (some mem) P e i n hin hres).1
      simp [recall, hn] at this
    · have hde : e.deleted = false := hdel e (by simp)
      have hmem : ∃ mem', (step decls (some mem) P e).mem = some mem' ∧ mem'.noticed = false := by
        unfold step
        by_cases hs : e.suppressed = true
        · simp [hs, hde, recall, hn]
        · simp [hs, hde, recall, hn]
      obtain ⟨mem', hm', hn'⟩ := hmem
      rw [hm'] at hl
      exact ih mem' _ hn' (fun e' he' => hdel e' (by simp [he'])) l hl i n hin hres

/-- Once the object has been fully handled in this process, no resume handler is ever invoked for
    it again: re-listings, reconnects and later changes do not repeat it. -/
theorem after_fully_handled_never (decls : List Decl) (events : List Event) :
    ∀ (mem : Mem) (P : Store), mem.fullyHandled = true → (∀ e ∈ events, e.deleted = false) →
    ∀ l ∈ run decls (some mem) P events, ∀ i n, (i, n) ∈ l →
      ¬ (∀ d ∈ decls, d.id = i → d.gate.initial = true) := by
  induction events with
  | nil => intro mem P _ _ l hl; simp [run] at hl
  | cons e rest ih =>
    intro mem P hf hdel l hl i n hin hres
    simp only [run, List.mem_cons] at hl
    rcases hl with rfl | hl
    · have := (resume_invoked_only_initial decls (some mem) P e i n hin hres).2.1
      simp [recall, hf] at this
    · have hde : e.deleted = false := hdel e (by simp)
      have hmem : ∃ mem', (step decls (some mem) P e).mem = some mem' ∧ mem'.fullyHandled = true := by
        unfold step
        by_cases hs : e.suppressed = true
        · simp [hs, hde, recall, hf]
        · simp [hs, hde, recall, hf]
      obtain ⟨mem', hm', hf'⟩ := hmem
      rw [hm'] at hl
      exact ih mem' _ hf' (fun e' he' => hdel e' (by simp [he'])) l hl i n hin hres

/-- The guard of the partial theorems, for one event: the last-handled state stays in place (nobody
    wipes the annotation), and the resume handler keeps matching the object (filters; opt-in when the
    object is being deleted). -/
def Stable (d : Decl) (e : Event) : Prop :=
  e.oldAbsent = false ∧ e.matchF d.id = true ∧ (e.marked = true → d.gate.deletedOptIn = true)

/-- … demanded only of the events processed while the object is not yet fully handled in this process
    (afterwards nothing is demanded: `after_fully_handled_never`). A guard over the run itself. -/
def StableWhileOpen (decls : List Decl) (d : Decl) : Option Mem → Store → List Event → Prop
  | _, _, [] => True
  | m, P, e :: rest =>
      ((recall m e).fullyHandled = false → Stable d e) ∧
      StableWhileOpen decls d (step decls m P e).mem (step decls m P e).P rest

theorem reason_not_create (mem : Mem) (e : Event) (h : e.oldAbsent = false) :
    C05.detectReason (inOf mem e) ≠ .create := by
  unfold C05.detectReason inOf
  simp only [h]
  cases e.deleted <;> cases e.marked <;> cases e.blocked <;> cases e.diffNonEmpty <;>
    cases (mem.noticed && !mem.fullyHandled) <;> simp

/-- An object still to be resumed (listed, not yet fully handled) never yields the no-op cause, so the
    no-op purge of leftover records never removes a resume handler's finished record prematurely. -/
theorem reason_not_noop_of_initial (mem : Mem) (e : Event)
    (h : (mem.noticed && !mem.fullyHandled) = true) :
    ((cfgOf decls mem e).reason == "noop") = false := by
  show (reasonStr (C05.detect (inOf mem e)).reason == "noop") = false
  unfold C05.detect C05.detectReason inOf
  simp only [h]
  cases e.deleted <;> cases e.marked <;> cases e.blocked <;> cases e.oldAbsent <;>
    cases e.diffNonEmpty <;> simp [reasonStr]

theorem stable_selected (decls : List Decl) (d : Decl) (hd : d ∈ decls)
    (hini : d.gate.initial = true) (hreason : d.gate.reason = none)
    (mem : Mem) (hn : mem.noticed = true) (hf : mem.fullyHandled = false) (e : Event) (hs : Stable d e) :
    d.id ∈ (cfgOf decls mem e).selected := by
  obtain ⟨hold, hmatch, hopt⟩ := hs
  simp only [cfgOf, selectedOf, List.mem_map, List.mem_filter, Bool.and_eq_true]
  refine ⟨d, ⟨hd, ?_, hmatch⟩, rfl⟩
  have hcm : (causeOf mem e).marked = e.marked := rfl
  have hcinit : (causeOf mem e).initial =
      (if C05.detectReason (inOf mem e) = .create then false else (mem.noticed && !mem.fullyHandled)) := rfl
  unfold C05.gate
  rw [hini, hreason, hcm, hcinit]
  simp only [reason_not_create mem e hold, if_false, hn, hf]
  cases hm : e.marked
  · simp
  · simp [hopt hm]

/-- FULL STATEMENT (property): each resume handler runs to completion at most once per object per
    operator process. PROVED HERE under `StableWhileOpen` (see `flipflop_reruns_witness` for why the guard is
    needed: the code does re-run a finished resume handler whose record was purged while a sibling was
    still pending and the handler temporarily stopped matching). -/
theorem resume_never_again_partial (decls : List Decl) (d : Decl) (hd : d ∈ decls)
    (hini : d.gate.initial = true) (hreason : d.gate.reason = none)
    (huniq : ∀ d' ∈ decls, d'.id = d.id → d' = d) (events : List Event) :
    ∀ (mem : Mem) (P : Store), UniformOn (decls.map (·.id)) P → mem.noticed = true →
      (mem.fullyHandled = true ∨ ∃ r, P d.id = some r ∧ r.finished = true) →
      (∀ e ∈ events, e.deleted = false) →
      StableWhileOpen decls d (some mem) P events →
      ∀ l ∈ run decls (some mem) P events, ∀ n, (d.id, n) ∉ l := by
  induction events with
  | nil => intro mem P _ _ _ _ _ l hl; simp [run] at hl
  | cons e rest ih =>
    intro mem P hu hn hinv hdel hst l hl n
    by_cases hf0 : mem.fullyHandled = true
    · intro hin
      exact after_fully_handled_never decls (e :: rest) mem P hf0 hdel l hl d.id n hin
        (fun d' hd' hid => by rw [huniq d' hd' hid]; exact hini)
    have hf0' : mem.fullyHandled = false := by simpa using hf0
    have hse : Stable d e := hst.1 (by simp [recall, hf0'])
    have hst2 := hst.2
    have hde : e.deleted = false := hdel e (by simp)
    simp only [run, List.mem_cons] at hl
    have hsub := selected_sub_owned decls mem e
    rcases hl with rfl | hl
    · -- not invoked in this very step
      intro hin
      rcases hinv with hf | ⟨r, hP, hfin⟩
      · have := (resume_invoked_only_initial decls (some mem) P e d.id n hin
          (fun d' hd' hid => by rw [huniq d' hd' hid]; exact hini)).2.1
        simp [recall, hf] at this
      · unfold step at hin
        by_cases hs : e.suppressed = true
        · simp [hs] at hin
        · simp only [hs, Bool.false_eq_true, if_false, recall] at hin
          exact no_rerun _ P e.now e.now1 e.exec hsub d.id n r hP hfin hin
    · -- the invariant carries over to the next step
      by_cases hs : e.suppressed = true
      · have : step decls (some mem) P e = { mem := some mem, P := P, invoked := [], closed := false } := by
          unfold step; simp [hs, hde, recall]
        rw [this] at hl hst2
        exact ih mem P hu hn hinv (fun e' he' => hdel e' (by simp [he'])) hst2 l hl n
      · have hstep : step decls (some mem) P e =
            { mem := some { mem with fullyHandled := mem.fullyHandled ||
                              (cycle (cfgOf decls mem e) P e.now e.now1 e.exec).closed },
              P := (cycle (cfgOf decls mem e) P e.now e.now1 e.exec).P',
              invoked := (cycle (cfgOf decls mem e) P e.now e.now1 e.exec).invoked,
              closed := (cycle (cfgOf decls mem e) P e.now e.now1 e.exec).closed } := by
          unfold step; simp [hs, hde, recall]
        rw [hstep] at hl hst2
        have hu' : UniformOn (decls.map (·.id)) (cycle (cfgOf decls mem e) P e.now e.now1 e.exec).P' :=
          uniform_preserved (cfgOf decls mem e) P e.now e.now1 e.exec hsub hu
        refine ih { mem with fullyHandled := mem.fullyHandled ||
                      (cycle (cfgOf decls mem e) P e.now e.now1 e.exec).closed } _ hu' hn ?_
                 (fun e' he' => hdel e' (by simp [he'])) hst2 l hl n
        show (mem.fullyHandled || (cycle (cfgOf decls mem e) P e.now e.now1 e.exec).closed) = true ∨ _
        by_cases hf : mem.fullyHandled = true
        · left; simp [hf]
        · have hf' : mem.fullyHandled = false := by simpa using hf
          by_cases hc : (cycle (cfgOf decls mem e) P e.now e.now1 e.exec).closed = true
          · left; simp [hc]
          · have hc' : (cycle (cfgOf decls mem e) P e.now e.now1 e.exec).closed = false := by simpa using hc
            right
            rcases hinv with hf0 | ⟨r, hP, hfin⟩
            · exact absurd hf0 hf
            · by_cases hr : handlerReasons.contains (cfgOf decls mem e).reason = true
              · have hsel := stable_selected decls d hd hini hreason mem hn hf' e hse
                exact finished_persists_selected (cfgOf decls mem e) P e.now e.now1 e.exec hsub hu
                  d.id r hsel hP hfin hr hc'
              · have hr' : handlerReasons.contains (cfgOf decls mem e).reason = false := by simpa using hr
                have hnn : ((cfgOf decls mem e).reason == "noop") = false :=
                  reason_not_noop_of_initial mem e (by simp [hn, hf'])
                rw [cycle_not_handler_reason _ P e.now e.now1 e.exec hr']
                simp only [hnn, Bool.false_eq_true, if_false]
                exact ⟨r, hP, hfin⟩

/-- After the step in which a resume handler reached a final outcome, it is never invoked again for
    this object in this process (under `Stable` for the rest of the history). -/
theorem completed_never_again_partial (decls : List Decl) (d : Decl) (hd : d ∈ decls)
    (hini : d.gate.initial = true) (hreason : d.gate.reason = none)
    (huniq : ∀ d' ∈ decls, d'.id = d.id → d' = d)
    (mem : Mem) (P : Store) (hu : UniformOn (decls.map (·.id)) P) (e : Event) (rest : List Event)
    (hde : e.deleted = false) (n : Nat)
    (hinv : (d.id, n) ∈ (step decls (some mem) P e).invoked) (hfin : (e.exec d.id n).final = true)
    (hdel : ∀ e' ∈ rest, e'.deleted = false)
    (hst : StableWhileOpen decls d (step decls (some mem) P e).mem (step decls (some mem) P e).P rest) :
    ∀ l ∈ run decls (step decls (some mem) P e).mem (step decls (some mem) P e).P rest,
      ∀ k, (d.id, k) ∉ l := by
  have hsub := selected_sub_owned decls mem e
  have hnot := resume_invoked_only_initial decls (some mem) P e d.id n hinv
    (fun d' hd' hid => by rw [huniq d' hd' hid]; exact hini)
  have hn : mem.noticed = true := by simpa [recall] using hnot.1
  have hs : e.suppressed = false := by
    cases hsup : e.suppressed
    · rfl
    · unfold step at hinv; simp [hsup] at hinv
  have hstep : step decls (some mem) P e =
      { mem := some { mem with fullyHandled := mem.fullyHandled ||
                        (cycle (cfgOf decls mem e) P e.now e.now1 e.exec).closed },
        P := (cycle (cfgOf decls mem e) P e.now e.now1 e.exec).P',
        invoked := (cycle (cfgOf decls mem e) P e.now e.now1 e.exec).invoked,
        closed := (cycle (cfgOf decls mem e) P e.now e.now1 e.exec).closed } := by
    unfold step; simp [hs, hde, recall]
  rw [hstep] at hinv hst ⊢
  simp only at hinv
  refine resume_never_again_partial decls d hd hini hreason huniq rest
    { mem with fullyHandled := mem.fullyHandled || (cycle (cfgOf decls mem e) P e.now e.now1 e.exec).closed } _
    (uniform_preserved (cfgOf decls mem e) P e.now e.now1 e.exec hsub hu) hn ?_ hdel hst
  show (mem.fullyHandled || (cycle (cfgOf decls mem e) P e.now e.now1 e.exec).closed) = true ∨ _
  by_cases hc : (cycle (cfgOf decls mem e) P e.now e.now1 e.exec).closed = true
  · left; simp [hc]
  · right
    exact final_outcome_recorded (cfgOf decls mem e) P e.now e.now1 e.exec d.id n hinv hfin (by simpa using hc)

/-- An object that exists when the operator starts (seen in the listing), was handled before (a
    last-handled state is stored), carries no progress records and is not being deleted, gets the
    resume cause, and every matching resume handler is selected in its first cycle. -/
theorem eligible_selected (decls : List Decl) (d : Decl) (hd : d ∈ decls)
    (hini : d.gate.initial = true) (hreason : d.gate.reason = none) (e : Event)
    (hl : e.byListing = true) (hdel : e.deleted = false) (hm : e.marked = false)
    (hold : e.oldAbsent = false) (hdiff : e.diffNonEmpty = false) (hmatch : e.matchF d.id = true) :
    (causeOf (recall none e) e).reason = .resume ∧ d.id ∈ (cfgOf decls (recall none e) e).selected := by
  constructor
  · simp [causeOf, C05.detect, C05.detectReason, inOf, recall, hl, hdel, hm, hold, hdiff]
  · exact stable_selected decls d hd hini hreason (recall none e) (by simp [recall, hl]) (by simp [recall]) e
      ⟨hold, hmatch, by simp [hm]⟩

/-- … and (all-at-once lifecycle, nothing recorded for it yet, positive limits) it is actually invoked
    in that first cycle, as the first attempt. -/
theorem eligible_invoked (decls : List Decl) (d : Decl) (hd : d ∈ decls)
    (hini : d.gate.initial = true) (hreason : d.gate.reason = none) (e : Event)
    (hl : e.byListing = true) (hdel : e.deleted = false) (hm : e.marked = false)
    (hold : e.oldAbsent = false) (hdiff : e.diffNonEmpty = false) (hmatch : e.matchF d.id = true)
    (hs : e.suppressed = false) (hlc : e.lifecycle = .allAtOnce)
    (P : C02.Store) (hP : P d.id = none)
    (hto : ∀ t, (e.limits d.id).timeout = some t → 0 < t)
    (hre : ∀ n, (e.limits d.id).retries = some n → 0 < n) :
    (d.id, 0) ∈ (step decls none P e).invoked := by
  obtain ⟨hres, hsel⟩ := eligible_selected decls d hd hini hreason e hl hdel hm hold hdiff hmatch
  have hreason' : (cfgOf decls (recall none e) e).reason = "resume" := by
    show reasonStr (causeOf (recall none e) e).reason = "resume"
    rw [hres]; rfl
  have hinv := due_invoked_all_at_once (cfgOf decls (recall none e) e) P e.now e.now1 e.exec
    (by rw [hreason']; decide) hlc d.id hsel (selected_sub_owned decls (recall none e) e d.id hsel)
    (by simp [startRec, hP, fresh, Rec.awakened, Rec.sleeping, Rec.finished])
    (by
      simp only [startRec, hP, fresh, precheckFails]
      show ((match (e.limits d.id).timeout with | some t => decide (e.now - e.now ≥ t) | none => false) ||
            (match (e.limits d.id).retries with | some n => decide (0 ≥ n) | none => false)) = false
      cases ht : (e.limits d.id).timeout with
      | none =>
        cases hn : (e.limits d.id).retries with
        | none => rfl
        | some n => have := hre n hn; simp; omega
      | some t =>
        have h1 := hto t ht
        cases hn : (e.limits d.id).retries with
        | none => simp; omega
        | some n => have h2 := hre n hn; simp; exact ⟨by omega, by omega⟩)
  rw [hP] at hinv
  unfold step
  simp only [hs, Bool.false_eq_true, if_false]
  exact hinv

/-- The guard is necessary — the code does repeat a completed resume handler: `r1` (label-filtered)
    completes, its sibling `r2` is still retrying; a label+spec edit makes `r1` stop matching while the
    reason turns to *update*, so `r1`'s finished record is purged with the superseded progress; the
    label flips back, `r1` is selected again with no record and runs a second time. -/
theorem flipflop_reruns_witness :
    ∃ (decls : List Decl) (d : Decl) (mem : Mem) (e : Event) (rest : List Event),
      -- the hypotheses of `completed_never_again_partial`, all but the guard:
      d ∈ decls ∧ d.gate.initial = true ∧ d.gate.reason = none ∧
      (∀ d' ∈ decls, d'.id = d.id → d' = d) ∧
      UniformOn (decls.map (·.id)) (fun _ => none) ∧
      e.deleted = false ∧ (∀ e' ∈ rest, e'.deleted = false) ∧
      (d.id, 0) ∈ (step decls (some mem) (fun _ => none) e).invoked ∧ (e.exec d.id 0).final = true ∧
      -- … and its conclusion fails: the completed resume handler is invoked again in the same process
      (∃ l ∈ run decls (step decls (some mem) (fun _ => none) e).mem
                (step decls (some mem) (fun _ => none) e).P rest, (d.id, 0) ∈ l) ∧
      -- the whole history:
      run decls (some mem) (fun _ => none) (e :: rest) =
        [[("r1", 0), ("r2", 0)], [("r2", 1)], [("r1", 0), ("r2", 2)]] := by
  let ok : Outcome := { final := true, delay := none, error := false, subrefs := [] }
  let again : Outcome := { final := false, delay := some 0, error := true, subrefs := [] }
  let ev (diff m1 : Bool) : Event :=
    { byListing := false, deleted := false, marked := false, blocked := false, oldAbsent := false,
      diffNonEmpty := diff, suppressed := false,
      matchF := fun i => if i = "r1" then m1 else true,
      limits := fun _ => ⟨none, none⟩, lifecycle := .allAtOnce, now := 0, now1 := 0,
      exec := fun i _ => if i = "r2" then again else ok }
  refine ⟨[⟨"r1", ⟨none, true, false⟩⟩, ⟨"r2", ⟨none, true, false⟩⟩], ⟨"r1", ⟨none, true, false⟩⟩,
          { noticed := true, fullyHandled := false },
          ev false true, [ev true false, ev false true],
          by simp, rfl, rfl, ?_, ⟨"resume", by intro i _ r h; simp at h⟩, rfl, ?_, by decide, by decide, ?_, by decide⟩
  · intro d' hd' hid
    simp only [List.mem_cons, List.mem_nil_iff, or_false] at hd'
    rcases hd' with rfl | rfl
    · rfl
    · simp at hid
  · intro e' he'
    simp only [List.mem_cons, List.mem_nil_iff, or_false] at he'
    rcases he' with rfl | rfl <;> rfl
  · refine ⟨[("r1", 0), ("r2", 2)], ?_, by simp⟩
    decide

-- non-vacuity of the partial theorems: two resume handlers; "r1" completes at once, "r2" retries twice;
-- an edit (update cause mixed in) and a re-listing-like repeat in between; the guard holds throughout,
-- and "r1" is indeed never invoked again
example :
    let ok : Outcome := { final := true, delay := none, error := false, subrefs := [] }
    let again : Outcome := { final := false, delay := some 0, error := true, subrefs := [] }
    let ev (diff : Bool) (k : Nat) : Event :=
      { byListing := false, deleted := false, marked := false, blocked := false, oldAbsent := false,
        diffNonEmpty := diff, suppressed := false, matchF := fun _ => true,
        limits := fun _ => ⟨none, none⟩, lifecycle := .allAtOnce, now := 0, now1 := 0,
        exec := fun i n => if i = "r2" ∧ n < k then again else ok }
    let decls : List Decl := [⟨"r1", ⟨none, true, false⟩⟩, ⟨"r2", ⟨none, true, false⟩⟩]
    let mem : Mem := { noticed := true, fullyHandled := false }
    run decls (some mem) (fun _ => none) [ev false 2, ev true 2, ev false 2, ev false 2]
      = [[("r1", 0), ("r2", 0)], [("r2", 1)], [("r2", 2)], []] ∧
    StableWhileOpen decls ⟨"r1", ⟨none, true, false⟩⟩
      (step decls (some mem) (fun _ => none) (ev false 2)).mem
      (step decls (some mem) (fun _ => none) (ev false 2)).P [ev true 2, ev false 2, ev false 2] := by
  refine ⟨by decide, ?_⟩
  simp [StableWhileOpen, Stable]

-- non-vacuity of `eligible_invoked`: a listed, handled-before, unchanged object with one resume handler
example :
    let e : Event :=
      { byListing := true, deleted := false, marked := false, blocked := false, oldAbsent := false,
        diffNonEmpty := false, suppressed := false, matchF := fun _ => true,
        limits := fun _ => ⟨some 5, some 3⟩, lifecycle := .allAtOnce, now := 7, now1 := 7,
        exec := fun _ _ => { final := true, delay := none, error := false, subrefs := [] } }
    (step [⟨"r", ⟨none, true, false⟩⟩] none (fun _ => none) e).invoked = [("r", 0)] ∧
    (step [⟨"r", ⟨none, true, false⟩⟩] none (fun _ => none) e).closed = true := by decide

end Kopf.C14
