/-
  C06 — The finalizer is never released early, always released eventually; foreign finalizers are
  never touched. Property theorems only (model: Kopf/Model/C06_Finalizer.lean).

  `own` is the framework's finalizer name (any string). `Reach own s`: `s` is reachable from any
  initial object by ANY list of labels — deletion requests, label edits that switch the matching of
  the handlers, foreign finalizer edits, handler/daemon completions, injected or genuine HTTP 422 on
  the JSON patch, restarts, with foreign writes between any two requests of one cycle.
-/
import Kopf.Lemmas.C06_Live
import Kopf.Lemmas.C06_Registry
import Kopf.Lemmas.C06_Invoke
import Kopf.Lemmas.C06_Slots
namespace Kopf.C06

/-! ## Foreign finalizers: never added, dropped or reordered -/

/-- The sub-list of foreign finalizers (everything but `f`, in order) is the same before and after
`block_deletion` / `allow_deletion` / any sequence of them. -/
theorem foreign_untouched (f : String) (l : List String) (fns : List Fn) :
    (blockDeletion f l).filter (· != f) = l.filter (· != f) ∧
    (allowDeletion f l).filter (· != f) = l.filter (· != f) ∧
    (applyFns f fns l).filter (· != f) = l.filter (· != f) :=
  ⟨filter_block f l, filter_allow f l, filter_applyFns f fns l⟩

/-- Positions too: `block_deletion` only appends (the old list is a prefix), `allow_deletion`
only deletes occurrences of `f` (the result is exactly the foreign ones, in their order). -/
theorem order_preserved (f : String) (l : List String) :
    l <+: blockDeletion f l ∧ allowDeletion f l = l.filter (· != f) ∧ (allowDeletion f l).Sublist l := by
  refine ⟨?_, allowDeletion_eq_filter f l, ?_⟩
  · unfold blockDeletion; split
    · exact List.prefix_refl l
    · exact List.prefix_append l [f]
  · rw [allowDeletion_eq_filter]; exact List.filter_sublist

example : blockDeletion "k" ["a", "b"] = ["a", "b", "k"] ∧ allowDeletion "k" ["a", "k", "b", "k"] = ["a", "b"] := by decide

theorem block_spec (f x : String) (l : List String) :
    f ∈ blockDeletion f l ∧ (x ∈ blockDeletion f l ↔ x ∈ l ∨ x = f) ∧ (f ∈ l → blockDeletion f l = l) :=
  ⟨own_mem_block f l, mem_blockDeletion, fun h => by simp [blockDeletion, h]⟩

theorem allow_spec (f x : String) (l : List String) :
    f ∉ allowDeletion f l ∧ (x ∈ allowDeletion f l ↔ x ∈ l ∧ x ≠ f) ∧ (f ∉ l → allowDeletion f l = l) := by
  refine ⟨own_not_mem_allow f l, mem_allowDeletion, fun h => ?_⟩
  rw [allowDeletion_eq_filter, List.filter_eq_self]
  intro a ha
  simp only [bne_iff_ne, ne_eq]
  intro e; subst e; exact h ha

theorem block_idempotent (f : String) (l : List String) :
    blockDeletion f (blockDeletion f l) = blockDeletion f l :=
  (block_spec f f _).2.2 (own_mem_block f l)

theorem allow_idempotent (f : String) (l : List String) :
    allowDeletion f (allowDeletion f l) = allowDeletion f l :=
  (allow_spec f f _).2.2 (own_not_mem_allow f l)

/-- Releasing after blocking is releasing: nothing of the blocking survives. -/
theorem allow_after_block (f : String) (l : List String) :
    allowDeletion f (blockDeletion f l) = allowDeletion f l := by
  rw [allowDeletion_eq_filter, allowDeletion_eq_filter, filter_block]

example : allowDeletion "k" (blockDeletion "k" ["a"]) = ["a"] ∧ blockDeletion "k" (blockDeletion "k" ["a"]) = ["a", "k"] := by decide

/-- With the `test` op, a JSON patch either changes nothing on the server (no ops / HTTP 422), or it
was accepted at the tested version and the server's list becomes `fns` applied to the list the
server held at that version — whatever happened between the decision and the request. -/
theorem patch_is_fn_of_tested {own : String} {s s' : State} {p : Pending} {forced : Bool}
    (hr : Reach own s) (hp : s.pending = some p) (hs : step own s (.jsonPatch forced) = some s') :
    (s'.fins = s.fins ∧ s'.rv = s.rv) ∨
    (forced = false ∧ s.rv = p.rvTest ∧ s'.fins = applyFns own p.fns s.fins) := by
  have hU := invU_reach hr
  unfold step at hs
  split at hs
  · cases hs
  simp only [stepJson, hp] at hs
  split at hs
  · cases hs
  · split at hs
    · cases hs; exact Or.inl ⟨rfl, rfl⟩
    · split at hs
      · cases hs; exact Or.inl ⟨rfl, rfl⟩
      · next hacc =>
        cases hs
        simp only [Bool.or_eq_true, bne_iff_ne, ne_eq, not_or, Bool.not_eq_true, Decidable.not_not] at hacc
        exact Or.inr ⟨hacc.1, hacc.2, by rw [← hU.view p hp hacc.2]⟩

/-- No step of the operator (anything but a foreign `editFins`) adds, drops or reorders a foreign
finalizer on the server, in any reachable state. -/
theorem foreign_untouched_lts {own : String} {s s' : State} {l : Label} (hr : Reach own s)
    (hl : ∀ x, l ≠ .editFins x) (hs : step own s l = some s') :
    s'.fins.filter (· != own) = s.fins.filter (· != own) := by
  cases l with
  | jsonPatch f =>
    cases hp : s.pending with
    | none => unfold step at hs; split at hs; · cases hs
              simp [stepJson, hp] at hs
    | some p =>
      rcases patch_is_fn_of_tested hr hp hs with h | h
      · rw [h.1]
      · rw [h.2.2, filter_applyFns]
  | editFins x => exact absurd rfl (hl x)
  | decide e v => rw [step_decide_eq hs]
  | mergePatch =>
    unfold step at hs; split at hs; · cases hs
    simp only [stepMerge] at hs
    split at hs
    · split at hs <;> cases hs; rfl
    · cases hs
  | mark =>
    unfold step at hs; split at hs; · cases hs
    simp only [stepMark] at hs
    split at hs
    · cases hs; rfl
    · split at hs <;> (cases hs; rfl)
  | toggleDel => unfold step at hs; split at hs; · cases hs
                 cases hs; rfl
  | toggleDmn => unfold step at hs; split at hs; · cases hs
                 cases hs; rfl
  | write d m => unfold step at hs; split at hs; · cases hs
                 cases hs; rfl
  | handlerFinishes => unfold step at hs; split at hs; · cases hs
                       cases hs; rfl
  | daemonExits o =>
    unfold step at hs; split at hs; · cases hs
    simp only at hs
    split at hs <;> cases hs; rfl
  | restart => unfold step at hs; split at hs; · cases hs
               cases hs; rfl

/-! ## The decision block equals its declarative table -/

set_option synthInstance.maxSize 4000 in
set_option synthInstance.maxHeartbeats 800000 in
theorem decision_spec_bool : ∀ (spawning spawnReq changing changeReq blocked ongoing deleted consistent spawnDelays changeDelays : Bool),
    ((decision ⟨spawning, spawnReq, changing, changeReq, blocked, ongoing, deleted, consistent, spawnDelays, changeDelays, false, false, false⟩).add = true ↔
        ((spawning = true ∧ spawnReq = true) ∨ (changing = true ∧ changeReq = true)) ∧ blocked = false ∧ ongoing = false) ∧
    ((decision ⟨spawning, spawnReq, changing, changeReq, blocked, ongoing, deleted, consistent, spawnDelays, changeDelays, false, false, false⟩).removeUnneeded = true ↔
        ¬((spawning = true ∧ spawnReq = true) ∨ (changing = true ∧ changeReq = true)) ∧ blocked = true) ∧
    ((decision ⟨spawning, spawnReq, changing, changeReq, blocked, ongoing, deleted, consistent, spawnDelays, changeDelays, false, false, false⟩).handlersRun = true ↔
        changing = true ∧ consistent = true ∧ ¬(((spawning = true ∧ spawnReq = true) ∨ (changing = true ∧ changeReq = true)) ∧ blocked = false ∧ ongoing = false) ∧ ¬(¬((spawning = true ∧ spawnReq = true) ∨ (changing = true ∧ changeReq = true)) ∧ blocked = true)) ∧
    ((decision ⟨spawning, spawnReq, changing, changeReq, blocked, ongoing, deleted, consistent, spawnDelays, changeDelays, false, false, false⟩).release = true ↔
        deleted = false ∧ ongoing = true ∧ blocked = true ∧ spawnDelays = false ∧
        (((spawning = true ∧ spawnReq = true) ∨ (changing = true ∧ changeReq = true)) ∧ changing = true → consistent = true ∧ changeDelays = false)) := by
  decide

/-- The decision block as a table. With `must` := (a spawning cause exists ∧ a daemon/timer that is
not forever-stopped matches) ∨ (a changing cause exists ∧ a mandatory deletion handler matches):
* add            ⇔ must ∧ ¬blocked ∧ ¬ongoing
* removeUnneeded ⇔ ¬must ∧ blocked
* handlers run   ⇔ changing cause ∧ consistent ∧ neither of the two above
* release        ⇔ ¬DELETED ∧ ongoing ∧ blocked ∧ no spawning delays ∧
                   (must ∧ changing cause → consistent ∧ no handler delays) -/
theorem decision_spec (i : In) :
    ((decision i).add = true ↔ ((i.spawning = true ∧ i.spawnReq = true) ∨ (i.changing = true ∧ i.changeReq = true)) ∧ i.isBlocked = false ∧ i.isOngoing = false) ∧
    ((decision i).removeUnneeded = true ↔ ¬((i.spawning = true ∧ i.spawnReq = true) ∨ (i.changing = true ∧ i.changeReq = true)) ∧ i.isBlocked = true) ∧
    ((decision i).handlersRun = true ↔
        i.changing = true ∧ i.consistent = true ∧ ¬(((i.spawning = true ∧ i.spawnReq = true) ∨ (i.changing = true ∧ i.changeReq = true)) ∧ i.isBlocked = false ∧ i.isOngoing = false) ∧ ¬(¬((i.spawning = true ∧ i.spawnReq = true) ∨ (i.changing = true ∧ i.changeReq = true)) ∧ i.isBlocked = true)) ∧
    ((decision i).release = true ↔
        i.deletedEvent = false ∧ i.isOngoing = true ∧ i.isBlocked = true ∧ i.spawnDelays = false ∧
        (((i.spawning = true ∧ i.spawnReq = true) ∨ (i.changing = true ∧ i.changeReq = true)) ∧ i.changing = true → i.consistent = true ∧ i.changeDelays = false)) := by
  rcases i with ⟨a, b, c, d, e, f, g, h, j, k, dl, p, cr⟩
  exact decision_spec_bool a b c d e f g h j k   -- (none of the four reads `deadline`/`paused`/`carried`)

/-- What the cycle returns as its delays (non-empty → `application.apply` sleeps and then touches the object unless
the patch changed it). A cycle that leaves before the state-dependent handlers — a changing cause survived the two
finalizer branches and the state is inconsistent — returns the daemons' delays plus, unless the operator is paused,
the REST OF THE WAITING TIME while the version of the own last patch is awaited (repair 30557a0: it comes back
even if its patch brings no event and the awaited event is lost) or a ZERO delay when it left because of a carried
patch (the rework 02af7ce of 608a57d: it comes back even if the carried fns have nothing to change); any other cycle
returns the daemons' and the handlers' delays. -/
theorem decision_delays_spec (i : In) :
    let early := i.changing = true ∧ (decision i).add = false ∧ (decision i).removeUnneeded = false ∧ i.consistent = false
    (early → ((decision i).delays = true ↔ i.spawnDelays = true ∨ (i.paused = false ∧ (i.deadline = true ∨ i.carried = true)))) ∧
    (¬early → ((decision i).delays = true ↔ i.spawnDelays = true ∨ ((decision i).handlersRun = true ∧ i.changeDelays = true))) ∧
    (early → (decision i).handlersRun = false ∧ (decision i).release = false) := by
  rcases i with ⟨a, b, c, d, e, f, g, h, j, k, dl, p, cr⟩
  cases a <;> cases b <;> cases c <;> cases d <;> cases e <;> cases f <;> cases h <;>
    simp [decision, mustBlockG, addG, removeG, earlyG, releaseG, waitG]

-- the queued fns, in program order (so the LAST one reflects the newest decision) — by definition
example (d : Decision) :
    d.fns = (if d.add then [Fn.block] else []) ++ (if d.removeUnneeded then [Fn.allow] else []) ++
            (if d.release then [Fn.allow] else []) := rfl

-- all four actions occur
example : (decision ⟨true, true, false, false, false, false, false, true, false, false, false, false, false⟩).fns = [Fn.block] := by decide
example : (decision ⟨true, false, false, false, true, false, false, true, false, false, false, false, false⟩).fns = [Fn.allow] := by decide
example : (decision ⟨true, false, false, false, true, true, false, true, false, false, false, false, false⟩).fns = [Fn.allow, Fn.allow] := by decide
example : (decision ⟨false, false, true, true, true, true, false, true, false, false, false, false, false⟩).fns = [Fn.allow] := by decide
example : (decision ⟨false, false, true, true, true, true, false, true, false, true, false, false, false⟩).fns = [] := by decide
-- the early exit: no fns, no handlers; a delay iff a version is awaited or the patch was carried (and the operator is not paused)
example : (decision ⟨false, false, true, true, true, true, false, false, false, false, false, false, true⟩) = ⟨false, false, false, false, true⟩ := by decide
example : (decision ⟨false, false, true, true, true, true, false, false, false, false, true, false, false⟩) = ⟨false, false, false, false, true⟩ := by decide
example : (decision ⟨false, false, true, true, true, true, false, false, false, false, true, true, false⟩) = ⟨false, false, false, false, false⟩ := by decide
example : (decision ⟨false, false, true, true, true, true, false, false, false, false, false, false, false⟩) = ⟨false, false, false, false, false⟩ := by decide

/-! ## Never removed early -/

/-
  FULL statement (false of the code — finding F5b, see `never_early_fails`):
    ∀ s l s', Reach own s → step own s l = some s' → own ∈ s.fins → required s' = true → own ∈ s'.fins
  i.e. no step — of anybody but a foreign actor stripping the finalizer, which `editFins` excludes —
  takes the own finalizer off an object on which, after the step, a matching mandatory deletion
  handler is unfinished or a matching daemon is alive.

  Proved: the same under `Guard` on every step of the run, which constrains ONE kind of step only and is
  exactly the gap: when the cycle's own merge patch is sent with a removal queued, nothing requires the
  finalizer at that moment (F5b's shape: a foreign write since the decision made a handler match again, and
  the merge patch's response hides it from the `test`). Everything else is unconstrained: harmless foreign
  writes in that window, foreign writes between the merge patch and the JSON patch (→ 422), any number of
  genuine or injected HTTP 422 on any JSON patch (since repair 1c8f3dd nothing of a rejected finalizer edit is
  carried: `conflict_carries_nothing`, `cycle_decides_anew`). The exclusion is necessary:
  `stale_release_via_merge_witness`.
-/
theorem never_early_partial {own : String} {s s' : State} {l : Label} (hr : ReachG own s)
    (hs : step own s l = some s') (hown : own ∈ s.fins) (hreq : required s' = true) : own ∈ s'.fins :=
  never_early_step_of_inv (invG_reach hr) hs hown hreq

/-- Invariant form: on every guarded-reachable marked object on which something requires the
finalizer, if the finalizer was there when that episode began (at the deletion request, or when the
requirement appeared on the marked object), it is there now — and the object still exists. -/
theorem never_early_inv_partial {own : String} {s : State} {held : Bool} (h : ReachGH own s held)
    (hh : held = true) : s.marked = true ∧ required s = true ∧ own ∈ s.fins := by
  have key : ∀ {s held}, ReachGH own s held → ReachG own s ∧ (held = true → episode s = true ∧ own ∈ s.fins) := by
    intro s held h
    induction h with
    | init hi => exact ⟨ReachG.init hi, fun h => by cases h⟩
    | @step s l s' held _ hg hs ih =>
      refine ⟨ReachG.step ih.1 hg hs, ?_⟩
      intro hh
      by_cases he' : episode s' = true
      · simp only [he', if_true] at hh
        refine ⟨he', ?_⟩
        by_cases he : episode s = true
        · simp only [he, if_true] at hh
          have hreq : required s' = true := by
            simp only [episode, Bool.and_eq_true] at he'; exact he'.2
          exact never_early_partial ih.1 hs (ih.2 hh).2 hreq
        · simp only [he, Bool.false_eq_true, if_false, decide_eq_true_eq] at hh
          exact hh
      · simp [he'] at hh
  obtain ⟨_, h2⟩ := key h
  obtain ⟨he, ho⟩ := h2 hh
  simp only [episode, Bool.and_eq_true] at he
  exact ⟨he.1, he.2, ho⟩

/-- The object of the witnesses: the mandatory deletion handler matches, nothing else. -/
def w0 : State :=
  { gone := false, marked := false, fins := [], rv := 0, matchDel := true, matchDmn := false,
    delDone := false, dmnLive := false, dmnForever := false, mem := [], pending := none }


/-- A rejected JSON patch (genuine conflict or injected 422) changes nothing on the server and
leaves NOTHING in `memory.remaining_patch`: the framework's own finalizer edits are not carried. -/
theorem conflict_carries_nothing {own : String} {s s' : State} {p : Pending} {forced : Bool}
    (hp : s.pending = some p) (hs : step own s (.jsonPatch forced) = some s')
    (hrej : forced = true ∨ s.rv ≠ p.rvTest) :
    s'.fins = s.fins ∧ s'.rv = s.rv ∧ s'.mem = [] ∧ s'.pending = none := by
  unfold step at hs
  split at hs
  · cases hs
  simp only [stepJson, hp] at hs
  split at hs
  · cases hs
  · split at hs
    · cases hs; exact ⟨rfl, rfl, rfl, rfl⟩
    · split at hs
      · cases hs; exact ⟨rfl, rfl, carry_nil _, rfl⟩
      · next hacc =>
        simp only [Bool.or_eq_true, bne_iff_ne, ne_eq, not_or, Bool.not_eq_true, Decidable.not_not] at hacc
        rcases hrej with h | h
        · rw [h] at hacc; cases hacc.1
        · exact absurd hacc.2 h

/-- Hence, in every reachable state — after any number of conflicts — a cycle's fns are exactly the decision
computed from the event body it was given and the memory NOW; nothing stale is carried in; the JSON patch will
be tested against the body's version, and a body of the current version IS the current state. -/
theorem cycle_decides_anew {own : String} {s s' : State} {e : Env} {v : Snap} (hr : Reach own s)
    (hs : step own s (.decide e v) = some s') :
    s.mem = [] ∧ (v.rv = s.rv → v = snap s) ∧
    ∃ p, s'.pending = some p ∧ p.fns = (decision (inputs own v s e)).fns ∧ p.rvTest = v.rv ∧ p.view = v.fins := by
  have hm := mem_nil_reach hr
  have heq := step_decide_eq hs
  refine ⟨hm, ?_, ?_⟩
  · unfold step at hs
    split at hs
    · cases hs
    simp only [stepDecide] at hs
    split at hs
    · cases hs
    · split at hs
      · cases hs
      · next hguard =>
        simp only [Bool.or_eq_true, Bool.not_eq_true', decide_eq_false_iff_not, Bool.and_eq_true, beq_iff_eq,
          bne_iff_ne, ne_eq, not_or, Decidable.not_not, not_and] at hguard
        exact hguard.2
  · rw [heq]
    exact ⟨_, rfl, by simp [hm], rfl, rfl⟩

-- the guard constrains merge patches only (by definition)
example (s : State) (l : Label) (h : l ≠ .mergePatch) : Guard s l := by
  cases l <;> first | trivial | exact absurd rfl h

/-- The history of the former finding F5, now safe: the finalizer is added; deletion is requested;
a label edit makes the deletion handler mismatch, the cycle queues the removal; a second label edit
(the handler matches again) slips in before the JSON patch → 422; the next cycle decides anew — no
removal — and the object keeps its finalizer while the handler has not finished. -/
example (own : String) :
    run own w0 [.decide quiet ⟨0, false, [], true, false⟩, .jsonPatch false, .mark, .toggleDel,
                .decide quiet ⟨3, true, [own], false, false⟩, .toggleDel, .jsonPatch false,
                .decide quiet ⟨4, true, [own], true, false⟩, .jsonPatch false] =
      some { w0 with marked := true, fins := [own], rv := 4 } := by
  simp [run, step, stepDecide, stepJson, stepMark, snap, w0, quiet, decision, inputs, Decision.fns,
    mustBlockG, addG, removeG, earlyG, releaseG, applyFns, Fn.apply, blockDeletion, allowDeletion, allowLoop,
    carry, ownFns]

/-- …and of the former F5c: a rejected addition is not repeated on an object that no longer needs it. -/
example (own : String) :
    run own w0 [.decide quiet ⟨0, false, [], true, false⟩, .toggleDel, .jsonPatch false,
                .decide quiet ⟨1, false, [], false, false⟩, .jsonPatch false] =
      some { w0 with matchDel := false, rv := 1 } := by
  simp [run, step, stepDecide, stepJson, snap, w0, quiet, decision, inputs, Decision.fns,
    mustBlockG, addG, removeG, earlyG, releaseG, applyFns, Fn.apply, blockDeletion, carry, ownFns]

/-- F5b in the model: no 422 at all. The finalizer is added; deletion is requested; a label edit makes
the deletion handler mismatch; the cycle that queues the removal also has dict content;
the foreign label edit lands before its merge patch, whose response re-bases the `test`. -/
theorem stale_release_via_merge_witness (own : String) :
    ∃ s s', Reach own s ∧ step own s (.jsonPatch false) = some s' ∧
      own ∈ s.fins ∧ s.marked = true ∧ required s' = true ∧ own ∉ s'.fins ∧ s'.gone = true ∧ s.mem = [] := by
  let ls : List Label := [.decide quiet ⟨0, false, [], true, false⟩, .jsonPatch false, .mark, .toggleDel,
                          .decide { quiet with merge := true } ⟨3, true, [own], false, false⟩, .toggleDel, .mergePatch]
  have hrun : run own w0 ls = some
      { w0 with marked := true, fins := [own], rv := 4, mem := [],
                pending := some { fns := [Fn.allow, Fn.allow], rvTest := 4, view := [own], merge := false,
                                  mergeChanges := false } } := by
    simp [ls, run, step, stepDecide, stepJson, stepMerge, stepMark, snap, w0, quiet, decision, inputs, Decision.fns,
      mustBlockG, addG, removeG, earlyG, releaseG, applyFns, Fn.apply, blockDeletion, allowDeletion]
  refine ⟨_, { w0 with marked := true, fins := [], rv := 5, gone := true }, reach_of_run ls (Reach.init (by simp [Init, w0])) hrun, ?_, ?_⟩
  · simp [step, stepJson, w0, applyFns, Fn.apply, allowDeletion, allowLoop]
  · simp [w0, required]

/-- Hence the full statement does not hold of the mechanism. -/
theorem never_early_fails (own : String) :
    ¬ (∀ (s s' : State) (l : Label), Reach own s → step own s l = some s' → own ∈ s.fins →
          required s' = true → own ∈ s'.fins) := by
  intro h
  obtain ⟨s, s', hr, hs, ho, _, hq, hn, _⟩ := stale_release_via_merge_witness own
  exact hn (h s s' _ hr hs ho hq)

/-! ## Released eventually; added and removed with the matching -/

/-- A marked object that still holds the finalizer and has nothing left to wait for loses it in ONE
undisturbed cycle (consistent state, no carried patch, no other handler's delay). -/
theorem released_in_one_quiet_cycle (own : String) (s : State) (e : Env)
    (hg : s.gone = false) (hp : s.pending = none) (hmem : s.mem = [])
    (hm : s.marked = true) (hown : own ∈ s.fins) (hset : Settled s)
    (hc : e.consistent = true) (hcr : e.carried = false) (hod : e.otherDelays = false) (hdr : e.delReset = false) :
    ∃ s', run own s (cycleLabels s e) = some s' ∧ own ∉ s'.fins ∧ s'.mem = [] ∧ s'.pending = none ∧
          (s'.fins = [] → s'.gone = true) :=
  ⟨afterCycle own s e, cycle_run own s e hg hp, afterCycle_released own s e hmem hm hown hset hc hcr hod hdr⟩

/-! ### … and such a cycle does come (the wake-up layer `LState`/`lstep`, see the model)

  `LReachG`: any run of the wake-up layer — the worker takes the queued events one per cycle, oldest first,
  each cycle decides on the body of ITS event (stale bodies included); a cycle may leave early as inconsistent
  only while the version of the worker's own last patch is awaited — whether that event is still to come or was
  lost — and then returns the rest of the waiting time as a delay (repair 30557a0); cycles that returned delays
  sleep and touch unless their patch changed the object — under `LGuard`: no HTTP 422 injected without a real
  write (`injected_422_loses_wakeup` shows why it is needed). Restarts, foreign writes, genuine conflicts,
  completions, no-op patches, handler-supplied fns with nothing to change (carried or not: repair b7bf39c and the
  rework 02af7ce of 608a57d) are free. -/

/-- The wake-up layer only schedules the base LTS: every safety theorem above holds of its runs. -/
theorem wakeup_layer_refines {own : String} {s : LState} (h : LReach own s) : Reach own s.base :=
  lreach_base h

/-- No lost wake-up: an object that waits for its release (exists, marked, holds the own finalizer) always
has an enabled step of the operator ahead — a request of the cycle in flight, a cycle on the oldest queued
event, or the touch that ends the sleep. (Since repair 30557a0 and the rework 02af7ce of 608a57d without the former
exclusion of handler-supplied fns — finding F9 — and without the assumption that an awaited version always arrives.) -/
theorem no_lost_wakeup {own : String} {s : LState} (h : LReachG own s) (hw : Waiting own s.base) :
    ∃ l, LLabel.isOperator l = true ∧ (lstep own s l).isSome = true := by
  have hI := linv_reach h
  cases hp : s.base.pending with
  | some p =>
    cases hm : p.merge
    · obtain ⟨s2, h2, _⟩ := lstep_json_enabled (own := own) hw.1 hp hm
      exact ⟨.base (.jsonPatch false), rfl, by rw [h2]; rfl⟩
    · obtain ⟨s1, h1, _⟩ := lstep_merge_enabled (own := own) hw.1 hp hm
      exact ⟨.base .mergePatch, rfl, by rw [h1]; rfl⟩
  | none =>
    rcases hI.j1 hp hw with hne | hsl
    · obtain ⟨v, rest, hq⟩ : ∃ v rest, s.queue = v :: rest := by
        cases hqq : s.queue with
        | nil => exact absurd hqq hne
        | cons v rest => exact ⟨v, rest, rfl⟩
      have hv := hI.q.1 v (by rw [hq]; simp)
      obtain ⟨b1, hb1⟩ := step_decide_enabled own s.base quiet v hw.1 hp hv.1 hv.2
      refine ⟨.base (.decide quiet v), rfl, ?_⟩
      simp only [lstep, hq, bne_self_eq_false, Bool.false_eq_true, if_false, hb1, Option.map_some, Option.isSome_some]
      simp [quiet]
    · refine ⟨.touch, rfl, ?_⟩
      have hpn : s.base.pending.isNone = true := by rw [hp]; rfl
      simp [lstep, hsl, hpn, step, hw.1]

/-
  FULL clause ("once all of them are finished it is removed so that deletion proceeds") as an inevitability:
  every run in which the operator's enabled steps are eventually taken releases a waiting & settled object.
  NOT proved, and not true of the LTS without further assumptions on the environment's part of the labels:
  a cycle's label carries environment choices, and `consistent = false` (another event is queued),
  `otherDelays = true` (some other handler, e.g. an optional deletion handler, still retries) or
  `delReset = true` (the deletion handler is re-scheduled) make that cycle keep the finalizer — by design.
  Proved instead: `no_lost_wakeup` (the operator is never stuck), `released_in_one_quiet_cycle` (ANY cycle on
  the current state with `consistent`, no other delay, no re-scheduling releases, whatever else it carries), and
  the reachability statement below, whose path takes exactly such cycles (`quiet`).
-/

/-- Release is reachable by the operator alone when the environment is quiet: from EVERY guarded-reachable
state in which the object waits for its release, nothing is left to wait for, and every queued event already
shows the object marked (an older, unmarked body would make its cycle respawn the daemon — kopf does that),
the operator's own enabled steps take the finalizer off: the rest of the cycle in flight, the touch that
ends a sleep, and one QUIET cycle per queued event, oldest first — the cycles on stale bodies change
nothing (their JSON patch, if any, meets HTTP 422), the one on the current body releases. -/
theorem release_reachable_when_quiet {own : String} {s : LState} (h : LReachG own s)
    (hw : Waiting own s.base) (hset : Settled s.base) (hmk : ∀ v ∈ s.queue, v.marked = true) :
    ∃ ls s', ls.length ≤ 2 * s.queue.length + 9 ∧ (∀ l ∈ ls, LLabel.isOperator l = true) ∧
      lrun own s ls = some s' ∧ own ∉ s'.base.fins := by
  have hI := linv_reach h
  -- an idle worker
  have idle : ∀ (t : LState), LInv own t → t.base.pending = none → Waiting own t.base → Settled t.base →
      (∀ v ∈ t.queue, v.marked = true) →
      ∃ ls s', ls.length ≤ 2 * t.queue.length + 3 ∧ (∀ l ∈ ls, LLabel.isOperator l = true) ∧
        lrun own t ls = some s' ∧ own ∉ s'.base.fins := by
    intro t hIt hpt hwt hst hmt
    cases hqq : t.queue with
    | cons v rest =>
      obtain ⟨ls, s', hlen, hop, hrun, hrel⟩ := drain own rest.length t hIt hpt hwt hst hmt (by rw [hqq]; simp)
      exact ⟨ls, s', by simp only [List.length_cons]; omega, hop, hrun, hrel⟩
    | nil =>
      have hsl : t.sleeping = true := (hIt.j1 hpt hwt).resolve_left (by rw [hqq]; simp)
      have hpn : t.base.pending.isNone = true := by rw [hpt]; rfl
      let b : State := { t.base with matchDel := t.base.matchDel, matchDmn := t.base.matchDmn, rv := t.base.rv + 1 }
      have ht : lstep own t .touch = some { t with base := b, queue := t.queue ++ [snap b], sleeping := false } := by
        simp [lstep, hsl, hpn, step, hwt.1, b]
      have hI1 : LInv own { t with base := b, queue := t.queue ++ [snap b], sleeping := false } :=
        linv_step hIt (show LGuard .touch from trivial) ht
      obtain ⟨ls, s', hlen, hop, hrun, hrel⟩ := drain own 0 _ hI1 hpt
        ⟨hwt.1, hwt.2.1, hwt.2.2⟩ ⟨hst.1, hst.2⟩
        (by intro v hv; simp only [hqq, List.nil_append, List.mem_singleton] at hv; subst hv; exact hwt.2.1)
        (by simp [hqq])
      refine ⟨.touch :: ls, s', by simp only [List.length_cons, List.length_nil]; omega, ?_, ?_, hrel⟩
      · intro l hl
        rcases List.mem_cons.mp hl with rfl | hl
        · rfl
        · exact hop l hl
      · simp only [lrun, ht, Option.bind_some]; exact hrun
  -- after the JSON patch of the cycle in flight
  have afterJson : ∀ (t : LState), LInv own t → t.base.gone = false → t.base.marked = true → Settled t.base →
      (∀ v ∈ t.queue, v.marked = true) → ∀ p, t.base.pending = some p → p.merge = false →
      ∃ ls s', ls.length ≤ 2 * t.queue.length + 6 ∧ (∀ l ∈ ls, LLabel.isOperator l = true) ∧
        lrun own t ls = some s' ∧ own ∉ s'.base.fins := by
    intro t hIt hgt hmt hst hmkt p hp hm
    obtain ⟨s2, h2, hreq, hpn, hgone⟩ := lstep_json_enabled (own := own) hgt hp hm
    have hI2 : LInv own s2 := linv_step hIt (show LGuard (.base (.jsonPatch false)) from rfl) h2
    by_cases hown : own ∈ s2.base.fins
    · have hw2 : Waiting own s2.base := ⟨hgone hown, by rw [hreq.1]; exact hmt, hown⟩
      have hgrow := request_queue_grow (l := .jsonPatch false) (Or.inr ⟨false, rfl⟩) h2
      have hq2 : ∀ v ∈ s2.queue, v.marked = true := by
        intro v hv
        rcases hgrow.2 v hv with hv | hv
        · exact hmkt v hv
        · subst hv; exact hw2.2.1
      obtain ⟨ls, s', hlen, hop, hrun, hrel⟩ := idle s2 hI2 hpn hw2 (settled_of_sameReq hreq hst) hq2
      refine ⟨.base (.jsonPatch false) :: ls, s', by simp only [List.length_cons]; have := hgrow.1; omega, ?_, ?_, hrel⟩
      · intro l hl
        rcases List.mem_cons.mp hl with rfl | hl
        · rfl
        · exact hop l hl
      · simp only [lrun, h2, Option.bind_some]; exact hrun
    · exact ⟨[.base (.jsonPatch false)], s2, by simp, by simp [LLabel.isOperator], by simp [lrun, h2], hown⟩
  cases hp : s.base.pending with
  | none =>
    obtain ⟨ls, s', hlen, hop, hrun, hrel⟩ := idle s hI hp hw hset hmk
    exact ⟨ls, s', by omega, hop, hrun, hrel⟩
  | some p =>
    cases hm : p.merge
    · obtain ⟨ls, s', hlen, hop, hrun, hrel⟩ := afterJson s hI hw.1 hw.2.1 hset hmk p hp hm
      exact ⟨ls, s', by omega, hop, hrun, hrel⟩
    · obtain ⟨s1, h1, hreq, hg1, _, p1, hp1, hm1⟩ := lstep_merge_enabled (own := own) hw.1 hp hm
      have hI1 : LInv own s1 := linv_step hI (show LGuard (.base .mergePatch) from trivial) h1
      have hgrow := request_queue_grow (l := .mergePatch) (Or.inl rfl) h1
      have hmk1 : s1.base.marked = true := by rw [hreq.1]; exact hw.2.1
      have hq1 : ∀ v ∈ s1.queue, v.marked = true := by
        intro v hv
        rcases hgrow.2 v hv with hv | hv
        · exact hmk v hv
        · subst hv; exact hmk1
      obtain ⟨ls, s', hlen, hop, hrun, hrel⟩ :=
        afterJson s1 hI1 hg1 hmk1 (settled_of_sameReq hreq hset) hq1 p1 hp1 hm1
      refine ⟨.base .mergePatch :: ls, s', by simp only [List.length_cons]; have := hgrow.1; omega, ?_, ?_, hrel⟩
      · intro l hl
        rcases List.mem_cons.mp hl with rfl | hl
        · rfl
        · exact hop l hl
      · simp only [lrun, h1, Option.bind_some]; exact hrun

/-- Added in the first cycle that sees an unmarked object without the finalizer while a
finalizer-requiring handler matches it — whatever is carried, whatever the timing. -/
theorem add_on_match (own : String) (s : State) (e : Env)
    (hg : s.gone = false) (hp : s.pending = none) (hm : s.marked = false) (hown : own ∉ s.fins)
    (hmatch : s.matchDel = true ∨ (s.matchDmn = true ∧ s.dmnForever = false)) :
    ∃ s', run own s (cycleLabels s e) = some s' ∧ own ∈ s'.fins ∧
          s'.fins.filter (· != own) = s.fins.filter (· != own) := by
  refine ⟨afterCycle own s e, cycle_run own s e hg hp, ?_⟩
  have hmb : (s.matchDel || (s.matchDmn && !s.dmnForever)) = true := by
    rcases hmatch with h | ⟨h1, h2⟩ <;> simp [*]
  have hb := add_bool s.matchDel s.matchDmn s.delDone s.dmnLive s.dmnForever (e.consistent && !e.carried) s.mem.isEmpty
    e.otherChanging e.otherDelays e.delReset hmb
  have hin : inputs own (snap s) s e = withWait (inputsB s.matchDel s.matchDmn s.delDone s.dmnLive s.dmnForever false false
      (e.consistent && !e.carried) s.mem.isEmpty e.otherChanging e.otherDelays e.delReset) e.waiting (e.carried || !s.mem.isEmpty) := by
    rw [inputs_eq]; simp [hown, hm]
  have hf := fns_add_only _ hb.1 hb.2.1 hb.2.2
  have htarget : own ∈ applyFns own (s.mem ++ (decision (inputs own (snap s) s e)).fns) s.fins := by
    rw [hin, dw_fns, hf]; exact (own_mem_applyFns_snoc own _ Fn.block s.fins).mpr rfl
  have hne : applyFns own (s.mem ++ (decision (inputs own (snap s) s e)).fns) s.fins ≠ s.fins := by
    intro heq; rw [heq] at htarget; exact hown htarget
  simp only [afterCycle, hne, if_false]
  exact ⟨htarget, filter_applyFns own _ _⟩

/-- Removed in the first cycle that sees the finalizer on an object that no finalizer-requiring
handler matches any more (marked or not). -/
theorem remove_on_mismatch (own : String) (s : State) (e : Env)
    (hg : s.gone = false) (hp : s.pending = none) (hown : own ∈ s.fins)
    (hmis : s.matchDel = false ∧ (s.matchDmn = false ∨ s.dmnForever = true)) :
    ∃ s', run own s (cycleLabels s e) = some s' ∧ own ∉ s'.fins ∧
          s'.fins.filter (· != own) = s.fins.filter (· != own) := by
  refine ⟨afterCycle own s e, cycle_run own s e hg hp, ?_⟩
  have hmb : (s.matchDel || (s.matchDmn && !s.dmnForever)) = false := by
    rcases hmis with ⟨h0, h | h⟩ <;> simp [*]
  have hb := remove_bool s.matchDel s.matchDmn s.delDone s.dmnLive s.dmnForever s.marked (e.consistent && !e.carried)
    s.mem.isEmpty e.otherChanging e.otherDelays e.delReset hmb
  have hin : inputs own (snap s) s e = withWait (inputsB s.matchDel s.matchDmn s.delDone s.dmnLive s.dmnForever s.marked true
      (e.consistent && !e.carried) s.mem.isEmpty e.otherChanging e.otherDelays e.delReset) e.waiting (e.carried || !s.mem.isEmpty) := by
    rw [inputs_eq]; simp [hown]
  obtain ⟨pre, hpre⟩ := fns_snoc_allow _ hb.1 (by simp [hb.2])
  have htarget : own ∉ applyFns own (s.mem ++ (decision (inputs own (snap s) s e)).fns) s.fins := by
    rw [hin, dw_fns, hpre, ← List.append_assoc]
    intro hmem'
    have := (own_mem_applyFns_snoc own _ Fn.allow s.fins).mp hmem'
    cases this
  have hne : applyFns own (s.mem ++ (decision (inputs own (snap s) s e)).fns) s.fins ≠ s.fins := by
    intro heq; rw [heq] at htarget; exact htarget hown
  simp only [afterCycle, hne, if_false]
  exact ⟨htarget, filter_applyFns own _ _⟩

/-- …and only then: the block queues an addition only when something requires the finalizer on the
body it is given (`v`, the event's), and a removal only when nothing does or the object is released. -/
theorem add_remove_on_match (own : String) (v : Snap) (s : State) (e : Env) :
    (Fn.block ∈ (decision (inputs own v s e)).fns →
        (v.matchDel = true ∨ (v.matchDmn = true ∧ s.dmnForever = false)) ∧ own ∉ v.fins ∧ v.marked = false) ∧
    (Fn.allow ∈ (decision (inputs own v s e)).fns → own ∈ v.fins ∧
        ((v.matchDel = false ∧ (v.matchDmn = false ∨ s.dmnForever = true)) ∨ v.marked = true)) := by
  have hb := arm_inputs own v s e
  constructor
  · intro h
    rw [block_mem_fns] at h
    obtain ⟨h1, h2, h3⟩ := hb.1 h
    refine ⟨?_, by simpa using h2, h3⟩
    cases hd : v.matchDel
    · right
      simp [hd] at h1
      exact h1
    · exact Or.inl rfl
  · intro h
    rw [allow_mem_fns] at h
    obtain ⟨h1, h2⟩ := hb.2 h
    refine ⟨by simpa using h1, ?_⟩
    rcases h2 with h2 | h2
    · left
      simp at h2
      refine ⟨h2.1, ?_⟩
      cases hm : v.matchDmn
      · exact Or.inl rfl
      · exact Or.inr (h2.2 hm)
    · exact Or.inr h2

/-! ## The guard of the liveness layer is necessary; the histories of the former findings F7, F8, F9 and C03-N6 -/

theorem lreach_of_lrun {own : String} : ∀ (ls : List LLabel) (s s' : LState), LReach own s → lrun own s ls = some s' → LReach own s' := by
  intro ls
  induction ls with
  | nil => intro s s' h hr; simp [lrun] at hr; subst hr; exact h
  | cons l ls ih =>
    intro s s' h hr
    simp only [lrun] at hr
    cases hst : lstep own s l with
    | none => simp [hst] at hr
    | some s1 => simp [hst] at hr; exact ih s1 s' (LReach.step h hst) hr

/-- `LGuard` is necessary: HTTP 422 injected on the release patch twice, with no concurrent write behind it.
The patch is non-empty and no version comes back, so the sleep is skipped; no event follows; the queued events
are used up — the object waits, settled, with NO enabled step of the operator.
(Not a defect of kopf: the API server answers 422 to the `test` op only after a write, whose event wakes the worker.) -/
theorem injected_422_loses_wakeup (own : String) :
    ∃ s, LReach own s ∧ Waiting own s.base ∧ Settled s.base ∧
      ∀ l, LLabel.isOperator l = true → lstep own s l = none := by
  let s0 : LState := { base := w0, queue := [snap w0], sleeping := false, cycDelays := false, cycMerge := false,
                       cycChanges := false, cycViewRv := 0 }
  let v2 : Snap := ⟨2, true, [own], true, false⟩
  let ls : List LLabel := [.base (.decide quiet ⟨0, false, [], true, false⟩), .base (.jsonPatch false), .base .mark,
    .base .handlerFinishes, .base (.decide quiet ⟨1, false, [own], true, false⟩), .base (.jsonPatch true),
    .base (.decide quiet v2), .base (.jsonPatch true)]
  have hrun : lrun own s0 ls = some
      { base := { w0 with marked := true, fins := [own], rv := 2, delDone := true },
        queue := [], sleeping := false, cycDelays := false, cycMerge := false, cycChanges := false, cycViewRv := 2 } := by
    simp [ls, s0, v2, lrun, lstep, enqueue, step, stepDecide, stepJson, stepMark, snap, w0, quiet, decision, inputs,
      Decision.fns, mustBlockG, addG, removeG, earlyG, releaseG, waitG, applyFns, Fn.apply, blockDeletion, allowDeletion, allowLoop,
      sleepsAfter, changedUnwritten, carry, ownFns]
  refine ⟨_, lreach_of_lrun ls s0 _ (LReach.init ?_) hrun, ?_, ?_, ?_⟩
  · exact ⟨⟨rfl, rfl, rfl, rfl, rfl, rfl, rfl⟩, rfl, rfl, rfl, rfl, rfl⟩
  · exact ⟨rfl, rfl, by simp⟩
  · exact ⟨fun _ => rfl, rfl⟩
  · intro l hl
    cases l with
    | touch => simp [lstep]
    | base bl =>
      cases bl <;> simp [LLabel.isOperator] at hl <;> simp [lstep, step, stepMerge, stepJson, w0]

/-- The history of the former finding F8 (= C03-N1, repaired in b7bf39c), now live: a daemon is still exiting when
the deletion is requested; the cycles return delays; a handler has put a transformation fn into the patch that has
nothing to change, so the patch is non-empty but NO request is sent. That is no longer taken for a change: the
worker sleeps and will touch the object; after the daemon's exit the touch and one quiet cycle release it.
(Before the repair the state after `daemonExits` had `sleeping = false`, an empty queue and no enabled step.) -/
theorem noop_fn_keeps_wakeup (own : String) :
    let b0 : State := { w0 with matchDel := false, matchDmn := true }
    let s0 : LState := { base := b0, queue := [snap b0], sleeping := false, cycDelays := false, cycMerge := false,
                         cycChanges := false, cycViewRv := 0 }
    let uf : Env := { quiet with userFns := true }
    lrun own s0 [.base (.decide quiet ⟨0, false, [], false, true⟩), .base (.jsonPatch false), .base .mark,
      .base (.decide uf ⟨1, false, [own], false, true⟩), .base (.jsonPatch false),
      .base (.decide uf ⟨2, true, [own], false, true⟩), .base (.jsonPatch false), .base (.daemonExits false),
      .touch, .base (.decide quiet ⟨3, true, [own], false, true⟩), .base (.jsonPatch false)] =
    some { base := { b0 with gone := true, marked := true, fins := [], rv := 4, dmnLive := false },
           queue := [⟨4, true, [], false, true⟩], sleeping := false, cycDelays := false, cycMerge := false,
           cycChanges := false, cycViewRv := 3 } := by
  simp [lrun, lstep, enqueue, step, stepDecide, stepJson, stepMark, snap, w0, quiet, decision, inputs,
    Decision.fns, mustBlockG, addG, removeG, earlyG, releaseG, waitG, applyFns, Fn.apply, blockDeletion, allowDeletion, allowLoop,
    sleepsAfter, changedUnwritten]

/-- The history of the former finding F9 (= C03-N2; repaired by the rework 02af7ce of 608a57d), now live: deletion handler
finished, the release patch [a handler's idempotent fn, allow_deletion] was rejected (a foreign write slipped in), the
handler's fn is carried: the next cycle starts with a non-empty patch, leaves before the handlers and the release —
and returns a ZERO delay. The carried fn has nothing to change, nothing is sent; that is no change, so the worker
touches the object at once, and the cycle on the touch's event (nothing carried any more) releases the object.
The label of the OLD behaviour — the same cycle leaving as inconsistent with neither an awaited version nor a carried
patch to account for it, hence without a delay — is not a step of the wake-up layer any more. -/
theorem carried_fn_keeps_wakeup (own : String) :
    let s0 : LState := { base := w0, queue := [snap w0], sleeping := false, cycDelays := false, cycMerge := false,
                         cycChanges := false, cycViewRv := 0 }
    let cf : Env := { quiet with userFns := true, carried := true }
    let pre : List LLabel := [.base (.decide quiet ⟨0, false, [], true, false⟩), .base (.jsonPatch false), .base .mark,
      .base .handlerFinishes, .base (.decide quiet ⟨1, false, [own], true, false⟩), .base (.jsonPatch false)]
    (∃ s, lrun own s0 (pre ++ [.base (.decide cf ⟨2, true, [own], true, false⟩), .base (.jsonPatch false)]) = some s ∧
          s.sleeping = true ∧ s.queue = [] ∧ own ∈ s.base.fins) ∧
    (∃ s, lrun own s0 (pre ++ [.base (.decide cf ⟨2, true, [own], true, false⟩), .base (.jsonPatch false), .touch,
                               .base (.decide quiet ⟨3, true, [own], true, false⟩), .base (.jsonPatch false)]) = some s ∧
          s.base.gone = true ∧ own ∉ s.base.fins) ∧
    (∀ s, lrun own s0 pre = some s →
          lstep own s (.base (.decide { quiet with userFns := true, consistent := false } ⟨2, true, [own], true, false⟩)) = none) := by
  refine ⟨⟨{ base := { w0 with marked := true, fins := [own], rv := 2, delDone := true },
             queue := [], sleeping := true, cycDelays := true, cycMerge := false, cycChanges := false, cycViewRv := 2 },
           ?_, rfl, rfl, by simp⟩,
          ⟨{ base := { w0 with gone := true, marked := true, fins := [], rv := 4, delDone := true },
             queue := [⟨4, true, [], true, false⟩], sleeping := false, cycDelays := false, cycMerge := false,
             cycChanges := false, cycViewRv := 3 }, ?_, rfl, by simp⟩, ?_⟩
  · simp [lrun, lstep, enqueue, step, stepDecide, stepJson, stepMark, snap, w0, quiet, decision, inputs,
      Decision.fns, mustBlockG, addG, removeG, earlyG, releaseG, waitG, applyFns, Fn.apply, blockDeletion, allowDeletion, allowLoop,
      sleepsAfter, changedUnwritten]
  · simp [lrun, lstep, enqueue, step, stepDecide, stepJson, stepMark, snap, w0, quiet, decision, inputs,
      Decision.fns, mustBlockG, addG, removeG, earlyG, releaseG, waitG, applyFns, Fn.apply, blockDeletion, allowDeletion, allowLoop,
      sleepsAfter, changedUnwritten]
  · intro s hs
    simp [lrun, lstep, enqueue, step, stepDecide, stepJson, stepMark, snap, w0, quiet, decision, inputs,
      Decision.fns, mustBlockG, addG, removeG, earlyG, releaseG, waitG, applyFns, Fn.apply, blockDeletion,
      sleepsAfter, changedUnwritten] at hs
    subst hs
    simp [lstep, quiet]

/-- REGRESSION (finding F9 = C03-N2 as it was before its repair, in `lstepOld`): with a handler-supplied fn carried over
in the patch, the cycle left before the handlers and the release (`consistent = false`: the patch is non-empty from
the start) although NO other event was queued and no version awaited; the fn has nothing to change, nothing is sent,
no delay was returned — the object waits, settled, with no enabled step of the operator. -/
theorem carried_fn_lost_wakeup_before_repair (own : String) :
    ∃ ls s, lrunOld own { base := w0, queue := [snap w0], sleeping := false, cycDelays := false, cycMerge := false,
                          cycChanges := false, cycViewRv := 0 } ls = some s ∧
      Waiting own s.base ∧ Settled s.base ∧ ∀ l, LLabel.isOperator l = true → lstepOld own s l = none := by
  let uf : Env := { quiet with userFns := true, consistent := false }
  refine ⟨[.base (.decide quiet ⟨0, false, [], true, false⟩), .base (.jsonPatch false), .base .mark,
    .base .handlerFinishes, .base (.decide quiet ⟨1, false, [own], true, false⟩), .base (.jsonPatch false),
    .base (.decide uf ⟨2, true, [own], true, false⟩), .base (.jsonPatch false)],
    { base := { w0 with marked := true, fins := [own], rv := 2, delDone := true },
      queue := [], sleeping := false, cycDelays := false, cycMerge := false, cycChanges := false, cycViewRv := 2 },
    ?_, ⟨rfl, rfl, by simp⟩, ⟨fun _ => rfl, rfl⟩, ?_⟩
  · simp [uf, lrunOld, lstepOld, lstep, enqueue, step, stepDecide, stepJson, stepMark, snap, w0, quiet, decision, inputs,
      Decision.fns, mustBlockG, addG, removeG, earlyG, releaseG, waitG, applyFns, Fn.apply, blockDeletion, sleepsAfter, changedUnwritten]
  · intro l hl
    cases l with
    | touch => simp [lstepOld, lstep]
    | base bl =>
      cases bl <;> simp [LLabel.isOperator] at hl <;> simp [lstepOld, lstep, step, stepMerge, stepJson, w0]

/-- The history of C03-N6 / C07-F2 (repaired in 30557a0) on a deletion, now live: the deletion handler has finished;
the worker still awaits the version of its own last patch, whose event is LOST (nothing else is queued); the cycle on
the marked object has a non-empty patch that changes nothing (a constant on-event result), so it skips the wait and
leaves before the handlers and the release — but returns the rest of the waiting time: the worker sleeps, touches
the object, and the next cycle releases it. (Before the repair that early exit returned no delay: with an empty queue
and `sleeping = false` nothing was enabled — and `lstep` did not even have this label: it assumed the awaited event
always comes.) -/
theorem inconsistent_noop_patch_keeps_wakeup (own : String) :
    let b0 : State := { w0 with marked := true, fins := [own], rv := 2, delDone := true }
    let s0 : LState := { base := b0, queue := [snap b0], sleeping := false, cycDelays := false, cycMerge := false,
                         cycChanges := false, cycViewRv := 2 }
    let ev : Env := { quiet with consistent := false, waiting := true, merge := true }
    (lrun own s0 [.base (.decide ev ⟨2, true, [own], true, false⟩), .base .mergePatch, .base (.jsonPatch false)] =
      some { s0 with queue := [], sleeping := true, cycDelays := true, cycMerge := true }) ∧
    lrun own s0 [.base (.decide ev ⟨2, true, [own], true, false⟩), .base .mergePatch, .base (.jsonPatch false),
      .touch, .base (.decide quiet ⟨3, true, [own], true, false⟩), .base (.jsonPatch false)] =
    some { base := { b0 with gone := true, fins := [], rv := 4 },
           queue := [⟨4, true, [], true, false⟩], sleeping := false, cycDelays := false, cycMerge := false,
           cycChanges := false, cycViewRv := 3 } := by
  constructor <;>
  simp [lrun, lstep, enqueue, step, stepDecide, stepJson, stepMerge, stepMark, snap, w0, quiet, decision, inputs,
    Decision.fns, mustBlockG, addG, removeG, earlyG, releaseG, waitG, applyFns, Fn.apply, blockDeletion, allowDeletion, allowLoop,
    sleepsAfter, changedUnwritten]

/-- The history of the former finding F7 (repaired in 7224f57), now live: a daemon is still exiting when the
deletion is requested; the cycles return delays and their patch has dict content that changes nothing. The
sleep is no longer skipped: the worker sleeps and will touch the object — and after the daemon's exit the touch
plus one quiet cycle release it (before the repair this state had `sleeping = false` and NO enabled step). -/
example (own : String) :
    let b0 : State := { w0 with matchDel := false, matchDmn := true }
    let s0 : LState := { base := b0, queue := [snap b0], sleeping := false, cycDelays := false, cycMerge := false,
                         cycChanges := false, cycViewRv := 0 }
    let noop : Env := { quiet with merge := true }
    lrun own s0 [.base (.decide quiet ⟨0, false, [], false, true⟩), .base (.jsonPatch false), .base .mark,
      .base (.decide noop ⟨1, false, [own], false, true⟩), .base .mergePatch, .base (.jsonPatch false),
      .base (.decide noop ⟨2, true, [own], false, true⟩), .base .mergePatch, .base (.jsonPatch false),
      .base (.daemonExits false),
      .touch, .base (.decide quiet ⟨3, true, [own], false, true⟩), .base (.jsonPatch false)] =
    some { base := { b0 with gone := true, marked := true, fins := [], rv := 4, dmnLive := false },
           queue := [⟨4, true, [], false, true⟩], sleeping := false, cycDelays := false, cycMerge := false,
           cycChanges := false, cycViewRv := 3 } := by
  simp [lrun, lstep, enqueue, step, stepDecide, stepJson, stepMerge, stepMark, snap, w0, quiet, decision, inputs,
    Decision.fns, mustBlockG, addG, removeG, earlyG, releaseG, waitG, applyFns, Fn.apply, blockDeletion, allowDeletion, allowLoop,
    sleepsAfter, changedUnwritten]

/-! ## Non-vacuity -/

/-- A guarded run through a whole life: add, deletion request, the handler finishes, release. -/
example : ∃ s, ReachG "k" s ∧ s.gone = true ∧ s.delDone = true := by
  refine ⟨{ w0 with gone := true, marked := true, rv := 3, delDone := true }, ?_, rfl, rfl⟩
  have s0 : ReachG "k" w0 := ReachG.init (by simp [Init, w0])
  have s1 := ReachG.step (l := .decide quiet ⟨0, false, [], true, false⟩) s0 trivial
    (s' := { w0 with pending := some ⟨[Fn.block], 0, [], false, false⟩ }) (by decide)
  have s2 := ReachG.step (l := .jsonPatch false) s1 trivial
    (s' := { w0 with fins := ["k"], rv := 1 }) (by decide)
  have s3 := ReachG.step (l := .mark) s2 trivial (s' := { w0 with fins := ["k"], rv := 2, marked := true }) (by decide)
  have s4 := ReachG.step (l := .handlerFinishes) s3 trivial
    (s' := { w0 with fins := ["k"], rv := 2, marked := true, delDone := true }) (by decide)
  have s5 := ReachG.step (l := .decide quiet ⟨2, true, ["k"], true, false⟩) s4 trivial
    (s' := { w0 with fins := ["k"], rv := 2, marked := true, delDone := true,
                     pending := some ⟨[Fn.allow], 2, ["k"], false, false⟩ }) (by decide)
  exact ReachG.step (l := .jsonPatch false) s5 trivial (by decide)

/-- The hypotheses of `never_early_partial` are met with the requirement in force: a marked,
blocked object whose handler has failed so far keeps the finalizer through a cycle — also one on a stale body. -/
example : ∃ s s', ReachG "k" s ∧ step "k" s (.decide quiet ⟨1, false, ["k"], true, false⟩) = some s' ∧
    "k" ∈ s.fins ∧ required s' = true := by
  refine ⟨{ w0 with fins := ["k"], rv := 2, marked := true },
          { w0 with fins := ["k"], rv := 2, marked := true, pending := some ⟨[], 1, ["k"], false, false⟩ },
          ?_, by decide, by decide, by decide⟩
  have s0 : ReachG "k" w0 := ReachG.init (by simp [Init, w0])
  have s1 := ReachG.step (l := .decide quiet ⟨0, false, [], true, false⟩) s0 trivial
    (s' := { w0 with pending := some ⟨[Fn.block], 0, [], false, false⟩ }) (by decide)
  have s2 := ReachG.step (l := .jsonPatch false) s1 trivial
    (s' := { w0 with fins := ["k"], rv := 1 }) (by decide)
  exact ReachG.step (l := .mark) s2 trivial (by decide)

/-- The guard is the gap, not more: a HARMLESS foreign write between the removal decision and the cycle's merge
patch (the object stays unrequired) is a guarded run, and the removal then goes through. -/
example : ∃ s, ReachG "k" s ∧ s.gone = true ∧ s.rv = 5 := by
  let b : State := { w0 with matchDel := false }
  have s0 : ReachG "k" { b with fins := ["k"], rv := 1 } := ReachG.init (by simp [Init, b, w0])
  have s1 := ReachG.step (l := .mark) s0 trivial (s' := { b with fins := ["k"], rv := 2, marked := true }) (by decide)
  have s2 := ReachG.step (l := .decide { quiet with merge := true, mergeChanges := true } ⟨2, true, ["k"], false, false⟩) s1 trivial
    (s' := { b with fins := ["k"], rv := 2, marked := true,
                    pending := some ⟨[Fn.allow, Fn.allow], 2, ["k"], true, true⟩ }) (by decide)
  have s3 := ReachG.step (l := .write false false) s2 trivial
    (s' := { b with fins := ["k"], rv := 3, marked := true,
                    pending := some ⟨[Fn.allow, Fn.allow], 2, ["k"], true, true⟩ }) (by decide)
  have s4 := ReachG.step (l := .mergePatch) s3 (by intro p hp _; simp at hp; subst hp; decide)
    (s' := { b with fins := ["k"], rv := 4, marked := true,
                    pending := some ⟨[Fn.allow, Fn.allow], 4, ["k"], false, true⟩ }) (by decide)
  have s5 := ReachG.step (l := .jsonPatch false) s4 trivial
    (s' := { b with fins := [], rv := 5, marked := true, gone := true }) (by decide)
  exact ⟨_, s5, rfl, rfl⟩

/-- The monitor bit does become true (so `never_early_inv_partial` is not vacuous). -/
example : ∃ s, ReachGH "k" s true := by
  have s0 : ReachGH "k" w0 false := ReachGH.init (by simp [Init, w0])
  have s1 := ReachGH.step (l := .decide quiet ⟨0, false, [], true, false⟩) s0 trivial
    (s' := { w0 with pending := some ⟨[Fn.block], 0, [], false, false⟩ }) (by decide)
  have s2 := ReachGH.step (l := .jsonPatch false) s1 trivial
    (s' := { w0 with fins := ["k"], rv := 1 }) (by decide)
  have s3 := ReachGH.step (l := .mark) s2 trivial (s' := { w0 with fins := ["k"], rv := 2, marked := true }) (by decide)
  exact ⟨_, s3⟩

/-- `released_in_one_quiet_cycle`, `add_on_match`, `remove_on_mismatch` on concrete objects. -/
example : Settled { w0 with fins := ["a", "k"], marked := true, delDone := true } := ⟨fun _ => rfl, rfl⟩
example : run "k" { w0 with fins := ["a", "k"], marked := true, delDone := true }
      (cycleLabels { w0 with fins := ["a", "k"], marked := true, delDone := true } quiet) =
    some { w0 with fins := ["a"], marked := true, delDone := true, rv := 1 } := by decide
example : run "k" { w0 with fins := ["a"] } (cycleLabels { w0 with fins := ["a"] } { quiet with merge := true, mergeChanges := true }) =
    some { w0 with fins := ["a", "k"], rv := 2 } := by decide
example : run "k" { w0 with fins := ["a", "k", "b"], matchDel := false }
      (cycleLabels { w0 with fins := ["a", "k", "b"], matchDel := false } quiet) =
    some { w0 with fins := ["a", "b"], matchDel := false, rv := 1 } := by decide

/-- The hypotheses of `no_lost_wakeup` / `release_reachable_when_quiet` are met on a guarded-reachable state of
the wake-up layer: finalizer added, deletion requested, the handler finished — two events queued, both marked? no:
the first one (the operator's own write) still shows the object unmarked, so it is taken first. -/
example : ∃ s, LReachG "k" s ∧ Waiting "k" s.base ∧ Settled s.base ∧ s.queue.length = 1 ∧ ∀ v ∈ s.queue, v.marked = true := by
  let mk (b : State) (q : List Snap) (vr : Nat) : LState :=
    { base := b, queue := q, sleeping := false, cycDelays := false, cycMerge := false, cycChanges := false, cycViewRv := vr }
  have s0 : LReachG "k" (mk w0 [snap w0] 0) := LReachG.init ⟨⟨rfl, rfl, rfl, rfl, rfl, rfl, rfl⟩, rfl, rfl, rfl, rfl, rfl⟩
  have s1 := LReachG.step (l := .base (.decide quiet ⟨0, false, [], true, false⟩)) s0 trivial
    (s' := mk { w0 with pending := some ⟨[Fn.block], 0, [], false, false⟩ } [] 0) (by decide)
  have s2 := LReachG.step (l := .base (.jsonPatch false)) s1 rfl
    (s' := mk { w0 with fins := ["k"], rv := 1 } [⟨1, false, ["k"], true, false⟩] 0) (by decide)
  have s3 := LReachG.step (l := .base .mark) s2 trivial
    (s' := mk { w0 with fins := ["k"], rv := 2, marked := true } [⟨1, false, ["k"], true, false⟩, ⟨2, true, ["k"], true, false⟩] 0) (by decide)
  have s4 := LReachG.step (l := .base .handlerFinishes) s3 trivial
    (s' := mk { w0 with fins := ["k"], rv := 2, marked := true, delDone := true }
              [⟨1, false, ["k"], true, false⟩, ⟨2, true, ["k"], true, false⟩] 0) (by decide)
  -- the stale, unmarked event is taken: nothing to do on it (the finalizer is there, the handler matches)
  have s5 := LReachG.step (l := .base (.decide quiet ⟨1, false, ["k"], true, false⟩)) s4 trivial
    (s' := mk { w0 with fins := ["k"], rv := 2, marked := true, delDone := true, pending := some ⟨[], 1, ["k"], false, false⟩ }
              [⟨2, true, ["k"], true, false⟩] 1) (by decide)
  have s6 := LReachG.step (l := .base (.jsonPatch false)) s5 rfl
    (s' := mk { w0 with fins := ["k"], rv := 2, marked := true, delDone := true } [⟨2, true, ["k"], true, false⟩] 1) (by decide)
  exact ⟨_, s6, ⟨rfl, rfl, by decide⟩, ⟨fun _ => rfl, rfl⟩, rfl, by decide⟩

/-- `delDone` is not sticky: a pass that re-schedules the deletion handler (its record was purged) makes
the object require the finalizer again — and queues no release. -/
example : run "k" { w0 with fins := ["k"], rv := 2, marked := true, delDone := true }
      [.decide { quiet with delReset := true } ⟨2, true, ["k"], true, false⟩] =
    some { w0 with fins := ["k"], rv := 2, marked := true, delDone := false,
                   pending := some ⟨[], 2, ["k"], false, false⟩ } := by decide

/-! ## Who requires the finalizer: `requires_finalizer` of the registries (the atoms `spawnReq` / `changeReq`) -/

/-- The finalizer is required iff SOME registration — of a handler that is not excluded (`forever_stopped`) —
both requires it and matches the object: every registration decides for itself, wherever it stands in the
registry and however many registrations share its id (stacked decorators). -/
theorem requires_iff (ex : List String) (regs : List Reg) :
    requiresLoop ex regs = true ↔ ∃ r ∈ regs, r.id ∉ ex ∧ r.requires = true ∧ r.hit = true :=
  requiresLoop_iff ex regs

/-- The order of registration does not matter. -/
theorem requires_order_irrelevant (ex : List String) {a b : List Reg} (h : a.Perm b) :
    requiresLoop ex a = requiresLoop ex b := by
  rw [Bool.eq_iff_iff, requiresLoop_iff, requiresLoop_iff]
  constructor
  · rintro ⟨r, hr, h'⟩; exact ⟨r, h.mem_iff.mp hr, h'⟩
  · rintro ⟨r, hr, h'⟩; exact ⟨r, h.mem_iff.mpr hr, h'⟩

/-- A registration that requires and matches is enough, whatever precedes it — in particular earlier
registrations of the SAME id that do not match (or do not require: an optional twin). -/
theorem requires_every_registration (ex : List String) (pre post : List Reg) (r : Reg)
    (hid : r.id ∉ ex) (hr : r.requires = true) (hm : r.hit = true) :
    requiresLoop ex (pre ++ r :: post) = true :=
  (requiresLoop_iff ex _).mpr ⟨r, by simp, hid, hr, hm⟩

example : requiresLoop [] [⟨"fn", true, false⟩, ⟨"fn", true, true⟩] = true := by decide
example : requiresLoop ["dm"] [⟨"dm", true, true⟩, ⟨"tm", true, false⟩] = false := by decide

/-- Regression (seeded change C06c, white-box mutant m5): de-duplicating the registrations by id BEFORE matching
loses the requirement of an object that matches only a later registration of a stacked function. -/
theorem dedup_before_match_loses_requirement_witness :
    ∃ regs, requiresLoop [] regs = true ∧ requiresLoop [] (dedupById regs []) = false :=
  ⟨[⟨"fn", true, false⟩, ⟨"fn", true, true⟩], by decide, by decide⟩

/-! ## The task of a synchronous daemon/handler and its thread (sync branch of `invocation.invoke`)

"A matching daemon that has neither exited nor been abandoned after its timeouts" — `stop_daemons` takes
`daemon.task.done()` for "has exited". For a synchronous function (a real thread) that is right only by the
ordering law below. `IReach true s`: reachable by ANY list of `cancel` / `ret` / `wake` labels (any number of
cancellations at any moments, the function returning or raising at any moment). -/

/-- The ordering law: the task of a sync function is not done before the function has returned in its thread —
whatever is cancelled, however often. -/
theorem sync_task_done_implies_returned {s : Inv} (h : IReach true s) : s.done = true → s.returned = true :=
  (iinv_reach h).1

-- non-vacuity: cancelled twice while running, then the function returns, then the task ends (as cancelled)
example : irun true {} [.cancel, .wake, .cancel, .wake, .ret false, .wake]
    = some { fut := some false, armed := false, late := false, cancellation := true, fin := some .cancelled } := by decide
-- cancelled, and before the loop runs the function raises: the step sees the future not done yet, awaits again, and the
-- function's exception ends the task (the real run corpus/C06/09)
example : (irun true {} [.cancel, .ret true, .cancel, .wake]).map Inv.done = some false
    ∧ (irun true {} [.cancel, .ret true, .cancel, .wake, .wake]).map Inv.fin = some (some .error) := by decide
example : (irun true {} [.cancel, .wake, .cancel, .wake]).map Inv.done = some false := by decide

/-- The postponed cancellation is not lost: a task that ends with the function's value was never cancelled
before (after a cancellation it ends as cancelled, or with the function's own exception). -/
theorem sync_cancellation_not_lost {s : Inv} (h : IReach true s) (hv : s.fin = some .value) :
    s.cancellation = false ∧ s.armed = false :=
  (iinv_reach h).2 hv

example : (irun true {} [.ret false, .wake]).map Inv.fin = some (some .value) := by decide

/-- ... and the task is not stuck for longer than the function: once the function has returned, the task's next
step is enabled, and at most two steps end it. -/
theorem sync_task_finishes_after_return (s : Inv) (hr : s.returned = true) (hd : s.done = false) :
    ∃ s', (irun true s [.wake] = some s' ∨ irun true s [.wake, .wake] = some s') ∧ s'.done = true := by
  obtain ⟨fut, armed, late, cancellation, fin⟩ := s
  cases fin with
  | some f => simp [Inv.done] at hd
  | none =>
    cases fut with
    | none => simp [Inv.returned] at hr
    | some r => cases armed <;> cases r <;> cases late <;> cases cancellation <;> simp [irun, istep, Inv.done, Inv.returned]

/-- What `stop_daemons` reports for one daemon: no delay iff the task is done or the daemon is abandoned
(a cancellation timeout is declared and backoff + timeout are over). -/
theorem stop_no_delay_spec (done : Bool) (backoff timeout : Option Nat) (age polling : Nat) :
    stopDelay done backoff timeout age polling = none ↔ (done = true ∨ abandoned backoff timeout age) :=
  stopDelay_none_iff done backoff timeout age polling

example : stopDelay false (some 2) (some 30) 5 1 = some 27 ∧ stopDelay false (some 2) (some 30) 32 1 = none
    ∧ stopDelay false none none 1000 1 = some 1 ∧ stopDelay true none none 0 1 = none := by decide

/-- Composition: while the function of a sync daemon is running in its thread and the daemon is not abandoned,
`stop_daemons` reports a delay for it (so the cycle does not release the finalizer: `decision_spec`,
`spawnDelays`) — for every history of cancellations, at every age, with any backoff/timeout declared or not. -/
theorem release_waits_for_sync_daemon {s : Inv} (h : IReach true s) (backoff timeout : Option Nat) (age polling : Nat)
    (hn : stopDelay s.done backoff timeout age polling = none) :
    s.returned = true ∨ abandoned backoff timeout age := by
  rcases (stopDelay_none_iff _ _ _ _ _).mp hn with hd | ha
  · exact Or.inl (sync_task_done_implies_returned h hd)
  · exact Or.inr ha

example : IReach true { fut := none, armed := false, late := false, cancellation := true, fin := none } := ⟨[.cancel, .wake], by decide⟩
example : stopDelay (Inv.done { fut := none, armed := false, late := false, cancellation := true, fin := none }) none (some 30) 0 1 = some 30 := by decide

/-- The variant without the postponing loop (a single `await shield(future)`, the thread left behind; seeded
change C06f): one cancellation ends the task while the function is still running, ... -/
theorem detached_thread_witness : ∃ s, IReach false s ∧ s.done = true ∧ s.returned = false :=
  ⟨{ fut := none, armed := false, late := false, cancellation := true, fin := some .cancelled }, ⟨[.cancel, .wake], by decide⟩, by decide, by decide⟩

/-- ... and `stop_daemons` reports no delay at age 0 of a 30-unit cancellation timeout: neither exited nor abandoned,
yet nothing holds the finalizer. -/
theorem detached_release_witness :
    ∃ s, IReach false s ∧ s.returned = false ∧ stopDelay s.done none (some 30) 0 1 = none ∧ ¬ abandoned none (some 30) 0 := by
  refine ⟨{ fut := none, armed := false, late := false, cancellation := true, fin := some .cancelled }, ⟨[.cancel, .wake], by decide⟩, by decide, by decide, ?_⟩
  rintro ⟨tt, ht, hle⟩
  cases ht
  simp at hle

/-! ### Round h — the record of a daemon under its handler's id (`memory.running_daemons`, Model/C06_Slots.lean) -/

/-- Under the code's spawning rule (a new invocation only when nothing is recorded under the id) there are never two
invocations of one handler alive for an object, for every history of cycles, stops, abandonments and exits. -/
theorem never_two_invocations {s : Slots} (h : SReach false s) : s.live.length ≤ 1 := (sinv_reach h).2.1

/-- ... and whatever is alive is the RECORDED invocation: `stop_daemons`, the daemon killer and the stopping of a gone
object (which all iterate the records only) see every live invocation. -/
theorem live_invocation_is_recorded {s : Slots} (h : SReach false s) : ∀ i ∈ s.live, s.slot = some i.n := (sinv_reach h).1

/-- The daemon clause of "never released early" at the level of invocations: whenever `stop_daemons` reports no delay
(`noDelay`: the cycle may release the finalizer), every invocation that is still alive has been told to stop and given
up on after its timeouts — for every history; so the by-id `del daemons[handler.id]` of an ending invocation never
hides a live one. -/
theorem no_delay_only_when_all_exited_or_abandoned {s : Slots} (h : SReach false s) (hn : s.noDelay = true) :
    ∀ i ∈ s.live, i.told = true ∧ i.abandoned = true := by
  intro i hi
  have hI := sinv_reach h
  have hslot := hI.1 i hi
  have hab : i.abandoned = true := by
    have hrec : s.recorded = some i := by
      unfold Slots.recorded
      rw [hslot]
      match hl : s.live, hI.2.1, hi with
      | [x], _, hi => simp at hi; simp [hi]
      | [], _, hi => simp at hi
      | _ :: _ :: _, h2, _ => simp at h2
    simpa [Slots.noDelay, hslot, hrec] using hn
  exact ⟨hI.2.2.2 i hi hab, hab⟩

example : SReach false { slot := some 1, live := [{ n := 1, told := true, abandoned := true }], next := 2 } :=
  ⟨[.spawn, .tell, .abandon, .spawn, .exit 0, .spawn, .tell, .abandon], by decide⟩
example : Slots.noDelay { slot := some 1, live := [{ n := 1, told := true, abandoned := true }], next := 2 } = true := by decide

/-- The variant that starts a new invocation over a recorded one flagged abandoned (seeded change C06h): the abandoned
first invocation ends later and its epilogue removes the record of the SECOND one; `stop_daemons` then reports no delay
while the second invocation is alive, was never told to stop and was never given up on — the property fails. -/
theorem respawn_over_abandoned_witness :
    ∃ s, SReach true s ∧ s.noDelay = true ∧ ∃ i ∈ s.live, i.told = false ∧ i.abandoned = false :=
  ⟨{ slot := none, live := [{ n := 1 }], next := 2 }, ⟨[.spawn, .tell, .abandon, .spawn, .exit 0], by decide⟩, by decide,
   { n := 1 }, by simp, rfl, rfl⟩

/-- ... and two invocations of one handler are alive at once on the way there. -/
theorem respawn_two_alive_witness : ∃ s, SReach true s ∧ s.live.length = 2 :=
  ⟨{ slot := some 1, live := [{ n := 0, told := true, abandoned := true }, { n := 1 }], next := 2 },
   ⟨[.spawn, .tell, .abandon, .spawn], by decide⟩, rfl⟩

end Kopf.C06
