/-
  C16 — property theorems, part 2: the annotation NAMES — valid Kubernetes names (FULL since kopf
  c2cffd8: `make_edged_name`), names that were valid do not move, distinct names, id-level isolation
  assembled from both parts, the witnesses that each remaining guard is necessary, and the regression
  theorems of the repaired findings F6 (c2cffd8), F6c / F6f (e916847), F6i (f95b306).
  Part 1 (`Props/C16.lean`) holds the storage operations.
-/
import Kopf.Props.C16
namespace Kopf.C16
open Kopf Kopf.J

/-! ## Valid Kubernetes names

The property says: "generated annotation names are ALWAYS valid Kubernetes names", i.e.
  ∀ p k, validPrefix p → (k over the alphabet) → every name `make_keys` yields is a valid qualified name.
Since kopf c2cffd8 (`make_edged_name`) this holds at FULL strength (before: only for ids whose safe
form is alphanumeric at both ends — finding F6, now `edge_regression`). The only hypotheses left are
the alphabet of the id (`IdChars`; `charset_witness` shows it is needed; the EMPTY id is included) and
the shape of the digest suffix at the (at most three) strings actually hashed — `GoodSfx`, and for V1
names "no longer than the suffix `v1_fits` measured" — which the harness checks on EVERY suffix the real
`make_suffix` returns (always `-` + 6 characters, the last one of `AQgw`: `RealSfx`). -/

/-- **V2 names** (the ones written and read first): under a valid prefix, for EVERY id over the
    property's alphabet — any length, any first/last character, the empty id included —
    `prefix/name` with a valid name part (1..63 characters of `[A-Za-z0-9._-]`, alphanumeric at both
    ends), and at most 253 in total when the prefix has at most 189. -/
theorem valid_name_v2 (p : Str) (sfx : Str → Str) (k : Str) (hp : validPrefix p = true) (hk : IdChars k)
    (hs : GoodSfx (sfx k)) :
    ∃ n, v2Key p sfx k = p ++ '/' :: n ∧ validNamePart n = true ∧ n.length ≤ 63 ∧
      validQualified (v2Key p sfx k) = true ∧ (p.length ≤ 189 → (v2Key p sfx k).length ≤ 253) := by
  have hn := validName_v2 sfx k hk hs
  have hpn := validPrefix_ne_nil hp
  have e : v2Key p sfx k = p ++ '/' :: v2Name sfx k := by rw [v2Key_eq, pre_of_ne hpn]; simp
  refine ⟨v2Name sfx k, e, hn, (validNamePart_length hn).2, ?_, ?_⟩
  · rw [e]; exact validQualified_intro hp hn
  · intro hl; rw [e]; simp; have := (validNamePart_length hn).2; omega

/-- **V1 names** (written next to the V2 names while `v1=True` *and there is room*, `v1Fits`): whenever
    a V1 key is generated it is a valid name of at most 63 characters in total — for every id over the
    alphabet. `(sfx _).length ≤ (sfx []).length` says the digest suffix has one length (the real one:
    always 7), which is what `v1_fits` measures. -/
theorem valid_name_v1 (p : Str) (sfx : Str → Str) (k : Str) (hp : validPrefix p = true) (hk : IdChars k)
    (hfit : v1Fits p sfx = true)
    (hs : GoodSfx (sfx k) ∧ (sfx k).length ≤ (sfx []).length)
    (hs1 : 63 < (pre p).length + k.length →
      GoodSfx (sfx (safeKey k)) ∧ (sfx (safeKey k)).length ≤ (sfx []).length) :
    ∃ n, v1Key p sfx k = p ++ '/' :: n ∧ validNamePart n = true ∧ (v1Key p sfx k).length ≤ 63 ∧
      validQualified (v1Key p sfx k) = true := by
  have hroom := (v1Fits_iff p sfx).1 hfit
  obtain ⟨hn, hl⟩ := validName_v1 p sfx k hk hroom hs hs1
  have hpn := validPrefix_ne_nil hp
  have e : v1Key p sfx k = p ++ '/' :: v1Name p sfx k := by rw [v1Key_eq, pre_of_ne hpn]; simp
  refine ⟨v1Name p sfx k, e, hn, ?_, ?_⟩
  · rw [e]; rw [pre_length hpn] at hl; simp; omega
  · rw [e]; exact validQualified_intro hp hn

/-- **every name `make_keys` generates** (any `v1` flag, any prefix length, any id over the alphabet)
    is a valid annotation key -/
theorem valid_names (p : Str) (v1 : Bool) (sfx : Str → Str) (k : Str) (hp : validPrefix p = true)
    (hk : IdChars k) (hs : GoodSfx (sfx k) ∧ (sfx k).length ≤ (sfx []).length)
    (hs1 : 63 < (pre p).length + k.length →
      GoodSfx (sfx (safeKey k)) ∧ (sfx (safeKey k)).length ≤ (sfx []).length) :
    ∀ n ∈ makeKeys p v1 sfx k, validQualified n = true ∧ ∃ name, n = p ++ '/' :: name ∧ validNamePart name = true := by
  intro n hn
  rcases makeKeys_subset p v1 sfx k n hn with rfl | ⟨rfl, _, hfit⟩
  · obtain ⟨name, e, hv, _, hq, _⟩ := valid_name_v2 p sfx k hp hk hs.1
    exact ⟨hq, name, e, hv⟩
  · obtain ⟨name, e, hv, _, hq⟩ := valid_name_v1 p sfx k hp hk hfit hs hs1
    exact ⟨hq, name, e, hv⟩

/-- the shape of every suffix the real `make_suffix` returns: `-` and six more characters of the name
    alphabet, the last one alphanumeric (checked by the harness on every call) -/
def RealSfx (s : Str) : Prop := s.length = 7 ∧ s.head? = some '-' ∧ s.all isNameChar = true ∧ lastAlnum s = true

instance (s : Str) : Decidable (RealSfx s) := by unfold RealSfx; infer_instance

theorem goodSfx_of_real {s : Str} (h : RealSfx s) : GoodSfx s := ⟨by have := h.1; omega, by have := h.1; omega, h.2.2.1, h.2.2.2⟩

/-- **the clause as the property states it**, with the real suffix shape at the three strings hashed
    (the id, its safe form, the empty string of `v1_fits`), for marked (ReplicaSet-of-Deployment) and
    unmarked ids alike: every generated name is a valid Kubernetes annotation key. -/
theorem valid_names_real (p : Str) (v1 drs : Bool) (sfx : Str → Str) (k : Str) (hp : validPrefix p = true)
    (hk : IdChars k) (h0 : RealSfx (sfx [])) (h1 : RealSfx (sfx (markKey drs k)))
    (h2 : RealSfx (sfx (safeKey (markKey drs k)))) :
    ∀ n ∈ makeKeys p v1 sfx (markKey drs k), validQualified n = true := by
  have hk' : IdChars (markKey drs k) := by
    cases drs with
    | false => simpa [markKey] using hk
    | true =>
      simp only [markKey, if_true, IdChars, List.all_append, Bool.and_eq_true]
      exact ⟨hk, by decide⟩
  intro n hn
  exact (valid_names p v1 sfx _ hp hk' ⟨goodSfx_of_real h1, by rw [h1.1, h0.1]; exact Nat.le_refl 7⟩
    (fun _ => ⟨goodSfx_of_real h2, by rw [h2.1, h0.1]; exact Nat.le_refl 7⟩) n hn).1

/-! ## Names that were valid do not move ("no persisted state is orphaned", kopf c2cffd8)

`makeKeysOld` is `make_keys` as it was before c2cffd8 (the raw names, no `make_edged_name`). -/

/-- **`make_edged_name` is the identity on valid name parts** (indeed on every name with alphanumeric
    edges), whatever the id, the hash and `max_length` -/
theorem edged_id_of_valid (sfx : Str → Str) (name key : Str) (m : Int) (h : validNamePart name = true) :
    edgedName sfx name key m = name :=
  edgedName_of_edges sfx key m (validNamePart_edges h).1 (validNamePart_edges h).2

/-- **an operator upgraded across c2cffd8 finds its records**: if the names an id had before the fix
    were valid (so that something could have been stored under them), `make_keys` yields exactly
    the same names, in the same order -/
theorem names_unchanged_of_valid (p : Str) (v1 : Bool) (sfx : Str → Str) (k : Str)
    (h2 : validNamePart (v2Raw sfx k) = true)
    (h1 : v1 = true → v1Fits p sfx = true → validNamePart (v1Raw p sfx k) = true) :
    makeKeys p v1 sfx k = makeKeysOld p v1 sfx k := by
  have e2 : v2Key p sfx k = pre p ++ v2Raw sfx k := by
    rw [v2Key_eq, v2Name, edged_id_of_valid sfx _ k 63 h2]
  unfold makeKeys makeKeysOld
  by_cases hc : (v1 && v1Fits p sfx) = true
  · simp only [Bool.and_eq_true] at hc
    have e1 : v1Key p sfx k = pre p ++ v1Raw p sfx k := by
      rw [v1Key_eq, v1Name, edged_id_of_valid sfx _ k _ (h1 hc.1 hc.2)]
    rw [e1, e2]
  · have hc' : (v1 && v1Fits p sfx) = false := by simpa using hc
    simp only [hc', Bool.false_and, Bool.false_eq_true, if_false, e2]

/-- … and conversely only names that were never storable have changed -/
theorem changed_only_invalid (p : Str) (sfx : Str → Str) (k : Str) :
    (v2Name sfx k ≠ v2Raw sfx k → validNamePart (v2Raw sfx k) = false) ∧
    (v1Name p sfx k ≠ v1Raw p sfx k → validNamePart (v1Raw p sfx k) = false) := by
  constructor
  · intro h
    cases hv : validNamePart (v2Raw sfx k) with
    | false => rfl
    | true => exact absurd (edged_id_of_valid sfx _ k 63 hv) h
  · intro h
    cases hv : validNamePart (v1Raw p sfx k) with
    | false => rfl
    | true => exact absurd (edged_id_of_valid sfx _ k _ hv) h

/-! ## Distinct names

The property says: "names are distinct for long ids that share a prefix", i.e.
  ∀ k ≠ k' (both longer than 63), v2Key p sfx k ≠ v2Key p sfx k'.
FALSE of the code for the real 32-bit digest (`collision_witness` + the birthday search replayed on
every run: F6b), and for ids in general (`safe_form_witness` F6d, `forged_*_witness` F6e). The
theorems below are what is left: the cut-and-append never loses a difference the digest (resp. the
safe form) still shows — they do NOT establish the clause, hence `_partial`. `forged_exact` shows
that across the two kinds of names (verbatim / re-formed) nothing but F6e can go wrong. -/

/-- two ids longer than 63 characters (sharing any prefix) whose hash suffixes differ (usable, of the
    same length, as the real ones are) get different v2 names -/
theorem distinct_partial (p : Str) (sfx : Str → Str) (k k' : Str) (hk : k.length > 63) (hk' : k'.length > 63)
    (hl : (sfx k).length = (sfx k').length) (hl62 : (sfx k).length ≤ 62)
    (ha : lastAlnum (sfx k) = true) (ha' : lastAlnum (sfx k') = true) (hne : sfx k ≠ sfx k') :
    v2Key p sfx k ≠ v2Key p sfx k' := by
  intro e
  obtain ⟨e1, l1⟩ := v2Name_long hk hl62 ha
  obtain ⟨e2, l2⟩ := v2Name_long hk' (by omega) ha'
  rw [v2Key_eq, v2Key_eq, e1, e2] at e
  have := List.append_inj (List.append_cancel_left e) (by rw [l1, l2, hl])
  exact hne this.2

/-- ids of at most 63 characters, alphanumeric at both ends, with different safe forms get different v2 names -/
theorem distinct_short_partial (p : Str) (sfx : Str → Str) (k k' : Str) (hk : k.length ≤ 63) (hk' : k'.length ≤ 63)
    (hv : Verbatim k) (hv' : Verbatim k') (hne : safeKey k ≠ safeKey k') : v2Key p sfx k ≠ v2Key p sfx k' := by
  intro e
  rw [v2Key_eq, v2Key_eq, v2Name_verbatim hk hv, v2Name_verbatim hk' hv'] at e
  exact hne (List.append_cancel_left e)

/-- **all re-formed names** (ids longer than 63 characters AND — new with c2cffd8 — ids whose safe
    form has a bad edge): two such ids get different v2 names as soon as their digests (of the id
    and of its safe form; all of one length) are pairwise different -/
theorem distinct_reformed_partial (p : Str) (sfx : Str → Str) (k k' : Str)
    (hr : k.length > 63 ∨ ¬ Verbatim k) (hr' : k'.length > 63 ∨ ¬ Verbatim k')
    (hd : ∀ t ∈ [sfx k, sfx (safeKey k)], ∀ t' ∈ [sfx k', sfx (safeKey k')], t.length = t'.length ∧ t ≠ t') :
    v2Key p sfx k ≠ v2Key p sfx k' := by
  intro e
  have h := names_disjoint_reformed (p := p) hr hr' hd false (v2Key p sfx k) (by simp [makeKeys])
    (v2Key p sfx k') (by simp [makeKeys])
  exact h e.symm

/-- **across the two kinds, exactly F6e**: an id `k'` of at most 63 characters with alphanumeric edges
    (taken verbatim) shares its v2 name with ANY other id `k` if and only if its safe form spells the
    generated name of `k` -/
theorem forged_exact (p : Str) (sfx : Str → Str) (k k' : Str) (hk' : k'.length ≤ 63) (hv' : Verbatim k') :
    v2Key p sfx k' = v2Key p sfx k ↔ safeKey k' = v2Name sfx k := by
  rw [v2Key_eq, v2Key_eq, v2Name_verbatim hk' hv']
  exact ⟨fun e => List.append_cancel_left e, fun e => by rw [e]⟩

/-! ## Id-level isolation (assembled from both parts)

`make_keys` yields one name (`v1=False`, or no room for V1 keys: prefix of 55+ characters, or an id
short enough to be its own V1 name) or two (V2 and a cut-and-hashed / re-edged V1 name). Ids are
compared after marking. What is proved: isolation between two ids of the same kind — both taken
verbatim, both verbatim with a hashed V1 name, both re-formed; what is NOT provable is the mixed
case, where one id may spell the generated name of the other (`forged_witness`, `forged_v1_witness`,
`forged_edged_witness`: F6e), and ids with equal safe forms or digests (F6d, F6b). -/

/-- **one name each, ids of at most 63 characters taken verbatim**: handlers whose *safe forms*
    differ do not disturb each other — a store or a purge of `k` leaves what `k'` reads unchanged
    (`k'` must not spell the `kopf-managed` marker). Holds for `v1=False`, for every prefix without
    room for V1 keys (55+ characters: the repaired F6f), and for ids that are their own V1 names. -/
theorem isolation_ids_short_partial (env : Env) (c : AnnCfg) (hp : c.pfx ≠ [])
    (body patch0 ps pp : J) (k k' : Str) (r : Rec) (hw : wf patch0 = true) (hs : MarkStable patch0)
    (hone : c.v1 = false ∨ v1Fits c.pfx env.sfx = false ∨
      ((pre c.pfx).length + (markKey (isDRS body) k).length ≤ 63 ∧
       (pre c.pfx).length + (markKey (isDRS body) k').length ≤ 63))
    (hk : (markKey (isDRS body) k).length ≤ 63) (hk' : (markKey (isDRS body) k').length ≤ 63)
    (hv : Verbatim (markKey (isDRS body) k)) (hv' : Verbatim (markKey (isDRS body) k'))
    (hne : safeKey k ≠ safeKey k')
    (hm : safeKey (markKey (isDRS body) k') ≠ "kopf-managed".toList)
    (hstore : annStore env c body patch0 k r = .ok ps) (hpurge : annPurge env c body patch0 k = .ok pp) :
    annFetch env c (mergePatch body ps) k' = annFetch env c (mergePatch body patch0) k' ∧
    annFetch env c (mergePatch body pp) k' = annFetch env c (mergePatch body patch0) k' := by
  have hnk : annNames env c.pfx c.v1 body k = [v2Key c.pfx env.sfx (markKey (isDRS body) k)] :=
    makeKeys_single (by rcases hone with h | h | h; exact Or.inl h; exact Or.inr (Or.inl h); exact Or.inr (Or.inr ⟨h.1, hv⟩))
  have hnk' : annNames env c.pfx c.v1 body k' = [v2Key c.pfx env.sfx (markKey (isDRS body) k')] :=
    makeKeys_single (by rcases hone with h | h | h; exact Or.inl h; exact Or.inr (Or.inl h); exact Or.inr (Or.inr ⟨h.2, hv'⟩))
  have hd : v2Key c.pfx env.sfx (markKey (isDRS body) k') ≠ v2Key c.pfx env.sfx (markKey (isDRS body) k) :=
    fun e => distinct_short_partial c.pfx env.sfx _ _ hk hk' hv hv' (safeKey_markKey_ne hne) e.symm
  refine ⟨isolation_other_handler env c body patch0 ps k k' r hw hs hstore ?_ ?_,
    isolation_other_handler_purge env c body patch0 pp k k' hw hs hpurge ?_⟩
  · intro n hn1 n' hn2; rw [hnk] at hn1; rw [hnk'] at hn2; simp at hn1 hn2; subst hn1; subst hn2; exact hd
  · intro n' hn2; rw [hnk'] at hn2; simp at hn2; subst hn2
    exact v2Key_ne_marker_short hp env.sfx hk' hv' hm
  · intro n hn1 n' hn2; rw [hnk] at hn1; rw [hnk'] at hn2; simp at hn1 hn2; subst hn1; subst hn2; exact hd

/-- **both ids re-formed** (longer than 63 characters — sharing any prefix —, or with a bad first/last
    character: the ids c2cffd8 made storable), one or two names each, every prefix, both `v1` settings:
    as long as their digests — of the id and of its safe form, four suffixes of one length — are
    pairwise different (`collision_witness`, F6b, is the other case), the two handlers share no
    annotation, and a store or a purge of `k` leaves what `k'` reads unchanged. `hm`: no digest of
    `k'` is the end of `kopf-managed` (the real ones begin with `-`). -/
theorem isolation_ids_reformed_partial (env : Env) (c : AnnCfg) (hp : c.pfx ≠ [])
    (body patch0 ps pp : J) (k k' : Str) (r : Rec) (hw : wf patch0 = true) (hs : MarkStable patch0)
    (hr : (markKey (isDRS body) k).length > 63 ∨ ¬ Verbatim (markKey (isDRS body) k))
    (hr' : (markKey (isDRS body) k').length > 63 ∨ ¬ Verbatim (markKey (isDRS body) k'))
    (hd : ∀ t ∈ [env.sfx (markKey (isDRS body) k), env.sfx (safeKey (markKey (isDRS body) k))],
          ∀ t' ∈ [env.sfx (markKey (isDRS body) k'), env.sfx (safeKey (markKey (isDRS body) k'))],
            t.length = t'.length ∧ t ≠ t')
    (hm : ∀ t' ∈ [env.sfx (markKey (isDRS body) k'), env.sfx (safeKey (markKey (isDRS body) k'))],
            t'.isSuffixOf "kopf-managed".toList = false)
    (hstore : annStore env c body patch0 k r = .ok ps) (hpurge : annPurge env c body patch0 k = .ok pp) :
    annFetch env c (mergePatch body ps) k' = annFetch env c (mergePatch body patch0) k' ∧
    annFetch env c (mergePatch body pp) k' = annFetch env c (mergePatch body patch0) k' := by
  have hdisj : ∀ n ∈ annNames env c.pfx c.v1 body k, ∀ n' ∈ annNames env c.pfx c.v1 body k', n' ≠ n :=
    names_disjoint_reformed hr hr' hd c.v1
  have hmark : ∀ n' ∈ annNames env c.pfx c.v1 body k', n' ≠ markerName c.pfx := by
    intro n' hn'
    obtain ⟨e, rfl, he⟩ := names_reformed_suffix c.pfx c.v1 env.sfx hr' n' hn'
    apply name_ne_marker hp
    rcases he with he | he
    · exact ne_marker_of_suffix he (hm _ (by simp))
    · exact ne_marker_of_suffix he (hm _ (by simp))
  exact ⟨isolation_other_handler env c body patch0 ps k k' r hw hs hstore hdisj hmark,
    isolation_other_handler_purge env c body patch0 pp k k' hw hs hpurge hdisj⟩

/-- **two names each (`v1=True` with room), both ids taken verbatim as V2 names but too long to be
    their own V1 names** (under the default prefix: 47..63 characters): with different safe forms and
    different, equally long digests of the safe forms, the two handlers share no annotation at all —
    for every prefix. The V1 name of one cannot be the V2 name of the other: their lengths differ.
    `hm` / `h51` keep `k'` off the `kopf-managed` marker (F6g, `marker_witness`): a 12-character V1
    name needs `|prefix/| = 51`. -/
theorem isolation_ids_v1_hashed_partial (env : Env) (c : AnnCfg) (hp : c.pfx ≠ [])
    (body patch0 ps pp : J) (k k' : Str) (r : Rec) (hw : wf patch0 = true) (hs : MarkStable patch0)
    (hk : (markKey (isDRS body) k).length ≤ 63) (hk' : (markKey (isDRS body) k').length ≤ 63)
    (hv : Verbatim (markKey (isDRS body) k)) (hv' : Verbatim (markKey (isDRS body) k'))
    (hb : 63 < (pre c.pfx).length + (markKey (isDRS body) k).length)
    (hb' : 63 < (pre c.pfx).length + (markKey (isDRS body) k').length)
    (hroom : (pre c.pfx).length + (env.sfx (safeKey (markKey (isDRS body) k))).length < 63)
    (hsl : (env.sfx (safeKey (markKey (isDRS body) k))).length = (env.sfx (safeKey (markKey (isDRS body) k'))).length)
    (hla : lastAlnum (env.sfx (safeKey (markKey (isDRS body) k))) = true)
    (hla' : lastAlnum (env.sfx (safeKey (markKey (isDRS body) k'))) = true)
    (hsne : env.sfx (safeKey (markKey (isDRS body) k)) ≠ env.sfx (safeKey (markKey (isDRS body) k')))
    (hne : safeKey k ≠ safeKey k')
    (hm : safeKey (markKey (isDRS body) k') ≠ "kopf-managed".toList)
    (h51 : (pre c.pfx).length ≠ 51)
    (hstore : annStore env c body patch0 k r = .ok ps) (hpurge : annPurge env c body patch0 k = .ok pp) :
    annFetch env c (mergePatch body ps) k' = annFetch env c (mergePatch body patch0) k' ∧
    annFetch env c (mergePatch body pp) k' = annFetch env c (mergePatch body patch0) k' := by
  have hdisj : ∀ n ∈ annNames env c.pfx c.v1 body k, ∀ n' ∈ annNames env c.pfx c.v1 body k', n' ≠ n :=
    names_disjoint_hashed hk hk' hv hv' hb hb' hroom hsl hla hla' hsne (safeKey_markKey_ne hne) c.v1
  have hroom' : (pre c.pfx).length + (env.sfx (safeKey (markKey (isDRS body) k'))).length < 63 := by omega
  have hmark : ∀ n' ∈ annNames env c.pfx c.v1 body k', n' ≠ markerName c.pfx := by
    intro n' hn'
    rcases makeKeys_subset c.pfx c.v1 env.sfx _ n' hn' with rfl | ⟨rfl, _, _⟩
    · exact v2Key_ne_marker_short hp env.sfx hk' hv' hm
    · exact v1Key_ne_marker_hashed hp hb' hroom' hla' h51
  exact ⟨isolation_other_handler env c body patch0 ps k k' r hw hs hstore hdisj hmark,
    isolation_other_handler_purge env c body patch0 pp k k' hw hs hpurge hdisj⟩

/-! ## Regressions of the repaired finding F6 (kopf c2cffd8) -/

/-- **F6 fixed**: the former witnesses `fn/` (safe form ends with `.`) and `<locals>.fn` on a
    ReplicaSet (safe form starts with `_`) now get valid names for EVERY hash with a usable suffix … -/
theorem edge_regression (sfx : Str → Str) (h1 : GoodSfx (sfx "fn/".toList))
    (h2 : GoodSfx (sfx (markKey true "<locals>.fn".toList))) :
    ¬ Verbatim "fn/".toList ∧ ¬ Verbatim (markKey true "<locals>.fn".toList) ∧
    validQualified (v2Key kz sfx "fn/".toList) = true ∧
    validQualified (v2Key kz sfx (markKey true "<locals>.fn".toList)) = true := by
  refine ⟨by decide, by decide, ?_, ?_⟩
  · obtain ⟨_, _, _, _, hq, _⟩ := valid_name_v2 kz sfx "fn/".toList (by decide) (by decide) h1
    exact hq
  · obtain ⟨_, _, _, _, hq, _⟩ := valid_name_v2 kz sfx (markKey true "<locals>.fn".toList) (by decide) (by decide) h2
    exact hq

/-- … namely (for a hash answering `-AAAAAQ`) the bad edge replaced by `x` and the digest of the ORIGINAL
    id appended; the good names next to them (`fn`, `fn.x`) are untouched. -/
example :
    v2Key kz (constSfx "-AAAAAQ") "fn/".toList = "kopf.zalando.org/fnx-AAAAAQ".toList ∧
    v2Key kz (constSfx "-AAAAAQ") (markKey true "<locals>.fn".toList) = "kopf.zalando.org/xlocals_.fn-ofDRS-AAAAAQ".toList ∧
    v2Key kz (constSfx "-AAAAAQ") [] = "kopf.zalando.org/x-AAAAAQ".toList ∧
    v2Key kz (constSfx "-AAAAAQ") "fn".toList = "kopf.zalando.org/fn".toList ∧
    makeKeys kz true (constSfx "-AAAAAQ") "fn/x".toList = makeKeysOld kz true (constSfx "-AAAAAQ") "fn/x".toList := by
  decide

/-- `GoodSfx` is necessary — a statement about a HYPOTHETICAL digest suffix (the real one always is `GoodSfx`;
    this is not a behaviour of the code and is not replayed on it): with a suffix ending in `.` a long,
    otherwise fine id gets an invalid name. -/
theorem sfx_witness :
    IdChars (xs 64) ∧ ¬ GoodSfx (constSfx "-ab." (xs 64)) ∧
    validQualified (v2Key kz (constSfx "-ab.") (xs 64)) = false := by
  decide

/-! ### Regressions of the repaired findings F6c / F6f (kopf e916847)

`make_v1_key` itself is unchanged there: called with a prefix of 55+ characters its cut `63 - |prefix/| - 7`
is still zero or negative (a Python slice from the end). It is no longer *called* then. -/

/-- **F6c fixed**: the former witnesses. With the valid 55- and 60-character prefixes (and the real
    7-character suffix) there is no room, a 54-character prefix still has room; the id that used to
    get the V1 name `-AAAAAQ` now gets one, valid, name. -/
example :
    validPrefix p55 = true ∧ v1Fits p55 (constSfx "-AAAAAQ") = false ∧
    validPrefix p60 = true ∧ v1Fits p60 (constSfx "-AAAAAQ") = false ∧
    v1Fits (List.replicate 54 'a') (constSfx "-AAAAAQ") = true ∧
    makeKeys p55 true (constSfx "-AAAAAQ") "create_fn/spec.field".toList
      = [p55 ++ "/create_fn.spec.field".toList] ∧
    validQualified (p55 ++ "/create_fn.spec.field".toList) = true ∧
    (makeKeys p60 true (constSfx "-AAAAAQ") (xs 100)).all (fun n => validQualified n) = true := by
  decide

set_option maxRecDepth 8192 in
/-- **F6f fixed**: the former witness. With a 63-character prefix the 64-character id `a/xx…` and its
    safe form `a.xx…` (a distinct id, with another digest) now have disjoint names. -/
example :
    let sfx : Str → Str := fun s => if s = safeKey ("a/".toList ++ xs 62) then "-AAAAAQ".toList else "-BBBBBQ".toList
    makeKeys (List.replicate 63 'a') true sfx ("a/".toList ++ xs 62)
      = [v2Key (List.replicate 63 'a') sfx ("a/".toList ++ xs 62)] ∧
    makeKeys (List.replicate 63 'a') true sfx (safeKey ("a/".toList ++ xs 62))
      = [v2Key (List.replicate 63 'a') sfx (safeKey ("a/".toList ++ xs 62))] ∧
    v2Key (List.replicate 63 'a') sfx ("a/".toList ++ xs 62)
      ≠ v2Key (List.replicate 63 'a') sfx (safeKey ("a/".toList ++ xs 62)) := by
  decide

/-! ## Each remaining hypothesis is necessary: witnesses (the open findings F6b, F6d, F6e) -/

/-- **F6b** `sfx k ≠ sfx k'` in `distinct_partial` is necessary: whenever the suffixes of two long ids
    collide and the ids agree on the characters kept, the v2 names coincide … -/
theorem collision_witness (p : Str) (sfx : Str → Str) (k k' : Str) (hk : k.length > 63) (hk' : k'.length > 63)
    (hl62 : (sfx k).length ≤ 62) (ha : lastAlnum (sfx k) = true) (hs : sfx k = sfx k')
    (ht : (safeKey k).take (63 - (sfx k).length) = (safeKey k').take (63 - (sfx k).length)) :
    v2Key p sfx k = v2Key p sfx k' := by
  rw [v2Key_eq, v2Key_eq, (v2Name_long hk hl62 ha).1, (v2Name_long hk' (by rw [← hs]; exact hl62) (by rw [← hs]; exact ha)).1,
    ← hs, ht]

/-- … and such pairs exist for any hash whose range is smaller than its domain (here: constant) — also
    among the ids of at most 63 characters that c2cffd8 made storable (`_x…x0` / `_x…x1`: same first 56
    characters after the repair of the edge, same digest). -/
example : xs 64 ≠ xs 65 ∧ v2Key kz (constSfx "-AAAAAQ") (xs 64) = v2Key kz (constSfx "-AAAAAQ") (xs 65) ∧
    ('_' :: xs 60 ++ ['0']) ≠ ('_' :: xs 60 ++ ['1']) ∧
    safeKey ('_' :: xs 60 ++ ['0']) ≠ safeKey ('_' :: xs 60 ++ ['1']) ∧
    v2Key kz (constSfx "-AAAAAQ") ('_' :: xs 60 ++ ['0']) = v2Key kz (constSfx "-AAAAAQ") ('_' :: xs 60 ++ ['1']) := by
  decide

/-- **F6d beyond the own V1 name**: a cut-and-hashed V1 key depends on the id only through its safe form,
    so two ids of ANY length with equal safe forms share their V1 name (their V2 names differ as soon as
    the digests of the ids do) … -/
theorem safe_form_long_v1_witness (p : Str) (sfx : Str → Str) (k k' : Str) (hs : safeKey k = safeKey k')
    (hb : 63 < (pre p).length + k.length) (hroom : (pre p).length + (sfx (safeKey k)).length < 63)
    (hla : lastAlnum (sfx (safeKey k)) = true) :
    v1Key p sfx k = v1Key p sfx k' := by
  have hlen : k'.length = k.length := by rw [← safeKey_length k', ← hs, safeKey_length]
  rw [v1Key_eq, v1Key_eq, (v1Name_hashed hb hroom hla).1,
    (v1Name_hashed (k := k') (by omega) (by rw [← hs]; exact hroom) (by rw [← hs]; exact hla)).1, hs]

/-- **F6d** `safeKey k ≠ safeKey k'` in `distinct_short_partial` is necessary: ids taken verbatim with the
    same safe form (at most 63 characters) get the same names under every configuration and hash
    (`hh`: when the V1 name is cut-and-hashed there is room for a usable digest — always, in the code) … -/
theorem safe_form_witness (p : Str) (v1 : Bool) (sfx : Str → Str) (k k' : Str)
    (hs : safeKey k = safeKey k') (hk : k.length ≤ 63) (hv : Verbatim k)
    (hh : 63 < (pre p).length + k.length →
      (pre p).length + (sfx (safeKey k)).length < 63 ∧ lastAlnum (sfx (safeKey k)) = true) :
    makeKeys p v1 sfx k = makeKeys p v1 sfx k' := by
  have hlen : k'.length = k.length := by rw [← safeKey_length k', ← hs, safeKey_length]
  have hk' : k'.length ≤ 63 := by omega
  have hv' : Verbatim k' := by unfold Verbatim; rw [← hs]; exact hv
  have e2 : v2Key p sfx k = v2Key p sfx k' := by
    rw [v2Key_eq, v2Key_eq, v2Name_verbatim hk hv, v2Name_verbatim hk' hv', hs]
  have e1 : v1Key p sfx k = v1Key p sfx k' := by
    by_cases hb : 63 < (pre p).length + k.length
    · exact safe_form_long_v1_witness p sfx k k' hs hb (hh hb).1 (hh hb).2
    · rw [v1Key_eq, v1Key_eq, v1Name_verbatim (by omega) hv, v1Name_verbatim (by omega) hv', hs]
  simp only [makeKeys, e1, e2]

/-- … e.g. the field handler `fn/spec.field` and the sub-handler path `fn/spec/field`. With a bad edge
    the digest of the ORIGINAL id keeps them apart since c2cffd8 (`fn/spec.field/` vs `fn/spec/field/`). -/
example : "fn/spec.field".toList ≠ "fn/spec/field".toList ∧
    safeKey "fn/spec.field".toList = safeKey "fn/spec/field".toList ∧ Verbatim "fn/spec.field".toList ∧
    (let sfx : Str → Str := fun s => if s = "fn/spec.field/".toList then "-AAAAAQ".toList else "-BBBBBQ".toList
     safeKey "fn/spec.field/".toList = safeKey "fn/spec/field/".toList ∧
     v2Key kz sfx "fn/spec.field/".toList ≠ v2Key kz sfx "fn/spec/field/".toList) := by decide

set_option maxRecDepth 8192 in
/-- … and the 70-character ids `a/xx…` and `a.xx…` under the default prefix with `v1=True`: two
    names each, different V2 names, the same V1 name — a handler that never ran reads the other's record. -/
example : let sfx : Str → Str := fun s => if s = "a/".toList ++ xs 68 then "-AAAAAQ".toList else "-BBBBBQ".toList
    v2Key kz sfx ("a/".toList ++ xs 68) ≠ v2Key kz sfx ("a.".toList ++ xs 68) ∧
    makeKeys kz true sfx ("a/".toList ++ xs 68) = [v2Key kz sfx ("a/".toList ++ xs 68), v1Key kz sfx ("a/".toList ++ xs 68)] ∧
    makeKeys kz true sfx ("a.".toList ++ xs 68) = [v2Key kz sfx ("a.".toList ++ xs 68), v1Key kz sfx ("a/".toList ++ xs 68)] := by
  decide

/-- **F6e** the mixed case is not provable: the 63-character id that spells the cut-and-hashed name of a
    longer id is taken verbatim and gets the same v2 name without any hash collision. -/
theorem forged_witness :
    xs 56 ++ "-AAAAAQ".toList ≠ xs 64 ∧ (xs 56 ++ "-AAAAAQ".toList).length = 63 ∧
    IdOk (xs 56 ++ "-AAAAAQ".toList) ∧ Verbatim (xs 56 ++ "-AAAAAQ".toList) ∧
    v2Key kz (constSfx "-AAAAAQ") (xs 56 ++ "-AAAAAQ".toList) = v2Key kz (constSfx "-AAAAAQ") (xs 64) := by
  decide

/-- **F6e**, V1 variant: the 46-character id that spells the cut-and-hashed V1 name of a 50-character id
    is its own V2 (and V1) name. -/
theorem forged_v1_witness :
    xs 39 ++ "-AAAAAQ".toList ≠ xs 50 ∧ IdOk (xs 39 ++ "-AAAAAQ".toList) ∧
    v1Key kz (constSfx "-AAAAAQ") (xs 50) ∈ makeKeys kz true (constSfx "-AAAAAQ") (xs 50) ∧
    makeKeys kz true (constSfx "-AAAAAQ") (xs 39 ++ "-AAAAAQ".toList) = [v1Key kz (constSfx "-AAAAAQ") (xs 50)] := by
  decide

/-- **F6e**, re-edged variant (new with c2cffd8, same class): the id `_fn` is re-formed to `xfn-AAAAAQ`;
    the id that spells that name is taken verbatim: one annotation for two handlers. -/
theorem forged_edged_witness :
    "xfn-AAAAAQ".toList ≠ "_fn".toList ∧ IdOk "xfn-AAAAAQ".toList ∧ Verbatim "xfn-AAAAAQ".toList ∧
    ¬ Verbatim "_fn".toList ∧ safeKey "xfn-AAAAAQ".toList ≠ safeKey "_fn".toList ∧
    makeKeys kz true (constSfx "-AAAAAQ") "_fn".toList = ["kopf.zalando.org/xfn-AAAAAQ".toList] ∧
    makeKeys kz true (constSfx "-AAAAAQ") "xfn-AAAAAQ".toList = ["kopf.zalando.org/xfn-AAAAAQ".toList] := by
  decide

/-! ### The storages' own names (finding F6g) and ids outside the alphabet (F6i, fixed) -/

/-- **F6g (a)** `hm` of the id-level isolation theorems is necessary: under a custom prefix, storing
    the record of `fn` writes the marker `<prefix>/kopf-managed: yes`; a handler with the id
    `kopf-managed`, which read nothing before, now fails to parse it (`json.loads('yes')`). -/
theorem marker_witness :
    let c : AnnCfg := ⟨"my-op.example.com".toList, false, false, "touch-dummy".toList⟩
    (match annFetch env0 c (obj []) "kopf-managed".toList with | .ok none => true | _ => false) = true ∧
    (match annStore env0 c (obj []) (obj []) "fn".toList r0 with
     | .ok p' => (match annFetch env0 c (mergePatch (obj []) p') "kopf-managed".toList with
                  | .error .value => true | _ => false)
     | _ => false) = true := by
  decide

/-- **F6g (b)** a handler with the id of the touch key: the touch overwrites its record. -/
theorem reserved_touch_witness :
    let c : AnnCfg := ⟨kz, true, false, "touch-dummy".toList⟩
    (match annStore env0 c (obj []) (obj []) "touch-dummy".toList r0 with
     | .ok p1 =>
       (match annFetch env0 c (mergePatch (obj []) p1) "touch-dummy".toList with | .ok (some _) => true | _ => false) &&
       (match annTouch env0 c (mergePatch (obj []) p1) (obj []) (str "2020-12-31T23:59:59") with
        | .ok p2 => (match annFetch env0 c (mergePatch (mergePatch (obj []) p1) p2) "touch-dummy".toList with
                     | .error .value => true | _ => false)
        | _ => false)
     | _ => false) = true := by
  decide

/-- **F6g (c)** a handler with the id of the diff-base key (same prefix): its record is read as the
    last-handled state. -/
theorem reserved_diffbase_witness :
    let c : AnnCfg := ⟨kz, true, false, "touch-dummy".toList⟩
    let d : DLeaf := .ann ⟨kz, "last-handled-configuration".toList, true⟩
    let essence : J := obj [("spec", obj [("n", num 2)])]
    (match DLeaf.store env0 (obj []) (obj []) essence d with
     | .ok p1 =>
       (match DLeaf.fetch env0 (mergePatch (obj []) p1) d with | .ok (some e) => e == essence | _ => false) &&
       (match annStore env0 c (mergePatch (obj []) p1) (obj []) "last-handled-configuration".toList r0 with
        | .ok p2 => (match DLeaf.fetch env0 (mergePatch (mergePatch (obj []) p1) p2) d with
                     | .ok (some e) => e == obj [("retries", num 1)] | _ => false)
        | _ => false)
     | _ => false) = true := by
  decide

/-- **F6i fixed** (kopf f95b306): kopf's own id of a lambda, `lambda:<path>:<line>`, is inside `IdOk`
    now, its `:` becomes `_`, and the name is valid for every hash (`valid_names` covers all
    such ids; this is the former witness turned regression, corpus `F6i.json`). -/
theorem lambda_id_regression (sfx : Str → Str) :
    IdOk "lambda:/a.py:1".toList ∧ Verbatim "lambda:/a.py:1".toList ∧
    v2Key kz sfx "lambda:/a.py:1".toList = "kopf.zalando.org/lambda_.a.py_1".toList ∧
    validQualified (v2Key kz sfx "lambda:/a.py:1".toList) = true := by
  have e : v2Key kz sfx "lambda:/a.py:1".toList = "kopf.zalando.org/lambda_.a.py_1".toList := by
    rw [v2Key_eq, v2Name_verbatim (by decide) (by decide)]; decide
  refine ⟨by decide, by decide, e, ?_⟩
  rw [e]; decide

/-- `IdChars` is still necessary: a character outside the alphabet (here a space) passes into the name
    (only the first and the last character are repaired) -/
theorem charset_witness (sfx : Str → Str) :
    ¬ IdChars "my fn".toList ∧ Verbatim "my fn".toList ∧ validQualified (v2Key kz sfx "my fn".toList) = false := by
  have e : v2Key kz sfx "my fn".toList = "kopf.zalando.org/my fn".toList := by
    rw [v2Key_eq, v2Name_verbatim (by decide) (by decide)]; decide
  refine ⟨by decide, by decide, ?_⟩
  rw [e]; decide

/-! ## Non-vacuity (names) -/

example : validPrefix kz = true ∧ validPrefix c0.pfx = true := by decide
example : IdChars k0 ∧ GoodSfx (env0.sfx k0) ∧ RealSfx (env0.sfx k0) := by decide
/-- ids of every kind meet `IdChars`: qualified names, bad edges on both sides, the empty id -/
example : IdChars "Outer.<locals>.fn/sub/spec.field".toList ∧ IdChars "_private/".toList ∧ IdChars [] ∧
    ¬ Verbatim "_private/".toList ∧ Verbatim "Outer.<locals>.fn/sub/spec.field".toList := by decide
/-- `valid_name_v1` / `valid_names`: there is room under the default prefix, and the suffix has one length -/
example : v1Fits kz env0.sfx = true ∧ (env0.sfx k0).length ≤ (env0.sfx []).length ∧
    (env0.sfx (safeKey k0)).length ≤ (env0.sfx []).length := by decide
/-- `names_unchanged_of_valid`: a plain id under the default prefix (hashed V1 name) had valid names -/
example : validNamePart (v2Raw env0.sfx (xs 50)) = true ∧ validNamePart (v1Raw kz env0.sfx (xs 50)) = true ∧
    (makeKeysOld kz true env0.sfx (xs 50)).length = 2 := by decide
/-- `changed_only_invalid` is about something: `_fn` did change -/
example : v2Name env0.sfx "_fn".toList ≠ v2Raw env0.sfx "_fn".toList := by decide
/-- `distinct_partial`: two long ids sharing a 64-character prefix, different (equal-length) suffixes -/
example : let sfx : Str → Str := fun k => if k.length = 64 then "-AAAAAQ".toList else "-BBBBBQ".toList
    (xs 64).length > 63 ∧ (xs 65).length > 63 ∧ (sfx (xs 64)).length = (sfx (xs 65)).length ∧ sfx (xs 64) ≠ sfx (xs 65) ∧
    lastAlnum (sfx (xs 64)) = true ∧ lastAlnum (sfx (xs 65)) = true := by
  decide
/-- `distinct_reformed_partial` / `isolation_ids_reformed_partial`: a long id and a bad-edged short id, a hash
    that tells all four strings apart, no digest ending `kopf-managed` -/
example : let sfx : Str → Str := fun s => if s = xs 64 then "-AAAAAQ".toList else if s = "_fn/".toList then "-BBBBBQ".toList
      else if s = "_fn.".toList then "-CCCCCQ".toList else "-DDDDDQ".toList
    ((xs 64).length > 63 ∨ ¬ Verbatim (xs 64)) ∧ (("_fn/".toList).length > 63 ∨ ¬ Verbatim "_fn/".toList) ∧
    (∀ t ∈ [sfx (xs 64), sfx (safeKey (xs 64))], ∀ t' ∈ [sfx "_fn/".toList, sfx (safeKey "_fn/".toList)],
      t.length = t'.length ∧ t ≠ t') ∧
    (∀ t' ∈ [sfx "_fn/".toList, sfx (safeKey "_fn/".toList)], t'.isSuffixOf "kopf-managed".toList = false) := by
  decide
/-- `forged_exact`, right-hand side met: the forged pair of `forged_edged_witness` -/
example : safeKey "xfn-AAAAAQ".toList = v2Name (constSfx "-AAAAAQ") "_fn".toList := by decide

/-- `isolation_ids_short_partial` (first alternative of `hone`): `v1 = False`, a field handler and a sub-handler with different safe forms -/
def c1 : AnnCfg := ⟨kz, false, false, "touch-dummy".toList⟩
example : (markKey (isDRS body0) "fn/spec.a".toList).length ≤ 63 ∧ (markKey (isDRS body0) "fn/sub_b".toList).length ≤ 63 ∧
    Verbatim (markKey (isDRS body0) "fn/spec.a".toList) ∧ Verbatim (markKey (isDRS body0) "fn/sub_b".toList) ∧
    safeKey "fn/spec.a".toList ≠ safeKey "fn/sub_b".toList ∧
    safeKey (markKey (isDRS body0) "fn/sub_b".toList) ≠ "kopf-managed".toList ∧ c1.pfx ≠ [] := by decide
example : (match annStore env0 c1 body0 (obj []) "fn/spec.a".toList r0, annPurge env0 c1 body0 (obj []) "fn/spec.a".toList with
    | .ok _, .ok _ => true | _, _ => false) = true := by decide

/-- `isolation_ids_v1_hashed_partial`: default prefix, `v1=True`, two 50-character ids with different safe
    forms and (for a hash that tells them apart) different digests -/
example : let sfx : Str → Str := fun s => if s = xs 50 then "-AAAAAQ".toList else "-BBBBBQ".toList
    63 < (pre kz).length + (xs 50).length ∧ 63 < (pre kz).length + ("y".toList ++ xs 49).length ∧
    Verbatim (xs 50) ∧ Verbatim ("y".toList ++ xs 49) ∧
    (pre kz).length + (sfx (safeKey (xs 50))).length < 63 ∧
    (sfx (safeKey (xs 50))).length = (sfx (safeKey ("y".toList ++ xs 49))).length ∧
    lastAlnum (sfx (safeKey (xs 50))) = true ∧
    sfx (safeKey (xs 50)) ≠ sfx (safeKey ("y".toList ++ xs 49)) ∧
    safeKey (xs 50) ≠ safeKey ("y".toList ++ xs 49) ∧
    (makeKeys kz true sfx (xs 50)).length = 2 := by
  decide

end Kopf.C16
