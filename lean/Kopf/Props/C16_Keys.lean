/-
  C16 — property theorems, part 2: the annotation NAMES — valid Kubernetes names, distinct names,
  id-level isolation assembled from both parts, the witnesses that each guard is necessary, and
  the regression theorems of the repaired findings F6c / F6f (kopf e916847: no V1 key without room).
  Part 1 (`Props/C16.lean`) holds the storage operations.
-/
import Kopf.Props.C16
namespace Kopf.C16
open Kopf Kopf.J

/-! ## Valid Kubernetes names -/

/- The property says: "generated annotation names are ALWAYS valid Kubernetes names", i.e.
     ∀ p k, validPrefix p → IdOk k → validQualified (v2Key p sfx k) ∧ validQualified (v1Key p sfx k).
   That statement is FALSE of the code (`edge_witness`, `edge_witness_front`: F6; formerly also
   F6c — repaired in kopf e916847, see `v1_long_prefix_regression`). What holds is the statement under the
   exact guard `EdgeOk k` (resp. `EdgeOkV1 p k`) — exact: `valid_name_v2_exact` — hence `_partial`. `GoodSfx` is a fact about the real digest suffix
   (7 characters `-xxxxxx`, last one of `AQgw`), checked by the oracle on every hashed name. -/

/-- v2 names (the ones written and read first): under a valid prefix, for an id over the
    property's alphabet whose safe form is alphanumeric at both ends, with a usable hash suffix
    when the id is longer than 63: `prefix/name` with a valid name part of at most 63 characters,
    and at most 253 in total when the prefix has at most 189. -/
theorem valid_name_v2_partial (p : Str) (sfx : Str → Str) (k : Str) (hp : validPrefix p = true) (hk : IdOk k)
    (he : EdgeOk k) (hs : k.length > 63 → GoodSfx (sfx k)) :
    ∃ n, v2Key p sfx k = p ++ '/' :: n ∧ validNamePart n = true ∧ n.length ≤ 63 ∧
      validQualified (v2Key p sfx k) = true ∧ (p.length ≤ 189 → (v2Key p sfx k).length ≤ 253) := by
  have hn := validName_v2 sfx k hk he hs
  have hpn := validPrefix_ne_nil hp
  have e : v2Key p sfx k = p ++ '/' :: v2Name sfx k := by rw [v2Key_eq, pre_of_ne hpn]; simp
  refine ⟨v2Name sfx k, e, hn, (validNamePart_length hn).2, ?_, ?_⟩
  · rw [e]; exact validQualified_intro hp hn
  · intro hl; rw [e]; simp; have := (validNamePart_length hn).2; omega

/-- … and the guard is exact: under a valid prefix (and the facts about the digest suffix) the V2 key
    is a valid Kubernetes annotation key **if and only if** `EdgeOk k`. F6 is precisely `¬ EdgeOk k`. -/
theorem valid_name_v2_exact (p : Str) (sfx : Str → Str) (k : Str) (hp : validPrefix p = true) (hk : IdOk k)
    (hs : k.length > 63 → GoodSfx (sfx k)) :
    validQualified (v2Key p sfx k) = true ↔ EdgeOk k := by
  constructor
  · intro h
    have hpn := validPrefix_ne_nil hp
    have e : v2Key p sfx k = p ++ '/' :: v2Name sfx k := by rw [v2Key_eq, pre_of_ne hpn]; simp
    rw [e, validQualified_split (validPrefix_noslash hp)] at h
    simp only [Bool.and_eq_true] at h
    exact edgeOk_of_valid_v2 sfx k hs h.2
  · intro he
    obtain ⟨_, _, _, _, hq, _⟩ := valid_name_v2_partial p sfx k hp hk he hs
    exact hq

/-- v1 names (written next to the v2 names while `v1=True` *and there is room*, `v1Fits`): whenever
    a V1 key is generated it is a valid name of at most 63 characters in total — under the same
    `EdgeOkV1` guard (F6) only. The former guard "prefix + `/` + suffix leave room" (finding F6c) is
    gone with kopf e916847: `make_keys` checks it itself. `(sfx _).length ≤ (sfx []).length` says the
    digest suffix has one length (the real one: always 7), which is what `v1_fits` measures. -/
theorem valid_name_v1_partial (p : Str) (sfx : Str → Str) (k : Str) (hp : validPrefix p = true) (hk : IdOk k)
    (he : EdgeOkV1 p k) (hfit : v1Fits p sfx = true)
    (hs : 63 < (pre p).length + k.length →
      GoodSfx (sfx (safeKey k)) ∧ (sfx (safeKey k)).length ≤ (sfx []).length) :
    ∃ n, v1Key p sfx k = p ++ '/' :: n ∧ validNamePart n = true ∧ (v1Key p sfx k).length ≤ 63 ∧
      validQualified (v1Key p sfx k) = true := by
  have hroom := (v1Fits_iff p sfx).1 hfit
  obtain ⟨hn, hl⟩ := validName_v1 p sfx k hk he (by
    intro hi
    have hb : 63 < (pre p).length + k.length := by rw [safeKey_length] at hi; omega
    exact ⟨(hs hb).1, by have := (hs hb).2; omega⟩)
  have hpn := validPrefix_ne_nil hp
  have e : v1Key p sfx k = p ++ '/' :: v1Name p sfx k := by rw [v1Key_eq, pre_of_ne hpn]; simp
  refine ⟨v1Name p sfx k, e, hn, ?_, ?_⟩
  · rw [e]; rw [pre_length hpn] at hl; simp; omega
  · rw [e]; exact validQualified_intro hp hn

/-- **every name `make_keys` generates** (for any `v1` flag, any prefix length) is a valid
    annotation key, under the `EdgeOk` guard (= F6) and the facts about the digest suffix -/
theorem valid_names_partial (p : Str) (v1 : Bool) (sfx : Str → Str) (k : Str) (hp : validPrefix p = true)
    (hk : IdOk k) (he : EdgeOk k) (hs2 : k.length > 63 → GoodSfx (sfx k))
    (hs1 : 63 < (pre p).length + k.length →
      GoodSfx (sfx (safeKey k)) ∧ (sfx (safeKey k)).length ≤ (sfx []).length) :
    ∀ n ∈ makeKeys p v1 sfx k, validQualified n = true ∧ ∃ name, n = p ++ '/' :: name ∧ validNamePart name = true := by
  intro n hn
  rcases makeKeys_subset p v1 sfx k n hn with rfl | ⟨rfl, _, hfit⟩
  · obtain ⟨name, e, hv, _, hq, _⟩ := valid_name_v2_partial p sfx k hp hk he hs2
    exact ⟨hq, name, e, hv⟩
  · obtain ⟨name, e, hv, _, hq⟩ := valid_name_v1_partial p sfx k hp hk ⟨he.1, fun h => he.2 (by omega)⟩ hfit hs1
    exact ⟨hq, name, e, hv⟩

/-- the marking keeps the name valid: a marked id ends in `S`, only its first character matters -/
theorem valid_name_marked (k : Str) (hk : IdOk k) (he : headAlnum (safeKey k) = true) :
    IdOk (markKey true k) ∧ EdgeOk (markKey true k) := by
  refine ⟨⟨by simp only [markKey, if_true]; intro e; have := congrArg List.length e; simp [ofDRS] at this, ?_⟩, ?_, fun _ => ?_⟩
  · simp only [markKey, if_true, List.all_append, Bool.and_eq_true]
    exact ⟨hk.2, by decide⟩
  · simp only [markKey, if_true, safeKey, List.map_append]
    exact headAlnum_append he _
  · simp only [markKey, if_true, safeKey, List.map_append]
    rw [lastAlnum_append _ (by decide)]; decide

/- The property says: "names are distinct for long ids that share a prefix", i.e.
     ∀ k ≠ k' (both longer than 63), v2Key p sfx k ≠ v2Key p sfx k'.
   FALSE of the code for the real 32-bit digest (`collision_witness` + the birthday search replayed on
   every run: F6b), and for ids in general (`safe_form_witness` F6d, `forged_witness` F6e). The
   theorems below are what is left: the cut-and-append never loses a difference the digest (resp. the
   safe form) still shows — they do NOT establish the clause, hence `_partial`. -/

/-- two ids longer than 63 characters (sharing any prefix) whose hash suffixes differ (and have the
    same length, as the real ones do) get different v2 names -/
theorem distinct_partial (p : Str) (sfx : Str → Str) (k k' : Str) (hk : k.length > 63) (hk' : k'.length > 63)
    (hl : (sfx k).length = (sfx k').length) (hl63 : (sfx k).length ≤ 63) (hne : sfx k ≠ sfx k') :
    v2Key p sfx k ≠ v2Key p sfx k' := by
  intro e
  rw [v2Key_eq, v2Key_eq, v2Name_long hk, v2Name_long hk'] at e
  have e2 := List.append_cancel_left e
  have := List.append_inj e2 (by
    rw [v2Name_long_length hk hl63, v2Name_long_length hk' (by omega), hl])
  exact hne this.2

/-- ids of at most 63 characters with different safe forms get different v2 names -/
theorem distinct_short_partial (p : Str) (sfx : Str → Str) (k k' : Str) (hk : k.length ≤ 63) (hk' : k'.length ≤ 63)
    (hne : safeKey k ≠ safeKey k') : v2Key p sfx k ≠ v2Key p sfx k' := by
  intro e
  rw [v2Key_eq, v2Key_eq, v2Name_short hk, v2Name_short hk'] at e
  exact hne (List.append_cancel_left e)

/-! ## Id-level isolation (assembled from both parts)

`make_keys` yields one name (`v1=False`, or no room for V1 keys: prefix of 55+ characters, or an id
short enough to be its own V1 name) or two (V2 and a cut-and-hashed V1 name). Ids are compared
after marking. What is proved: isolation between two ids of the same "band"; what is NOT provable
is the mixed case, where one id may spell the hashed name of the other (`forged_witness`,
`forged_v1_witness`: F6e), and ids with equal safe forms or digests (F6d, F6b). -/

/-- **one name each, ids of at most 63 characters**: handlers whose *safe forms* differ do not
    disturb each other — a store or a purge of `k` leaves what `k'` reads unchanged (`k'` must
    not spell the `kopf-managed` marker). Holds for `v1=False`, for every prefix without room for
    V1 keys (55+ characters: the repaired F6f), and for ids that are their own V1 names. -/
theorem isolation_ids_short_partial (env : Env) (c : AnnCfg) (hp : c.pfx ≠ [])
    (body patch0 ps pp : J) (k k' : Str) (r : Rec) (hw : wf patch0 = true) (hs : MarkStable patch0)
    (hone : c.v1 = false ∨ v1Fits c.pfx env.sfx = false ∨
      ((pre c.pfx).length + (markKey (isDRS body) k).length ≤ 63 ∧
       (pre c.pfx).length + (markKey (isDRS body) k').length ≤ 63))
    (hk : (markKey (isDRS body) k).length ≤ 63) (hk' : (markKey (isDRS body) k').length ≤ 63)
    (hne : safeKey k ≠ safeKey k')
    (hm : safeKey (markKey (isDRS body) k') ≠ "kopf-managed".toList)
    (hstore : annStore env c body patch0 k r = .ok ps) (hpurge : annPurge env c body patch0 k = .ok pp) :
    annFetch env c (mergePatch body ps) k' = annFetch env c (mergePatch body patch0) k' ∧
    annFetch env c (mergePatch body pp) k' = annFetch env c (mergePatch body patch0) k' := by
  have hnk : annNames env c.pfx c.v1 body k = [v2Key c.pfx env.sfx (markKey (isDRS body) k)] :=
    makeKeys_single (by rcases hone with h | h | h; exact Or.inl h; exact Or.inr (Or.inl h); exact Or.inr (Or.inr h.1))
  have hnk' : annNames env c.pfx c.v1 body k' = [v2Key c.pfx env.sfx (markKey (isDRS body) k')] :=
    makeKeys_single (by rcases hone with h | h | h; exact Or.inl h; exact Or.inr (Or.inl h); exact Or.inr (Or.inr h.2))
  have hd : v2Key c.pfx env.sfx (markKey (isDRS body) k') ≠ v2Key c.pfx env.sfx (markKey (isDRS body) k) :=
    fun e => distinct_short_partial c.pfx env.sfx _ _ hk hk' (safeKey_markKey_ne hne) e.symm
  refine ⟨isolation_other_handler env c body patch0 ps k k' r hw hs hstore ?_ ?_,
    isolation_other_handler_purge env c body patch0 pp k k' hw hs hpurge ?_⟩
  · intro n hn1 n' hn2; rw [hnk] at hn1; rw [hnk'] at hn2; simp at hn1 hn2; subst hn1; subst hn2; exact hd
  · intro n' hn2; rw [hnk'] at hn2; simp at hn2; subst hn2
    exact v2Key_ne_marker_short hp env.sfx hk' hm
  · intro n hn1 n' hn2; rw [hnk] at hn1; rw [hnk'] at hn2; simp at hn1 hn2; subst hn1; subst hn2; exact hd

/-- **one name each, ids longer than 63 characters** (sharing any prefix), as long as their
    digests differ (`collision_witness`, F6b, is the other case) -/
theorem isolation_ids_long_partial (env : Env) (c : AnnCfg) (hp : c.pfx ≠ [])
    (body patch0 ps pp : J) (k k' : Str) (r : Rec) (hw : wf patch0 = true) (hs : MarkStable patch0)
    (hone : c.v1 = false ∨ v1Fits c.pfx env.sfx = false)
    (hk : (markKey (isDRS body) k).length > 63) (hk' : (markKey (isDRS body) k').length > 63)
    (hl : (env.sfx (markKey (isDRS body) k)).length = (env.sfx (markKey (isDRS body) k')).length)
    (hl63 : (env.sfx (markKey (isDRS body) k)).length ≤ 63)
    (hne : env.sfx (markKey (isDRS body) k) ≠ env.sfx (markKey (isDRS body) k'))
    (hstore : annStore env c body patch0 k r = .ok ps) (hpurge : annPurge env c body patch0 k = .ok pp) :
    annFetch env c (mergePatch body ps) k' = annFetch env c (mergePatch body patch0) k' ∧
    annFetch env c (mergePatch body pp) k' = annFetch env c (mergePatch body patch0) k' := by
  have hn : ∀ x, annNames env c.pfx c.v1 body x = [v2Key c.pfx env.sfx (markKey (isDRS body) x)] :=
    fun x => makeKeys_single (by rcases hone with h | h; exact Or.inl h; exact Or.inr (Or.inl h))
  have hd : v2Key c.pfx env.sfx (markKey (isDRS body) k') ≠ v2Key c.pfx env.sfx (markKey (isDRS body) k) :=
    fun e => distinct_partial c.pfx env.sfx _ _ hk hk' hl hl63 hne e.symm
  refine ⟨isolation_other_handler env c body patch0 ps k k' r hw hs hstore ?_ ?_,
    isolation_other_handler_purge env c body patch0 pp k k' hw hs hpurge ?_⟩
  · intro n hn1 n' hn2; rw [hn] at hn1 hn2; simp at hn1 hn2; subst hn1; subst hn2; exact hd
  · intro n' hn2; rw [hn] at hn2; simp at hn2; subst hn2
    exact v2Key_ne_marker_long hp env.sfx hk' (by omega)
  · intro n hn1 n' hn2; rw [hn] at hn1 hn2; simp at hn1 hn2; subst hn1; subst hn2; exact hd

/-- **two names each (`v1=True` with room), both ids too long to be their own V1 names**: with
    different V2 names (safe forms differ, resp. digests differ) and different, equally long digests
    of the safe forms, the two handlers share no annotation at all — for every prefix. The V1 name
    of one can no longer be the V2 name of the other (F6f): their lengths differ. `hm` / `h51` keep
    `k'` off the `kopf-managed` marker (F6g, `marker_witness`): a 12-character V1 name needs `|prefix/| = 51`. -/
theorem isolation_ids_v1_hashed_partial (env : Env) (c : AnnCfg) (hp : c.pfx ≠ [])
    (body patch0 ps pp : J) (k k' : Str) (r : Rec) (hw : wf patch0 = true) (hs : MarkStable patch0)
    (hb : 63 < (pre c.pfx).length + (markKey (isDRS body) k).length)
    (hb' : 63 < (pre c.pfx).length + (markKey (isDRS body) k').length)
    (hroom : (pre c.pfx).length + (env.sfx (safeKey (markKey (isDRS body) k))).length < 63)
    (hsl : (env.sfx (safeKey (markKey (isDRS body) k))).length = (env.sfx (safeKey (markKey (isDRS body) k'))).length)
    (hsne : env.sfx (safeKey (markKey (isDRS body) k)) ≠ env.sfx (safeKey (markKey (isDRS body) k')))
    (hv2 : ((markKey (isDRS body) k).length ≤ 63 ∧ (markKey (isDRS body) k').length ≤ 63 ∧ safeKey k ≠ safeKey k') ∨
      ((markKey (isDRS body) k).length > 63 ∧ (markKey (isDRS body) k').length > 63 ∧
       (env.sfx (markKey (isDRS body) k)).length = (env.sfx (markKey (isDRS body) k')).length ∧
       (env.sfx (markKey (isDRS body) k)).length ≤ 63 ∧
       env.sfx (markKey (isDRS body) k) ≠ env.sfx (markKey (isDRS body) k')))
    (hm : (markKey (isDRS body) k').length ≤ 63 → safeKey (markKey (isDRS body) k') ≠ "kopf-managed".toList)
    (h51 : (pre c.pfx).length ≠ 51)
    (hstore : annStore env c body patch0 k r = .ok ps) (hpurge : annPurge env c body patch0 k = .ok pp) :
    annFetch env c (mergePatch body ps) k' = annFetch env c (mergePatch body patch0) k' ∧
    annFetch env c (mergePatch body pp) k' = annFetch env c (mergePatch body patch0) k' := by
  have hdisj : ∀ n ∈ annNames env c.pfx c.v1 body k, ∀ n' ∈ annNames env c.pfx c.v1 body k', n' ≠ n := by
    rcases hv2 with ⟨h1, h2, h3⟩ | ⟨h1, h2, h3, h4, h5⟩
    · exact names_disjoint_hashed hp hb hb' hroom hsl hsne (by omega) (by omega)
        (distinct_short_partial c.pfx env.sfx _ _ h1 h2 (safeKey_markKey_ne h3)) c.v1
    · exact names_disjoint_hashed hp hb hb' hroom hsl hsne (fun _ => h4) (fun _ => by omega)
        (distinct_partial c.pfx env.sfx _ _ h1 h2 h3 h4 h5) c.v1
  have hroom' : (pre c.pfx).length + (env.sfx (safeKey (markKey (isDRS body) k'))).length < 63 := by omega
  have hmark : ∀ n' ∈ annNames env c.pfx c.v1 body k', n' ≠ markerName c.pfx := by
    intro n' hn'
    rcases makeKeys_subset c.pfx c.v1 env.sfx _ n' hn' with rfl | ⟨rfl, _, _⟩
    · by_cases h63 : (markKey (isDRS body) k').length ≤ 63
      · exact v2Key_ne_marker_short hp env.sfx h63 (hm h63)
      · rcases hv2 with ⟨_, h2, _⟩ | ⟨_, h2, h3, h4, _⟩
        · exact absurd h2 h63
        · exact v2Key_ne_marker_long hp env.sfx h2 (by omega)
    · exact v1Key_ne_marker_hashed hp hb' hroom' h51
  exact ⟨isolation_other_handler env c body patch0 ps k k' r hw hs hstore hdisj hmark,
    isolation_other_handler_purge env c body patch0 pp k k' hw hs hpurge hdisj⟩

/-! ## Each hypothesis is necessary: witnesses (the open findings F6, F6b, F6d, F6e) -/

/-- **F6** `EdgeOk` is necessary: the id `fn/` (in the alphabet, any hash) gives
    `kopf.zalando.org/fn.`, which is not a valid annotation key. -/
theorem edge_witness (sfx : Str → Str) :
    validPrefix kz = true ∧ IdOk "fn/".toList ∧ ¬ EdgeOk "fn/".toList ∧
    v2Key kz sfx "fn/".toList = "kopf.zalando.org/fn.".toList ∧
    validQualified (v2Key kz sfx "fn/".toList) = false := by
  have e : v2Key kz sfx "fn/".toList = "kopf.zalando.org/fn.".toList := by
    simp [v2Key]; decide
  refine ⟨by decide, by decide, by decide, e, ?_⟩
  rw [e]; decide

/-- … and at the front (`<locals>.fn` → `_locals_.fn`), also on a marked (ReplicaSet) key. -/
theorem edge_witness_front (sfx : Str → Str) :
    IdOk "<locals>.fn".toList ∧
    validQualified (v2Key kz sfx (markKey true "<locals>.fn".toList)) = false := by
  have e : v2Key kz sfx (markKey true "<locals>.fn".toList) = "kopf.zalando.org/_locals_.fn-ofDRS".toList := by
    simp [v2Key, markKey, ofDRS]; decide
  refine ⟨by decide, ?_⟩
  rw [e]; decide

/-- `GoodSfx` is necessary — a statement about a HYPOTHETICAL digest suffix (the real one always is `GoodSfx`;
    this is not a behaviour of the code and is not replayed on it): with a suffix ending in `.` a long,
    otherwise fine id gets an invalid name. -/
theorem sfx_witness :
    IdOk (xs 64) ∧ EdgeOk (xs 64) ∧ ¬ GoodSfx (constSfx "-ab." (xs 64)) ∧
    validQualified (v2Key kz (constSfx "-ab.") (xs 64)) = false := by
  decide

/-! ### Regressions of the repaired findings F6c / F6f (kopf e916847)

`make_v1_key` itself is unchanged: called with a prefix of 55+ characters its cut `63 - |prefix/| - 7`
is still zero or negative (a Python slice from the end). It is no longer *called* then. -/

/-- **F6c fixed**: the former witnesses. With the valid 55- and 60-character prefixes (and the real
    7-character suffix) there is no room, a 54-character prefix still has room; the id that used to
    get the V1 name `-AAAAAQ` now gets one, valid, name. -/
example :
    validPrefix p55 = true ∧ v1Fits p55 (constSfx "-AAAAAQ") = false ∧
    validPrefix p60 = true ∧ v1Fits p60 (constSfx "-AAAAAQ") = false ∧
    v1Fits (List.replicate 54 'a') (constSfx "-AAAAAQ") = true ∧
    makeKeys p55 true (constSfx "-AAAAAQ") "create_fn/spec.field".toList
      = [p55 ++ "/create_fn.spec.field".toList] ∧
    validQualified (p55 ++ "/create_fn.spec.field".toList) = true ∧
    (makeKeys p60 true (constSfx "-AAAAAQ") (xs 100)).all (fun n => validQualified n) = true := by
  decide

set_option maxRecDepth 8192 in
/-- **F6f fixed**: the former witness. With a 63-character prefix the 64-character id `a/xx…` and its
    safe form `a.xx…` (a distinct id, with another digest) now have disjoint names. -/
example :
    let sfx : Str → Str := fun s => if s = safeKey ("a/".toList ++ xs 62) then "-AAAAAQ".toList else "-BBBBBQ".toList
    makeKeys (List.replicate 63 'a') true sfx ("a/".toList ++ xs 62)
      = [v2Key (List.replicate 63 'a') sfx ("a/".toList ++ xs 62)] ∧
    makeKeys (List.replicate 63 'a') true sfx (safeKey ("a/".toList ++ xs 62))
      = [v2Key (List.replicate 63 'a') sfx (safeKey ("a/".toList ++ xs 62))] ∧
    v2Key (List.replicate 63 'a') sfx ("a/".toList ++ xs 62)
      ≠ v2Key (List.replicate 63 'a') sfx (safeKey ("a/".toList ++ xs 62)) := by
  decide

/-- **F6b** `sfx k ≠ sfx k'` in `distinct_partial` is necessary: whenever the suffixes of two long ids
    collide and the ids agree on the characters kept, the v2 names coincide … -/
theorem collision_witness (p : Str) (sfx : Str → Str) (k k' : Str) (hk : k.length > 63) (hk' : k'.length > 63)
    (hs : sfx k = sfx k')
    (ht : (safeKey k).take (63 - (sfx k).length) = (safeKey k').take (63 - (sfx k).length)) :
    v2Key p sfx k = v2Key p sfx k' := by
  rw [v2Key_eq, v2Key_eq, v2Name_long hk, v2Name_long hk', ← hs, ht]

/-- … and such pairs exist for any hash whose range is smaller than its domain (here: constant). -/
example : xs 64 ≠ xs 65 ∧ v2Key kz (constSfx "-AAAAAQ") (xs 64) = v2Key kz (constSfx "-AAAAAQ") (xs 65) := by
  decide

/-- **F6d** `safeKey k ≠ safeKey k'` in `distinct_short_partial` is necessary: ids with the same safe form
    (at most 63 characters) get the same names under every configuration and hash … -/
theorem safe_form_witness (p : Str) (v1 : Bool) (sfx : Str → Str) (k k' : Str)
    (hs : safeKey k = safeKey k') (hk : k.length ≤ 63) :
    makeKeys p v1 sfx k = makeKeys p v1 sfx k' := by
  have hk' : k'.length ≤ 63 := by
    rw [← safeKey_length k', ← hs, safeKey_length]; exact hk
  have e2 : v2Key p sfx k = v2Key p sfx k' := by
    rw [v2Key_eq, v2Key_eq, v2Name_short hk, v2Name_short hk', hs]
  have e1 : v1Key p sfx k = v1Key p sfx k' := by
    simp only [v1Key, hs]
  simp only [makeKeys, e1, e2]

/-- … e.g. the field handler `fn/spec.field` and the sub-handler path `fn/spec/field`. -/
example : "fn/spec.field".toList ≠ "fn/spec/field".toList ∧
    safeKey "fn/spec.field".toList = safeKey "fn/spec/field".toList := by decide

/-- **F6e** "both ids longer than 63" in `distinct_partial` is necessary: the 63-character id that spells
    the cut-and-hashed name of a longer id gets the same v2 name without any hash collision. -/
theorem forged_witness :
    xs 56 ++ "-AAAAAQ".toList ≠ xs 64 ∧ (xs 56 ++ "-AAAAAQ".toList).length = 63 ∧
    IdOk (xs 56 ++ "-AAAAAQ".toList) ∧
    v2Key kz (constSfx "-AAAAAQ") (xs 56 ++ "-AAAAAQ".toList) = v2Key kz (constSfx "-AAAAAQ") (xs 64) := by
  decide

/-- **F6e**, V1 variant: the mixed band is not provable either — the 46-character id that spells
    the cut-and-hashed V1 name of a 50-character id is its own V2 (and V1) name. -/
theorem forged_v1_witness :
    xs 39 ++ "-AAAAAQ".toList ≠ xs 50 ∧ IdOk (xs 39 ++ "-AAAAAQ".toList) ∧
    v1Key kz (constSfx "-AAAAAQ") (xs 50) ∈ makeKeys kz true (constSfx "-AAAAAQ") (xs 50) ∧
    makeKeys kz true (constSfx "-AAAAAQ") (xs 39 ++ "-AAAAAQ".toList) = [v1Key kz (constSfx "-AAAAAQ") (xs 50)] := by
  decide

/-! ### The storages' own names (finding F6g) and ids outside the alphabet (F6i, fixed) -/

/-- **F6g (a)** `hm` of the id-level isolation theorems is necessary: under a custom prefix, storing
    the record of `fn` writes the marker `<prefix>/kopf-managed: yes`; a handler with the id
    `kopf-managed`, which read nothing before, now fails to parse it (`json.loads('yes')`). -/
theorem marker_witness :
    let c : AnnCfg := ⟨"my-op.example.com".toList, false, false, "touch-dummy".toList⟩
    (match annFetch env0 c (obj []) "kopf-managed".toList with | .ok none => true | _ => false) = true ∧
    (match annStore env0 c (obj []) (obj []) "fn".toList r0 with
     | .ok p' => (match annFetch env0 c (mergePatch (obj []) p') "kopf-managed".toList with
                  | .error .value => true | _ => false)
     | _ => false) = true := by
  decide

/-- **F6g (b)** a handler with the id of the touch key: the touch overwrites its record. -/
theorem reserved_touch_witness :
    let c : AnnCfg := ⟨kz, true, false, "touch-dummy".toList⟩
    (match annStore env0 c (obj []) (obj []) "touch-dummy".toList r0 with
     | .ok p1 =>
       (match annFetch env0 c (mergePatch (obj []) p1) "touch-dummy".toList with | .ok (some _) => true | _ => false) &&
       (match annTouch env0 c (mergePatch (obj []) p1) (obj []) (str "2020-12-31T23:59:59") with
        | .ok p2 => (match annFetch env0 c (mergePatch (mergePatch (obj []) p1) p2) "touch-dummy".toList with
                     | .error .value => true | _ => false)
        | _ => false)
     | _ => false) = true := by
  decide

/-- **F6g (c)** a handler with the id of the diff-base key (same prefix): its record is read as the
    last-handled state. -/
theorem reserved_diffbase_witness :
    let c : AnnCfg := ⟨kz, true, false, "touch-dummy".toList⟩
    let d : DLeaf := .ann ⟨kz, "last-handled-configuration".toList, true⟩
    let essence : J := obj [("spec", obj [("n", num 2)])]
    (match DLeaf.store env0 (obj []) (obj []) essence d with
     | .ok p1 =>
       (match DLeaf.fetch env0 (mergePatch (obj []) p1) d with | .ok (some e) => e == essence | _ => false) &&
       (match annStore env0 c (mergePatch (obj []) p1) (obj []) "last-handled-configuration".toList r0 with
        | .ok p2 => (match DLeaf.fetch env0 (mergePatch (mergePatch (obj []) p1) p2) d with
                     | .ok (some e) => e == obj [("retries", num 1)] | _ => false)
        | _ => false)
     | _ => false) = true := by
  decide

/-- **F6d beyond 63 characters**: the V1 key depends on the id only through its safe form, so two
    ids of ANY length with equal safe forms share their V1 name (their V2 names differ as soon as
    the digests of the ids do) … -/
theorem safe_form_long_v1_witness (p : Str) (sfx : Str → Str) (k k' : Str) (hs : safeKey k = safeKey k') :
    v1Key p sfx k = v1Key p sfx k' := by
  simp only [v1Key, hs]

set_option maxRecDepth 8192 in
/-- … e.g. the 70-character ids `a/xx…` and `a.xx…` under the default prefix with `v1=True`: two
    names each, different V2 names, the same V1 name — a handler that never ran reads the other's record. -/
example : let sfx : Str → Str := fun s => if s = "a/".toList ++ xs 68 then "-AAAAAQ".toList else "-BBBBBQ".toList
    v2Key kz sfx ("a/".toList ++ xs 68) ≠ v2Key kz sfx ("a.".toList ++ xs 68) ∧
    makeKeys kz true sfx ("a/".toList ++ xs 68) = [v2Key kz sfx ("a/".toList ++ xs 68), v1Key kz sfx ("a/".toList ++ xs 68)] ∧
    makeKeys kz true sfx ("a.".toList ++ xs 68) = [v2Key kz sfx ("a.".toList ++ xs 68), v1Key kz sfx ("a/".toList ++ xs 68)] := by
  decide

/-- **F6i fixed** (kopf f95b306): kopf's own id of a lambda, `lambda:<path>:<line>`, is inside `IdOk`
    now, its `:` becomes `_`, and the name is valid for every hash (`valid_names_partial` covers all
    such ids; this is the former witness turned regression, corpus `F6i.json`). -/
theorem lambda_id_regression (sfx : Str → Str) :
    IdOk "lambda:/a.py:1".toList ∧ EdgeOk "lambda:/a.py:1".toList ∧
    v2Key kz sfx "lambda:/a.py:1".toList = "kopf.zalando.org/lambda_.a.py_1".toList ∧
    validQualified (v2Key kz sfx "lambda:/a.py:1".toList) = true := by
  have e : v2Key kz sfx "lambda:/a.py:1".toList = "kopf.zalando.org/lambda_.a.py_1".toList := by
    simp [v2Key]; decide
  refine ⟨by decide, by decide, e, ?_⟩
  rw [e]; decide

/-- `IdOk` is still necessary: a character outside the alphabet (here a space) passes into the name -/
theorem charset_witness (sfx : Str → Str) :
    ¬ IdOk "my fn".toList ∧ EdgeOk "my fn".toList ∧ validQualified (v2Key kz sfx "my fn".toList) = false := by
  have e : v2Key kz sfx "my fn".toList = "kopf.zalando.org/my fn".toList := by
    simp [v2Key]; decide
  refine ⟨by decide, by decide, ?_⟩
  rw [e]; decide

/-! ## Non-vacuity (names) -/

example : validPrefix kz = true ∧ validPrefix c0.pfx = true := by decide
example : IdOk k0 ∧ EdgeOk k0 ∧ GoodSfx (env0.sfx k0) := by decide
/-- a hashed id may end in anything: `EdgeOk` holds although the safe form ends in `.` -/
example : EdgeOk (xs 63 ++ ['.']) ∧ lastAlnum (safeKey (xs 63 ++ ['.'])) = false := by decide
example : IdOk "Outer.<locals>.fn/sub/spec.field".toList ∧
    EdgeOk "Outer.<locals>.fn/sub/spec.field".toList := by decide
/-- `valid_name_v1_partial`: there is room under the default prefix, and the suffix has one length -/
example : v1Fits kz env0.sfx = true ∧ (env0.sfx (safeKey k0)).length ≤ (env0.sfx []).length := by decide
/-- `distinct_partial`: two long ids sharing a 64-character prefix, different (equal-length) suffixes -/
example : let sfx : Str → Str := fun k => if k.length = 64 then "-AAAAAQ".toList else "-BBBBBQ".toList
    (xs 64).length > 63 ∧ (xs 65).length > 63 ∧ (sfx (xs 64)).length = (sfx (xs 65)).length ∧ sfx (xs 64) ≠ sfx (xs 65) := by
  decide


/-- `isolation_ids_short_partial` (first alternative of `hone`): `v1 = False`, a field handler and a sub-handler with different safe forms -/
def c1 : AnnCfg := ⟨kz, false, false, "touch-dummy".toList⟩
example : (markKey (isDRS body0) "fn/spec.a".toList).length ≤ 63 ∧ (markKey (isDRS body0) "fn/sub_b".toList).length ≤ 63 ∧
    safeKey "fn/spec.a".toList ≠ safeKey "fn/sub_b".toList ∧
    safeKey (markKey (isDRS body0) "fn/sub_b".toList) ≠ "kopf-managed".toList ∧ c1.pfx ≠ [] := by decide
example : (match annStore env0 c1 body0 (obj []) "fn/spec.a".toList r0, annPurge env0 c1 body0 (obj []) "fn/spec.a".toList with
    | .ok _, .ok _ => true | _, _ => false) = true := by decide

/-- `isolation_ids_v1_hashed_partial`: default prefix, `v1=True`, two 50-character ids with different safe
    forms and (for a hash that tells them apart) different digests -/
example : let sfx : Str → Str := fun s => if s = xs 50 then "-AAAAAQ".toList else "-BBBBBQ".toList
    63 < (pre kz).length + (xs 50).length ∧ 63 < (pre kz).length + ("y".toList ++ xs 49).length ∧
    (pre kz).length + (sfx (safeKey (xs 50))).length < 63 ∧
    (sfx (safeKey (xs 50))).length = (sfx (safeKey ("y".toList ++ xs 49))).length ∧
    sfx (safeKey (xs 50)) ≠ sfx (safeKey ("y".toList ++ xs 49)) ∧
    safeKey (xs 50) ≠ safeKey ("y".toList ++ xs 49) ∧
    (makeKeys kz true sfx (xs 50)).length = 2 := by
  decide

end Kopf.C16
