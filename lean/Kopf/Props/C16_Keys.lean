/-
  C16 — property theorems, part 2: the annotation NAMES — valid Kubernetes names, distinct names,
  id-level isolation assembled from both parts, the witnesses that each guard is necessary, and
  the regression theorems of the repaired findings F6c / F6f (kopf e916847: no V1 key without room).
  Part 1 (`Props/C16.lean`) holds the storage operations.
-/
import Kopf.Props.C16
namespace Kopf.C16
open Kopf Kopf.J

/-! ## Valid Kubernetes names -/

/- The property says: "generated annotation names are ALWAYS valid Kubernetes names", i.e.
     ∀ p k, validPrefix p → IdOk k → validQualified (v2Key p sfx k) ∧ validQualified (v1Key p sfx k).
   That statement is FALSE of the code (`edge_witness`, `edge_witness_front`: F6; formerly also
   F6c — repaired in kopf e916847, see `v1_long_prefix_regression`). What holds is the statement under the
   exact guard `EdgeAlnum (safeKey k)` (v2 and v1), hence `_partial`. `GoodSfx` is a fact about the real digest suffix
   (7 characters `-xxxxxx`, last one of `AQgw`), checked by the oracle on every hashed name. -/

/-- v2 names (the ones written and read first): under a valid prefix, for an id over the
    property's alphabet whose safe form is alphanumeric at both ends, with a usable hash suffix
    when the id is longer than 63: `prefix/name` with a valid name part of at most 63 characters,
    and at most 253 in total when the prefix has at most 189. -/
theorem valid_name_v2_partial (p : Str) (sfx : Str → Str) (k : Str) (hp : validPrefix p = true) (hk : IdOk k)
    (he : EdgeAlnum (safeKey k)) (hs : k.length > 63 → GoodSfx (sfx k)) :
    ∃ n, v2Key p sfx k = p ++ '/' :: n ∧ validNamePart n = true ∧ n.length ≤ 63 ∧
      validQualified (v2Key p sfx k) = true ∧ (p.length ≤ 189 → (v2Key p sfx k).length ≤ 253) := by
  have hn := validName_v2 sfx k hk he hs
  have hpn := validPrefix_ne_nil hp
  have e : v2Key p sfx k = p ++ '/' :: v2Name sfx k := by rw [v2Key_eq, pre_of_ne hpn]; simp
  refine ⟨v2Name sfx k, e, hn, (validNamePart_length hn).2, ?_, ?_⟩
  · rw [e]; exact validQualified_intro hp hn
  · intro hl; rw [e]; simp; have := (validNamePart_length hn).2; omega

/-- v1 names (written next to the v2 names while `v1=True` *and there is room*, `v1Fits`): whenever
    a V1 key is generated it is a valid name of at most 63 characters in total — under the same
    `EdgeAlnum` guard (F6) only. The former guard "prefix + `/` + suffix leave room" (finding F6c) is
    gone with kopf e916847: `make_keys` checks it itself. `(sfx _).length ≤ (sfx []).length` says the
    digest suffix has one length (the real one: always 7), which is what `v1_fits` measures. -/
theorem valid_name_v1_partial (p : Str) (sfx : Str → Str) (k : Str) (hp : validPrefix p = true) (hk : IdOk k)
    (he : EdgeAlnum (safeKey k)) (hfit : v1Fits p sfx = true)
    (hs : 63 < (pre p).length + k.length →
      GoodSfx (sfx (safeKey k)) ∧ (sfx (safeKey k)).length ≤ (sfx []).length) :
    ∃ n, v1Key p sfx k = p ++ '/' :: n ∧ validNamePart n = true ∧ (v1Key p sfx k).length ≤ 63 ∧
      validQualified (v1Key p sfx k) = true := by
  have hroom := (v1Fits_iff p sfx).1 hfit
  obtain ⟨hn, hl⟩ := validName_v1 p sfx k hk he (by
    intro hi
    have hb : 63 < (pre p).length + k.length := by rw [safeKey_length] at hi; omega
    exact ⟨(hs hb).1, by have := (hs hb).2; omega⟩)
  have hpn := validPrefix_ne_nil hp
  have e : v1Key p sfx k = p ++ '/' :: v1Name p sfx k := by rw [v1Key_eq, pre_of_ne hpn]; simp
  refine ⟨v1Name p sfx k, e, hn, ?_, ?_⟩
  · rw [e]; rw [pre_length hpn] at hl; simp; omega
  · rw [e]; exact validQualified_intro hp hn

/-- **every name `make_keys` generates** (for any `v1` flag, any prefix length) is a valid
    annotation key, under the `EdgeAlnum` guard and the facts about the digest suffix -/
theorem valid_names_partial (p : Str) (v1 : Bool) (sfx : Str → Str) (k : Str) (hp : validPrefix p = true)
    (hk : IdOk k) (he : EdgeAlnum (safeKey k)) (hs2 : k.length > 63 → GoodSfx (sfx k))
    (hs1 : 63 < (pre p).length + k.length →
      GoodSfx (sfx (safeKey k)) ∧ (sfx (safeKey k)).length ≤ (sfx []).length) :
    ∀ n ∈ makeKeys p v1 sfx k, validQualified n = true ∧ ∃ name, n = p ++ '/' :: name ∧ validNamePart name = true := by
  intro n hn
  rcases makeKeys_subset p v1 sfx k n hn with rfl | ⟨rfl, _, hfit⟩
  · obtain ⟨name, e, hv, _, hq, _⟩ := valid_name_v2_partial p sfx k hp hk he hs2
    exact ⟨hq, name, e, hv⟩
  · obtain ⟨name, e, hv, _, hq⟩ := valid_name_v1_partial p sfx k hp hk he hfit hs1
    exact ⟨hq, name, e, hv⟩

/-- the marking keeps the name valid: a marked id ends in `S`, only its first character matters -/
theorem valid_name_marked (k : Str) (hk : IdOk k) (he : headAlnum (safeKey k) = true) :
    IdOk (markKey true k) ∧ EdgeAlnum (safeKey (markKey true k)) := by
  refine ⟨⟨by simp only [markKey, if_true]; intro e; have := congrArg List.length e; simp [ofDRS] at this, ?_⟩, ?_, ?_⟩
  · simp only [markKey, if_true, List.all_append, Bool.and_eq_true]
    exact ⟨hk.2, by decide⟩
  · simp only [markKey, if_true, safeKey, List.map_append]
    exact headAlnum_append he _
  · simp only [markKey, if_true, safeKey, List.map_append]
    rw [lastAlnum_append _ (by decide)]; decide

/-! ## Distinct names -/

/- The property says: "names are distinct for long ids that share a prefix", i.e.
     ∀ k ≠ k' (both longer than 63), v2Key p sfx k ≠ v2Key p sfx k'.
   FALSE of the code for the real 32-bit digest (`collision_witness` + the birthday search replayed on
   every run: F6b), and for ids in general (`safe_form_witness` F6d, `forged_witness` F6e). The
   theorems below are what is left: the cut-and-append never loses a difference the digest (resp. the
   safe form) still shows — they do NOT establish the clause, hence `_partial`. -/

/-- two ids longer than 63 characters (sharing any prefix) whose hash suffixes differ (and have the
    same length, as the real ones do) get different v2 names -/
theorem distinct_partial (p : Str) (sfx : Str → Str) (k k' : Str) (hk : k.length > 63) (hk' : k'.length > 63)
    (hl : (sfx k).length = (sfx k').length) (hl63 : (sfx k).length ≤ 63) (hne : sfx k ≠ sfx k') :
    v2Key p sfx k ≠ v2Key p sfx k' := by
  intro e
  rw [v2Key_eq, v2Key_eq, v2Name_long hk, v2Name_long hk'] at e
  have e2 := List.append_cancel_left e
  have := List.append_inj e2 (by
    rw [v2Name_long_length hk hl63, v2Name_long_length hk' (by omega), hl])
  exact hne this.2

/-- ids of at most 63 characters with different safe forms get different v2 names -/
theorem distinct_short_partial (p : Str) (sfx : Str → Str) (k k' : Str) (hk : k.length ≤ 63) (hk' : k'.length ≤ 63)
    (hne : safeKey k ≠ safeKey k') : v2Key p sfx k ≠ v2Key p sfx k' := by
  intro e
  rw [v2Key_eq, v2Key_eq, v2Name_short hk, v2Name_short hk'] at e
  exact hne (List.append_cancel_left e)

/-! ## Id-level isolation (assembled from both parts)

`make_keys` yields one name (`v1=False`, or no room for V1 keys: prefix of 55+ characters, or an id
short enough to be its own V1 name) or two (V2 and a cut-and-hashed V1 name). Ids are compared
after marking. What is proved: isolation between two ids of the same "band"; what is NOT provable
is the mixed case, where one id may spell the hashed name of the other (`forged_witness`,
`forged_v1_witness`: F6e), and ids with equal safe forms or digests (F6d, F6b). -/

/-- **one name each, ids of at most 63 characters**: handlers whose *safe forms* differ do not
    disturb each other — a store or a purge of `k` leaves what `k'` reads unchanged (`k'` must
    not spell the `kopf-managed` marker). Holds for `v1=False`, for every prefix without room for
    V1 keys (55+ characters: the repaired F6f), and for ids that are their own V1 names. -/
theorem isolation_ids_short (env : Env) (c : AnnCfg) (hp : c.pfx ≠ [])
    (body patch0 ps pp : J) (k k' : Str) (r : Rec) (hw : wf patch0 = true) (hs : MarkStable patch0)
    (hone : c.v1 = false ∨ v1Fits c.pfx env.sfx = false ∨
      ((pre c.pfx).length + (markKey (isDRS body) k).length ≤ 63 ∧
       (pre c.pfx).length + (markKey (isDRS body) k').length ≤ 63))
    (hk : (markKey (isDRS body) k).length ≤ 63) (hk' : (markKey (isDRS body) k').length ≤ 63)
    (hne : safeKey k ≠ safeKey k')
    (hm : safeKey (markKey (isDRS body) k') ≠ "kopf-managed".toList)
    (hstore : annStore env c body patch0 k r = .ok ps) (hpurge : annPurge env c body patch0 k = .ok pp) :
    annFetch env c (mergePatch body ps) k' = annFetch env c (mergePatch body patch0) k' ∧
    annFetch env c (mergePatch body pp) k' = annFetch env c (mergePatch body patch0) k' := by
  have hnk : annNames env c.pfx c.v1 body k = [v2Key c.pfx env.sfx (markKey (isDRS body) k)] :=
    makeKeys_single (by rcases hone with h | h | h; exact Or.inl h; exact Or.inr (Or.inl h); exact Or.inr (Or.inr h.1))
  have hnk' : annNames env c.pfx c.v1 body k' = [v2Key c.pfx env.sfx (markKey (isDRS body) k')] :=
    makeKeys_single (by rcases hone with h | h | h; exact Or.inl h; exact Or.inr (Or.inl h); exact Or.inr (Or.inr h.2))
  have hd : v2Key c.pfx env.sfx (markKey (isDRS body) k') ≠ v2Key c.pfx env.sfx (markKey (isDRS body) k) :=
    fun e => distinct_short_partial c.pfx env.sfx _ _ hk hk' (safeKey_markKey_ne hne) e.symm
  refine ⟨isolation_other_handler env c body patch0 ps k k' r hw hs hstore ?_ ?_,
    isolation_other_handler_purge env c body patch0 pp k k' hw hs hpurge ?_⟩
  · intro n hn1 n' hn2; rw [hnk] at hn1; rw [hnk'] at hn2; simp at hn1 hn2; subst hn1; subst hn2; exact hd
  · intro n' hn2; rw [hnk'] at hn2; simp at hn2; subst hn2
    exact v2Key_ne_marker_short hp env.sfx hk' hm
  · intro n hn1 n' hn2; rw [hnk] at hn1; rw [hnk'] at hn2; simp at hn1 hn2; subst hn1; subst hn2; exact hd

/-- **one name each, ids longer than 63 characters** (sharing any prefix), as long as their
    digests differ (`collision_witness`, F6b, is the other case) -/
theorem isolation_ids_long (env : Env) (c : AnnCfg) (hp : c.pfx ≠ [])
    (body patch0 ps pp : J) (k k' : Str) (r : Rec) (hw : wf patch0 = true) (hs : MarkStable patch0)
    (hone : c.v1 = false ∨ v1Fits c.pfx env.sfx = false)
    (hk : (markKey (isDRS body) k).length > 63) (hk' : (markKey (isDRS body) k').length > 63)
    (hl : (env.sfx (markKey (isDRS body) k)).length = (env.sfx (markKey (isDRS body) k')).length)
    (hl63 : (env.sfx (markKey (isDRS body) k)).length ≤ 63)
    (hne : env.sfx (markKey (isDRS body) k) ≠ env.sfx (markKey (isDRS body) k'))
    (hstore : annStore env c body patch0 k r = .ok ps) (hpurge : annPurge env c body patch0 k = .ok pp) :
    annFetch env c (mergePatch body ps) k' = annFetch env c (mergePatch body patch0) k' ∧
    annFetch env c (mergePatch body pp) k' = annFetch env c (mergePatch body patch0) k' := by
  have hn : ∀ x, annNames env c.pfx c.v1 body x = [v2Key c.pfx env.sfx (markKey (isDRS body) x)] :=
    fun x => makeKeys_single (by rcases hone with h | h; exact Or.inl h; exact Or.inr (Or.inl h))
  have hd : v2Key c.pfx env.sfx (markKey (isDRS body) k') ≠ v2Key c.pfx env.sfx (markKey (isDRS body) k) :=
    fun e => distinct_partial c.pfx env.sfx _ _ hk hk' hl hl63 hne e.symm
  refine ⟨isolation_other_handler env c body patch0 ps k k' r hw hs hstore ?_ ?_,
    isolation_other_handler_purge env c body patch0 pp k k' hw hs hpurge ?_⟩
  · intro n hn1 n' hn2; rw [hn] at hn1 hn2; simp at hn1 hn2; subst hn1; subst hn2; exact hd
  · intro n' hn2; rw [hn] at hn2; simp at hn2; subst hn2
    exact v2Key_ne_marker_long hp env.sfx hk' (by omega)
  · intro n hn1 n' hn2; rw [hn] at hn1 hn2; simp at hn1 hn2; subst hn1; subst hn2; exact hd

/-- **two names each (`v1=True` with room), both ids too long to be their own V1 names**: with
    different V2 names (safe forms differ, resp. digests differ) and different, equally long digests
    of the safe forms, the two handlers share no annotation at all — for every prefix. The V1 name
    of one can no longer be the V2 name of the other (F6f): their lengths differ. -/
theorem isolation_ids_v1_hashed (env : Env) (c : AnnCfg) (hp : c.pfx ≠ [])
    (body patch0 ps pp : J) (k k' : Str) (r : Rec) (hw : wf patch0 = true) (hs : MarkStable patch0)
    (hb : 63 < (pre c.pfx).length + (markKey (isDRS body) k).length)
    (hb' : 63 < (pre c.pfx).length + (markKey (isDRS body) k').length)
    (hroom : (pre c.pfx).length + (env.sfx (safeKey (markKey (isDRS body) k))).length < 63)
    (hsl : (env.sfx (safeKey (markKey (isDRS body) k))).length = (env.sfx (safeKey (markKey (isDRS body) k'))).length)
    (hsne : env.sfx (safeKey (markKey (isDRS body) k)) ≠ env.sfx (safeKey (markKey (isDRS body) k')))
    (hv2 : ((markKey (isDRS body) k).length ≤ 63 ∧ (markKey (isDRS body) k').length ≤ 63 ∧ safeKey k ≠ safeKey k') ∨
      ((markKey (isDRS body) k).length > 63 ∧ (markKey (isDRS body) k').length > 63 ∧
       (env.sfx (markKey (isDRS body) k)).length = (env.sfx (markKey (isDRS body) k')).length ∧
       (env.sfx (markKey (isDRS body) k)).length ≤ 63 ∧
       env.sfx (markKey (isDRS body) k) ≠ env.sfx (markKey (isDRS body) k')))
    (hmark : ∀ n' ∈ annNames env c.pfx c.v1 body k', n' ≠ markerName c.pfx)
    (hstore : annStore env c body patch0 k r = .ok ps) (hpurge : annPurge env c body patch0 k = .ok pp) :
    annFetch env c (mergePatch body ps) k' = annFetch env c (mergePatch body patch0) k' ∧
    annFetch env c (mergePatch body pp) k' = annFetch env c (mergePatch body patch0) k' := by
  have hdisj : ∀ n ∈ annNames env c.pfx c.v1 body k, ∀ n' ∈ annNames env c.pfx c.v1 body k', n' ≠ n := by
    rcases hv2 with ⟨h1, h2, h3⟩ | ⟨h1, h2, h3, h4, h5⟩
    · exact names_disjoint_hashed hp hb hb' hroom hsl hsne (by omega) (by omega)
        (distinct_short_partial c.pfx env.sfx _ _ h1 h2 (safeKey_markKey_ne h3)) c.v1
    · exact names_disjoint_hashed hp hb hb' hroom hsl hsne (fun _ => h4) (fun _ => by omega)
        (distinct_partial c.pfx env.sfx _ _ h1 h2 h3 h4 h5) c.v1
  exact ⟨isolation_other_handler env c body patch0 ps k k' r hw hs hstore hdisj hmark,
    isolation_other_handler_purge env c body patch0 pp k k' hw hs hpurge hdisj⟩

/-! ## Each hypothesis is necessary: witnesses (the open findings F6, F6b, F6d, F6e) -/

/-- **F6** `EdgeAlnum` is necessary: the id `fn/` (in the alphabet, any hash) gives
    `kopf.zalando.org/fn.`, which is not a valid annotation key. -/
theorem edge_witness (sfx : Str → Str) :
    validPrefix kz = true ∧ IdOk "fn/".toList ∧ ¬ EdgeAlnum (safeKey "fn/".toList) ∧
    v2Key kz sfx "fn/".toList = "kopf.zalando.org/fn.".toList ∧
    validQualified (v2Key kz sfx "fn/".toList) = false := by
  have e : v2Key kz sfx "fn/".toList = "kopf.zalando.org/fn.".toList := by
    simp [v2Key]; decide
  refine ⟨by decide, by decide, by decide, e, ?_⟩
  rw [e]; decide

/-- … and at the front (`<locals>.fn` → `_locals_.fn`), also on a marked (ReplicaSet) key. -/
theorem edge_witness_front (sfx : Str → Str) :
    IdOk "<locals>.fn".toList ∧
    validQualified (v2Key kz sfx (markKey true "<locals>.fn".toList)) = false := by
  have e : v2Key kz sfx (markKey true "<locals>.fn".toList) = "kopf.zalando.org/_locals_.fn-ofDRS".toList := by
    simp [v2Key, markKey, ofDRS]; decide
  refine ⟨by decide, ?_⟩
  rw [e]; decide

/-- `GoodSfx` is necessary: with a suffix ending in `.` a long, otherwise fine id gets an invalid name. -/
theorem sfx_witness :
    IdOk (xs 64) ∧ EdgeAlnum (safeKey (xs 64)) ∧ ¬ GoodSfx (constSfx "-ab." (xs 64)) ∧
    validQualified (v2Key kz (constSfx "-ab.") (xs 64)) = false := by
  decide

/-! ### Regressions of the repaired findings F6c / F6f (kopf e916847)

`make_v1_key` itself is unchanged: called with a prefix of 55+ characters its cut `63 - |prefix/| - 7`
is still zero or negative (a Python slice from the end). It is no longer *called* then. -/

/-- no V1 key without room: whenever prefix + `/` + suffix fill the 63 characters, `make_keys`
    yields the V2 name only — for every id, every hash, whatever the `v1` flag -/
theorem no_v1_key_without_room (p : Str) (v1 : Bool) (sfx : Str → Str) (k : Str)
    (h : 63 ≤ (pre p).length + (sfx []).length) : makeKeys p v1 sfx k = [v2Key p sfx k] :=
  makeKeys_single (Or.inr (Or.inl (by simp [v1Fits]; omega)))

/-- **F6c fixed**: the former witnesses. With the valid 55- and 60-character prefixes (and the real
    7-character suffix) there is no room, a 54-character prefix still has room; the id that used to
    get the V1 name `-AAAAAQ` now gets one, valid, name. -/
theorem v1_long_prefix_regression :
    validPrefix p55 = true ∧ v1Fits p55 (constSfx "-AAAAAQ") = false ∧
    validPrefix p60 = true ∧ v1Fits p60 (constSfx "-AAAAAQ") = false ∧
    v1Fits (List.replicate 54 'a') (constSfx "-AAAAAQ") = true ∧
    makeKeys p55 true (constSfx "-AAAAAQ") "create_fn/spec.field".toList
      = [p55 ++ "/create_fn.spec.field".toList] ∧
    validQualified (p55 ++ "/create_fn.spec.field".toList) = true ∧
    (makeKeys p60 true (constSfx "-AAAAAQ") (xs 100)).all (fun n => validQualified n) = true := by
  decide

set_option maxRecDepth 8192 in
/-- **F6f fixed**: the former witness. With a 63-character prefix the 64-character id `a/xx…` and its
    safe form `a.xx…` (a distinct id, with another digest) now have disjoint names. -/
theorem v1_negative_cut_regression :
    let sfx : Str → Str := fun s => if s = safeKey ("a/".toList ++ xs 62) then "-AAAAAQ".toList else "-BBBBBQ".toList
    makeKeys (List.replicate 63 'a') true sfx ("a/".toList ++ xs 62)
      = [v2Key (List.replicate 63 'a') sfx ("a/".toList ++ xs 62)] ∧
    makeKeys (List.replicate 63 'a') true sfx (safeKey ("a/".toList ++ xs 62))
      = [v2Key (List.replicate 63 'a') sfx (safeKey ("a/".toList ++ xs 62))] ∧
    v2Key (List.replicate 63 'a') sfx ("a/".toList ++ xs 62)
      ≠ v2Key (List.replicate 63 'a') sfx (safeKey ("a/".toList ++ xs 62)) := by
  decide

/-- **F6b** `sfx k ≠ sfx k'` in `distinct_partial` is necessary: whenever the suffixes of two long ids
    collide and the ids agree on the characters kept, the v2 names coincide … -/
theorem collision_witness (p : Str) (sfx : Str → Str) (k k' : Str) (hk : k.length > 63) (hk' : k'.length > 63)
    (hs : sfx k = sfx k')
    (ht : (safeKey k).take (63 - (sfx k).length) = (safeKey k').take (63 - (sfx k).length)) :
    v2Key p sfx k = v2Key p sfx k' := by
  rw [v2Key_eq, v2Key_eq, v2Name_long hk, v2Name_long hk', ← hs, ht]

/-- … and such pairs exist for any hash whose range is smaller than its domain (here: constant). -/
example : xs 64 ≠ xs 65 ∧ v2Key kz (constSfx "-AAAAAQ") (xs 64) = v2Key kz (constSfx "-AAAAAQ") (xs 65) := by
  decide

/-- **F6d** `safeKey k ≠ safeKey k'` in `distinct_short_partial` is necessary: ids with the same safe form
    (at most 63 characters) get the same names under every configuration and hash … -/
theorem safe_form_witness (p : Str) (v1 : Bool) (sfx : Str → Str) (k k' : Str)
    (hs : safeKey k = safeKey k') (hk : k.length ≤ 63) :
    makeKeys p v1 sfx k = makeKeys p v1 sfx k' := by
  have hk' : k'.length ≤ 63 := by
    rw [← safeKey_length k', ← hs, safeKey_length]; exact hk
  have e2 : v2Key p sfx k = v2Key p sfx k' := by
    rw [v2Key_eq, v2Key_eq, v2Name_short hk, v2Name_short hk', hs]
  have e1 : v1Key p sfx k = v1Key p sfx k' := by
    simp only [v1Key, hs]
  simp only [makeKeys, e1, e2]

/-- … e.g. the field handler `fn/spec.field` and the sub-handler path `fn/spec/field`. -/
example : "fn/spec.field".toList ≠ "fn/spec/field".toList ∧
    safeKey "fn/spec.field".toList = safeKey "fn/spec/field".toList := by decide

/-- **F6e** "both ids longer than 63" in `distinct_partial` is necessary: the 63-character id that spells
    the cut-and-hashed name of a longer id gets the same v2 name without any hash collision. -/
theorem forged_witness :
    xs 56 ++ "-AAAAAQ".toList ≠ xs 64 ∧ (xs 56 ++ "-AAAAAQ".toList).length = 63 ∧
    IdOk (xs 56 ++ "-AAAAAQ".toList) ∧
    v2Key kz (constSfx "-AAAAAQ") (xs 56 ++ "-AAAAAQ".toList) = v2Key kz (constSfx "-AAAAAQ") (xs 64) := by
  decide

/-- **F6e**, V1 variant: the mixed band is not provable either — the 46-character id that spells
    the cut-and-hashed V1 name of a 50-character id is its own V2 (and V1) name. -/
theorem forged_v1_witness :
    xs 39 ++ "-AAAAAQ".toList ≠ xs 50 ∧ IdOk (xs 39 ++ "-AAAAAQ".toList) ∧
    v1Key kz (constSfx "-AAAAAQ") (xs 50) ∈ makeKeys kz true (constSfx "-AAAAAQ") (xs 50) ∧
    makeKeys kz true (constSfx "-AAAAAQ") (xs 39 ++ "-AAAAAQ".toList) = [v1Key kz (constSfx "-AAAAAQ") (xs 50)] := by
  decide

/-! ## Non-vacuity (names) -/

example : validPrefix kz = true ∧ validPrefix c0.pfx = true := by decide
example : IdOk k0 ∧ EdgeAlnum (safeKey k0) ∧ GoodSfx (env0.sfx k0) := by decide
example : IdOk "Outer.<locals>.fn/sub/spec.field".toList ∧
    EdgeAlnum (safeKey "Outer.<locals>.fn/sub/spec.field".toList) := by decide
/-- `valid_name_v1_partial`: there is room under the default prefix, and the suffix has one length -/
example : v1Fits kz env0.sfx = true ∧ (env0.sfx (safeKey k0)).length ≤ (env0.sfx []).length := by decide
/-- `distinct_partial`: two long ids sharing a 64-character prefix, different (equal-length) suffixes -/
example : let sfx : Str → Str := fun k => if k.length = 64 then "-AAAAAQ".toList else "-BBBBBQ".toList
    (xs 64).length > 63 ∧ (xs 65).length > 63 ∧ (sfx (xs 64)).length = (sfx (xs 65)).length ∧ sfx (xs 64) ≠ sfx (xs 65) := by
  decide


/-- `isolation_ids_short` (first alternative of `hone`): `v1 = False`, a field handler and a sub-handler with different safe forms -/
def c1 : AnnCfg := ⟨kz, false, false, "touch-dummy".toList⟩
example : (markKey (isDRS body0) "fn/spec.a".toList).length ≤ 63 ∧ (markKey (isDRS body0) "fn/sub_b".toList).length ≤ 63 ∧
    safeKey "fn/spec.a".toList ≠ safeKey "fn/sub_b".toList ∧
    safeKey (markKey (isDRS body0) "fn/sub_b".toList) ≠ "kopf-managed".toList ∧ c1.pfx ≠ [] := by decide
example : (match annStore env0 c1 body0 (obj []) "fn/spec.a".toList r0, annPurge env0 c1 body0 (obj []) "fn/spec.a".toList with
    | .ok _, .ok _ => true | _, _ => false) = true := by decide

/-- `isolation_ids_v1_hashed`: default prefix, `v1=True`, two 50-character ids with different safe
    forms and (for a hash that tells them apart) different digests -/
example : let sfx : Str → Str := fun s => if s = xs 50 then "-AAAAAQ".toList else "-BBBBBQ".toList
    63 < (pre kz).length + (xs 50).length ∧ 63 < (pre kz).length + ("y".toList ++ xs 49).length ∧
    (pre kz).length + (sfx (safeKey (xs 50))).length < 63 ∧
    (sfx (safeKey (xs 50))).length = (sfx (safeKey ("y".toList ++ xs 49))).length ∧
    sfx (safeKey (xs 50)) ≠ sfx (safeKey ("y".toList ++ xs 49)) ∧
    safeKey (xs 50) ≠ safeKey ("y".toList ++ xs 49) ∧
    (makeKeys kz true sfx (xs 50)).length = 2 := by
  decide

end Kopf.C16
