/-
  C15 — property theorems only. Exactly the handlers whose declared criteria hold are selected;
  one function under one id is selected once; unmatched objects are left untouched.

  `DocSpec` is a declarative reading of docs/filters.rst, written independently of the model
  (`Kopf/Model/C15_Match.lean` mirrors the code; the harness has a third, Python reading).

  FULL STATEMENT (the property's clause), for all handlers and causes:
      theorem match_eq_doc (h : Handler V) (c : Cause V) : matchHandler h c = true ↔ DocSpec h c
  It is FALSE of the code in two ways, each proved below with a concrete witness (a third one,
  finding C15-F2 "field callbacks get the private token", was repaired by /repo 07968cf and is now the
  regression theorem `callback_none_regression`):
    * `doc_gap_old_only_witness` (finding C15-F1, the RESIDUAL after /repo bd6cd41): for a *non-update*
      changing handler (on.resume / on.delete / on.create) on a cause WITH a real old state the code
      tries `value=` on the old state as well; docs: "check the resource in its current ---and only---
      state". E.g. `on.resume(field, value=ABSENT)` holds for an object that HAS the field now but had
      not when it was last handled. The creation half of the finding (`old` is `None` ⇒ "absent", so
      `on.create(field, value=ABSENT)` held for every creation) is repaired by /repo bd6cd41:
      `create_absent_regression`, and -- for ALL handlers and causes without an old state --
      `creation_old_state_ignored` / `creation_value_current_only` (no guard) and
      `match_eq_doc_creation_partial` (token guard only).
    * `doc_gap_token_literal_witness`: the private token used as a criterion matches an absent field
      (an abuse of a private name, not a finding).
  `match_eq_doc_partial` proves the statement under the guards `OldOnlyFree h c` (exactly the F1
  residual: non-update handler, changing cause, `cause.old is not None`, the old state satisfies
  `value=` and the current one does not) and `TokenFree h c` (per handler AND cause: the private token
  is not used as a criterion against an absent state of the field; sufficient, not necessary);
  `match_eq_doc_update_partial` / `match_eq_doc_nonchanging_partial` / `match_eq_doc_creation_partial`
  show the first guard is void for update handlers, for watching/spawning/indexing causes and for causes
  without an old state (the second one stays: private-token abuse);
  `oldOnlyFree_of_unchanged` / `oldOnlyFree_of_noOld` are syntactic sufficient conditions.
  "Equals" (a literal criterion against a value) is Python's `==` on both sides (`PyVal.eq`): bool/int
  coercion can never show up as a doc gap there (the harness keeps it out of the judged set). "Changed"
  is equality as JSON VALUES (`PyVal.same`, kopf's `diffs._same`): since /repo 8d1358b the code decides
  it as the diff does (`fieldChanged`), under the law `PyLaw` (JSON equality refines `==`; for parsed
  JSON: `pyEq_of_jsame`) that is exactly `Affected` -- `field_changed_iff`; before the repair `1 -> true`
  was no change for `@on.field` / `@on.update(field=...)`: `field_changed_bool_regression`.
-/
import Kopf.Lemmas.C15_Match
import Kopf.Lemmas.C15_Cycle
import Kopf.Lemmas.C15_Rediscover
import Kopf.Model.C15_Selector
import Kopf.Lemmas.C15_Essence
namespace Kopf.C15

variable {V : Type} [PyVal V]

-- ---------------------------------------------------------------------------------------------
-- DocSpec: docs/filters.rst

/-- "Metadata filters": a specific value / `kopf.PRESENT` / `kopf.ABSENT` / a per-value callback
    ("The passed value will be None if the value is absent"). -/
def MetaHolds : MCrit → Option String → Prop
  | .value v, x => x = some v
  | .present, x => ∃ s, x = some s
  | .absent, x => x = none
  | .callback f, x => f x = true

/-- what the docs say a field callback is called with: the value, or `None` when absent -/
def docArg (x : Option V) : Option V := some (x.getD PyVal.null)

/-- "Field filters": the `value=` criterion on one state of the field. Not specifying `value=`
    "is equivalent to value=kopf.PRESENT". -/
def ValueHolds : VCrit V → Option V → Prop
  | .unset, x => ∃ v, x = some v
  | .present, x => ∃ v, x = some v
  | .absent, x => x = none
  | .callback f, x => f (docArg x) = true
  | .lit y, x => ∃ v w, y = some v ∧ x = some w ∧ PyVal.eq v w = true

/-- "Change filters": `old=` / `new=`; "If one of old= or new= is not specified (or set to None),
    that part is not checked". -/
def SideHolds : VCrit V → Option V → Prop
  | .unset, _ => True
  | .present, x => ∃ v, x = some v
  | .absent, x => x = none
  | .callback f, x => f (docArg x) = true
  | .lit y, x => ∃ v w, y = some v ∧ x = some w ∧ PyVal.eq v w = true

/-- `@kopf.on.update` / `@kopf.on.field` ("the update handlers") -/
def IsUpdate (h : Handler V) : Prop := h.changing = true ∧ h.fieldNeedsChange = true

/-- "a change means not only an actual change of the value, but also a change in whether the field
    is present or absent" -- the property's "the field actually changed": the two states of the field are
    not the same JSON value (`ressame`: a boolean is never a number; Python's `==` would equate
    `true` and `1`: before /repo 8d1358b the code did, `field_changed_bool_regression`) -/
def Affected (o n : Option V) : Prop := ressame o n = false

/-- the field-related rules for a handler with `field=p` -/
structure FieldSpec (h : Handler V) (c : Cause V) (p : List String) : Prop where
  /-- update handlers: the field is affected, and `value=` "applies to either the old or the new value" -/
  update : c.changing = true → IsUpdate h →
    Affected (c.old p) (c.new p) ∧ (ValueHolds h.value (c.old p) ∨ ValueHolds h.value (c.new p))
  /-- all other handlers "check the resource in its current ---and only--- state" -/
  other : ¬(c.changing = true ∧ IsUpdate h) →
    ValueHolds h.value (if c.changing = true then c.new p else c.body p)
  /-- `old=`/`new=` are checked separately -/
  sides : c.changing = true → h.changing = true →
    SideHolds h.old (c.old p) ∧ SideHolds h.new (c.new p)

/-- "Multiple criteria are joined with AND, i.e. they all must be satisfied." -/
structure DocSpec (h : Handler V) (c : Cause V) : Prop where
  selector : ∀ b, h.selector = some b → b = true
  subresource : h.subresourceOk = true
  labels : ∀ ls, h.labels = some ls → ∀ kc ∈ ls, MetaHolds kc.2 (c.labels kc.1)
  annotations : ∀ ls, h.annotations = some ls → ∀ kc ∈ ls, MetaHolds kc.2 (c.annotations kc.1)
  field : ∀ p, h.field = some p → p ≠ [] → FieldSpec h c p
  «when» : ∀ b, h.when = some b → b = true

-- the guards of the partial theorem
/-- criterion `crit` is consulted on the resolved value `x`: the code and the docs can differ only
    where the field is absent there and the criterion is the private absent marker itself (which then
    "equals" the absent field). Callbacks are no gap any more: they get `None` as documented. -/
def Readable (crit : VCrit V) (x : Option V) : Prop := x = none → crit ≠ .lit none

/-- per (handler, cause): every (criterion, state) pair that `match` consults is `Readable` -/
def TokenFree (h : Handler V) (c : Cause V) : Prop :=
  ∀ p, h.field = some p → p ≠ [] →
    (c.changing = true → Readable h.value (c.new p) ∧ Readable h.value (c.old p) ∧
      (h.changing = true → Readable h.old (c.old p) ∧ Readable h.new (c.new p))) ∧
    (c.changing = false → Readable h.value (c.body p))

/-- (sufficient for `TokenFree`, cause-independent) the private token is not used as a criterion -/
def NoTokenLit (h : Handler V) : Prop :=
  h.value ≠ .lit none ∧ h.old ≠ .lit none ∧ h.new ≠ .lit none

/-- for a non-update handler on a changing cause that HAS an old state (`cause.old is not None`),
    the old state does not satisfy `value=` unless the current one does. (Causes without an old state
    -- creations -- need no guard since /repo bd6cd41.) -/
def OldOnlyFree (h : Handler V) (c : Cause V) : Prop :=
  ∀ p, h.field = some p → p ≠ [] → c.changing = true → ¬IsUpdate h → c.noOld = false →
    ValueHolds h.value (c.old p) → ValueHolds h.value (c.new p)

-- ---------------------------------------------------------------------------------------------
-- metadata, for all label maps and all patterns (induction over the criteria list)

theorem matchesMetadata_iff (pattern : List (String × MCrit)) (content : String → Option String) :
    matchesMetadata pattern content = true ↔ ∀ kc ∈ pattern, MetaHolds kc.2 (content kc.1) := by
  induction pattern with
  | nil => simp [matchesMetadata]
  | cons kc rest ih =>
    have ih' : rest.all (fun kc => metaStep (metaAtoms kc.2 (content kc.1))) = true ↔
        ∀ kc ∈ rest, MetaHolds kc.2 (content kc.1) := ih
    simp only [matchesMetadata, List.all_cons, Bool.and_eq_true, List.mem_cons, forall_eq_or_imp, ih']
    have : metaStep (metaAtoms kc.2 (content kc.1)) = true ↔ MetaHolds kc.2 (content kc.1) := by
      rw [metaStep_true_iff]; cases kc.2 <;> rfl
    rw [this]

omit [PyVal V] in
theorem matchesLabels_iff (h : Handler V) (c : Cause V) :
    (matchesLabels h c = true ↔ ∀ ls, h.labels = some ls → ∀ kc ∈ ls, MetaHolds kc.2 (c.labels kc.1)) ∧
    (matchesAnnotations h c = true ↔
      ∀ ls, h.annotations = some ls → ∀ kc ∈ ls, MetaHolds kc.2 (c.annotations kc.1)) := by
  constructor
  · unfold matchesLabels
    cases hl : h.labels with
    | none => simp [guardCore, truthyPattern]
    | some ls =>
      cases ls with
      | nil => simp [guardCore, truthyPattern]
      | cons a l =>
        simp only [guardCore, truthyPattern, Bool.not_true, Bool.false_or, Option.getD_some,
          matchesMetadata_iff]
        constructor
        · intro H ls e; cases e; exact H
        · intro H; exact H _ rfl
  · unfold matchesAnnotations
    cases hl : h.annotations with
    | none => simp [guardCore, truthyPattern]
    | some ls =>
      cases ls with
      | nil => simp [guardCore, truthyPattern]
      | cons a l =>
        simp only [guardCore, truthyPattern, Bool.not_true, Bool.false_or, Option.getD_some,
          matchesMetadata_iff]
        constructor
        · intro H ls e; cases e; exact H
        · intro H; exact H _ rfl

-- ---------------------------------------------------------------------------------------------
-- bridging lemmas (not property statements): one field criterion, code vs. docs

theorem holdsCode_iff (crit : VCrit V) (x : Option V) (hR : Readable crit x) :
    holdsCode crit x = true ↔ ValueHolds crit x := by
  cases crit with
  | unset => cases x <;> simp [holdsCode, ValueHolds, VCrit.isUnset, VCrit.isPresent, VCrit.isAbsent,
      VCrit.isCallable, VCrit.call, VCrit.pyEq, reseq]
  | present => cases x <;> simp [holdsCode, ValueHolds, VCrit.isUnset, VCrit.isPresent, VCrit.isAbsent,
      VCrit.isCallable, VCrit.call, VCrit.pyEq]
  | absent => cases x <;> simp [holdsCode, ValueHolds, VCrit.isUnset, VCrit.isPresent, VCrit.isAbsent,
      VCrit.isCallable, VCrit.call, VCrit.pyEq]
  | callback f =>
    cases x with
    | none => simp [holdsCode, ValueHolds, VCrit.isUnset, VCrit.isPresent, VCrit.isAbsent,
        VCrit.isCallable, VCrit.call, VCrit.pyEq, docArg]
    | some v => simp [holdsCode, ValueHolds, VCrit.isUnset, VCrit.isPresent, VCrit.isAbsent,
        VCrit.isCallable, VCrit.call, VCrit.pyEq, docArg]
  | lit y =>
    cases y with
    | none =>
      cases x with
      | none => exact absurd rfl (hR rfl)
      | some w => simp [holdsCode, ValueHolds, VCrit.isUnset, VCrit.isPresent, VCrit.isAbsent,
          VCrit.isCallable, VCrit.call, VCrit.pyEq, reseq]
    | some v => cases x <;> simp [holdsCode, ValueHolds, VCrit.isUnset, VCrit.isPresent, VCrit.isAbsent,
        VCrit.isCallable, VCrit.call, VCrit.pyEq, reseq]

theorem sideCore_iff (crit : VCrit V) (x : Option V) (hR : Readable crit x) :
    sideCore (sideAtoms crit x) = true ↔ SideHolds crit x := by
  cases crit with
  | unset => simp [sideCore, sideAtoms, SideHolds, VCrit.isUnset]
  | present => cases x <;> simp [sideCore, sideAtoms, SideHolds, VCrit.isUnset, VCrit.isPresent,
      VCrit.isAbsent, VCrit.isCallable, VCrit.call, VCrit.pyEq]
  | absent => cases x <;> simp [sideCore, sideAtoms, SideHolds, VCrit.isUnset, VCrit.isPresent,
      VCrit.isAbsent, VCrit.isCallable, VCrit.call, VCrit.pyEq]
  | callback f =>
    cases x with
    | none => simp [sideCore, sideAtoms, SideHolds, VCrit.isUnset, VCrit.isPresent, VCrit.isAbsent,
        VCrit.isCallable, VCrit.call, VCrit.pyEq, docArg]
    | some v => simp [sideCore, sideAtoms, SideHolds, VCrit.isUnset, VCrit.isPresent, VCrit.isAbsent,
        VCrit.isCallable, VCrit.call, VCrit.pyEq, docArg]
  | lit y =>
    cases y with
    | none =>
      cases x with
      | none => exact absurd rfl (hR rfl)
      | some w => simp [sideCore, sideAtoms, SideHolds, VCrit.isUnset, VCrit.isPresent, VCrit.isAbsent,
          VCrit.isCallable, VCrit.call, VCrit.pyEq, reseq]
    | some v => cases x <;> simp [sideCore, sideAtoms, SideHolds, VCrit.isUnset, VCrit.isPresent,
        VCrit.isAbsent, VCrit.isCallable, VCrit.call, VCrit.pyEq, reseq]

omit [PyVal V] in
theorem matchesResource_iff (h : Handler V) :
    matchesResource h = true ↔ ∀ b, h.selector = some b → b = true := by
  unfold matchesResource resCore resAtoms
  cases h.selector <;> simp

omit [PyVal V] in
theorem matchesWhen_iff (h : Handler V) : matchesWhen h = true ↔ ∀ b, h.when = some b → b = true := by
  unfold matchesWhen whenCore whenAtoms
  cases h.when <;> simp

/-- the field part of `match`, code vs. docs, for a handler with a real field path -/
theorem field_part_iff [PyLaw V] (h : Handler V) (c : Cause V) (p : List String) (hf : h.field = some p)
    (hp : p ≠ []) (hR : TokenFree h c) (hOld : OldOnlyFree h c) :
    (matchesFieldValues h c = true ∧ matchesFieldChanges h c = true) ↔ FieldSpec h c p := by
  have hhas : hasField h = true := (hasField_true_iff h).2 ⟨p, hf, hp⟩
  have hpath : path h = p := path_of_field h p hf
  obtain ⟨hRc, hRn⟩ := hR p hf hp
  cases hc : c.changing with
  | false =>
    have vI := holdsCode_iff h.value (c.body p) (hRn hc)
    rw [fvCore_other h c hc]
    simp only [matchesFieldChanges, fcCore, hc, hhas, hpath, Bool.not_true, Bool.false_or, Bool.not_false,
      if_true, vI]
    constructor
    · intro hv
      exact ⟨fun hc' => by simp [hc] at hc', fun _ => by simpa [hc] using hv, fun hc' => by simp [hc] at hc'⟩
    · intro fs
      simpa [hc] using fs.other (by simp [hc])
  | true =>
    obtain ⟨rN, rO, rS⟩ := hRc hc
    have vN := holdsCode_iff h.value (c.new p) rN
    have vO := holdsCode_iff h.value (c.old p) rO
    have hval : matchesFieldValues h c = true ↔
        (ValueHolds h.value (c.new p) ∨
          (currentOnlyCore (curAtoms h c) = false ∧ ValueHolds h.value (c.old p))) := by
      rw [fvCore_changing h c hc]
      simp only [hhas, hpath, Bool.not_true, Bool.false_or, Bool.or_eq_true, Bool.and_eq_true,
        Bool.not_eq_true', vN, vO]
    rw [hval]
    by_cases hu : IsUpdate h
    · obtain ⟨h1, h2⟩ := hu
      have hcur : currentOnlyCore (curAtoms h c) = false := by
        simp [currentOnlyCore, curAtoms, needsChangeAttr, h1, h2]
      have oI := sideCore_iff h.old (c.old p) (rS h1).1
      have nI := sideCore_iff h.new (c.new p) (rS h1).2
      simp only [hcur, true_and, matchesFieldChanges, fcCore, changeCore, fieldChanged_eq, hc, hhas, hpath, h1, h2,
        Bool.not_true, if_false, Bool.false_or, Bool.and_eq_true, Bool.not_eq_true', oI, nI, Bool.false_eq_true]
      constructor
      · rintro ⟨hv, ⟨hch, ho⟩, hn⟩
        exact ⟨fun _ _ => ⟨hch, hv.symm⟩, fun hne => absurd ⟨hc, h1, h2⟩ hne, fun _ _ => ⟨ho, hn⟩⟩
      · intro fs
        obtain ⟨ha, hv⟩ := fs.update hc ⟨h1, h2⟩
        obtain ⟨ho, hn⟩ := fs.sides hc h1
        exact ⟨hv.symm, ⟨ha, ho⟩, hn⟩
    · have hnu : ¬(c.changing = true ∧ IsUpdate h) := fun x => hu x.2
      have hcur : currentOnlyCore (curAtoms h c) = c.noOld := by
        cases h1 : h.changing <;> cases h2 : h.fieldNeedsChange <;>
          simp [currentOnlyCore, curAtoms, needsChangeAttr, h1, h2]
        exact absurd ⟨h1, h2⟩ hu
      rw [hcur]
      cases h1 : h.changing with
      | false =>
        simp only [matchesFieldChanges, fcCore, h1, Bool.not_false, if_true, and_true]
        constructor
        · intro hv
          refine ⟨fun _ hu' => absurd hu' hu, fun _ => ?_, fun _ h1' => by simp [h1] at h1'⟩
          simp only [hc, if_true]
          rcases hv with hv | ⟨hno, hv⟩
          · exact hv
          · exact hOld p hf hp hc hu hno hv
        · intro fs
          exact Or.inl (by simpa [hc] using fs.other hnu)
      | true =>
        have h2 : h.fieldNeedsChange = false := by
          cases h2 : h.fieldNeedsChange with
          | false => rfl
          | true => exact absurd ⟨h1, h2⟩ hu
        have oI := sideCore_iff h.old (c.old p) (rS h1).1
        have nI := sideCore_iff h.new (c.new p) (rS h1).2
        simp only [matchesFieldChanges, fcCore, changeCore, hc, hhas, hpath, h1, h2, Bool.not_true, if_false,
          Bool.not_false, Bool.true_or, Bool.true_and, Bool.and_eq_true, oI, nI, Bool.false_eq_true]
        constructor
        · rintro ⟨hv, ho, hn⟩
          refine ⟨fun _ hu' => absurd hu' hu, fun _ => ?_, fun _ _ => ⟨ho, hn⟩⟩
          simp only [hc, if_true]
          rcases hv with hv | ⟨hno, hv⟩
          · exact hv
          · exact hOld p hf hp hc hu hno hv
        · intro fs
          obtain ⟨ho, hn⟩ := fs.sides hc h1
          exact ⟨Or.inl (by simpa [hc] using fs.other hnu), ho, hn⟩

-- ---------------------------------------------------------------------------------------------
-- THE PROPERTY THEOREMS

/-- match = the documented criteria, under the exact guards (see the header for the full statement
    and why it is false without them). -/
theorem match_eq_doc_partial [PyLaw V] (h : Handler V) (c : Cause V)
    (hR : TokenFree h c) (hOld : OldOnlyFree h c) :
    matchHandler h c = true ↔ DocSpec h c := by
  obtain ⟨lI, aI⟩ := matchesLabels_iff h c
  have core : matchHandler h c = true ↔
      (matchesResource h = true ∧ h.subresourceOk = true ∧ matchesLabels h c = true ∧
        matchesAnnotations h c = true ∧ (matchesFieldValues h c = true ∧ matchesFieldChanges h c = true) ∧
        matchesWhen h = true) := by
    simp only [matchHandler, matchCore, matchAtoms, Bool.and_eq_true]
    constructor
    · rintro ⟨⟨⟨⟨⟨⟨a, b⟩, c'⟩, d⟩, e⟩, f⟩, g⟩; exact ⟨a, b, c', d, ⟨e, f⟩, g⟩
    · rintro ⟨a, b, c', d, ⟨e, f⟩, g⟩; exact ⟨⟨⟨⟨⟨⟨a, b⟩, c'⟩, d⟩, e⟩, f⟩, g⟩
  rw [core, matchesResource_iff, lI, aI, matchesWhen_iff]
  constructor
  · rintro ⟨a, b, c', d, e, g⟩
    refine ⟨a, b, c', d, ?_, g⟩
    intro p hf hp
    exact (field_part_iff h c p hf hp hR hOld).1 e
  · intro ds
    refine ⟨ds.selector, ds.subresource, ds.labels, ds.annotations, ?_, ds.when⟩
    cases hh : hasField h with
    | true =>
      obtain ⟨p, hf, hp⟩ := (hasField_true_iff h).1 hh
      exact (field_part_iff h c p hf hp hR hOld).2 (ds.field p hf hp)
    | false =>
      constructor
      · simp [matchesFieldValues, fvCore, fvAtoms, hh]
      · simp only [matchesFieldChanges, fcCore, hh]
        cases h.changing <;> cases c.changing <;> simp

/-- for `@on.update` / `@on.field` handlers the first guard is void -/
theorem match_eq_doc_update_partial [PyLaw V] (h : Handler V) (c : Cause V) (hu : IsUpdate h)
    (hR : TokenFree h c) : matchHandler h c = true ↔ DocSpec h c :=
  match_eq_doc_partial h c hR (fun _ _ _ _ hnu => absurd hu hnu)

/-- for causes without an old state (`cause.old is None`: creations) the first guard is void
    (/repo bd6cd41): match = the documented criteria for EVERY handler kind; only the private-token
    guard stays -/
theorem match_eq_doc_creation_partial [PyLaw V] (h : Handler V) (c : Cause V) (hno : c.noOld = true)
    (hR : TokenFree h c) : matchHandler h c = true ↔ DocSpec h c :=
  match_eq_doc_partial h c hR (fun _ _ _ _ _ hno' => by simp [hno] at hno')

/-- for watching / spawning / indexing causes (the object's only state) the first guard is void -/
theorem match_eq_doc_nonchanging_partial [PyLaw V] (h : Handler V) (c : Cause V) (hc : c.changing = false)
    (hR : TokenFree h c) : matchHandler h c = true ↔ DocSpec h c :=
  match_eq_doc_partial h c hR (fun _ _ _ hc' => by simp [hc] at hc')

/-- the cause-independent sufficient condition for the token guard -/
theorem tokenFree_of_noTokenLit (h : Handler V) (c : Cause V) (hLit : NoTokenLit h) : TokenFree h c := by
  intro p _ _
  exact ⟨fun _ => ⟨fun _ => hLit.1, fun _ => hLit.1, fun _ => ⟨fun _ => hLit.2.1, fun _ => hLit.2.2⟩⟩,
    fun _ => fun _ => hLit.1⟩

/-- syntactic sufficient conditions for the old-state guard (finding C15-F1): the field is unchanged,
    or the cause has no old state (a creation) -/
theorem oldOnlyFree_of_unchanged (h : Handler V) (c : Cause V)
    (hsame : ∀ p, h.field = some p → c.old p = c.new p) : OldOnlyFree h c := by
  intro p hf _ _ _ _ hv; rw [← hsame p hf]; exact hv

theorem oldOnlyFree_of_noOld (h : Handler V) (c : Cause V) (hno : c.noOld = true) : OldOnlyFree h c := by
  intro p _ _ _ _ hno'; simp [hno] at hno'

/- THE CLAUSE "field/value criteria (current value; for updates old or new value)" ON CREATIONS, at
   full strength (the repaired half of finding C15-F1, /repo bd6cd41). -/

/-- FULL, no guard: on a cause without an old state the `value=` verdict of a non-update handler
    (on.create / on.resume / on.delete; also on.event-like ones) does not depend on what the
    non-existent old state "resolves" to -- the old side is not consulted at all -/
theorem creation_old_state_ignored (h : Handler V) (c : Cause V) (hc : c.changing = true)
    (hno : c.noOld = true) (hnu : ¬IsUpdate h) (o' : List String → Option V) :
    matchesFieldValues h { c with old := o' } = matchesFieldValues h c := by
  have hna : needsChangeAttr h = false := by
    cases h1 : h.changing <;> cases h2 : h.fieldNeedsChange <;> simp [needsChangeAttr, h1, h2]
    exact absurd ⟨h1, h2⟩ hnu
  rw [fvCore_creation h c hc hno hna, fvCore_creation h { c with old := o' } hc hno hna]

/-- FULL for every documented criterion (`hdoc` is a domain restriction, not a behavioural guard: the
    private absent marker cannot be written as `value=` through documented names): on a cause without
    an old state, the `value=` criterion of a non-update handler holds iff it holds on the CURRENT
    value. In particular `on.create(field, value=ABSENT)` holds iff the field is absent now. -/
theorem creation_value_current_only (h : Handler V) (c : Cause V) (hc : c.changing = true)
    (hno : c.noOld = true) (hnu : ¬IsUpdate h) (p : List String) (hf : h.field = some p) (hp : p ≠ [])
    (hdoc : h.value ≠ .lit none) :
    matchesFieldValues h c = true ↔ ValueHolds h.value (c.new p) := by
  have hna : needsChangeAttr h = false := by
    cases h1 : h.changing <;> cases h2 : h.fieldNeedsChange <;> simp [needsChangeAttr, h1, h2]
    exact absurd ⟨h1, h2⟩ hnu
  have hhas : hasField h = true := (hasField_true_iff h).2 ⟨p, hf, hp⟩
  rw [fvCore_creation h c hc hno hna, path_of_field h p hf, hhas]
  simpa using holdsCode_iff h.value (c.new p) (fun _ => hdoc)

/- THE CLAUSE 'old/new transition criteria together with "the field actually changed"' (/repo 8d1358b,
   finding C04-F12 seen from this property). -/

/-- FULL (no guard; `PyLaw`: JSON equality refines Python's `==`, proved for parsed JSON): the code's
    decision -- by identity with the absent marker on a side, else `bool(diffs.diff(old, new)) or old != new`
    -- is exactly "the two states of the field are not the same JSON value": a change of presence counts, a
    change between a boolean and the number Python equates with it counts (`1 -> true`), equal values in
    another key order do not. -/
theorem field_changed_iff [PyLaw V] (o n : Option V) : fieldChanged o n = true ↔ Affected o n := by
  rw [fieldChanged_eq]; simp [Affected]

/-- … so an `@on.update(field=…)` / `@on.field` handler without old=/new=/value= criteria on a changing
    cause passes the change gate iff its field actually changed -/
theorem field_handler_change_gate [PyLaw V] (h : Handler V) (c : Cause V) (p : List String)
    (hf : h.field = some p) (hp : p ≠ []) (hh : h.changing = true) (hc : c.changing = true)
    (hn : h.fieldNeedsChange = true) (ho : h.old = .unset) (hw : h.new = .unset) :
    matchesFieldChanges h c = true ↔ Affected (c.old p) (c.new p) := by
  have hhas : hasField h = true := (hasField_true_iff h).2 ⟨p, hf, hp⟩
  have hpath : path h = p := path_of_field h p hf
  simp [matchesFieldChanges, fcCore, changeCore, sideCore, sideAtoms, VCrit.isUnset, hh, hc, hn, ho, hw, hhas, hpath,
    field_changed_iff]

/-- nothing that was a change before the repair (Python's `!=`) stops being one -/
theorem field_changed_of_before (o n : Option V) (h : fieldChangedBefore o n = true) : fieldChanged o n = true :=
  fieldChanged_of_before o n h

/-- REGRESSION (C04-F12 / the state before /repo 8d1358b): `spec.f: 1 -> true`, `0 -> false`, `[1] -> [true]`,
    `{"k": 0} -> {"k": false}` ARE changes of the field (the diff says so: the cause is an update), but
    Python's `!=` does not see them: the handler of exactly the field that changed was never selected. The
    same values in another key order are no change, before and after. -/
theorem field_changed_bool_regression :
    (fieldChanged (some (J.num 1)) (some (J.bool true)) = true ∧
      fieldChangedBefore (some (J.num 1)) (some (J.bool true)) = false) ∧
    (fieldChanged (some (J.bool false)) (some (J.num 0)) = true ∧
      fieldChangedBefore (some (J.bool false)) (some (J.num 0)) = false) ∧
    (fieldChanged (some (J.arr [.num 1])) (some (J.arr [.bool true])) = true ∧
      fieldChangedBefore (some (J.arr [.num 1])) (some (J.arr [.bool true])) = false) ∧
    (fieldChanged (some (J.obj [("k", .num 0)])) (some (J.obj [("k", .bool false)])) = true ∧
      fieldChangedBefore (some (J.obj [("k", .num 0)])) (some (J.obj [("k", .bool false)])) = false) ∧
    (fieldChanged (some (J.obj [("a", .num 1), ("b", .num 2)])) (some (J.obj [("b", .num 2), ("a", .num 1)])) = false) ∧
    (fieldChanged (some (J.num 1)) (some (J.num 1)) = false ∧ fieldChanged (none : Option J) none = false ∧
      fieldChanged none (some (J.num 1)) = true ∧ fieldChanged (some J.null) none = true) := by decide

/-- match ⇒ prematch (prematch drops exactly the change-related conjunct) -/
theorem prematch_of_match (h : Handler V) (c : Cause V) (hm : matchHandler h c = true) :
    prematchHandler h c = true := by
  simp only [matchHandler, matchCore, Bool.and_eq_true] at hm
  simp only [prematchHandler, prematchCore, Bool.and_eq_true]
  obtain ⟨⟨⟨⟨⟨⟨a, b⟩, c'⟩, d⟩, e⟩, _⟩, g⟩ := hm
  exact ⟨⟨⟨⟨⟨a, b⟩, c'⟩, d⟩, e⟩, g⟩

-- ---- `_deduplicated` ------------------------------------------------------------------------------

omit [PyVal V] in
/-- no two results share (fn, id) -/
theorem dedup_nodup (l : List (Handler V)) : ((dedup l).map Handler.key).Nodup :=
  (dedupByAux_spec Handler.key l []).1

omit [PyVal V] in
/-- the set of (fn, id) is unchanged -/
theorem dedup_ids_same (l : List (Handler V)) (k : Nat × String) :
    k ∈ (dedup l).map Handler.key ↔ k ∈ l.map Handler.key := by
  have := (dedupByAux_spec Handler.key l []).2.1 k
  simpa [dedup, dedupBy] using this

omit [PyVal V] in
/-- order is preserved and nothing is invented -/
theorem dedup_sublist (l : List (Handler V)) : (dedup l).Sublist l :=
  (dedupByAux_spec Handler.key l []).2.2

omit [PyVal V] in
/-- the first registration of every (fn, id) is the one that is kept -/
theorem dedup_first_kept (pre post : List (Handler V)) (h : Handler V)
    (hfirst : ∀ g ∈ pre, g.key ≠ h.key) : h ∈ dedup (pre ++ h :: post) :=
  dedupByAux_first Handler.key _ [] pre post h rfl (by simp) hfirst

/-- the clause's key: the function itself (for a bound method: instance and function) and the id.
    Since /repo c47dbbf this IS the key of `_deduplicated` (`Handler.key`); before, the code keyed on the
    registered object and a bound method registered twice ran twice (finding C15-F7, now the regression
    theorem `bound_method_once_regression`). -/
def Handler.funcKey (h : Handler V) : Nat × String := (h.func, h.id)

omit [PyVal V] in
/-- "one FUNCTION registered twice under the same id is invoked once": no two results share
    (function, id) — unguarded -/
theorem dedup_function_once (l : List (Handler V)) : ((dedup l).map Handler.funcKey).Nodup :=
  dedup_nodup l

-- ---- get_handlers --------------------------------------------------------------------------------

/-- every selected handler is registered, not excluded, passes the cause-kind gate, and matches -/
theorem selected_sound (hs : List (Handler V)) (c : Cause V) (ex : List String) (h : Handler V) :
    (h ∈ getHandlersChanging hs c ex →
      h ∈ hs ∧ h.id ∉ ex ∧ gate h c = true ∧ matchHandler h c = true) ∧
    (h ∈ getHandlersPlain hs c ex → h ∈ hs ∧ h.id ∉ ex ∧ matchHandler h c = true) := by
  constructor
  · intro hm
    have := (dedup_sublist (iterChanging hs c ex)).subset hm
    simpa [iterChanging, selChanging, List.mem_filter, and_assoc] using this
  · intro hm
    have := (dedup_sublist (iterPlain hs c ex)).subset hm
    simpa [iterPlain, selPlain, selPlainCore, selAtoms, List.mem_filter, and_assoc] using this

/-- a (function, id) pair is selected iff some registration of it qualifies (modulo dedup) -/
theorem selected_iff (hs : List (Handler V)) (c : Cause V) (ex : List String) (k : Nat × String) :
    ((∃ h' ∈ getHandlersChanging hs c ex, h'.key = k) ↔
      ∃ h ∈ hs, h.key = k ∧ h.id ∉ ex ∧ gate h c = true ∧ matchHandler h c = true) ∧
    ((∃ h' ∈ getHandlersPlain hs c ex, h'.key = k) ↔
      ∃ h ∈ hs, h.key = k ∧ h.id ∉ ex ∧ matchHandler h c = true) := by
  constructor
  · have := dedup_ids_same (iterChanging hs c ex) k
    simp only [List.mem_map] at this
    rw [getHandlersChanging, this]
    simp only [iterChanging, selChanging, List.mem_filter, Bool.and_eq_true, Bool.not_eq_true',
      List.contains_eq_mem, decide_eq_false_iff_not]
    constructor
    · rintro ⟨a, ⟨h1, h2, h3, h4⟩, h5⟩; exact ⟨a, h1, h5, h2, h3, h4⟩
    · rintro ⟨a, h1, h5, h2, h3, h4⟩; exact ⟨a, ⟨h1, h2, h3, h4⟩, h5⟩
  · have := dedup_ids_same (iterPlain hs c ex) k
    simp only [List.mem_map] at this
    rw [getHandlersPlain, this]
    simp only [iterPlain, selPlain, selPlainCore, selAtoms, List.mem_filter, Bool.and_eq_true,
      Bool.not_eq_true', List.contains_eq_mem, decide_eq_false_iff_not]
    constructor
    · rintro ⟨a, ⟨h1, h2, h3⟩, h5⟩; exact ⟨a, h1, h5, h2, h3⟩
    · rintro ⟨a, h1, h5, h2, h3⟩; exact ⟨a, ⟨h1, h2, h3⟩, h5⟩

/-- one function registered several times under the same id is selected once -/
theorem selected_once (hs : List (Handler V)) (c : Cause V) (ex : List String) :
    ((getHandlersChanging hs c ex).map Handler.key).Nodup ∧
    ((getHandlersPlain hs c ex).map Handler.key).Nodup :=
  ⟨dedup_nodup _, dedup_nodup _⟩

-- ---- the cause-kind gate of the changing registry, spelled out (/repo 17e5c42) ---------------------
/- "The set of handlers invoked is exactly the set whose declared criteria all hold" -- for the
   changing registry the criteria are the cause kind (the gate) and the filters (`match`). /repo
   345a874 (the repair of "field handlers fire on deletion") had made the gate skip EVERY reason-less
   non-resuming handler on an object marked for deletion. Sub-handlers (`@kopf.subhandler`,
   `kopf.register`, `kopf.execute(fns=…)`) are reason-less and non-resuming too and are selected from
   their sub-registry by the same loop: the sub-handlers of `@kopf.on.delete` handlers (and of
   `@kopf.on.resume(deleted=True)` handlers on marked objects) were never selected -- finding C15-F8,
   repaired by /repo 17e5c42: only handlers with `field_needs_change` are skipped. `gate_iff` /
   `selected_on_deletion_iff` say who is skipped and who is selected on a marked object;
   `subhandler_gate` / `subhandler_selected_iff` / `subhandlers_selected_iff` are the unguarded
   statements for the sub-handler shape; `subhandler_deletion_regression` is the witness that the
   345a874 gate rejected what is selected now (replayed by corpus/C15/F8_*.json). -/

/-- `@kopf.on.field`: no reason of its own, not resuming, needs its field changed. (The sub-handlers
    of `@kopf.on.field` / `@kopf.on.update` inherit `field_needs_change` and have the same shape; their
    parents never run on an object marked for deletion.) -/
def IsFieldHandler (h : Handler V) : Prop :=
  h.kind.reason = none ∧ h.kind.initial = false ∧ h.fieldNeedsChange = true

/-- a sub-handler as `@kopf.subhandler` / `kopf.register` / `kopf.execute(fns=…)` build it:
    `reason=None`, `initial=None` (its `field_needs_change` is its parent's, or `None`) -/
def IsSubHandler (h : Handler V) : Prop := h.kind.reason = none ∧ h.kind.initial = false

omit [PyVal V] in
/-- the gate in words: the handler's reason (if any) is the cause's; a resuming handler needs an initial
    cause and, on a marked object, `deleted=True`; a field handler is skipped on a marked object --
    and NOTHING else is skipped -/
theorem gate_iff (h : Handler V) (c : Cause V) :
    gate h c = true ↔
      (∀ r, h.kind.reason = some r → r = c.kind.reason) ∧
      (h.kind.initial = true → c.kind.initial = true ∧ (c.kind.marked = true → h.kind.deletedOptIn = true)) ∧
      ¬(IsFieldHandler h ∧ c.kind.marked = true) := by
  unfold gate IsFieldHandler
  cases hr : h.kind.reason with
  | none =>
    cases hi : h.kind.initial <;> cases ci : c.kind.initial <;> cases cm : c.kind.marked <;>
      cases hd : h.kind.deletedOptIn <;> cases nc : h.fieldNeedsChange <;> simp
  | some r =>
    rw [show (∀ r', some r = some r' → r' = c.kind.reason) ↔ (some r == some c.kind.reason) = true by
      simp only [beq_iff_eq, Option.some.injEq, forall_eq']]
    cases (some r == some c.kind.reason) <;> cases hi : h.kind.initial <;> cases ci : c.kind.initial <;>
      cases cm : c.kind.marked <;> cases hd : h.kind.deletedOptIn <;> cases nc : h.fieldNeedsChange <;> simp

/-- ON AN OBJECT MARKED FOR DELETION a (function, id) pair is selected iff some registration of it is
    not excluded, is bound to no other reason than the cause's, is not a resuming handler outside an
    initial cause or without `deleted=True`, is NOT A FIELD HANDLER, and matches: resuming handlers
    without the opt-in and field handlers are skipped; every other handler whose criteria hold is
    selected -- reason-less sub-handlers included -/
theorem selected_on_deletion_iff (hs : List (Handler V)) (c : Cause V) (ex : List String) (k : Nat × String)
    (hmk : c.kind.marked = true) :
    (∃ h' ∈ getHandlersChanging hs c ex, h'.key = k) ↔
      ∃ h ∈ hs, h.key = k ∧ h.id ∉ ex ∧ (∀ r, h.kind.reason = some r → r = c.kind.reason) ∧
        (h.kind.initial = true → c.kind.initial = true ∧ h.kind.deletedOptIn = true) ∧
        ¬IsFieldHandler h ∧ matchHandler h c = true := by
  rw [(selected_iff hs c ex k).1]
  constructor
  · rintro ⟨h, hm, hk, hex, hg, hmt⟩
    obtain ⟨g1, g2, g3⟩ := (gate_iff h c).1 hg
    exact ⟨h, hm, hk, hex, g1, fun hi => ⟨(g2 hi).1, (g2 hi).2 hmk⟩, fun hf => g3 ⟨hf, hmk⟩, hmt⟩
  · rintro ⟨h, hm, hk, hex, g1, g2, g3, hmt⟩
    exact ⟨h, hm, hk, hex,
      (gate_iff h c).2 ⟨g1, fun hi => ⟨(g2 hi).1, fun _ => (g2 hi).2⟩, fun hf => g3 hf.1⟩, hmt⟩

omit [PyVal V] in
/-- UNGUARDED (the hypothesis is the shape): a sub-handler passes the gate on every cause, except
    that one carrying an update parent's `field_needs_change` is skipped on a marked object -/
theorem subhandler_gate (h : Handler V) (c : Cause V) (hsub : IsSubHandler h) :
    gate h c = !(h.fieldNeedsChange && c.kind.marked) := by
  obtain ⟨hr, hi⟩ := hsub
  simp [gate, hr, hi]

/-- UNGUARDED: a sub-handler of a creation / deletion / resuming handler, or one made by
    `kopf.execute(fns=…)` (`field_needs_change` falsy), is selected iff it is not excluded and its
    declared criteria hold (`match`) -- on EVERY cause, marked for deletion or not -/
theorem subhandler_selected_iff (h : Handler V) (c : Cause V) (ex : List String) (hsub : IsSubHandler h)
    (hnf : h.fieldNeedsChange = false) :
    selChanging c ex h = true ↔ h.id ∉ ex ∧ matchHandler h c = true := by
  simp [selChanging, subhandler_gate h c hsub, hnf]

/-- … and for a whole sub-registry (also with sub-handlers of update parents, on unmarked objects):
    exactly the sub-handlers whose declared criteria hold are selected, modulo dedup -/
theorem subhandlers_selected_iff (hs : List (Handler V)) (c : Cause V) (ex : List String)
    (hsub : ∀ h ∈ hs, IsSubHandler h ∧ (h.fieldNeedsChange = true → c.kind.marked = false))
    (k : Nat × String) :
    (∃ h' ∈ getHandlersChanging hs c ex, h'.key = k) ↔
      ∃ h ∈ hs, h.key = k ∧ h.id ∉ ex ∧ matchHandler h c = true := by
  rw [(selected_iff hs c ex k).1]
  have hg : ∀ h ∈ hs, gate h c = true := by
    intro h hm
    obtain ⟨s, f⟩ := hsub h hm
    rw [subhandler_gate h c s]
    cases hn : h.fieldNeedsChange
    · rfl
    · simp [f hn]
  constructor
  · rintro ⟨h, hm, hk, hex, _, hmt⟩; exact ⟨h, hm, hk, hex, hmt⟩
  · rintro ⟨h, hm, hk, hex, hmt⟩; exact ⟨h, hm, hk, hex, hg h hm, hmt⟩

/-- the gate as /repo 345a874 had it (before 17e5c42): EVERY reason-less non-resuming handler is
    skipped on a marked object. Kept only for the regression theorem below. -/
def gate345a874 (h : Handler V) (c : Cause V) : Bool :=
  (h.kind.reason == none || h.kind.reason == some c.kind.reason) &&
  !(h.kind.initial && !c.kind.initial) &&
  !(h.kind.initial && c.kind.marked && !h.kind.deletedOptIn) &&
  !(h.kind.reason == none && !h.kind.initial && c.kind.marked)

-- ---- stealth -------------------------------------------------------------------------------------
/- FULL STATEMENT of the clause "objects matched by no handler are left untouched: no annotations, no
   finalizer", over the model's cycle. Its `Effect` list enumerates what `process_resource_event` /
   `process_resource_causes` + `application.apply` can do to the object in one cycle: the re-sending of
   a transformation carried in from `memory.remaining_patch`, on.event invocations, daemon spawning, (in
   the variants with /repo 423b86f only) the purge of leftover progress records in the blind branch, the
   three `patch.fns.append` sites, `process_changing_cause`, and the sleep-and-touch for a non-empty `delays`:
       theorem stealth_full (nothing (pre)matches) : cycle r cs o stopped = []
   THE CODE AS IT IS (/repo ad4ec08, `Repairs.head`, = `cycle`): the operator is BLIND again to the objects
   it does not match -- 423b86f's purge of leftover progress records in the blind branch is reverted,
   because "its own" records were recognised by handler id and annotation prefix only, and one deployment
   of an operator purged the records another deployment had just written on an object of ITS share
   (finding C15-F9, fixed by ad4ec08; `stealth_purge_by_name_witness` is the regression theorem about the
   variant `Repairs.rework` that had the purge). The theorems about the head are proved for EVERY variant
   `v : Repairs` without the blind purge (`v.blindPurge = false`: the head, and the code before 423b86f);
   `stealth_exact_at` covers every variant, with or without it.
   `stealth_full` is FALSE of the code in three ways; `stealth_exact` says precisely what is done instead:
     * `stealth_blocked_witness`: the own finalizer is still on the object → it is removed (this is
       what the clause wants -- "no finalizer" --, a REMOVAL of an own mark: the code is right, no finding);
     * `stealth_carried_witness` (finding C15-F5, by design): a handler's transformation function of an
       earlier cycle, whose JSON-patch was rejected with HTTP 422, is re-sent although the object
       matches nothing any more (/repo 1c8f3dd keeps exactly the handlers' functions) -- if it still has
       something to change in the object: one that is fulfilled already sends no request
       (`carried_fulfilled_sends_nothing`). Replayed on the real code by corpus/C15/d17-carried-patch.json;
     * `stealth_touch_witness` (finding C15-F6): a daemon/timer that matched the object earlier is
       still exiting (`match_daemons` returns its polling delay): the cycle sleeps and then writes
       the `touch-dummy` annotation to an object that matches nothing and has no finalizer — and
       nothing ever removes it. Replayed by corpus/C15/F6.json (real daemons, consecutive events).
   Outside these three NOTHING is done (`stealth_total_partial`: the empty effect list -- no request, no
   call), whatever progress records lie on the object: the cycle does not even look at them
   (`stealth_records_ignored`, `blind_never_purges`: unguarded). The price, by decision: the record of a
   handler that was retrying when its object stopped matching STAYS on the object (finding C03-F2 is open
   again: `stealth_leftover_regression`) -- "no annotations" is not made true for such an object; the
   framework ADDS nothing to it.
   `Obj.lingering` / `Obj.carried` / `Obj.resumed` / `Obj.records` are residues of EARLIER cycles and inputs
   here (daemon life cycles are C09's, the carried patch C08's subject); what `process_changing_cause`
   leaves in the patch is C02's, so the touch is modelled for cycles without handling only. -/

/-- (about the variants WITH /repo 423b86f's blind purge; regression material since ad4ec08) which records
    that purge patched away: exactly the PRESENT ones that belong to a handler of this resource, or are
    named as sub-handler records (`subrefs`) by such a present record -- whoever wrote them (C15-F9) -/
theorem purgeIds_iff (hs : List (Handler V)) (records : List (String × List String)) (i : String) :
    i ∈ purgeIds hs records ↔
      i ∈ records.map (·.1) ∧
        (i ∈ ownedIds hs ∨ ∃ rec ∈ records, rec.1 ∈ ownedIds hs ∧ i ∈ rec.2) := by
  simp only [purgeIds, List.mem_filter, Bool.or_eq_true, List.contains_iff_mem, List.mem_flatMap]
  constructor
  · rintro ⟨hp, ho | ⟨rec, hr, hi⟩⟩
    · exact ⟨hp, Or.inl ho⟩
    · exact ⟨hp, Or.inr ⟨rec, hr.1, by simpa using hr.2, hi⟩⟩
  · rintro ⟨hp, ho | ⟨rec, hr, hown, hi⟩⟩
    · exact ⟨hp, Or.inl ho⟩
    · exact ⟨hp, Or.inr ⟨rec, ⟨hr, by simpa using hown⟩, hi⟩⟩

/-- only records that are ON the object were patched away (never an addition, never a blind `null`) -/
theorem purgeIds_present (hs : List (Handler V)) (records : List (String × List String)) :
    ∀ i ∈ purgeIds hs records, i ∈ records.map (·.1) :=
  fun i hi => ((purgeIds_iff hs records i).1 hi).1

/-- an object that carries no progress record (never handled, or handled to the end) -/
theorem purgeIds_nil (hs : List (Handler V)) : purgeIds hs [] = [] := rfl

/-- exactly what a cycle does to an object that no handler of any kind (pre)matches (NO guard; EVERY
    variant of the code: `blindPurged v …` is `[]` without the blind purge, `purgeIds …` with it) -/
theorem stealth_exact_at (v : Repairs)
    (r : Registry V) (cs : Causes V) (o : Obj) (stopped : List String)
    (hpre : prematchAny r.changing cs.changing = false)
    (hw : ∀ h ∈ r.watching, matchHandler h cs.watching = false)
    (hs : ∀ h ∈ r.spawning, matchHandler h cs.spawning = false) :
    cycleAt v r cs o stopped =
      (if o.carriedEff then [Effect.carried] else []) ++
      purgeEffect (blindPurged v r.changing o.records) ++
      (if o.blocked then [Effect.removeFinalizer] else []) ++
      (if !o.deletedEvent && o.ongoing && o.blocked && !(hasHandlers r.spawning && o.lingering)
        then [Effect.removeFinalizer] else []) ++
      (if !o.deletedEvent && (hasHandlers r.spawning && o.lingering) && !o.carriedEff &&
          (blindPurged v r.changing o.records).isEmpty && !o.blocked
        then [Effect.touch] else []) :=
  cycle_unmatched v r cs o stopped hpre hw hs

/-- … without the blind purge (the code as it is, and the code before 423b86f): NO purge term at all --
    the re-sent carried transformation (C15-F5), the removal of the own finalizer, the touch (C15-F6) -/
theorem stealth_exact_blind (v : Repairs) (hv : v.blindPurge = false)
    (r : Registry V) (cs : Causes V) (o : Obj) (stopped : List String)
    (hpre : prematchAny r.changing cs.changing = false)
    (hw : ∀ h ∈ r.watching, matchHandler h cs.watching = false)
    (hs : ∀ h ∈ r.spawning, matchHandler h cs.spawning = false) :
    cycleAt v r cs o stopped =
      (if o.carriedEff then [Effect.carried] else []) ++
      (if o.blocked then [Effect.removeFinalizer] else []) ++
      (if !o.deletedEvent && o.ongoing && o.blocked && !(hasHandlers r.spawning && o.lingering)
        then [Effect.removeFinalizer] else []) ++
      (if !o.deletedEvent && (hasHandlers r.spawning && o.lingering) && !o.carriedEff && !o.blocked
        then [Effect.touch] else []) := by
  rw [stealth_exact_at v r cs o stopped hpre hw hs]
  simp [blindPurged, hv, purgeEffect]

/-- … in particular the code the theorems are named after (/repo ad4ec08) -/
theorem stealth_exact (r : Registry V) (cs : Causes V) (o : Obj) (stopped : List String)
    (hpre : prematchAny r.changing cs.changing = false)
    (hw : ∀ h ∈ r.watching, matchHandler h cs.watching = false)
    (hs : ∀ h ∈ r.spawning, matchHandler h cs.spawning = false) :
    cycle r cs o stopped =
      (if o.carriedEff then [Effect.carried] else []) ++
      (if o.blocked then [Effect.removeFinalizer] else []) ++
      (if !o.deletedEvent && o.ongoing && o.blocked && !(hasHandlers r.spawning && o.lingering)
        then [Effect.removeFinalizer] else []) ++
      (if !o.deletedEvent && (hasHandlers r.spawning && o.lingering) && !o.carriedEff && !o.blocked
        then [Effect.touch] else []) :=
  stealth_exact_blind Repairs.head rfl r cs o stopped hpre hw hs

/-- UNGUARDED, for every registry, cause and object -- matched or not: without the blind purge the cycle
    itself never patches a progress record away (the purges of `process_changing_cause`, NOOP/FREE and the
    end of a handling, are inside `Effect.handle`: C02's/C03's) -/
theorem blind_never_purges (v : Repairs) (hv : v.blindPurge = false)
    (r : Registry V) (cs : Causes V) (o : Obj) (stopped : List String) (is : List String) :
    Effect.purge is ∉ cycleAt v r cs o stopped := by
  intro he
  have mem_opt : ∀ {c : Prop} [Decidable c] {x : Effect}, Effect.purge is ∈ (if c then [x] else []) → Effect.purge is = x := by
    intro c _ x h; split at h <;> simp_all
  simp only [cycleAt, cycleFull, finishCycle, hv, Bool.false_and, Bool.false_eq_true, if_false, purgeEffect,
    List.isEmpty_nil, if_true, List.append_nil, List.mem_append] at he
  rcases he with (((((h | h) | h) | (h | h)) | h) | (h | h)) <;> cases mem_opt h

/-- UNGUARDED: without the blind purge the cycle does not even LOOK at the progress records on the
    object outside the handling (`Obj.records` is read by nothing): records of this operator's handlers,
    of their sub-handlers, of another deployment with the same ids (C15-F9) -- all the same to it -/
theorem stealth_records_ignored (v : Repairs) (hv : v.blindPurge = false)
    (r : Registry V) (cs : Causes V) (o : Obj) (stopped : List String) (recs : List (String × List String)) :
    cycleAt v r cs { o with records := recs } stopped = cycleAt v r cs o stopped := by
  simp [cycleAt, cycleFull, finishCycle, hv, patchNonEmpty, Obj.carriedEff]

/-- THE CLAUSE in the lenient reading ("the framework puts nothing of its own on such an object; taking
    its own marks OFF is what makes 'no annotations, no finalizer' true"), for EVERY variant: to an object
    that nothing (pre)matches the cycle does nothing but REMOVALS -- unless a still-effective
    transformation is carried in (C15-F5, by design) or a daemon of an earlier matched period is still
    exiting (C15-F6) -/
theorem stealth_removals_only_partial (v : Repairs)
    (r : Registry V) (cs : Causes V) (o : Obj) (stopped : List String)
    (hpre : prematchAny r.changing cs.changing = false)
    (hw : ∀ h ∈ r.watching, matchHandler h cs.watching = false)
    (hs : ∀ h ∈ r.spawning, matchHandler h cs.spawning = false)
    (hcar : o.carriedEff = false) (hlin : o.lingering = false) :
    ∀ e ∈ cycleAt v r cs o stopped, e.isRemoval = true := by
  rw [stealth_exact_at v r cs o stopped hpre hw hs]
  intro e he
  simp only [hcar, hlin, Bool.and_false, Bool.false_and, Bool.false_eq_true, if_false, List.nil_append,
    List.append_nil, List.mem_append, purgeEffect] at he
  rcases he with (he | he) | he
  · split at he
    · simp at he
    · simp only [List.mem_singleton] at he; subst he; rfl
  · split at he
    · simp only [List.mem_singleton] at he; subst he; rfl
    · simp at he
  · split at he
    · simp only [List.mem_singleton] at he; subst he; rfl
    · simp at he

/-- … and without the blind purge the only removal there is: the own finalizer (present on the object) -/
theorem stealth_finalizer_only_partial (v : Repairs) (hv : v.blindPurge = false)
    (r : Registry V) (cs : Causes V) (o : Obj) (stopped : List String)
    (hpre : prematchAny r.changing cs.changing = false)
    (hw : ∀ h ∈ r.watching, matchHandler h cs.watching = false)
    (hs : ∀ h ∈ r.spawning, matchHandler h cs.spawning = false)
    (hcar : o.carriedEff = false) (hlin : o.lingering = false) :
    ∀ e ∈ cycleAt v r cs o stopped, e = Effect.removeFinalizer ∧ o.blocked = true := by
  rw [stealth_exact_blind v hv r cs o stopped hpre hw hs]
  intro e he
  simp only [hcar, hlin, Bool.and_false, Bool.false_and, Bool.false_eq_true, if_false, List.nil_append,
    List.append_nil, List.mem_append] at he
  rcases he with he | he
  · split at he
    · rename_i hb; simp only [List.mem_singleton] at he; exact ⟨he, hb⟩
    · simp at he
  · split at he
    · rename_i hb; simp only [List.mem_singleton] at he
      simp only [Bool.and_eq_true] at hb; exact ⟨he, hb.1.2⟩
    · simp at he

/-- THE CLAUSE PROPER, in its strongest form, under the exact guards -- own finalizer absent, nothing
    effective carried in, no daemon of an earlier matched period still exiting: the cycle does NOTHING to
    an object that nothing (pre)matches -- no request, no purge, no call -- whatever records lie on it -/
theorem stealth_total_partial (v : Repairs) (hv : v.blindPurge = false)
    (r : Registry V) (cs : Causes V) (o : Obj) (stopped : List String)
    (hpre : prematchAny r.changing cs.changing = false)
    (hw : ∀ h ∈ r.watching, matchHandler h cs.watching = false)
    (hs : ∀ h ∈ r.spawning, matchHandler h cs.spawning = false)
    (hfin : o.blocked = false) (hcar : o.carriedEff = false) (hlin : o.lingering = false) :
    cycleAt v r cs o stopped = [] := by
  rw [stealth_exact_blind v hv r cs o stopped hpre hw hs]; simp [hfin, hcar, hlin]

/-- a carried transformation that is fulfilled already (no operation on the object at hand) is no write
    to an object that nothing matches, in any variant: forgotten beforehand (/repo 608a57d) or kept in the
    patch and evaluated to nothing when patching (the rework) -- the cycle is the cycle without it -/
theorem carried_fulfilled_sends_nothing (v : Repairs)
    (r : Registry V) (cs : Causes V) (o : Obj) (stopped : List String)
    (hpre : prematchAny r.changing cs.changing = false)
    (hw : ∀ h ∈ r.watching, matchHandler h cs.watching = false)
    (hs : ∀ h ∈ r.spawning, matchHandler h cs.spawning = false)
    (h : o.carriedOps = false) :
    cycleAt v r cs o stopped = cycleAt v r cs { o with carried := false } stopped := by
  rw [stealth_exact_at v r cs o stopped hpre hw hs, stealth_exact_at v r cs _ stopped hpre hw hs]
  simp [Obj.carriedEff, h]

/-- weaker hypotheses (on.event handlers and finalizer-free spawning may match): no changing
    handler prematches, no finalizer-requiring daemon/timer matches, own finalizer absent, nothing
    effective carried in, nothing lingering ⇒ the cycle queues NO write of its own (no finalizer change, no
    handling: hence no progress / diff-base annotations; no purge, no re-sent transformation, no touch) -/
theorem stealth_partial (v : Repairs) (hv : v.blindPurge = false)
    (r : Registry V) (cs : Causes V) (o : Obj) (stopped : List String)
    (hpre : prematchAny r.changing cs.changing = false)
    (hsp : requiresFinalizerSpawning r.spawning cs.spawning stopped = false)
    (hfin : o.blocked = false) (hcar : o.carriedEff = false) (hlin : o.lingering = false) :
    ∀ e ∈ cycleAt v r cs o stopped, e.isFrameworkWrite = false := by
  intro e he
  have mem_opt : ∀ {c : Prop} [Decidable c] {x : Effect}, e ∈ (if c then [x] else []) → c ∧ e = x := by
    intro c _ x h; split at h <;> simp_all
  simp only [cycleAt, cycleFull, finishCycle, hv, Bool.false_and, Bool.false_eq_true, if_false, purgeEffect,
    List.isEmpty_nil, if_true, List.append_nil, List.mem_append] at he
  rcases he with (((((h | h) | h) | (h | h)) | h) | (h | h))
  · obtain ⟨hc, _⟩ := mem_opt h; simp [hcar] at hc
  · obtain ⟨_, rfl⟩ := mem_opt h; rfl
  · obtain ⟨_, rfl⟩ := mem_opt h; rfl
  · obtain ⟨hc, _⟩ := mem_opt h
    simp [addingCore, mustBlockCore, blindCore, hpre, hsp] at hc
  · obtain ⟨hc, _⟩ := mem_opt h
    simp [removingCore, hfin] at hc
  · obtain ⟨hc, _⟩ := mem_opt h
    simp [addingCore, removingCore, mustBlockCore, blindCore, hpre, hsp, hfin] at hc
  · obtain ⟨hc, _⟩ := mem_opt h
    simp [releaseCore, hfin] at hc
  · obtain ⟨hc, _⟩ := mem_opt h
    simp [touchCore, earlyExitCore, waitingCore, addingCore, removingCore, mustBlockCore, blindCore, hpre, hsp, hfin,
      hlin] at hc

/-- the end of a cycle does not look at the deadline when the early exit implies that a request which
    changes the object is due, or when it returns a delay anyway -/
theorem finishCycle_deadline (v : Repairs) (o : Obj) (hasS patched₀ nonEmpty early handled : Bool)
    (h : early = true → patched₀ = true ∨ (v.exitCarried = true ∧ nonEmpty = true)) :
    (finishCycle v { o with timed := true } hasS patched₀ nonEmpty early handled).1 =
      (finishCycle v { o with timed := false } hasS patched₀ nonEmpty early handled).1 := by
  rcases o with ⟨d, g, b, c, co, l, hd, res, recs, t⟩
  cases early
  · simp [finishCycle]
  · rcases h rfl with hp | ⟨h1, h2⟩
    · subst hp; simp [finishCycle, touchCore]
    · subst h2; simp [finishCycle, waitingCore, h1]

/-- /repo 30557a0 as far as this property can see it (the rework of 608a57d): a deadline
    (`consistency_time`) that is over changes nothing in what a cycle does to the object, compared with
    pre-proven consistency -- the early exit is taken only with a carried patch, and then it comes back
    at once with or without a deadline -/
theorem deadline_writes_nothing (r : Registry V) (cs : Causes V) (o : Obj) (stopped : List String) :
    cycle r cs { o with timed := true } stopped = cycle r cs { o with timed := false } stopped := by
  simp only [cycle, cycleAt, cycleFull, patchNonEmpty, Obj.carriedEff]
  congr 1
  apply finishCycle_deadline
  intro h
  simp only [earlyExitCore, Bool.true_and, Bool.not_not, Bool.and_eq_true] at h
  exact Or.inr ⟨rfl, by simpa using h.2⟩

-- ---------------------------------------------------------------------------------------------
-- the resource selector (docs/resources.rst), after the positional notation has been parsed
/- FULL STATEMENT: theorem selector_check_iff (s r) : s.check r = true ↔ SelectorDoc s r.
   FALSE in one way: `kopf.EVERYTHING` and callable selectors also skip the (preferred-version)
   events of the API group `events.k8s.io`, while the docs exclude "core v1 events" only
   (`selector_gap_events_k8s_witness`, finding C15-F4, low severity: the newer events API carries
   the same implicitly produced events, so the exclusion is deliberate but undocumented). -/

/-- "it can be any name: plural, singular, kind, or a short name" -/
def NamedAs (r : Resource) (n : String) : Prop :=
  r.kind = some n ∨ r.plural = n ∨ r.singular = some n ∨ n ∈ r.shortcuts

/-- "Core v1 events" -/
def CoreV1Events (r : Resource) : Prop := r.group = "" ∧ r.version = "v1" ∧ NamedAs r "events"

/-- docs/resources.rst: by-name, keyword, by-category, catch-all and callable selectors -/
structure SelectorDoc (s : Selector) (r : Resource) : Prop where
  group : ∀ g, s.group = some g → r.group = g
  version : ∀ v, s.version = some v → r.version = v
  /-- "the preferred API version of that API group is used … This does not apply to callable selectors" -/
  preferred : s.version = none → s.fn = none → r.preferred = true
  kind : ∀ n, s.kind = some n → r.kind = some n
  plural : ∀ n, s.plural = some n → r.plural = n
  singular : ∀ n, s.singular = some n → r.singular = some n
  shortcut : ∀ n, s.shortcut = some n → n ∈ r.shortcuts
  category : ∀ n, s.category = some n → n ∈ r.categories
  name : ∀ n, s.anyName = some (.name n) → NamedAs r n
  /-- "Core v1 events are excluded from EVERYTHING and from callable selectors" -/
  everything : s.anyName = some .everything → ¬CoreV1Events r
  callable : ∀ f, s.fn = some f → f r = true ∧ ¬CoreV1Events r

/-- the code's conjunction, conjunct by conjunct, in declarative form (bridging lemma) -/
theorem checkWith_iff (s : Selector) (r : Resource) (ev evk : Bool) :
    s.checkWith ev evk r = true ↔
      (∀ g, s.group = some g → r.group = g) ∧
      ((∀ v, s.version = some v → r.version = v) ∧ (s.version = none → s.fn = none → r.preferred = true)) ∧
      (∀ n, s.kind = some n → r.kind = some n) ∧ (∀ n, s.plural = some n → r.plural = n) ∧
      (∀ n, s.singular = some n → r.singular = some n) ∧ (∀ n, s.category = some n → n ∈ r.categories) ∧
      (∀ n, s.shortcut = some n → n ∈ r.shortcuts) ∧
      ((∀ n, s.anyName = some (.name n) → NamedAs r n) ∧
        (s.anyName = some .everything → ev = false ∧ evk = false)) ∧
      (∀ f, s.fn = some f → f r = true ∧ ev = false ∧ evk = false) := by
  have hany : anyCore
        { anyNone := s.anyName.isNone
          eqKind := (optEqOpt (match s.anyName with | some (.name n) => some n | _ => none) r.kind).holds
          eqPlural := (optEq (match s.anyName with | some (.name n) => some n | _ => none) r.plural).holds
          eqSingular := (optEqOpt (match s.anyName with | some (.name n) => some n | _ => none) r.singular).holds
          inShortcuts := (optIn (match s.anyName with | some (.name n) => some n | _ => none) r.shortcuts).holds
          isEverything := match s.anyName with | some .everything => true | _ => false
          events := ev, eventsK8s := evk } = true ↔
      ((∀ n, s.anyName = some (.name n) → NamedAs r n) ∧
        (s.anyName = some .everything → ev = false ∧ evk = false)) := by
    cases han : s.anyName with
    | none => simp [anyCore]
    | some a =>
      cases a with
      | name n =>
        have := named_iff n r.kind r.singular r.plural r.shortcuts
        simp only [anyCore, Option.isNone_some, Bool.false_or, Bool.false_and, Bool.or_false, this,
          Option.some.injEq, AnyName.name.injEq, forall_eq', reduceCtorEq, false_implies, and_true, NamedAs]
      | everything =>
        simp [anyCore, optEqOpt, optEq, optIn]
  have hfn : fnCore { fnNone := s.fn.isNone, result := match s.fn with | some f => f r | none => false,
                      events := ev, eventsK8s := evk } = true ↔
      (∀ f, s.fn = some f → f r = true ∧ ev = false ∧ evk = false) := by
    cases s.fn <;> simp [fnCore, and_assoc]
  have hver := version_iff s.version r.version r.preferred s.fn.isNone
  simp only [Option.isNone_iff_eq_none] at hver
  simp only [Selector.checkWith, checkCore, Bool.and_eq_true, optEq_iff, optEqOpt_iff, optIn_iff]
  constructor
  · rintro ⟨⟨⟨⟨⟨⟨⟨⟨h1, h2⟩, h3⟩, h4⟩, h5⟩, h6⟩, h7⟩, h8⟩, h9⟩
    exact ⟨h1, hver.1 h2, h3, h4, h5, h6, h7, hany.1 h8, hfn.1 h9⟩
  · rintro ⟨h1, h2, h3, h4, h5, h6, h7, h8, h9⟩
    exact ⟨⟨⟨⟨⟨⟨⟨⟨h1, hver.2 h2⟩, h3⟩, h4⟩, h5⟩, h6⟩, h7⟩, hany.2 h8⟩, hfn.2 h9⟩

theorem isEvents_iff (r : Resource) : isEvents r = true ↔ CoreV1Events r := by
  rw [isEvents, checkWith_iff]
  constructor
  · rintro ⟨h1, ⟨h2, _⟩, _, _, _, _, _, ⟨h8, _⟩, _⟩
    exact ⟨h1 "" rfl, h2 "v1" rfl, h8 "events" rfl⟩
  · rintro ⟨g, v, n⟩
    refine ⟨fun x e => by cases e; exact g, ⟨fun x e => by cases e; exact v, fun e => by cases e⟩,
      (fun x e => by cases e), (fun x e => by cases e), (fun x e => by cases e), (fun x e => by cases e),
      (fun x e => by cases e), ⟨fun x e => by cases e; exact n, fun e => by cases e⟩, fun f e => by cases e⟩

/-- the selector criterion = the documented one, except for the undocumented `events.k8s.io` exclusion -/
theorem selector_check_iff_partial (s : Selector) (r : Resource)
    (hk8s : isEventsK8s r = true → s.anyName ≠ some .everything ∧ s.fn = none) :
    s.check r = true ↔ SelectorDoc s r := by
  have hev := isEvents_iff r
  rw [Selector.check, checkWith_iff]
  constructor
  · rintro ⟨h1, ⟨h2, h2'⟩, h3, h4, h5, h6, h7, ⟨h8, h8'⟩, h9⟩
    refine ⟨h1, h2, h2', h3, h4, h5, h7, h6, h8, ?_, ?_⟩
    · intro e hc; rw [← hev] at hc; simp [hc] at h8' ; exact h8' e
    · intro f e
      obtain ⟨a, b, _⟩ := h9 f e
      exact ⟨a, fun hc => by rw [← hev] at hc; simp [hc] at b⟩
  · intro d
    have nev : (s.anyName = some .everything ∨ s.fn ≠ none) → isEvents r = false ∧ isEventsK8s r = false := by
      intro hx
      constructor
      · cases h : isEvents r with
        | false => rfl
        | true =>
          rcases hx with e | e
          · exact absurd (hev.1 h) (d.everything e)
          · cases hf : s.fn with
            | none => exact absurd hf e
            | some f => exact absurd (hev.1 h) (d.callable f hf).2
      · cases h : isEventsK8s r with
        | false => rfl
        | true =>
          obtain ⟨n1, n2⟩ := hk8s h
          rcases hx with e | e
          · exact absurd e n1
          · exact absurd n2 e
    refine ⟨d.group, ⟨d.version, d.preferred⟩, d.kind, d.plural, d.singular, d.category, d.shortcut,
      ⟨d.name, fun e => nev (Or.inl e)⟩, ?_⟩
    intro f e
    obtain ⟨e1, e2⟩ := nev (Or.inr (by simp [e]))
    exact ⟨(d.callable f e).1, e1, e2⟩

/-- by-name, keyword and by-category selectors (no catch-all marker, no callable): no guard at all -/
theorem selector_check_iff_named (s : Selector) (r : Resource)
    (hn : s.anyName ≠ some .everything) (hf : s.fn = none) : s.check r = true ↔ SelectorDoc s r :=
  selector_check_iff_partial s r (fun _ => ⟨hn, hf⟩)

omit [PyVal V] in
/-- the handler-level criterion: `_matches_resource` is "no selector (sub-handler) or the documented
    selector holds" — this is what the opaque `Handler.selector : Option Bool` of `match` stands for -/
theorem resource_criterion_doc_partial (h : Handler V) (sel : Option Selector) (r : Resource)
    (hsel : h.selector = sel.map (·.check r))
    (hk8s : ∀ s, sel = some s → isEventsK8s r = true → s.anyName ≠ some .everything ∧ s.fn = none) :
    matchesResource h = true ↔ ∀ s, sel = some s → SelectorDoc s r := by
  rw [matchesResource_iff, hsel]
  cases sel with
  | none => simp
  | some s =>
    simp only [Option.map_some, Option.some.injEq, forall_eq']
    rw [← selector_check_iff_partial s r (hk8s s rfl)]

-- ---------------------------------------------------------------------------------------------
-- THE WHOLE CYCLE: "for every event the set of handlers invoked is exactly the set whose declared
-- criteria all hold", on the model of process_resource_event (every variant, every object state: marked,
-- blocked, DELETED events, carried patches, leftover records): what the cycle does for on.event
-- handlers, for daemons/timers and -- when it handles -- for change handlers, by handler id.

/-- the handler ids the cycle invokes on.event handlers for -/
def watchedIds : List Effect → List String
  | [] => []
  | .invokeWatching is :: rest => is ++ watchedIds rest
  | _ :: rest => watchedIds rest

/-- the handler ids the cycle hands to the spawner -/
def spawnedIds : List Effect → List String
  | [] => []
  | .spawn is :: rest => is ++ spawnedIds rest
  | _ :: rest => spawnedIds rest

theorem watchedIds_append (a b : List Effect) : watchedIds (a ++ b) = watchedIds a ++ watchedIds b := by
  induction a with
  | nil => rfl
  | cons e rest ih => cases e <;> simp [watchedIds, ih, List.append_assoc]

theorem spawnedIds_append (a b : List Effect) : spawnedIds (a ++ b) = spawnedIds a ++ spawnedIds b := by
  induction a with
  | nil => rfl
  | cons e rest ih => cases e <;> simp [spawnedIds, ih, List.append_assoc]

/-- no handler of the registry is for this resource ⇒ nothing is selected from it -/
theorem getHandlersPlain_nil_of_not_hasHandlers (hs : List (Handler V)) (c : Cause V) (ex : List String)
    (h : hasHandlers hs = false) : getHandlersPlain hs c ex = [] := by
  have : iterPlain hs c ex = [] := by
    simp only [iterPlain, List.filter_eq_nil_iff]
    intro x hx
    simp only [hasHandlers, List.any_eq_false] at h
    have hr := h x hx
    simp only [selPlain, selPlainCore, selAtoms, matchHandler, matchCore, matchAtoms, Bool.and_eq_true, not_and]
    intro _ hm
    simp_all
  simp [getHandlersPlain, this, dedup, dedupBy, dedupByAux]

/-- id-level reading of `get_handlers` of a watching / spawning registry -/
theorem mem_ids_getHandlersPlain (hs : List (Handler V)) (c : Cause V) (ex : List String) (i : String) :
    i ∈ ids (getHandlersPlain hs c ex) ↔ ∃ h ∈ hs, h.id = i ∧ h.id ∉ ex ∧ matchHandler h c = true := by
  simp only [ids, List.mem_map]
  constructor
  · rintro ⟨h', hm, rfl⟩
    obtain ⟨h1, h2, h3⟩ := (selected_sound hs c ex h').2 hm
    exact ⟨h', h1, rfl, h2, h3⟩
  · rintro ⟨h, h1, rfl, h2, h3⟩
    obtain ⟨h', hm, hk⟩ := ((selected_iff hs c ex h.key).2).2 ⟨h, h1, rfl, h2, h3⟩
    refine ⟨h', hm, ?_⟩
    simpa [Handler.key] using congrArg Prod.snd hk

theorem watchedIds_ite (p : Prop) [Decidable p] (a b : List Effect) :
    watchedIds (if p then a else b) = if p then watchedIds a else watchedIds b := by split <;> rfl

theorem spawnedIds_ite (p : Prop) [Decidable p] (a b : List Effect) :
    spawnedIds (if p then a else b) = if p then spawnedIds a else spawnedIds b := by split <;> rfl

theorem ite_nonempty_self {α : Type} (l : List α) : (if (!l.isEmpty) = true then l else []) = l := by
  cases l <;> simp

/-- FULL (every variant of the code, every object state, every event type): the on.event handlers the
    cycle invokes are exactly the selected ones … -/
theorem cycle_watch_exact (v : Repairs) (r : Registry V) (cs : Causes V) (o : Obj) (stopped : List String) :
    watchedIds (cycleAt v r cs o stopped) = ids (getHandlersPlain r.watching cs.watching []) := by
  cases hW : hasHandlers r.watching with
  | false =>
    simp only [cycleAt, cycleFull, finishCycle, purgeEffect, hW, Bool.false_and, watchedIds_append, watchedIds_ite,
      watchedIds, List.append_nil, List.nil_append, ite_self, Bool.false_eq_true, if_false]
    simp [getHandlersPlain_nil_of_not_hasHandlers _ _ _ hW, ids]
  | true =>
    simp only [cycleAt, cycleFull, finishCycle, purgeEffect, hW, Bool.true_and, watchedIds_append, watchedIds_ite,
      watchedIds, List.append_nil, List.nil_append, ite_self, ite_nonempty_self]

/-- … i.e., by id: a handler id is invoked iff one of its registrations matches (all of `match`: resource
    selector, labels, annotations, field/value, `when`) -/
theorem cycle_watch_iff (v : Repairs) (r : Registry V) (cs : Causes V) (o : Obj) (stopped : List String)
    (i : String) :
    i ∈ watchedIds (cycleAt v r cs o stopped) ↔ ∃ h ∈ r.watching, h.id = i ∧ matchHandler h cs.watching = true := by
  rw [cycle_watch_exact, mem_ids_getHandlersPlain]; simp

/-- FULL: the daemons/timers handed to the spawner are exactly the selected ones that are not stopped for
    good -- none at all for an object in deletion -/
theorem cycle_spawn_exact (v : Repairs) (r : Registry V) (cs : Causes V) (o : Obj) (stopped : List String) :
    spawnedIds (cycleAt v r cs o stopped) =
      if o.ongoing then [] else ids (getHandlersPlain r.spawning cs.spawning stopped) := by
  cases hS : hasHandlers r.spawning with
  | false =>
    simp only [cycleAt, cycleFull, finishCycle, purgeEffect, hS, Bool.false_and, spawnedIds_append, spawnedIds_ite,
      spawnedIds, List.append_nil, List.nil_append, ite_self, Bool.false_eq_true, if_false]
    simp [getHandlersPlain_nil_of_not_hasHandlers _ _ _ hS, ids]
  | true =>
    cases hO : o.ongoing <;>
    simp only [cycleAt, cycleFull, finishCycle, purgeEffect, hS, hO, Bool.true_and, Bool.not_true, Bool.not_false,
      Bool.false_and, spawnedIds_append, spawnedIds_ite, spawnedIds, List.append_nil, List.nil_append, ite_self,
      ite_nonempty_self, Bool.false_eq_true, if_false, if_true]

theorem cycle_spawn_iff (v : Repairs) (r : Registry V) (cs : Causes V) (o : Obj) (stopped : List String)
    (i : String) :
    i ∈ spawnedIds (cycleAt v r cs o stopped) ↔
      o.ongoing = false ∧ ∃ h ∈ r.spawning, h.id = i ∧ h.id ∉ stopped ∧ matchHandler h cs.spawning = true := by
  rw [cycle_spawn_exact]
  cases o.ongoing <;> simp [mem_ids_getHandlersPlain]

theorem mem_ite_single {α : Type} (p : Prop) [Decidable p] (e x : α) :
    e ∈ (if p then [x] else []) ↔ p ∧ e = x := by
  split <;> simp [*]

theorem mem_ite_single' {α : Type} (p : Prop) [Decidable p] (e x : α) :
    e ∈ (if p then [] else [x]) ↔ ¬p ∧ e = x := by
  split <;> simp [*]

/-- FULL: when the cycle handles, the change handlers it passes to the handling are exactly
    `cause_handlers` -- the selected ones minus the resuming handlers that have finished here -- for
    the causes that have handlers at all (create/update/delete/resume), none for the others; whatever
    the variant, the object state, the event type. (Which of them are INVOKED in this very cycle is C02's
    planning: all of them when nothing is recorded yet and the lifecycle is all-at-once,
    `matching_invoked_fresh`.) -/
theorem cycle_handle_exact (v : Repairs) (r : Registry V) (cs : Causes V) (o : Obj) (stopped : List String)
    (is : List String) (h : Effect.handle is ∈ cycleAt v r cs o stopped) :
    is = if C05.handlerReasons.contains cs.changing.kind.reason
         then ids (causeHandlers r.changing cs.changing o.resumed) else [] := by
  simp only [cycleAt, cycleFull, finishCycle, purgeEffect, List.mem_append, mem_ite_single, mem_ite_single',
    reduceCtorEq, and_false, or_false, false_or, Effect.handle.injEq] at h
  exact h.2

-- ---------------------------------------------------------------------------------------------
-- witnesses of the three gaps (each is replayed on the real code from corpus/C15/F1..F3, d06)
-- and non-vacuity examples

section Witnesses

/-- a handler on field `spec.f` of the selected resource with one `value=` criterion -/
def wH (changing : Bool) (value : VCrit J) (fnc : Bool) (old new : VCrit J := .unset)
    (labels : Option (List (String × MCrit)) := none) (rf : Bool := false) : Handler J :=
  { fn := 0, func := 0, id := "h", changing := changing, selector := some true, subresourceOk := true,
    labels := labels, annotations := none, «when» := none, field := some ["spec", "f"], value := value,
    old := old, new := new, fieldNeedsChange := fnc, requiresFinalizer := rf,
    kind := { reason := none, initial := false, deletedOptIn := false } }

/-- a cause whose field `spec.f` resolves to the given values (every other path likewise);
    `noOld`: `cause.old is None` (then `old` must be `none`, as `dicts.resolve(None, …)` gives) -/
def wC (changing : Bool) (body old new : Option J) (label : Option String := none) (noOld : Bool := false) :
    Cause J :=
  { changing := changing, noOld := noOld, labels := fun k => if k = "lk" then label else none,
    annotations := fun _ => none, body := fun _ => body, old := fun _ => old, new := fun _ => new,
    kind := { reason := .create, initial := false, marked := false } }

/-- the object flags of a cycle: own finalizer, carried patch (effective unless said otherwise),
    lingering daemon, progress records present (rest: false/empty) -/
def wO (blocked : Bool := false) (carried : Bool := false) (lingering : Bool := false)
    (records : List (String × List String) := []) (carriedOps : Bool := true) : Obj :=
  { deletedEvent := false, ongoing := false, blocked := blocked, carried := carried, carriedOps := carriedOps,
    lingering := lingering, handlerDelays := false, resumed := [], records := records, timed := false }

def isNoneCb : Option J → Bool
  | some .null => true
  | _ => false

/-- C15-F1 (the residual after /repo bd6cd41): `on.resume(field='spec.f', value=ABSENT)` (likewise
    on.delete / on.create) on a cause WITH an old state: the object has the field now (`'x'`), the
    last-handled state had not: the code selects the handler (the old state satisfies `value=`), the
    documented criteria ("its current ---and only--- state") do not hold. The guard `OldOnlyFree` of
    `match_eq_doc_partial` is necessary. Replayed on the real code by corpus/C15/F1.json. -/
theorem doc_gap_old_only_witness :
    ∃ (h : Handler J) (c : Cause J), TokenFree h c ∧ ¬IsUpdate h ∧ c.changing = true ∧ c.noOld = false ∧
      matchHandler h c = true ∧ ¬DocSpec h c ∧ ¬OldOnlyFree h c := by
  refine ⟨wH true .absent false, wC true (some (.str "x")) none (some (.str "x")), ?_, ?_, rfl, rfl, by decide,
    ?_, ?_⟩
  · exact tokenFree_of_noTokenLit _ _ ⟨(by intro e; cases e), (by intro e; cases e), (by intro e; cases e)⟩
  · rintro ⟨_, e⟩; cases e
  · intro ds
    have := (ds.field ["spec", "f"] rfl (by simp)).other (by rintro ⟨_, _, e⟩; cases e)
    simp [wH, wC, ValueHolds] at this
  · intro hO
    have := hO ["spec", "f"] rfl (by simp) rfl (by rintro ⟨_, e⟩; cases e) rfl
    simp [wH, wC, ValueHolds] at this

/-- REGRESSION of the repaired half of finding C15-F1 (/repo bd6cd41): docs/filters.rst's
    `created_without_field` -- `on.create(field='spec.f', value=ABSENT)` -- on an object created WITH
    the field (`cause.old is None`): the handler is NOT selected and the documented criteria do not
    hold: code and docs agree (before the repair: `matchHandler … = true`, "absent in the non-existent
    old state"). Created WITHOUT the field it is selected. Replayed by
    corpus/C15/r01-create-absent-with-field.json with the strict oracle. -/
theorem create_absent_regression :
    let h := wH true .absent false
    (matchHandler h (wC true (some (.str "x")) none (some (.str "x")) none true) = false ∧
      ¬DocSpec h (wC true (some (.str "x")) none (some (.str "x")) none true)) ∧
    (matchHandler h (wC true none none none none true) = true ∧ DocSpec h (wC true none none none none true)) := by
  have hT : ∀ c : Cause J, TokenFree (wH true .absent false) c := fun c =>
    tokenFree_of_noTokenLit _ c ⟨(by intro e; cases e), (by intro e; cases e), (by intro e; cases e)⟩
  refine ⟨⟨by decide, ?_⟩, by decide, ?_⟩
  · rw [← match_eq_doc_creation_partial _ _ rfl (hT _)]; decide
  · rw [← match_eq_doc_creation_partial _ _ rfl (hT _)]; decide

-- `on.field(field, value=ABSENT)` (an update handler) on the same creation keeps the documented
-- old-or-new reading: "absent before, present now" is a match
example : matchHandler (wH true .absent true) (wC true (some (.str "x")) none (some (.str "x")) none true) = true := by
  decide
-- non-vacuity of `creation_value_current_only` / `creation_old_state_ignored`
example :
    let h := wH true .absent false
    let c := wC true (some (.str "x")) none (some (.str "x")) none true
    c.changing = true ∧ c.noOld = true ∧ ¬IsUpdate h ∧ h.field = some ["spec", "f"] ∧ h.value ≠ .lit none := by
  refine ⟨rfl, rfl, ?_, rfl, ?_⟩
  · rintro ⟨_, e⟩; cases e
  · intro e; cases e

/-- REGRESSION of the repaired finding C15-F2 (/repo 07968cf): a field callback `v is None` on an
    absent field is passed `None` and holds — the code and the documented criteria agree (before the
    repair the code passed the private token: `matchHandler … = false ∧ DocSpec …`).
    Replayed by corpus/C15/F2.json with the strict oracle. -/
theorem callback_none_regression :
    let h := wH false (.callback isNoneCb) false
    let c := wC false none none none
    matchHandler h c = true ∧ DocSpec h c ∧ TokenFree h c := by
  refine ⟨rfl, ?_, ?_⟩
  · refine ⟨?_, rfl, ?_, ?_, ?_, ?_⟩
    · intro b e; cases e; rfl
    · intro ls e; cases e
    · intro ls e; cases e
    · intro p e _
      cases e
      exact ⟨(fun hc => by cases hc), (fun _ => rfl), (fun hc => by cases hc)⟩
    · intro b e; cases e
  · intro p _ _
    exact ⟨(fun hc => by cases hc), (fun _ _ => by intro e; cases e)⟩

/-- the private token used as a criterion matches an absent field; nothing documented does -/
theorem doc_gap_token_literal_witness :
    ∃ (h : Handler J) (c : Cause J), OldOnlyFree h c ∧
      matchHandler h c = true ∧ ¬DocSpec h c := by
  refine ⟨wH false (.lit none) false, wC false none none none, ?_, rfl, ?_⟩
  · intro p _ _ hc; cases hc
  · intro ds
    have := (ds.field ["spec", "f"] rfl (by simp)).other (by rintro ⟨e, _⟩; cases e)
    simp [wH, wC, ValueHolds] at this

-- non-vacuity of `match_eq_doc_partial`/`_update`: an `on.update(field, old='x', new=PRESENT,
-- labels={'lk': PRESENT})` handler, field edited x → y, label present: all guards hold, it matches …
example :
    let h := wH true .unset true (.lit (some (.str "x"))) .present (some [("lk", .present)])
    let c := wC true (some (.str "y")) (some (.str "x")) (some (.str "y")) (some "v")
    TokenFree h c ∧ IsUpdate h ∧ OldOnlyFree h c ∧ matchHandler h c = true := by
  refine ⟨?_, ⟨rfl, rfl⟩, ?_, by decide⟩
  · exact tokenFree_of_noTokenLit _ _ ⟨(by intro e; cases e), (by intro e; cases e), (by intro e; cases e)⟩
  · intro p _ _ _ hnu; exact absurd ⟨rfl, rfl⟩ hnu
-- … and without the label, or with an unchanged field, it does not
example : matchHandler (wH true .unset true (.lit (some (.str "x"))) .present (some [("lk", .present)]))
    (wC true (some (.str "y")) (some (.str "x")) (some (.str "y")) none) = false := by decide
example : matchHandler (wH true .unset true (.lit (some (.str "x"))) .present)
    (wC true (some (.str "x")) (some (.str "x")) (some (.str "x"))) = false := by decide
-- non-vacuity of `match_eq_doc_nonchanging`: an `on.event(field, value='x')` handler
example : matchHandler (wH false (.lit (some (.str "x"))) false) (wC false (some (.str "x")) none none) = true := by
  decide
-- non-vacuity of `dedup_*` / `selected_*`: create+resume of one function under one id → once
example :
    let h := wH true .unset false
    (getHandlersChanging [h, { h with labels := some [] }, { h with fn := 1, func := 1 }]
      (wC true (some .null) none (some .null)) []).map Handler.key = [(0, "h"), (1, "h")] := by decide
-- non-vacuity of `stealth`: a registry whose only handler needs label lk; object without it …
def wR : Registry J :=
  { watching := [], spawning := [],
    changing := [{ wH true .unset false .unset .unset (some [("lk", .present)]) true with field := none }] }
def wCs (label : Option String) : Causes J :=
  let c := wC true none none none label
  { watching := c, spawning := c, changing := c }
example : prematchAny wR.changing (wCs none).changing = false ∧
    requiresFinalizerSpawning wR.spawning (wCs none).spawning [] = false ∧
    cycle wR (wCs none) wO [] = [] := by decide
-- … and with the label the same cycle adds the finalizer (so `stealth`'s hypothesis is what matters)
example : cycle wR (wCs (some "v")) wO [] = [Effect.addFinalizer] := by decide

-- non-vacuity of `stealth_total` with handlers of all three kinds present but filtered out, and of
-- `dedup_first_kept` (the second registration of (0, "h") is not the first of its key; the third is)
example :
    let h := { wH false .unset false .unset .unset (some [("lk", .value "x")]) true with field := none }
    let r : Registry J := { watching := [h], spawning := [h], changing := [{ h with changing := true }] }
    prematchAny r.changing (wCs (some "y")).changing = false ∧
    (∀ g ∈ r.watching, matchHandler g (wCs (some "y")).watching = false) ∧
    (∀ g ∈ r.spawning, matchHandler g (wCs (some "y")).spawning = false) ∧
    cycle r (wCs (some "y")) wO [] = [] ∧
    cycle r (wCs (some "x")) wO [] =
      [Effect.invokeWatching ["h"], Effect.spawn ["h"], Effect.addFinalizer] := by
  refine ⟨by decide, ?_, ?_, by decide, by decide⟩ <;> (intro g hg; simp at hg; subst hg; decide)
example :
    let h := wH true .unset false
    ∀ g ∈ [h, { h with labels := some [] }], g.key ≠ ({ h with fn := 1, func := 1 } : Handler J).key := by
  intro h g hg; simp at hg; rcases hg with rfl | rfl <;> decide

/-- the carried-in transformation (one that still has something to change) is re-sent to an object
    that nothing matches (and nothing else is done): the guard `o.carriedEff = false` of
    `stealth_*_partial` is necessary -/
theorem stealth_carried_witness :
    ∃ (r : Registry J) (cs : Causes J) (o : Obj), prematchAny r.changing cs.changing = false ∧
      (∀ h ∈ r.watching, matchHandler h cs.watching = false) ∧
      (∀ h ∈ r.spawning, matchHandler h cs.spawning = false) ∧ o.blocked = false ∧
      cycle r cs o [] = [Effect.carried] ∧ Effect.carried.isFrameworkWrite = true :=
  ⟨wR, wCs none, (wO false true), by decide, by simp [wR], by simp [wR], rfl, by decide, rfl⟩

/-- a leftover own finalizer on an object that nothing matches is removed: the guard
    `o.blocked = false` is necessary (and the removal is what the clause asks for) -/
theorem stealth_blocked_witness :
    ∃ (r : Registry J) (cs : Causes J) (o : Obj), prematchAny r.changing cs.changing = false ∧
      (∀ h ∈ r.watching, matchHandler h cs.watching = false) ∧
      (∀ h ∈ r.spawning, matchHandler h cs.spawning = false) ∧ o.carried = false ∧
      cycle r cs o [] = [Effect.removeFinalizer] :=
  ⟨wR, wCs none, (wO true), by decide, by simp [wR], by simp [wR], rfl, by decide⟩

-- a carried patch also postpones the handling of an object that DOES match (exit to PATCHing first)
example : cycle wR (wCs (some "v")) (wO true true) [] = [Effect.carried] ∧
    cycle wR (wCs (some "v")) (wO true) [] = [Effect.handle ["h"]] := by decide

/-- REGRESSION of /repo 608a57d and of its rework (findings C03-N2 / C06-F9, seen from this property:
    "for every event the handlers whose criteria hold are invoked"): a carried transformation that the
    conflicting change has fulfilled already (no operation on the object at hand) used to swallow the cycle
    -- the handlers skipped for the sake of a re-patching that sends nothing, so no further event, and the
    matching handler `h` never invoked for that change. /repo 608a57d forgets it beforehand: `h` runs in
    this very cycle. The rework keeps it in the patch (it is re-evaluated on the freshest state when
    patching) and comes back at once instead: the cycle ends with the touch, whose event runs `h`; so does
    the code as it is (ad4ec08 keeps 02af7ce).
    Replayed by corpus/C15/d21-carried-fulfilled-comes-back-at-once.json on /repo ad4ec08. -/
theorem carried_fulfilled_regression :
    cycleAt ⟨false, true, true, false⟩ wR (wCs (some "v")) (wO true true false [] false) [] = [] ∧
    cycleAt Repairs.at608 wR (wCs (some "v")) (wO true true false [] false) [] = [Effect.handle ["h"]] ∧
    cycleAt Repairs.rework wR (wCs (some "v")) (wO true true false [] false) [] = [Effect.touch] ∧
    cycle wR (wCs (some "v")) (wO true true false [] false) [] = [Effect.touch] ∧
    -- an unmatched object is not written to in any of them (a no-op transformation sends nothing)
    cycleAt ⟨false, true, true, false⟩ wR (wCs none) (wO false true false [] false) [] = [] ∧
    cycleAt Repairs.at608 wR (wCs none) (wO false true false [] false) [] = [] ∧
    cycleAt Repairs.rework wR (wCs none) (wO false true false [] false) [] = [] ∧
    cycle wR (wCs none) (wO false true false [] false) [] = [] := by decide

/-- REGRESSION of /repo 423b86f AND of its revert ad4ec08 (finding C03-F2, seen from this property: "no
    annotations"): the object stopped matching (label gone) while `h` and its sub-handler `h/s` were in
    progress; their records are on the object, beside a record of somebody else (`zz`). Before 423b86f the
    blind branch did nothing -- the framework's annotations stayed on an object that nothing matches; with
    423b86f it patched exactly the "own" ones away (own BY NAME: finding C15-F9, next theorem); since ad4ec08
    it does nothing again: C03-F2 is open again BY DECISION (a cosmetic leak, picked up only if the object
    matches again, against two deployments chasing each other for ever). A leftover own finalizer is still
    taken off. Replayed by corpus/C15/d22-leftover-records-stay.json on the real code. -/
theorem stealth_leftover_regression :
    let recs := [("h", ["h/s"]), ("h/s", []), ("zz", ["zz/s"]), ("zz/s", [])]
    cycleAt ⟨true, false, true, false⟩ wR (wCs none) (wO false false false recs) [] = [] ∧
    cycleAt Repairs.at608 wR (wCs none) (wO false false false recs) [] = [Effect.purge ["h", "h/s"]] ∧
    cycleAt Repairs.rework wR (wCs none) (wO false false false recs) [] = [Effect.purge ["h", "h/s"]] ∧
    -- the code as it is: blind again, the leftover stays
    cycle wR (wCs none) (wO false false false recs) [] = [] ∧
    -- (the purge: a sub-handler record whose parent's record is gone was not recognised as one's own)
    cycleAt Repairs.rework wR (wCs none) (wO false false false [("h/s", []), ("zz", [])]) [] = [] ∧
    -- with a leftover own finalizer as well: both were taken off; now the finalizer alone; nothing is put on
    cycleAt Repairs.rework wR (wCs none) (wO true false false recs) [] =
      [Effect.purge ["h", "h/s"], Effect.removeFinalizer] ∧
    cycle wR (wCs none) (wO true false false recs) [] = [Effect.removeFinalizer] := by
  decide

/-- REGRESSION of the repaired finding C15-F9 (introduced by /repo 423b86f, fixed by its revert ad4ec08):
    "own" was decided BY NAME. The model's `Obj.records` does not say who wrote a record, and neither could
    the code: an operator whose only handler `h` needs label lk purged the record `h` from an object
    WITHOUT that label -- also when the record was written a moment ago by another deployment of the same
    code that serves the objects without the label (same handler ids, same prefix, other filters). That
    operator never matched the object and never put anything on it: the clause violated literally, and the
    two operators chased each other for ever (replayed on the real code, two operators on one simulated
    cluster, by corpus/C15/F9.json: it must PASS now). The code as it is does nothing to that object. -/
theorem stealth_purge_by_name_witness :
    ∃ (r : Registry J) (cs : Causes J) (o : Obj), prematchAny r.changing cs.changing = false ∧
      (∀ h ∈ r.watching, matchHandler h cs.watching = false) ∧
      (∀ h ∈ r.spawning, matchHandler h cs.spawning = false) ∧
      o.blocked = false ∧ o.carriedEff = false ∧ o.lingering = false ∧
      cycleAt Repairs.rework r cs o [] = [Effect.purge ["h"]] ∧ (Effect.purge ["h"]).isFrameworkWrite = true ∧
      cycleAt Repairs.at608 r cs o [] = [Effect.purge ["h"]] ∧
      cycle r cs o [] = [] :=
  ⟨wR, wCs none, wO false false false [("h", [])], by decide, by simp [wR], by simp [wR], rfl, rfl, rfl, by decide, rfl,
    by decide, by decide⟩

-- non-vacuity of `stealth_removals_only_partial` / `stealth_finalizer_only_partial` / `stealth_total_partial` /
-- `stealth_records_ignored` / `blind_never_purges` / `purgeIds_iff`: the hypotheses hold for `wR`, the unlabelled
-- object, with and without leftovers (and the head variant is one without the blind purge)
example : (wO true false false [("h", [])]).carriedEff = false ∧ (wO true false false [("h", [])]).lingering = false ∧
    (wO false true false [] false).carriedEff = false ∧ Repairs.head.blindPurge = false ∧
    purgeIds wR.changing [("h", ["h/s"]), ("h/s", []), ("zz", [])] = ["h", "h/s"] ∧
    purgeIds wR.changing [("zz", [])] = [] ∧ ownedIds wR.changing = ["h"] ∧
    cycle wR (wCs none) (wO true false false [("h", [])]) [] = [Effect.removeFinalizer] ∧
    -- `blind_never_purges` also where the object DOES match: the handling is `handle`, never `purge`
    cycle wR (wCs (some "v")) (wO true false false [("h", [])]) [] = [Effect.handle ["h"]] := by decide

def kex : Resource :=
  { group := "kopf.dev", version := "v1", plural := "kopfexamples", kind := some "KopfExample",
    singular := some "kopfexample", shortcuts := ["kex"], categories := ["all"], preferred := true }
def k8sEvents : Resource :=
  { group := "events.k8s.io", version := "v1", plural := "events", kind := some "Event",
    singular := some "event", shortcuts := ["ev"], categories := [], preferred := true }

/-- C15-F4: `kopf.EVERYTHING` does not select the events of `events.k8s.io`, although only the
    core v1 events are documented as excluded -/
theorem selector_gap_events_k8s_witness :
    ∃ (s : Selector) (r : Resource), s.check r = false ∧ SelectorDoc s r := by
  refine ⟨{ anyName := some .everything }, k8sEvents, by decide, ?_⟩
  refine ⟨(fun _ e => by cases e), (fun _ e => by cases e), (fun _ _ => rfl), (fun _ e => by cases e),
    (fun _ e => by cases e), (fun _ e => by cases e), (fun _ e => by cases e), (fun _ e => by cases e),
    (fun _ e => by cases e), ?_, (fun _ e => by cases e)⟩
  intro _ hc; exact absurd hc.1 (by decide)

def corePods : Resource :=
  { group := "", version := "v1", plural := "pods", kind := some "Pod", singular := some "pod", shortcuts := ["po"],
    categories := ["all"], preferred := true }
def podMetrics : Resource :=
  { group := "metrics.k8s.io", version := "v1beta1", plural := "pods", kind := some "PodMetrics", singular := none,
    shortcuts := [], categories := [], preferred := true }

/-- NEGATIVE (finding C15-F11, replayed from corpus/C15/F11.json): docs/resources.rst, "v1 resources have
    priority over all other resources … so just "pods" can be specified and the intention will be understood" --
    among core pods and pods.metrics.k8s.io the specification "pods" stands for the core resource only, and that is
    what is WATCHED for it (`select`); but a handler's resource criterion is `check` alone, which holds for the
    metrics resource as well: once that resource is watched for another handler's sake (a category, EVERYTHING, a
    callable), the "pods" handler runs for its objects too. -/
theorem selector_served_gap_witness :
    let s : Selector := { anyName := some (.name "pods") }
    ((s.select [corePods, podMetrics]).map (·.group) = [""]) ∧ s.check podMetrics = true ∧
    (({ anyName := some .everything } : Selector).select [corePods, podMetrics]).map (·.group) = ["", "metrics.k8s.io"] := by
  decide

-- non-vacuity of `selector_check_iff_*`: ('kopf.dev', 'kex') and kind='KopfExample' select the
-- resource, ('kopf.dev/v2', …) and a non-preferred version do not; EVERYTHING selects it, and core
-- v1 events are skipped by EVERYTHING but selected by name
example : ({ group := some "kopf.dev", anyName := some (.name "kex") } : Selector).check kex = true ∧
    ({ kind := some "KopfExample" } : Selector).check kex = true ∧
    ({ group := some "kopf.dev", version := some "v2", anyName := some (.name "kex") } : Selector).check kex = false ∧
    ({ anyName := some (.name "kex") } : Selector).check { kex with preferred := false } = false ∧
    ({ anyName := some .everything } : Selector).check kex = true ∧
    ({ anyName := some .everything } : Selector).check
      { k8sEvents with group := "", categories := [] } = false ∧
    eventsSel.check { k8sEvents with group := "" } = true ∧
    isEventsK8s kex = false := by decide

/-- C15-F6: the only handler is a daemon that needs label lk; the object has no label, no finalizer,
    nothing carried in — but the daemon spawned while it still had the label is exiting: the cycle
    sleeps and writes `touch-dummy`. The guard `o.lingering = false` is necessary. -/
theorem stealth_touch_witness :
    ∃ (r : Registry J) (cs : Causes J) (o : Obj), prematchAny r.changing cs.changing = false ∧
      (∀ h ∈ r.watching, matchHandler h cs.watching = false) ∧
      (∀ h ∈ r.spawning, matchHandler h cs.spawning = false) ∧ o.blocked = false ∧ o.carried = false ∧
      cycle r cs o [] = [Effect.touch] ∧ Effect.touch.isFrameworkWrite = true := by
  refine ⟨{ watching := [], changing := [],
            spawning := [{ wH false .unset false .unset .unset (some [("lk", .present)]) true with field := none }] },
          wCs none, wO false false true, by decide, by simp, ?_, rfl, rfl, by decide, rfl⟩
  intro h hh; simp at hh; subst hh; decide

/-- REGRESSION of the repaired finding C15-F7 (/repo c47dbbf): `on.update(...)(ops.setup)` and
    `on.resume(...)(ops.setup)` — one function (`func = 7`), one id, two bound-method objects
    (`fn = 1, 2`): exactly one registration is selected. Replayed by corpus/C15/F7.json. -/
theorem bound_method_once_regression :
    ∃ (l : List (Handler J)) (c : Cause J), l.length = 2 ∧
      (getHandlersChanging l c []).map Handler.funcKey = [(7, "h")] := by
  refine ⟨[{ wH true .unset false with fn := 1, func := 7, field := none },
           { wH true .unset false with fn := 2, func := 7, field := none }],
          wC true none none none, rfl, by decide⟩

/-- a sub-handler as `@kopf.subhandler(id=…)` builds it inside a handler with id `del`: no selector,
    no reason, not resuming, `field_needs_change` = the parent's -/
def wSub (n : Nat) (id : String) (fnc : Bool := false) (labels : Option (List (String × MCrit)) := none) :
    Handler J :=
  { wH true .unset fnc .unset .unset labels with fn := n, func := n, id := id, selector := none, field := none }

/-- the cause of an object marked for deletion that still carries the own finalizer -/
def wDel (label : Option String := none) : Cause J :=
  { wC true none none none label with kind := { reason := .delete, initial := false, marked := true } }

/-- REGRESSION of the repaired finding C15-F8 (/repo 17e5c42): the sub-registry of an
    `@kopf.on.delete` handler `del` with two sub-handlers `del/a`, `del/b` (the second one filtered by
    `labels={'lk': PRESENT}`) on the DELETE cause of a marked, labelled object: both have the
    sub-handler shape, both match, BOTH ARE SELECTED -- and the gate of /repo 345a874 rejected both
    (so the parent finished at once and the finalizer was released without their work). Without the
    label only `del/a` is selected: the filters, not the cause kind, decide. Replayed on the real code by
    corpus/C15/F8_delete_subhandlers_selected.json (fails when 17e5c42 is reverted). -/
theorem subhandler_deletion_regression :
    let hs := [wSub 1 "del/a", wSub 2 "del/b" false (some [("lk", .present)])]
    (wDel (some "v")).kind.marked = true ∧
    (∀ h ∈ hs, IsSubHandler h ∧ h.fieldNeedsChange = false ∧ matchHandler h (wDel (some "v")) = true) ∧
    ids (getHandlersChanging hs (wDel (some "v")) []) = ["del/a", "del/b"] ∧
    ids (getHandlersChanging hs (wDel none) []) = ["del/a"] ∧
    (∀ h ∈ hs, gate345a874 h (wDel (some "v")) = false) := by
  refine ⟨rfl, ?_, by decide, by decide, ?_⟩ <;>
    (intro h hh; simp only [List.mem_cons, List.not_mem_nil, or_false] at hh
     rcases hh with rfl | rfl <;> first | decide | exact ⟨⟨rfl, rfl⟩, rfl, by decide⟩)

-- … while an `@kopf.on.field` handler (and a sub-handler that inherited `field_needs_change` from an
-- update parent) stays skipped on the marked object, and is selected on an unmarked one
example : gate ({ wH true .unset true with field := none } : Handler J) (wDel none) = false ∧
    gate (wSub 1 "upd/a" true) (wDel none) = false ∧
    gate (wSub 1 "upd/a" true) (wC true none none none) = true ∧
    IsFieldHandler ({ wH true .unset true with field := none } : Handler J) := by
  exact ⟨by decide, by decide, by decide, rfl, rfl, rfl⟩
-- non-vacuity of `selected_on_deletion_iff` / `subhandlers_selected_iff` / `subhandler_selected_iff`
example : (wDel none).kind.marked = true ∧ IsSubHandler (wSub 1 "del/a") ∧
    (wSub 1 "del/a").fieldNeedsChange = false ∧ selChanging (wDel none) [] (wSub 1 "del/a") = true ∧
    selChanging (wDel none) ["del/a"] (wSub 1 "del/a") = false :=
  ⟨rfl, ⟨rfl, rfl⟩, rfl, by decide, by decide⟩

-- the whole-cycle theorems are not vacuous: a cycle that invokes an on.event handler and hands a timer to the
-- spawner (an object with the label), one that does neither (another label; an object in deletion is not
-- spawned for), and one that handles
example :
    let h := { wH false .unset false .unset .unset (some [("lk", .value "x")]) true with field := none }
    let r : Registry J := { watching := [h], spawning := [h], changing := [] }
    watchedIds (cycle r (wCs (some "x")) wO []) = ["h"] ∧ spawnedIds (cycle r (wCs (some "x")) wO []) = ["h"] ∧
    watchedIds (cycle r (wCs (some "y")) wO []) = [] ∧ spawnedIds (cycle r (wCs (some "y")) wO []) = [] ∧
    watchedIds (cycle r (wCs (some "x")) { wO with ongoing := true } []) = ["h"] ∧
    spawnedIds (cycle r (wCs (some "x")) { wO with ongoing := true } []) = [] := by decide
example : Effect.handle ["h"] ∈ cycleAt Repairs.head wR (wCs (some "v")) (wO true) [] := by decide

end Witnesses

-- ---------------------------------------------------------------------------------------------
-- the resource criterion over a history of discoveries (seed C15g closed as a class): the served
-- resources are re-discovered at runtime (observation.revise_resources); the same endpoint comes back
-- with other categories / short names / kind / `preferred` flag. "For every event the handlers whose
-- declared criteria hold": the criterion holds or not for the resource AS IT IS at that event.

/-- FULL: whatever was discovered before and whatever comes after, the k-th event is routed by
    `check` on the resource as it is at the k-th event (the selector keeps no state) -/
theorem rediscovery_routes_by_current (s : Selector) (hist : List Resource) (k : Nat) (r : Resource)
    (hk : hist[k]? = some r) : (s.route hist)[k]? = some (s.check r) := by
  simp [Selector.route, List.getElem?_map, hk]

/-- the same in terms of the history's shape: the past and the future are irrelevant -/
theorem rediscovery_forgets_past (s : Selector) (pre post : List Resource) (r : Resource) :
    (s.route (pre ++ r :: post))[pre.length]? = some (s.check r) :=
  rediscovery_routes_by_current s _ _ r (by simp)

/-- the documented criterion at every event of a history (guard: the `events.k8s.io` observation,
    as in `selector_check_iff_partial`) -/
theorem rediscovery_doc_partial (s : Selector) (hist : List Resource) (k : Nat) (r : Resource)
    (hk : hist[k]? = some r)
    (hk8s : isEventsK8s r = true → s.anyName ≠ some .everything ∧ s.fn = none) :
    (s.route hist)[k]? = some true ↔ SelectorDoc s r := by
  rw [rediscovery_routes_by_current s hist k r hk, ← selector_check_iff_partial s r hk8s]
  simp

/-- by-name, keyword and by-category selectors: no guard -/
theorem rediscovery_doc_named (s : Selector) (hist : List Resource) (k : Nat) (r : Resource)
    (hk : hist[k]? = some r) (hn : s.anyName ≠ some .everything) (hf : s.fn = none) :
    (s.route hist)[k]? = some true ↔ SelectorDoc s r :=
  rediscovery_doc_partial s hist k r hk (fun _ => ⟨hn, hf⟩)

/-- the memoised variant (outcomes remembered per `Resource.__eq__` = per endpoint) is the code on
    exactly the well-behaved histories: no endpoint ever comes back with a different outcome -- which
    is every history of kopf's own test-suite, hence the seed passes it -/
theorem memoised_route_eq_of_stable (s : Selector) (hist : List Resource)
    (hs : ∀ r ∈ hist, ∀ r' ∈ hist, r.endpoint = r'.endpoint → s.check r = s.check r') :
    s.routeMemo hist = s.route hist :=
  routeMemoFrom_eq_route s hist [] (fun _ _ _ h => by simp [List.lookup] at h) hs

def kexIn (cats : List String) (preferred : Bool := true) : Resource :=
  { group := "kopf.dev", version := "v1", plural := "kopfexamples", kind := some "KopfExample",
    singular := some "kopfexample", shortcuts := ["kex"], categories := cats, preferred := preferred }

/-- NEGATIVE for the variant (seed C15g, replayed from corpus/C15/g01..g03): the CRD leaves the category
    -- the variant still routes the second event to the `category=` handler, against the documented
    criterion; it joins the category -- the handler is not invoked; a versionless selector keeps
    selecting a version that is not preferred any more -/
theorem memoised_route_witness :
    let s : Selector := { category := some "widgets" }
    let v : Selector := { anyName := some (.name "kopfexamples") }
    s.routeMemo [kexIn ["widgets"], kexIn []] = [true, true] ∧ s.route [kexIn ["widgets"], kexIn []] = [true, false] ∧
    ¬ SelectorDoc s (kexIn []) ∧
    s.routeMemo [kexIn [], kexIn ["widgets"]] = [false, false] ∧ s.route [kexIn [], kexIn ["widgets"]] = [false, true] ∧
    v.routeMemo [kexIn [], kexIn [] false] = [true, true] ∧ v.route [kexIn [], kexIn [] false] = [true, false] := by
  refine ⟨by decide, by decide, ?_, by decide, by decide, by decide, by decide⟩
  intro h
  exact absurd (h.category "widgets" rfl) (by decide)

-- non-vacuity: a history in which the endpoint comes back unchanged meets `memoised_route_eq_of_stable`;
-- a three-step history (in, out, in again) is routed step by step
example : ({ category := some "widgets" } : Selector).routeMemo [kexIn ["widgets"], kexIn ["widgets"]] = [true, true] := by decide
example : ({ category := some "widgets" } : Selector).route [kexIn ["widgets"], kexIn [], kexIn ["widgets", "all"]]
    = [true, false, true] := by decide
example : ([kexIn ["widgets"], kexIn []] : List Resource)[1]? = some (kexIn []) := rfl


/-! ## several handlers' fields together (seed C15h): what the criteria of one handler see does not depend on the others

`cause.old`/`cause.new` are essences: a field outside spec/labels/annotations is in them only because some handler
names it, and ALL the handlers' fields are restored together (`DiffBaseStorage.build`; model `Kopf/Model/C15_Essence.lean`). -/
namespace Essence
open Kopf

/-- FULL: whatever other fields the other handlers of the resource name -- repeated, overlapping, parents, children,
    names that begin alike -- a handler's own field is decided on the OBJECT's value. -/
theorem declared_field_seen (body : J) (fields : List Path) (p : Path) (h : p ∈ fields) :
    seen body (restored fields) p = J.resolve? body p := by
  unfold seen restored
  rw [covered_of_mem h]; rfl

/-- FULL: the other handlers' fields make no difference to what a handler's criteria see. -/
theorem seen_independent_of_others (body : J) (before after : List Path) (p : Path) :
    seen body (restored (before ++ p :: after)) p = seen body (restored [p]) p := by
  rw [declared_field_seen body _ p (by simp), declared_field_seen body [p] p (by simp)]

/-- FULL: also everything UNDER a declared field is the object's (a handler on `status` sees `status.s`). -/
theorem under_declared_field_seen (body : J) (fields : List Path) (q p : Path) (hq : q ∈ fields)
    (hp : q.isPrefixOf p = true) : seen body (restored fields) p = J.resolve? body p := by
  unfold seen restored covered
  rw [List.any_eq_true.mpr ⟨q, hq, hp⟩]; rfl

/-- FULL: the harmless economy -- not copying a field whose PATH-WISE ancestor is declared as well -- changes nothing. -/
theorem drop_children_harmless (body : J) (fields : List Path) (p : Path) (h : p ∈ fields) :
    seen body (dropChildren fields) p = J.resolve? body p := by
  obtain ⟨r, hr, hrp⟩ := exists_root fields p p.length p (Nat.le_refl _) h (isPrefixOf_refl p)
  unfold seen covered
  rw [List.any_eq_true.mpr ⟨r, hr, hrp⟩]; rfl

/-- the changed variant (skip a name when an earlier NAME is a textual prefix of it): `status.s` and `status.ss`
    declared together, the object has both -- the handler of `status.ss` sees no field. -/
theorem textual_skip_witness :
    restoredTextual [["status", "s"], ["status", "ss"]] = [["status", "s"]] ∧
    (seen (J.obj [("status", J.obj [("s", J.str "x"), ("ss", J.str "y")])])
      (restoredTextual [["status", "s"], ["status", "ss"]]) ["status", "ss"]).isNone = true ∧
    (seen (J.obj [("status", J.obj [("s", J.str "x"), ("ss", J.str "y")])])
      (restored [["status", "s"], ["status", "ss"]]) ["status", "ss"]).isSome = true ∧
    (seen (J.obj [("status", J.obj [("s", J.str "x"), ("ss", J.str "y")])])
      (restoredTextual [["status", "s"], ["status", "ss"]]) ["status", "s"]).isSome = true := by
  decide

-- a real parent and its child survive the changed variant (why the seeder's own control cases pass):
example : (seen (J.obj [("status", J.obj [("s", J.str "x")])]) (restoredTextual [["status"], ["status", "s"]]) ["status", "s"]).isSome
    = true := by decide
-- non-vacuity of `drop_children_harmless` / `under_declared_field_seen`: a parent, its child and a look-alike sibling
example : dropChildren [["status", "s", "t"], ["status", "s"], ["status", "ss"]] = [["status", "s"], ["status", "ss"]] := by decide
example : (["status"] : Path) ∈ [["status"], ["status", "s"]] ∧ (["status"] : Path).isPrefixOf ["status", "s"] = true := by decide

end Essence

end Kopf.C15
