/-
  C01 — property theorems only (per-object processing is serial, ordered, lossless).

  All theorems are about `step` of `Kopf/Model/C01_Queueing.lean` (one label = one atomic code
  segment of `queueing.watcher/worker`, `_wait_for_depletion`, `aiotasks.Scheduler`) and quantify over
  EVERY label list: `Reach lim ls s` = "`s` is reached from the initial state with worker limit `lim`
  by the label list `ls`" — any interleaving of arrivals (per key and across keys), processing ends,
  idle-timeout expiries, spawner/done-callback runs, limit saturation, cancellation. No bound on the
  length of `ls`, the number of keys, events or worker generations.

  Batching: this kopf has no time-based batching in `worker()` (`batch_window` is deprecated and
  ignored), so "processed" below means: every single event was handed to the processor — there is
  no "superseded within a batch window" escape clause in any statement.

  Scope of "while the watch is alive": `s.closing = false` (the watcher is still in its `async for`)
  and, per key, `s.failedK k = false` (no worker of that key died with an exception: that kills the
  watcher by design, and the dying worker drops its backlog).
-/
import Kopf.Lemmas.C01_Inv2
import Kopf.Lemmas.C01_Pre
import Kopf.Lemmas.C01_Term
import Kopf.Lemmas.C01_Frame
import Kopf.Lemmas.C01_Fail
import Kopf.Lemmas.C01_Sched
namespace Kopf.C01

variable {lim : Option Nat} {ls : List Label} {s : State}

/-- **A stream entry exists ⇔ exactly one live worker instance serves that key**
    (live = pending in the scheduler, spawned, waiting on the backlog, or busy in the processor),
    as long as `scheduler.close()` has not been called. Nothing in the state representation forces
    this: instances are independent entities keyed by (key, generation). -/
theorem stream_iff_worker (h : Reach lim ls s) (hc : s.closed = false) (k : Key) :
    (s.streams k ≠ none ↔ ∃ w p, w.key = k ∧ s.pc w = some p ∧ p.live = true) ∧
    (∀ w w' p p', w.key = k → w'.key = k → s.pc w = some p → s.pc w' = some p' →
        p.live = true → p'.live = true → w = w') := by
  have hi := inv_reach h
  refine ⟨⟨fun hk => hi.stream_live hc k hk, ?_⟩, ?_⟩
  · rintro ⟨w, p, rfl, hp, hl⟩
    exact hi.live_stream w p hp hl
  · intro w w' p p' hk hk' hp hp' hl hl'
    exact hi.uniq w w' p p' hp hp' hl hl' (hk.trans hk'.symm)

/-- After `scheduler.close()` the equivalence is deliberately not claimed: a task that was created
    but cancelled before its first step never runs `finally: del streams[key]`
    (kopf logs "Unprocessed streams left"). Explicit witness. -/
theorem closed_may_orphan_stream :
    ∃ ls s, Reach none ls s ∧ s.closed = true ∧ s.streams 0 ≠ none ∧ ∀ w, s.pc w = none := by
  refine ⟨[.miss 0 1, .insert, .spawn, .cancelWatcher, .close, .kill ⟨0, 0⟩, .left ⟨0, 0⟩], _, rfl, ?_⟩
  refine ⟨rfl, by decide, ?_⟩
  intro w
  by_cases hw : w = ⟨0, 0⟩ <;> simp [hw, init]

/-- **Order, no loss, no duplication — one list equation.** While the watch is alive, for every key:
    what the API delivered = what was processed ++ what is in the processor right now ++ what waits
    in the backlog (++ the event in the watcher's hand between the `KeyError` and the creation of the
    stream entry; empty in every state the real watcher can be observed in). -/
theorem lossless_ordered (h : Reach lim ls s) (hc : s.closing = false) (k : Key)
    (hf : s.failedK k = false) :
    s.arrived k = s.processed k ++ inflight s k ++ backlogEvs s k ++ handEvs s k := by
  have hi := inv_reach h
  have hcl : s.closed = false := by
    cases hcd : s.closed with
    | false => rfl
    | true => have := hi.closed_closing hcd; simp_all
  have h1 := hi.lossless hcl k hf
  have hst : s.started k = s.processed k ++ inflight s k := by
    rcases hi.started_spec hcl k with h2 | ⟨w, e, _, _, h2⟩
    · simp [inflight, h2]
    · simp [inflight, h2]
  rw [h1, hst, hi.dropped_nil hc k]
  simp

/-- **Graceful drain: the same conservation law holds through the whole shutdown**, i.e. after the
    watcher left its loop (`closing`), while EOS markers are put and the workers deplete their queues —
    up to the moment `scheduler.close()` starts cancelling (`closed`). The only event that can get lost
    in that phase is one that sat in the watcher's hand when it was cancelled (`dropped`; in the real
    watcher there is no suspension point between taking an event and enqueueing it, so it stays empty —
    the trace check confirms `dropped = []` on every real run). -/
theorem drain_lossless (h : Reach lim ls s) (hcl : s.closed = false) (k : Key)
    (hf : s.failedK k = false) :
    s.arrived k = s.processed k ++ inflight s k ++ backlogEvs s k ++ handEvs s k ++ s.dropped k ∧
    (s.closing = false → s.dropped k = []) := by
  have hi := inv_reach h
  have h1 := hi.lossless hcl k hf
  have hst : s.started k = s.processed k ++ inflight s k := by
    rcases hi.started_spec hcl k with h2 | ⟨w, e, _, _, h2⟩
    · simp [inflight, h2]
    · simp [inflight, h2]
  exact ⟨by rw [h1, hst], fun hc => hi.dropped_nil hc k⟩

/-- **Order and no duplication hold in EVERY reachable state — also during shutdown, after a worker
    failure, after `scheduler.close()`**: processed ++ in-flight ++ waiting (++ in hand) is, in that
    order, a sub-sequence of what the API delivered for the key. (Events may be *dropped* once the
    watch is dying — that is `lossless_ordered`'s guard — but never reordered or repeated; the event ids
    of a key are pairwise distinct in any real stream.) -/
theorem ordered_always (h : Reach lim ls s) (k : Key) :
    (s.processed k ++ inflight s k ++ backlogEvs s k ++ handEvs s k).Sublist (s.arrived k) := by
  obtain ⟨ho, hp⟩ := ord_pre_reach h
  have hst : s.started k = s.processed k ++ inflight s k := by
    rcases hp k with h2 | ⟨e, h2⟩ <;> simp [inflight, h2]
  rw [← hst]
  exact ho k

/-- What `inflight` is: empty iff no worker of the key is in the processor; otherwise exactly the one
    event `e` of the one busy instance. -/
theorem inflight_spec (h : Reach lim ls s) (hc : s.closed = false) (k : Key) :
    (inflight s k = [] ∧ ∀ w e, w.key = k → s.pc w ≠ some (.busy e)) ∨
    (∃ w e, w.key = k ∧ s.pc w = some (.busy e) ∧ inflight s k = [e]) := by
  have hi := inv_reach h
  rcases hi.started_spec hc k with h2 | ⟨w, e, hk, hp, h2⟩
  · left
    refine ⟨by simp [inflight, h2], ?_⟩
    intro w e hk hp
    have h3 := hi.busy_started w e hp
    rw [hk, h2] at h3
    simp at h3
  · right
    exact ⟨w, e, hk, hp, by simp [inflight, h2]⟩

/-- **One at a time**: at most one worker instance per key is inside the processor. -/
theorem serial (h : Reach lim ls s) {w w' : Wid} {e e' : Ev}
    (hb : s.pc w = some (.busy e)) (hb' : s.pc w' = some (.busy e')) (hk : w.key = w'.key) :
    w = w' ∧ e = e' := by
  have hi := inv_reach h
  have hw := hi.uniq w w' _ _ hb hb' rfl rfl hk
  subst hw
  rw [hb] at hb'
  simp at hb'
  exact ⟨rfl, hb'⟩

/-- Trace form of seriality: while some instance of a key is busy, no `take` for that key is enabled
    (no second processor call can start before the first one ended). -/
theorem serial_step (h : Reach lim ls s) {w w' : Wid} {e e' : Ev} {s' : State}
    (hb : s.pc w' = some (.busy e')) (ht : step s (.take w e) = some s') : w.key ≠ w'.key := by
  have hi := inv_reach h
  intro hk
  have huniq := hi.uniq w w'
  step_cases ht
  grind [Pc.live_spawned, Pc.live_waiting, Pc.live_busy]

/-- **The worker limit is respected**: never more than `worker_limit` worker tasks exist. -/
theorem limit_respected (h : Reach lim ls s) (n : Nat) (hl : lim = some n) : s.running.length ≤ n := by
  have hi := inv_reach h
  exact hi.limit_ok n (by rw [limit_const h, hl])

/-- **Quiescence ⇒ completeness** — the safety form of "an event that arrives at the very instant an
    idle worker retires is still processed": if the watch is alive and NO internal segment is enabled
    any more (nothing in the watcher's hand, no spawn, take, finish, timeout, exit or done-callback
    possible), then every delivered event of every non-failed key has been processed, in order, and
    no stream, queue entry or worker is left. Needs `worker_limit ≠ 0` (see `limit_zero_starves`). -/
theorem quiescent_complete (h : Reach lim ls s) (hpos : ∀ n, lim = some n → 0 < n)
    (hq : Quiescent step s) (hc : s.closing = false) :
    (∀ k, s.failedK k = false → s.processed k = s.arrived k) ∧
    (∀ k, s.streams k = none) ∧ (∀ w, s.pc w = none) ∧ s.pendingQ = [] ∧ s.running = [] := by
  have hi := inv_reach h
  have hlim := limit_const h
  have hcl : s.closed = false := by
    cases hcd : s.closed with
    | false => rfl
    | true => have := hi.closed_closing hcd; simp_all
  -- nothing in the watcher's hand
  have hhand : s.hand = none := by
    have := hq .insert rfl
    simp only [step, stepCore] at this
    split at this
    · cases this
    · assumption
  -- no instance is in a state from which it can move
  have hno : ∀ w p, s.pc w = some p → p = .pending := by
    intro w p hp
    cases p with
    | pending => rfl
    | spawned => exfalso; have := hq (.start w) rfl; simp [step, stepCore, hcl, hp] at this
    | waiting =>
      exfalso
      have hne := hi.live_stream w _ hp rfl
      cases hst : s.streams w.key with
      | none => exact hne hst
      | some b =>
        cases b with
        | nil => have := hq (.retire w) rfl; simp [step, stepCore, hcl, hp, hst] at this
        | cons i r =>
          cases i with
          | ev e => have := hq (.take w e) rfl; simp [step, stepCore, hcl, hp, hst] at this
          | eos => have := hq (.eosExit w) rfl; simp [step, stepCore, hcl, hp, hst] at this
    | busy e => exfalso; have := hq (.finish w) rfl; simp [step, stepCore, hcl, hp] at this
    | checked => exact absurd hp (hi.no_checked w)
    | leaving f => exfalso; have := hq (.left w) rfl; simp [step, stepCore, hp] at this
  have hrun : s.running = [] := by
    cases hr : s.running with
    | nil => rfl
    | cons w r =>
      exfalso
      obtain ⟨p, hp, hne⟩ := (hi.run_iff w).1 (by simp [hr])
      exact hne (hno w p hp)
  have hpend : s.pendingQ = [] := by
    cases hp : s.pendingQ with
    | nil => rfl
    | cons w r =>
      exfalso
      have := hq .spawn rfl
      have hcs : canSpawn s = true := by
        unfold canSpawn
        cases hl : s.limit with
        | none => rfl
        | some n => have := hpos n (by rw [← hlim, hl]); simp [hrun, this]
      simp [step, stepCore, hp, hcs] at this
  have hpc : ∀ w, s.pc w = none := by
    intro w
    cases hp : s.pc w with
    | none => rfl
    | some p =>
      exfalso
      have := hno w p hp
      subst this
      have := (hi.pend_iff w).2 hp
      simp [hpend] at this
  have hstr : ∀ k, s.streams k = none := by
    intro k
    cases hst : s.streams k with
    | none => rfl
    | some b =>
      exfalso
      obtain ⟨w, p, _, hp, _⟩ := hi.stream_live hcl k (by simp [hst])
      simp [hpc w] at hp
  refine ⟨?_, hstr, hpc, hpend, hrun⟩
  intro k hf
  have h1 := hi.lossless hcl k hf
  rw [hi.dropped_nil hc k] at h1
  have h2 : s.started k = s.processed k := by
    rcases hi.started_spec hcl k with h2 | ⟨w, e, _, hp, _⟩
    · exact h2
    · simp [hpc w] at hp
  simp [backlogEvs, handEvs, hstr k, hhand, h2] at h1
  exact h1.symm

/-- **No livelock: every internal segment makes progress.** `measure` (Model file) weighs the event in
    the watcher's hand, every worker instance by its program counter, every queued item of a served
    stream and the outstanding `scheduler.close()`; each label the system performs by itself — insert,
    spawn, start, take, timeout-take, finish, fail, retire, EOS exit, done-callback, EOS put, close,
    kill — strictly decreases it, in every reachable state. -/
theorem internal_terminates (h : Reach lim ls s) {l : Label} {s' : State} (hl : l.internal = true)
    (hs : step s l = some s') : measure s' < measure s :=
  measure_step (inv_reach h) hl hs

/-- Hence, without new arrivals and without an external cancellation, the system can perform at most
    `measure s` more segments, whatever their interleaving. -/
theorem internal_run_bounded (h : Reach lim ls s) :
    ∀ (ls' : List Label) (s' : State), (∀ l ∈ ls', l.internal = true) → run s ls' = some s' →
      ls'.length + measure s' ≤ measure s := by
  have hi := inv_reach h
  clear h
  intro ls'
  induction ls' generalizing s with
  | nil => intro s' _ hr; simp [run, runWith] at hr; subst hr; simp
  | cons l ls' ih =>
    intro s' hint hr
    simp only [run, runWith] at hr
    split at hr
    · rename_i s1 hs1
      have h1 := measure_step hi (hint l (by simp)) hs1
      have h2 := ih (inv_step hi hs1) s' (fun l' hl' => hint l' (by simp [hl'])) hr
      simp; omega
    · cases hr

/-- … and it does get there: from every reachable state some finite internal run (of length ≤
    `measure s`) ends in a quiescent state. With `internal_run_bounded` (EVERY internal run is that
    short) this is termination of the internal activity under any scheduling. -/
theorem reaches_quiescence (h : Reach lim ls s) :
    ∃ ls' s', (∀ l ∈ ls', l.internal = true) ∧ run s ls' = some s' ∧ Quiescent step s' ∧
      ls'.length ≤ measure s := by
  have hi := inv_reach h
  clear h
  generalize hn : measure s = n
  induction n using Nat.strongRecOn generalizing s with
  | _ n ih =>
    by_cases hq : Quiescent step s
    · exact ⟨[], s, by simp, rfl, hq, by simp⟩
    · have : ∃ l, l.internal = true ∧ step s l ≠ none := by
        apply Classical.byContradiction
        intro hne
        apply hq
        intro l hl
        apply Classical.byContradiction
        intro hs
        exact hne ⟨l, hl, hs⟩
      obtain ⟨l, hl, hs⟩ := this
      cases hs1 : step s l with
      | none => exact absurd hs1 hs
      | some s1 =>
        have hlt := measure_step hi hl hs1
        obtain ⟨ls', s', hint, hr, hq', hlen⟩ := ih (measure s1) (hn ▸ hlt) (inv_step hi hs1) rfl
        refine ⟨l :: ls', s', ?_, ?_, hq', ?_⟩
        · intro l' hl'
          rcases List.mem_cons.1 hl' with rfl | hl'
          · exact hl
          · exact hint l' hl'
        · simp only [run, runWith, hs1]; exact hr
        · simp; omega

/-- Corollary for whole-system quiescence (kept for reference; the per-key statements below do not need
    the whole system to be idle): a run that ends with nothing enabled and the watch alive has processed
    everything. -/
theorem quiescent_run_complete (h : Reach lim ls s) (hpos : ∀ n, lim = some n → 0 < n)
    (ls' : List Label) (s' : State) (hr : run s ls' = some s') (hq : Quiescent step s')
    (hc : s'.closing = false) (k : Key) (hf : s'.failedK k = false) :
    s'.processed k = s'.arrived k :=
  (quiescent_complete (ls := ls ++ ls') (run_append h hr) hpos hq hc).1 k hf

/-- **The pending queue is FIFO**: whatever segment runs, `Scheduler._pending_coros` stays as it was, or
    gets a newly created worker appended at its END (`insert`), or loses its HEAD, which is spawned
    (`spawn`). So a pending worker waits exactly for a free slot and for the workers enqueued before it —
    which is within "the configured worker limit" — and is never overtaken. -/
theorem pendingQ_fifo {s s' : State} {l : Label} (h : step s l = some s') :
    s'.pendingQ = s.pendingQ ∨ (∃ w, s'.pendingQ = s.pendingQ ++ [w] ∧ s'.pc w = some .pending) ∨
    (∃ w, s.pendingQ = w :: s'.pendingQ ∧ s'.pc w = some .spawned ∧ s'.running = s.running ++ [w]) := by
  cases l <;> step_cases h <;> simp_all

/-! ### Per key: progress, bounded work, completeness — independent of what other keys do

`kmeasure s k` (Model file) is the outstanding work of key `k` alone: its event in the watcher's hand, its
worker instances by program counter, its backlog. `l.key? s` is the key a label acts on. -/

/-- every internal segment of key `k` strictly decreases `k`'s outstanding work … -/
theorem key_step_decreases (h : Reach lim ls s) {l : Label} {s' : State} {k : Key}
    (hs : step s l = some s') (hk : l.key? s = some k) (hl : l.internal = true) :
    kmeasure s' k < kmeasure s k :=
  (measureOn_step (φ := fun j => j == k) (inv_reach h) hs).1 k hk (by simp) hl

/-- … and NO segment of anything else — another key's arrivals, processing, retirements, failures,
    spawns, the watcher's cancellation, `scheduler.close()` — ever increases it. Only an arrival for
    `k` itself can. -/
theorem key_step_frame (h : Reach lim ls s) {l : Label} {s' : State} {k : Key}
    (hs : step s l = some s') (hk : l.key? s ≠ some k) : kmeasure s' k ≤ kmeasure s k := by
  refine (measureOn_step (φ := fun j => j == k) (inv_reach h) hs).2 ?_
  intro k' hk'
  have : k' ≠ k := fun e => hk (e ▸ hk')
  simpa using this

/-- **Bounded work per key, under ANY behaviour of the other keys**: in every run from a reachable state
    that contains no further arrival for `k` (but arbitrary arrivals, processing and failures of other
    keys, cancellation, shutdown), the number of segments of `k` is at most `kmeasure s k`. -/
theorem key_work_bounded (h : Reach lim ls s) (k : Key) :
    ∀ (ls' : List Label) (s' : State), NoArrivalFor k ls' → run s ls' = some s' →
      kSteps k s ls' + kmeasure s' k ≤ kmeasure s k := by
  intro ls'
  induction ls' generalizing s ls with
  | nil => intro s' _ hr; simp [run, runWith] at hr; subst hr; simp [kSteps]
  | cons l ls' ih =>
    intro s' hna hr
    simp only [run, runWith] at hr
    split at hr
    · rename_i s1 hs1
      have h1 : Reach lim (ls ++ [l]) s1 := run_append h (by simp [run, runWith, hs1])
      have h2 := ih h1 s' (fun l' hl' => hna l' (by simp [hl'])) hr
      simp only [kSteps, hs1]
      by_cases hk : l.key? s = some k
      · have hl : l.internal = true := by
          have hn := hna l (by simp)
          cases l <;> simp [Label.internal] <;> simp [Label.key?] at hk
          · subst hk; exact ((hn _).1 rfl).elim
          · subst hk; exact ((hn _).2 rfl).elim
        have := key_step_decreases h hs1 hk hl
        simp [hk]; omega
      · have := key_step_frame h hs1 hk
        simp [hk]; omega
    · cases hr

/-- **Completeness per key**: as soon as key `k` has no outstanding work (`kmeasure s k = 0`: nothing of
    `k` in the hand, no worker instance of `k` left) and the watch is alive, every event ever delivered
    for `k` has been processed, in order — whatever the other keys are doing at that moment. -/
theorem key_done_complete (h : Reach lim ls s) (hc : s.closing = false) (k : Key)
    (hf : s.failedK k = false) (hz : kmeasure s k = 0) : s.processed k = s.arrived k := by
  have hi := inv_reach h
  have hcl : s.closed = false := by
    cases hcd : s.closed with
    | false => rfl
    | true => have := hi.closed_closing hcd; simp_all
  have hz' := hz
  simp only [kmeasure, measureOn] at hz'
  have hhand : handEvs s k = [] := by
    simp only [handEvs]
    cases hh : s.hand with
    | none => rfl
    | some ke =>
      obtain ⟨k', e⟩ := ke
      by_cases hkk : k' = k
      · subst hkk; simp [handW, hh] at hz'
      · simp [hkk]
  have hnoinst : ∀ w, w.key = k → s.pc w = none := by
    intro w hwk
    cases hp : s.pc w with
    | none => rfl
    | some p =>
      exfalso
      have hpos : 0 < instW s w := by
        simp only [instW, hp]; cases p <;> simp [pcW] <;> omega
      have hmem : w ∈ onKeys (fun j => j == k) s.pendingQ ∨ w ∈ onKeys (fun j => j == k) s.running := by
        by_cases hpp : p = .pending
        · subst hpp; exact Or.inl (mem_onKeys.2 ⟨(hi.pend_iff w).2 hp, by simp [hwk]⟩)
        · exact Or.inr (mem_onKeys.2 ⟨(hi.run_iff w).2 ⟨p, hp, hpp⟩, by simp [hwk]⟩)
      rcases hmem with hm | hm
      · have := sumW_pos_of_mem hm hpos; omega
      · have := sumW_pos_of_mem hm hpos; omega
  have hstr : s.streams k = none := by
    cases hst : s.streams k with
    | none => rfl
    | some b =>
      exfalso
      obtain ⟨w, p, hwk, hp, _⟩ := hi.stream_live hcl k (by simp [hst])
      rw [hnoinst w hwk] at hp; cases hp
  have h1 := lossless_ordered h hc k hf
  have h2 : inflight s k = [] := by
    rcases inflight_spec h hcl k with ⟨h2, _⟩ | ⟨w, e, hwk, hp, _⟩
    · exact h2
    · rw [hnoinst w hwk] at hp; cases hp
  simp [backlogEvs, hstr, hhand, h2] at h1
  exact h1.symm

/-- … and through the graceful drain of a shutdown (scheduler not yet closed): once key `k` has no
    outstanding work, everything delivered for it has been processed — except an event that was in the
    cancelled watcher's hand (`dropped`, empty in every real run). -/
theorem key_drained_complete (h : Reach lim ls s) (hcl : s.closed = false) (k : Key)
    (hf : s.failedK k = false) (hstr : s.streams k = none) (hh : handEvs s k = []) :
    s.arrived k = s.processed k ++ s.dropped k := by
  have hi := inv_reach h
  have h1 := (drain_lossless h hcl k hf).1
  have h2 : inflight s k = [] := by
    rcases inflight_spec h hcl k with ⟨h2, _⟩ | ⟨w, e, hwk, hp, _⟩
    · exact h2
    · exact absurd (hwk ▸ hstr) (hi.live_stream w _ hp rfl)
  simpa [backlogEvs, hstr, hh, h2] using h1

/-- **Progress per key — "events of different objects never wait for each other beyond the worker
    limit"**: while the scheduler is open, a key with a stream entry or an event in the watcher's hand can
    ALWAYS move by a segment of its own that is enabled right now — unless its worker is still queued in
    the scheduler, and then only because every slot is taken (`running.length ≥ limit`) or because an
    EARLIER-enqueued worker is at the head, which can be spawned right now (FIFO, `pendingQ_fifo`).
    Nothing else — no other key's backlog, processing time or idle worker outside the limit — can hold it. -/
theorem key_progress (h : Reach lim ls s) (hc : s.closed = false) (k : Key)
    (hw : s.streams k ≠ none ∨ ∃ e, s.hand = some (k, e)) :
    (∃ l, l.internal = true ∧ l.key? s = some k ∧ (step s l).isSome = true) ∨
    (∃ w, w.key = k ∧ s.pc w = some .pending ∧ w ∈ s.pendingQ ∧
      ((∃ n, s.limit = some n ∧ n ≤ s.running.length) ∨
       (∃ w', s.pendingQ.head? = some w' ∧ w' ≠ w ∧ (step s .spawn).isSome = true))) := by
  have hi := inv_reach h
  rcases hw with hst | ⟨e, hh⟩
  · obtain ⟨w, p, hwk, hp, hlive⟩ := hi.stream_live hc k hst
    subst hwk
    cases p with
    | pending =>
      have hmem := (hi.pend_iff w).2 hp
      cases hq : s.pendingQ with
      | nil => rw [hq] at hmem; cases hmem
      | cons w' rest =>
        by_cases hcs : canSpawn s = true
        · by_cases hww : w' = w
          · subst hww
            left
            exact ⟨.spawn, rfl, by simp [Label.key?, hq], by simp [step, stepCore, hq, hcs]⟩
          · right
            exact ⟨w, rfl, hp, hq ▸ hmem, Or.inr ⟨w', by simp, hww, by simp [step, stepCore, hq, hcs]⟩⟩
        · right
          refine ⟨w, rfl, hp, hq ▸ hmem, Or.inl ?_⟩
          unfold canSpawn at hcs
          cases hl : s.limit with
          | none => simp [hl] at hcs
          | some n => exact ⟨n, rfl, by simpa [hl] using hcs⟩
    | spawned => left; exact ⟨.start w, rfl, rfl, by simp [step, stepCore, hc, hp]⟩
    | waiting =>
      left
      cases hb : s.streams w.key with
      | none => exact absurd hb hst
      | some b =>
        cases b with
        | nil => exact ⟨.retire w, rfl, rfl, by simp [step, stepCore, hc, hp, hb]⟩
        | cons i r =>
          cases i with
          | ev e => exact ⟨.take w e, rfl, rfl, by simp [step, stepCore, hc, hp, hb]⟩
          | eos => exact ⟨.eosExit w, rfl, rfl, by simp [step, stepCore, hc, hp, hb]⟩
    | busy e => left; exact ⟨.finish w, rfl, rfl, by simp [step, stepCore, hc, hp]⟩
    | checked => exact absurd hp (hi.no_checked w)
    | leaving f => simp at hlive
  · left
    exact ⟨.insert, rfl, by simp [Label.key?, hh], by simp [step, stepCore, hh]⟩

/-- **A queued worker is never overtaken** (multi-step form of `pendingQ_fifo`): across any segment, a
    pending worker is either spawned or still pending with no MORE workers ahead of it than before. -/
theorem pending_never_overtaken (h : Reach lim ls s) {l : Label} {s' : State} {w : Wid}
    (hs : step s l = some s') (hw : w ∈ s.pendingQ) :
    s'.pc w = some .spawned ∨ (w ∈ s'.pendingQ ∧ s'.pendingQ.idxOf w ≤ s.pendingQ.idxOf w) := by
  have hi := inv_reach h
  rcases pendingQ_fifo hs with he | ⟨x, he, _⟩ | ⟨x, he, hx, _⟩
  · right; rw [he]; exact ⟨hw, Nat.le_refl _⟩
  · right; rw [he]
    exact ⟨by simp [hw], by simp [List.idxOf_append, hw]⟩
  · by_cases hxw : x = w
    · subst hxw; left; exact hx
    · right
      rw [he] at hw
      have hw' : w ∈ s'.pendingQ := by
        rcases List.mem_cons.1 hw with h1 | h1
        · exact absurd h1.symm hxw
        · exact h1
      refine ⟨hw', ?_⟩
      have hb : (x == w) = false := by simpa using hxw
      rw [he, List.idxOf_cons, hb]
      exact Nat.le_succ _

/-- `worker_limit = 0` starves every object (why `quiescent_complete` asks for a positive limit). -/
theorem limit_zero_starves :
    ∃ ls s, Reach (some 0) ls s ∧ Quiescent step s ∧ s.closing = false ∧ s.processed 0 ≠ s.arrived 0 := by
  refine ⟨[.miss 0 1, .insert], _, rfl, ?_, rfl, by decide⟩
  intro l hl
  cases l <;> simp [Label.internal] at hl <;>
    simp [step, stepCore, init, upd_apply, canSpawn] <;> (try split) <;> simp_all

/-- **Different objects wait for each other only through the worker limit.** A pending worker is started iff the pending queue is non-empty and
    `len(running) < limit` — "events of different objects never wait for each other beyond the
    configured worker limit". -/
theorem independent_spawn (s : State) :
    (step s .spawn).isSome = true ↔
      s.pendingQ ≠ [] ∧ (∀ n, s.limit = some n → s.running.length < n) := by
  cases hq : s.pendingQ with
  | nil => simp [step, stepCore, hq]
  | cons w r =>
    cases hl : s.limit with
    | none => simp [step, stepCore, canSpawn, hq, hl]
    | some n => by_cases hn : s.running.length < n <;> simp [step, stepCore, canSpawn, hq, hl, hn]

/-- **Frame**: a worker segment of key `k'` leaves every other key's component untouched — stream,
    histories, failure flag and the program counters of all other keys' instances. -/
theorem frame_other_key {s s' : State} {l : Label} {w : Wid} (k : Key) (hk : w.key ≠ k)
    (hl : l = .start w ∨ l = .take w e ∨ l = .finish w ∨ l = .fail w ∨ l = .timeoutTake w e ∨ l = .retire w ∨
          l = .eosExit w ∨ l = .kill w)
    (h : step s l = some s') :
    s'.streams k = s.streams k ∧ s'.arrived k = s.arrived k ∧ s'.started k = s.started k ∧
    s'.processed k = s.processed k ∧ s'.failedK k = s.failedK k ∧
    (∀ w', w'.key = k → s'.pc w' = s.pc w') := by
  have hk' : k ≠ w.key := fun h => hk h.symm
  have hw : ∀ w' : Wid, w'.key = k → w' ≠ w := by
    intro w' h1 h2; rw [h2] at h1; exact hk h1
  rcases hl with rfl | rfl | rfl | rfl | rfl | rfl | rfl | rfl <;> step_cases h <;>
    simp_all

/-! ### The multiplexer never waits for a worker; a failure that drops events ends the watch -/

/-- **No head-of-line blocking in the watcher**: while the watch is alive, whatever the workers, the
    scheduler and the backlogs look like (no reachability premise: ANY state) — an event of ANY key can be
    taken over at once: it is appended to the key's backlog (`arrive`) or, if there is none, taken in hand
    (`miss`); and an event in hand is turned into stream + pending worker at once (`insert`). No segment of the
    watcher has a guard on a worker's program counter, on a backlog's length, on the limit or on the running
    set: "events of different objects never wait for each other" in the multiplexer itself.
    (The harness checks the counterpart on the real watcher: it comes back to the stream within the same
    virtual instant, also when tens of events are queued behind a slow processor.) -/
theorem watcher_never_blocks (s : State) (hc : s.closing = false) :
    (s.hand = none → ∀ k e, (step s (.arrive k e)).isSome = true ∨ (step s (.miss k e)).isSome = true) ∧
    (∀ k e, s.hand = some (k, e) → (step s .insert).isSome = true) := by
  refine ⟨fun hh k e => ?_, fun k e hh => ?_⟩
  · cases hk : s.streams k with
    | none => right; simp [step, stepCore, hc, hh, hk]
    | some b => left; simp [step, stepCore, hc, hh, hk]
  · simp [step, stepCore, hh]

/-- An accepted event changes nothing but its own key's backlog / the watcher's hand and the arrival
    history: in particular no worker instance, no other backlog, nothing in the scheduler. -/
theorem arrival_frame {s s' : State} {k : Key} {e : Ev}
    (h : step s (.arrive k e) = some s' ∨ step s (.miss k e) = some s') :
    s'.pc = s.pc ∧ s'.pendingQ = s.pendingQ ∧ s'.running = s.running ∧ s'.started = s.started ∧
    s'.processed = s.processed ∧ (∀ k', k' ≠ k → s'.streams k' = s.streams k') := by
  rcases h with h | h <;> step_cases h <;> simp_all

/-- **A failure that drops events ends the watch** — why `failedK k = false` is the property's own scope
    ("while the watch is alive") and not an escape clause: once a worker of `k` died with an exception (its
    backlog is gone with it), either the watch is already over (`closing`: no `arrive`/`miss` is enabled any
    more), or the dead task is still in the scheduler's running set and the only thing it can do is `left`
    (the done-callback: `exception_handler` → `watcher_task.cancel()`), which sets `closing`. -/
theorem failure_ends_watch (h : Reach lim ls s) (k : Key) (hf : s.failedK k = true) :
    s.closing = true ∨
    ∃ w, w.key = k ∧ s.pc w = some (.leaving true) ∧ w ∈ s.running ∧
      ∀ s', step s (.left w) = some s' → s'.closing = true := by
  rcases failInv_reach h k hf with hc | ⟨w, hk, hp⟩
  · exact Or.inl hc
  · refine Or.inr ⟨w, hk, hp, ?_, ?_⟩
    · exact ((inv_reach h).run_iff w).mpr ⟨_, hp, by simp⟩
    · intro s' hs
      simp only [step, stepCore, hp] at hs
      cases hs
      simp

/-- … and once the watch is over nothing is taken from the stream any more. -/
theorem no_arrival_when_closing (s : State) (hc : s.closing = true) (k : Key) (e : Ev) :
    step s (.arrive k e) = none ∧ step s (.miss k e) = none := by
  simp [step, stepCore, hc]

/-! ### Which queue an event goes to -/

theorem orDash_inj {a b : Option String} (ha : FieldOK a) (hb : FieldOK b) (h : orDash a = orDash b) :
    a = b := by
  cases a <;> cases b <;> simp_all [orDash, FieldOK]
  all_goals (split at h <;> simp_all)

/-- **One object ↔ one queue (uid-less fallback)**: for two non-bookmark events without `metadata.uid`
    whose identity fields are well-formed, the keys coincide iff kind, apiVersion, name, namespace and
    creationTimestamp coincide; with a uid the key is the uid alone; bookmarks reach no queue.
    (`keyOf` is compared with the real `get_uid` / watcher filter on an exhaustive grid on every run.) -/
theorem keyOf_spec (r₁ r₂ : RawId) :
    (r₁.bookmark = true → keyOf r₁ = none) ∧
    (r₁.bookmark = false → ∀ u, r₁.uid = some u → keyOf r₁ = some [u]) ∧
    (r₁.bookmark = false → r₂.bookmark = false → r₁.uid = none → r₂.uid = none →
      FieldOK r₁.kind → FieldOK r₂.kind → FieldOK r₁.apiVersion → FieldOK r₂.apiVersion →
      FieldOK r₁.name → FieldOK r₂.name → FieldOK r₁.ns → FieldOK r₂.ns → FieldOK r₁.ts → FieldOK r₂.ts →
      (keyOf r₁ = keyOf r₂ ↔ r₁.kind = r₂.kind ∧ r₁.apiVersion = r₂.apiVersion ∧ r₁.name = r₂.name ∧
        r₁.ns = r₂.ns ∧ r₁.ts = r₂.ts)) := by
  refine ⟨fun h => by simp [keyOf, h], fun h u hu => by simp [keyOf, h, hu], ?_⟩
  intro h1 h2 u1 u2 k1 k2 a1 a2 n1 n2 s1 s2 t1 t2
  simp only [keyOf, h1, h2, u1, u2]
  constructor
  · intro h
    simp at h
    exact ⟨orDash_inj k1 k2 h.1, orDash_inj a1 a2 h.2.1, orDash_inj n1 n2 h.2.2.1,
           orDash_inj s1 s2 h.2.2.2.1, orDash_inj t1 t2 h.2.2.2.2⟩
  · rintro ⟨e1, e2, e3, e4, e5⟩
    simp [e1, e2, e3, e4, e5]

/-- **Non-vacuity of the whole development**: split the worker's retirement into "see the empty
    backlog" and "`del streams[key]`" with one interleaving point in between (`stepBuggy`), and an event
    arriving in that window is lost for ever: the system is quiescent, the watch alive, and
    `processed ≠ arrived`. Explicit 10-label witness. -/
theorem buggy_loses :
    ∃ ls s, ReachBuggy none ls s ∧ Quiescent stepBuggy s ∧ s.closing = false ∧
      s.failedK 0 = false ∧ s.arrived 0 = [1, 2] ∧ s.processed 0 = [1] := by
  refine ⟨[.miss 0 1, .insert, .spawn, .start ⟨0, 0⟩, .take ⟨0, 0⟩ 1, .finish ⟨0, 0⟩, .retireCheck ⟨0, 0⟩,
           .arrive 0 2, .retireErase ⟨0, 0⟩, .left ⟨0, 0⟩], _, rfl, ?_, rfl, rfl, by decide, by decide⟩
  apply quiescent_of_idle
  · intro w; by_cases hw : w = ⟨0, 0⟩ <;> simp [hw, init]
  · rfl
  · rfl
  · rfl

-- ---- non-vacuity of the hypotheses --------------------------------------------------------------

/-- `failure_ends_watch` is not vacuous: a run in which a processor fails with an event queued behind it — the
    event is gone, the dead task is still in the running set, and its `left` ends the watch. -/
example : ∃ s, Reach none [.miss 0 1, .insert, .spawn, .start ⟨0, 0⟩, .take ⟨0, 0⟩ 1, .arrive 0 2, .fail ⟨0, 0⟩] s ∧
    s.failedK 0 = true ∧ s.closing = false ∧ s.streams 0 = none ∧ s.arrived 0 = [1, 2] ∧ s.processed 0 = [1] ∧
    s.pc ⟨0, 0⟩ = some (.leaving true) := ⟨_, rfl, by decide, by decide, by decide, by decide, by decide, by decide⟩

/-- `watcher_never_blocks` on a loaded state: limit 1, the only slot busy, two events queued, another worker pending. -/
example : ∃ s, Reach (some 1) [.miss 0 1, .insert, .spawn, .start ⟨0, 0⟩, .take ⟨0, 0⟩ 1, .arrive 0 2, .arrive 0 3,
      .miss 1 4, .insert] s ∧ s.closing = false ∧ s.hand = none ∧ s.running.length = 1 ∧ s.pendingQ.length = 1 ∧
    (step s (.arrive 0 5)).isSome = true ∧ (step s (.arrive 1 6)).isSome = true ∧ (step s (.miss 2 7)).isSome = true :=
  ⟨_, rfl, by decide, by decide, by decide, by decide, by decide, by decide, by decide⟩

/-- a reachable, non-trivial state meeting the hypotheses of `lossless_ordered`, `stream_iff_worker`,
    `inflight_spec`, `serial`: key 0 busy with event 1 while 2 waits, key 1 busy with 3, limit 2. -/
def exampleTrace : List Label :=
  [.miss 0 1, .insert, .spawn, .start ⟨0, 0⟩, .take ⟨0, 0⟩ 1, .arrive 0 2, .miss 1 3, .insert, .spawn, .start ⟨1, 0⟩, .take ⟨1, 0⟩ 3]

example : ∃ s, Reach (some 2) exampleTrace s ∧ s.closing = false ∧ s.closed = false ∧
    s.failedK 0 = false ∧ s.pc ⟨0, 0⟩ = some (.busy 1) ∧ s.pc ⟨1, 0⟩ = some (.busy 3) ∧
    s.arrived 0 = [1, 2] ∧ s.processed 0 = [] ∧ inflight s 0 = [1] ∧ backlogEvs s 0 = [2] ∧
    s.running.length = 2 :=
  ⟨_, rfl, rfl, rfl, rfl, by decide, by decide, by decide, by decide, by decide, by decide, by decide⟩

/-- the dangerous schedule itself, in the model of the real code: the idle worker retires (atomically),
    the event that "arrived at that very instant" finds no stream, a second generation is spawned and
    processes it; the final state is quiescent and complete. -/
example : ∃ s, Reach none [.miss 0 1, .insert, .spawn, .start ⟨0, 0⟩, .take ⟨0, 0⟩ 1, .finish ⟨0, 0⟩, .retire ⟨0, 0⟩,
      .miss 0 2, .insert, .left ⟨0, 0⟩, .spawn, .start ⟨0, 1⟩, .take ⟨0, 1⟩ 2, .finish ⟨0, 1⟩, .retire ⟨0, 1⟩,
      .left ⟨0, 1⟩] s ∧ s.closing = false ∧ s.processed 0 = [1, 2] ∧ s.arrived 0 = [1, 2] :=
  ⟨_, rfl, rfl, by decide, by decide⟩

/-- the other order of the same instant: the event is put first, the timeout fires on a filled queue
    (`timeoutTake`, the case the code comment calls impossible to simulate), nothing is lost either. -/
example : ∃ s, Reach none [.miss 0 1, .insert, .spawn, .start ⟨0, 0⟩, .take ⟨0, 0⟩ 1, .finish ⟨0, 0⟩, .arrive 0 2,
      .timeoutTake ⟨0, 0⟩ 2, .finish ⟨0, 0⟩] s ∧ s.processed 0 = [1, 2] ∧ s.arrived 0 = [1, 2] :=
  ⟨_, rfl, by decide, by decide⟩

/-- `Quiescent step s` for a non-trivial reachable state of the REAL `step`: after the dangerous schedule
    (retire, re-insert, second generation) nothing internal is enabled, and `quiescent_complete`'s
    conclusion can be read off: both events processed, in order. -/
example : ∃ s, Reach (some 1) [.miss 0 1, .insert, .spawn, .start ⟨0, 0⟩, .take ⟨0, 0⟩ 1, .finish ⟨0, 0⟩,
      .retire ⟨0, 0⟩, .miss 0 2, .insert, .left ⟨0, 0⟩, .spawn, .start ⟨0, 1⟩, .take ⟨0, 1⟩ 2,
      .finish ⟨0, 1⟩, .retire ⟨0, 1⟩, .left ⟨0, 1⟩] s ∧ Quiescent step s ∧ s.closing = false ∧
      s.arrived 0 = [1, 2] ∧ s.processed 0 = [1, 2] := by
  refine ⟨_, rfl, ?_, rfl, by decide, by decide⟩
  apply quiescent_of_idle (b := false)
  · intro w
    by_cases h0 : w = ⟨0, 0⟩
    · simp [h0, init]
    · by_cases h1 : w = ⟨0, 1⟩ <;> simp [h0, h1, init]
  · rfl
  · rfl
  · rfl

/-- … and a quiescent state that is NOT idle (limit 0: a pending worker that can never be spawned) is
    `limit_zero_starves`. A state in the middle of the work is not quiescent and its measure is positive: -/
example : ∃ s, Reach (some 2) exampleTrace s ∧ measure s = 11 ∧ ¬ Quiescent step s := by
  refine ⟨_, rfl, by decide, ?_⟩
  intro hq
  have := hq (.finish ⟨0, 0⟩) rfl
  simp [step, stepCore, init] at this

/-- in the model of the real code the window of `buggy_loses` does not exist: `retireCheck` is not a label
    of `step` at all. -/
example (s : State) (w : Wid) : step s (.retireCheck w) = none := by simp [step, stepCore]

/-! ### The hand-over inside `Scheduler.spawn()` (model `C01_Sched.lean`)

The LTS above treats `scheduler.spawn(worker(..))` as part of ONE atomic `insert`, and `spawn` / `left` as always
possible when their guards hold. That rests on a fact about `aiotasks.Scheduler` itself: `spawn()` puts the job
into `_pending_coros` while HOLDING `_condition`'s lock, and the spawner and the cleaner need that lock. The
theorems below are about every label list of the scheduler model, for every worker limit. -/

/-- **`spawn()` never waits, and never keeps the lock.** With the pending queue unbounded (the code as it is:
    `asyncio.Queue()`), in EVERY reachable state of the scheduler nobody is suspended inside the locked section,
    and a call of `spawn(j)` completes within its own segment: the job is pending, the spawner is notified, the lock
    is free again — whatever the limit, however many jobs are pending or running. (This is what makes `insert` of
    the main LTS atomic and `watcher_never_blocks` true of the code.) -/
theorem sched_spawn_never_blocks {limit : Option Nat} {ls : List Sched.L} {s : Sched.S}
    (h : Sched.Reach none limit ls s) :
    s.blocked = none ∧
    ∀ j, ∃ s', Sched.step s (.call j) = some s' ∧ s'.blocked = none ∧ s'.pending = s.pending ++ [j] ∧
      s'.accepted = s.accepted ++ [j] ∧ s'.notified = true := by
  have hi := Sched.run_inv ls _ s (Sched.inv_init limit) h
  obtain ⟨hc, hb, _⟩ := hi
  refine ⟨hb, fun j => ?_⟩
  have hstep : Sched.step s (.call j) =
      some { s with pending := s.pending ++ [j], notified := true, accepted := s.accepted ++ [j] } := by
    simp only [Sched.step, hb, if_true, Sched.hasPlace_unbounded s hc]
  exact ⟨_, hstep, hb, rfl, rfl, rfl⟩

/-- **No lost wake-up.** With the unbounded queue: whenever a job is pending and a slot is free (`_can_spawn()`),
    the spawner's round or the cleaner's notification is enabled — a free slot is always handed on. -/
theorem sched_free_slot_is_used {limit : Option Nat} {ls : List Sched.L} {s : Sched.S}
    (h : Sched.Reach none limit ls s) (hp : s.pending ≠ []) (hr : Sched.room s.limit s.running = true) :
    (Sched.step s .round).isSome = true ∨ (Sched.step s .clean).isSome = true := by
  obtain ⟨_, hb, hw⟩ := Sched.run_inv ls _ s (Sched.inv_init limit) h
  rcases hw hp hr with hn | hcl
  · left; simp [Sched.step, hn, hb]
  · right
    cases hcq : s.cleaning with
    | nil => exact absurd hcq hcl
    | cons t rest => simp [Sched.step, hcq, hb]

/-- **A `put()` that once waits for a place waits for ever** (any bound, any limit, any state — not only reachable
    ones): while a `spawn()` is suspended on the full pending queue it holds the lock, so neither the spawner nor the
    cleaner nor another `spawn()` can run: whatever happens afterwards (`ls` arbitrary), the only segments are running
    tasks ending; the pending jobs are never started, the waiting job is never accepted. -/
theorem sched_blocked_put_is_forever {s s' : Sched.S} {j : Nat} {ls : List Sched.L}
    (hb : s.blocked = some j) (hf : Sched.hasPlace s = false) (h : Sched.run s ls = some s') :
    s'.blocked = some j ∧ s'.pending = s.pending ∧ s'.accepted = s.accepted ∧ ∀ l ∈ ls, ∃ i, l = .done i :=
  Sched.blocked_run ls s s' j hb hf h

/-- **The variant with a bounded pending queue loses events** (`asyncio.Queue(maxsize=limit)`, limit 1): one worker
    running, one pending, a third object's `spawn()` waits for a place holding the lock; the running worker ends —
    a slot is free, a job is pending, and NO segment at all is enabled any more: the watcher never returns to the
    watch-stream. With the unbounded queue the same calls leave the spawner's round enabled (`example` below). -/
theorem sched_bounded_queue_deadlock_witness :
    ∃ s, Sched.Reach (some 1) (some 1) [.call 0, .round, .call 1, .round, .call 2, .done 0] s ∧
      s.pending = [1] ∧ s.running = [] ∧ Sched.canSpawn s = true ∧ s.blocked = some 2 ∧ s.accepted = [0, 1] ∧
      ∀ l, Sched.step s l = none := by
  refine ⟨_, rfl, rfl, rfl, rfl, rfl, rfl, ?_⟩
  intro l
  cases l <;> rfl

/-- non-vacuity of `sched_blocked_put_is_forever`: the state before `done 0` of the witness meets its hypotheses -/
example : ∃ s, Sched.Reach (some 1) (some 1) [.call 0, .round, .call 1, .round, .call 2] s ∧
    s.blocked = some 2 ∧ Sched.hasPlace s = false := ⟨_, rfl, rfl, rfl⟩

/-- the same calls on the code as it is (unbounded queue): the third job is accepted at once, and after the running
    worker has ended the cleaner's notification and then the spawner's round start the next pending job -/
example : ∃ s, Sched.Reach none (some 1) [.call 0, .round, .call 1, .round, .call 2, .done 0, .clean, .round] s ∧
    s.pending = [2] ∧ s.running = [1] ∧ s.blocked = none ∧ s.accepted = [0, 1, 2] := ⟨_, rfl, rfl, rfl, rfl, rfl⟩

end Kopf.C01
