/-
  C16 — property theorems only.  Persistence storages round-trip, purge completely, isolate, and
  generate annotation names that are stable, valid (`Props/C16_Keys.lean`, full since kopf c2cffd8),
  and — under the stated guards only — distinct.

  All theorems quantify over ALL handler ids `k : List Char`, ALL records / essences, ALL bodies
  and ALL (well-formed, i.e. unique-key) patches already accumulated in the cycle; `env.sfx`
  (the blake2b-derived suffix), `env.enc` / `env.dec` (json.dumps / json.loads) are arbitrary
  functions, constrained only by the stated hypotheses.

  Reading guide: `mergePatch body patch` is what the API server stores after the PATCH (RFC 7386);
  `resolve? obj path` is what a reader finds at `path`; `annPath n` = metadata.annotations[n].

  Hypotheses that look technical and why they are there:
  * `wf patch0`      — the patch accumulated so far is a JSON object tree with unique keys
                       (a Python dict always is);
  * `MarkStable p0`  — the patch so far does not rewrite `kind` / `metadata.ownerReferences`
                       (the ReplicaSet-of-Deployment marking must see the same object before and
                       after the PATCH); `obj []` and everything the storages write satisfy it;
  * `hc : dec (enc x) = some x` — `json.loads(json.dumps(x)) == x` for the value written (only
                       that instance of the round-trip law of the codec is used);
  * `FieldApart f`   — a status storage's field is not under `metadata`.
-/
import Kopf.Model.C16_Storage
import Kopf.Model.C16_Names
import Kopf.Lemmas.C16_Merge
import Kopf.Lemmas.C16_Ops
import Kopf.Lemmas.C16_Keys
import Kopf.Lemmas.C16_Clear
import Kopf.Lemmas.C16_StatusClear
import Kopf.Lemmas.C16_Multi
import Kopf.Lemmas.C16_Restore
import Kopf.Model.C16_Listed
namespace Kopf.C16
open Kopf Kopf.J

/-! ## Round trip -/

/-- AnnotationsProgressStorage: whatever record is stored for ANY handler id, into ANY patch, is
    what `fetch` reads from the patched object (nulls dropped unless `verbose`). -/
theorem roundtrip_ann (env : Env) (c : AnnCfg) (body patch0 patch' : J) (k : Str) (r : Rec)
    (hc : env.dec (env.enc (obj (stored c.verbose r))) = some (obj (stored c.verbose r)))
    (hw : wf patch0 = true) (hs : MarkStable patch0)
    (h : annStore env c body patch0 k r = .ok patch') :
    annFetch env c (mergePatch body patch') k = .ok (some (obj (stored c.verbose r))) := by
  unfold annStore at h
  cases h1 : ensureAll patch0 (annNames env c.pfx c.v1 body k) (str (env.enc (obj (stored c.verbose r)))) with
  | error e => rw [h1] at h; cases h
  | ok p1 =>
    rw [h1] at h
    have t1 := ensureAll_touches _ (wf_str _) h1
    have t2 := storeMarker_touches h
    have hw1 := t1.keepsWf hw
    have hw' := t2.keepsWf hw1
    have hs1 : MarkStable p1 := hs.of_touches_ann t1
    have hs' : MarkStable patch' := hs1.of_touches_ann (names := [markerName c.pfx]) (by simpa using t2)
    obtain ⟨rest, hn⟩ := makeKeys_head c.pfx c.v1 env.sfx (markKey (isDRS body) k)
    have hset := ensureAll_set _ (wf_str _) (by simp) h1 (v2Key c.pfx env.sfx (markKey (isDRS body) k))
      (by simp [annNames, hn])
    have hset' := storeMarker_keep h _ _ hset
    unfold annFetch
    rw [annNames, isDRS_merge hw' hs' body, hn]
    exact fetchNames_head env _ _ _ _ _ (merged_set_str hw' body _ _ hset') hc (by simp)

/-- StatusProgressStorage: the patched object holds, under the handler's key, the merge of the
    record over whatever was there; for a flat record (unique keys, no nested objects — the shape
    of `ProgressRecord`) whose keys cover the older record's keys, every field reads as the record
    without its nulls ("Nones are cleaned by K8s API itself"). -/
theorem roundtrip_status (c : StatusCfg) (hnw : c.noWrite = false) (body patch0 patch' : J) (k : Str) (r : Rec)
    (hw : wf patch0 = true) (hr : FlatRec r)
    (hcov : ∀ f, lookup f r = none →
      lookup f (kvsOf ((resolve? body (c.field ++ [String.ofList k])).getD null)) = none)
    (h : statusStore c patch0 k r = .ok patch') :
    ∃ m, statusFetch c (mergePatch body patch') k = .ok (some (obj m)) ∧
      ∀ f, lookup f m = lookup f (stored false r) := by
  simp only [statusStore, hnw, Bool.false_eq_true, if_false] at h
  have t := touches_ensure (wf_of_flat hr) (liftD_ok h)
  have hw' := t.keepsWf hw
  have hp := probe_ensure_same _ _ _ _ (liftD_ok h)
  simp only [Probe.ofValue] at hp
  have hm := resolve_merge (c.field ++ [String.ofList k]) patch' hw' body
  rw [hp] at hm
  simp only [mergedAt, mergePatch_obj] at hm
  exact ⟨_, statusFetch_of_resolve c _ k _ hm (by simp), lookup_merge_record _ r hr hcov⟩

/-- … and exactly the record without its nulls when the handler had no (object) record before. -/
theorem roundtrip_status_fresh (c : StatusCfg) (hnw : c.noWrite = false) (body patch0 patch' : J) (k : Str) (r : Rec)
    (hw : wf patch0 = true) (hr : FlatRec r)
    (hfresh : kvsOf ((resolve? body (c.field ++ [String.ofList k])).getD null) = [])
    (h : statusStore c patch0 k r = .ok patch') :
    statusFetch c (mergePatch body patch') k = .ok (some (obj (stored false r))) := by
  simp only [statusStore, hnw, Bool.false_eq_true, if_false] at h
  have t := touches_ensure (wf_of_flat hr) (liftD_ok h)
  have hw' := t.keepsWf hw
  have hp := probe_ensure_same _ _ _ _ (liftD_ok h)
  simp only [Probe.ofValue] at hp
  have hm := resolve_merge (c.field ++ [String.ofList k]) patch' hw' body
  rw [hp] at hm
  simp only [mergedAt, mergePatch_obj, hfresh] at hm
  rw [mergeKvs_fresh r hr [] (by simp)] at hm
  exact statusFetch_of_resolve c _ k _ hm (by simp)

/-- SmartProgressStorage (annotations first, status read-and-purge only). General Multi storages:
    `roundtrip_multi` below. -/
theorem roundtrip_smart (env : Env) (a : AnnCfg) (field touchField : Path)
    (body patch0 patch' : J) (k : Str) (r : Rec)
    (hc : env.dec (env.enc (obj (stored a.verbose r))) = some (obj (stored a.verbose r)))
    (hw : wf patch0 = true) (hs : MarkStable patch0)
    (h : store env body k r patch0 (smart a field touchField) = .ok patch') :
    fetch env (mergePatch body patch') k (smart a field touchField) = .ok (some (obj (stored a.verbose r))) := by
  simp only [smart, store, Leaf.store, statusStore, if_true] at h
  cases h1 : annStore env a body patch0 k r with
  | error e => rw [h1] at h; cases h
  | ok p1 =>
    rw [h1] at h
    simp at h; subst h
    simp only [smart, fetch, Leaf.fetch, roundtrip_ann env a body patch0 p1 k r hc hw hs h1]

/-- AnnotationsDiffBaseStorage: the last-handled state is read back as stored. -/
theorem roundtrip_diffbase (env : Env) (c : AnnDiffCfg) (body patch0 patch' essence : J)
    (hc : env.dec (env.enc essence ++ newline) = some essence)
    (hw : wf patch0 = true) (hs : MarkStable patch0) (he : essence ≠ null)
    (h : DLeaf.store env body patch0 essence (.ann c) = .ok patch') :
    DLeaf.fetch env (mergePatch body patch') (.ann c) = .ok (some essence) := by
  simp only [DLeaf.store] at h
  cases h1 : ensureAll patch0 (annNames env c.pfx c.v1 body c.key) (str (env.enc essence ++ newline)) with
  | error e => rw [h1] at h; cases h
  | ok p1 =>
    rw [h1] at h
    have t1 := ensureAll_touches _ (wf_str _) h1
    have t2 := storeMarker_touches h
    have hw1 := t1.keepsWf hw
    have hw' := t2.keepsWf hw1
    have hs1 : MarkStable p1 := hs.of_touches_ann t1
    have hs' : MarkStable patch' := hs1.of_touches_ann (names := [markerName c.pfx]) (by simpa using t2)
    obtain ⟨rest, hn⟩ := makeKeys_head c.pfx c.v1 env.sfx (markKey (isDRS body) c.key)
    have hset := ensureAll_set _ (wf_str _) (by simp) h1 (v2Key c.pfx env.sfx (markKey (isDRS body) c.key))
      (by simp [annNames, hn])
    have hset' := storeMarker_keep h _ _ hset
    simp only [DLeaf.fetch]
    rw [annNames, isDRS_merge hw' hs' body, hn]
    exact fetchNames_head env _ _ _ _ _ (merged_set_str hw' body _ _ hset') hc he

/-- StatusDiffBaseStorage -/
theorem roundtrip_diffbase_status (env : Env) (field : Path) (body patch0 patch' essence : J)
    (hc : env.dec (env.enc essence) = some essence)
    (hw : wf patch0 = true) (he : essence ≠ null)
    (h : DLeaf.store env body patch0 essence (.status field) = .ok patch') :
    DLeaf.fetch env (mergePatch body patch') (.status field) = .ok (some essence) := by
  simp only [DLeaf.store] at h
  have t := touches_ensure (wf_str _) (liftD_ok h)
  have hw' := t.keepsWf hw
  have hp := probe_ensure_same _ _ _ _ (liftD_ok h)
  simp only [Probe.ofValue] at hp
  have hm := merged_set_str hw' body field _ hp
  simp only [DLeaf.fetch, resolveD, hm, Option.getD_some, hc]

/-! ## Multi storages (any tree of storages)

`STree` mirrors the recursion of `MultiProgressStorage` (a Multi may contain Multis). Every
operation on a tree is the operation on the flat list of its leaves (`tree_ops_flat`), and the
theorems below are stated for trees through `t.flatten`. -/

/-- a storage tree behaves, for all five operations, as the flat list of its leaves -/
theorem tree_ops_flat (env : Env) (body : J) (k : Str) (r : Rec) (value patch : J) (t : STree) :
    STree.store env body k r patch t = store env body k r patch t.flatten ∧
    STree.fetch env body k t = fetch env body k t.flatten ∧
    STree.purge env body k patch t = purge env body k patch t.flatten ∧
    STree.touch env body value patch t = touch env body value patch t.flatten ∧
    STree.clear patch t = clear patch t.flatten := by
  refine ⟨?_, fetch_flatten env body k t, ?_, ?_, ?_⟩
  · rw [STree.store, run_flatten, store_eq_runLeaves]
  · rw [STree.purge, run_flatten, purge_eq_runLeaves]
  · rw [STree.touch, run_flatten, touch_eq_runLeaves]
  · rw [STree.clear, run_flatten, clear_eq_runLeaves]

/-- the same for diff-base storage trees -/
theorem dtree_ops_flat (env : Env) (body essence patch : J) (t : DTree) :
    DTree.store env body essence t patch = dstore env body essence patch t.flatten ∧
    DTree.fetch env body t = dfetch env body t.flatten :=
  ⟨dstore_flatten env body essence t patch, dfetch_flatten env body t⟩

/-- **Round trip through any Multi storage whose first leaf is an annotations storage** (Smart is
    the instance `[ann, status(no-write)]`): if none of the later leaves writes at the head's v2
    annotation, at `kind` or at `metadata.ownerReferences`, the stored record is what `fetch` of
    the whole tree reads from the patched object. -/
theorem roundtrip_multi (env : Env) (t : STree) (c : AnnCfg) (rest : Storage) (hflat : t.flatten = .ann c :: rest)
    (body patch0 patch' : J) (k : Str) (r : Rec)
    (hc : env.dec (env.enc (obj (stored c.verbose r))) = some (obj (stored c.verbose r)))
    (hw : wf patch0 = true) (hs : MarkStable patch0) (hr : wf (obj r) = true)
    (hrest : ∀ path ∈ rest.flatMap (Leaf.writes env body k),
      diverge (annPath (v2Key c.pfx env.sfx (markKey (isDRS body) k))) path = true ∧
      diverge ["kind"] path = true ∧ diverge ["metadata", "ownerReferences"] path = true)
    (h : STree.store env body k r patch0 t = .ok patch') :
    STree.fetch env (mergePatch body patch') k t = .ok (some (obj (stored c.verbose r))) := by
  rw [(tree_ops_flat env body k r null patch0 t).1, hflat] at h
  rw [(tree_ops_flat env (mergePatch body patch') k r null patch0 t).2.1, hflat]
  simp only [store, Leaf.store] at h
  cases h1 : annStore env c body patch0 k r with
  | error e => rw [h1] at h; cases h
  | ok p1 =>
    rw [h1] at h
    obtain ⟨hw1, hs1, hp1⟩ := annStore_facts hw hs h1
    have t2 := store_touches hr rest h
    have hw' := t2.keepsWf hw1
    have hs' : MarkStable patch' :=
      hs1.of_touches t2 (fun path hp => (hrest path hp).2.1) (fun path hp => (hrest path hp).2.2)
    have hp' : probe patch' (annPath (v2Key c.pfx env.sfx (markKey (isDRS body) k)))
        = .set (str (env.enc (obj (stored c.verbose r)))) := by
      rw [t2.other _ (fun path hp => (hrest path hp).1)]; exact hp1
    simp only [fetch, Leaf.fetch, annFetch_of_probe hw' hs' hp' hc (by simp)]

/-- sufficient, checkable conditions for `roundtrip_multi`: the head's prefix is plain and every
    later leaf is `LeafApart` from it (another plain prefix, or a status field outside `metadata`). -/
theorem roundtrip_multi_apart (env : Env) (t : STree) (c : AnnCfg) (rest : Storage) (hflat : t.flatten = .ann c :: rest)
    (body patch0 patch' : J) (k : Str) (r : Rec)
    (hc : env.dec (env.enc (obj (stored c.verbose r))) = some (obj (stored c.verbose r)))
    (hw : wf patch0 = true) (hs : MarkStable patch0) (hr : wf (obj r) = true)
    (hp : PlainPrefix c.pfx) (hapart : ∀ l ∈ rest, LeafApart c.pfx l)
    (h : STree.store env body k r patch0 t = .ok patch') :
    STree.fetch env (mergePatch body patch') k t = .ok (some (obj (stored c.verbose r))) := by
  refine roundtrip_multi env t c rest hflat body patch0 patch' k r hc hw hs hr ?_ h
  intro path hpath
  obtain ⟨l, hl, hpl⟩ := List.mem_flatMap.1 hpath
  have ha := hapart l hl
  cases l with
  | ann c' =>
    obtain ⟨hne, hp'⟩ := ha
    -- every path the other annotations storage writes is an annotation `c'.pfx/…`
    have hform : ∃ n', path = annPath (c'.pfx ++ '/' :: n') := by
      simp only [Leaf.writes, List.mem_append, List.mem_map, List.mem_singleton] at hpl
      rcases hpl with ⟨n, hn, rfl⟩ | rfl
      · obtain ⟨name, rfl⟩ := own_names_of_makeKeys c'.pfx hp'.1 c'.v1 env.sfx _ n hn
        exact ⟨name, rfl⟩
      · exact ⟨"kopf-managed".toList, rfl⟩
    obtain ⟨n', rfl⟩ := hform
    refine ⟨?_, diverge_kind_ann _, diverge_owners_ann _⟩
    apply diverge_annPath
    rw [v2Key_eq, pre_of_ne hp.1]
    intro e
    have e' : c.pfx ++ '/' :: v2Name env.sfx (markKey (isDRS body) k) = c'.pfx ++ '/' :: n' := by
      simpa using e
    exact hne (slash_split_unique _ _ _ _ hp.2 hp'.2 e').1.symm
  | status sc =>
    simp only [Leaf.writes] at hpl
    split at hpl
    · cases hpl
    · simp at hpl; subst hpl
      exact ⟨ha.diverge_ann _ _, ha.diverge_kind _, ha.diverge_owners _⟩

/-- **… whose first leaf is a (writing) status storage**: same conclusion as `roundtrip_status`. -/
theorem roundtrip_multi_status_head (env : Env) (t : STree) (sc : StatusCfg) (rest : Storage)
    (hflat : t.flatten = .status sc :: rest) (hnw : sc.noWrite = false)
    (body patch0 patch' : J) (k : Str) (r : Rec) (hw : wf patch0 = true) (hr : FlatRec r)
    (hcov : ∀ f, lookup f r = none →
      lookup f (kvsOf ((resolve? body (sc.field ++ [String.ofList k])).getD null)) = none)
    (hrest : ∀ path ∈ rest.flatMap (Leaf.writes env body k),
      diverge (sc.field ++ [String.ofList k]) path = true)
    (h : STree.store env body k r patch0 t = .ok patch') :
    ∃ m, STree.fetch env (mergePatch body patch') k t = .ok (some (obj m)) ∧
      ∀ f, lookup f m = lookup f (stored false r) := by
  rw [(tree_ops_flat env body k r null patch0 t).1, hflat] at h
  rw [(tree_ops_flat env (mergePatch body patch') k r null patch0 t).2.1, hflat]
  simp only [store, Leaf.store] at h
  cases h1 : statusStore sc patch0 k r with
  | error e => rw [h1] at h; cases h
  | ok p1 =>
    rw [h1] at h
    simp only [statusStore, hnw, Bool.false_eq_true, if_false] at h1
    have t1 := touches_ensure (wf_of_flat hr) (liftD_ok h1)
    have hw1 := t1.keepsWf hw
    have t2 := store_touches (wf_of_flat hr) rest h
    have hw' := t2.keepsWf hw1
    have hp := probe_ensure_same _ _ _ _ (liftD_ok h1)
    simp only [Probe.ofValue] at hp
    have hm := resolve_merge (sc.field ++ [String.ofList k]) patch' hw' body
    rw [t2.other _ hrest, hp] at hm
    simp only [mergedAt, mergePatch_obj] at hm
    refine ⟨_, ?_, lookup_merge_record _ r hr hcov⟩
    simp only [fetch, Leaf.fetch, statusFetch_of_resolve sc _ k _ hm (by simp)]

/-- diff-base Multi storages headed by an annotations storage -/
theorem roundtrip_dmulti (env : Env) (t : DTree) (c : AnnDiffCfg) (rest : DStorage)
    (hflat : t.flatten = .ann c :: rest) (body patch0 patch' essence : J)
    (hc : env.dec (env.enc essence ++ newline) = some essence)
    (hw : wf patch0 = true) (hs : MarkStable patch0) (he : essence ≠ null)
    (hrest : ∀ path ∈ rest.flatMap (DLeaf.writes env body),
      diverge (annPath (v2Key c.pfx env.sfx (markKey (isDRS body) c.key))) path = true ∧
      diverge ["kind"] path = true ∧ diverge ["metadata", "ownerReferences"] path = true)
    (h : DTree.store env body essence t patch0 = .ok patch') :
    DTree.fetch env (mergePatch body patch') t = .ok (some essence) := by
  rw [(dtree_ops_flat env body essence patch0 t).1, hflat] at h
  rw [(dtree_ops_flat env (mergePatch body patch') essence patch0 t).2, hflat]
  simp only [dstore] at h
  cases h1 : DLeaf.store env body patch0 essence (.ann c) with
  | error e => rw [h1] at h; cases h
  | ok p1 =>
    rw [h1] at h
    obtain ⟨hw1, hs1, hp1⟩ := dannStore_facts hw hs h1
    have t2 := dstore_touches rest h
    have hw' := t2.keepsWf hw1
    have hs' : MarkStable patch' :=
      hs1.of_touches t2 (fun path hp => (hrest path hp).2.1) (fun path hp => (hrest path hp).2.2)
    have hp' : probe patch' (annPath (v2Key c.pfx env.sfx (markKey (isDRS body) c.key)))
        = .set (str (env.enc essence ++ newline)) := by
      rw [t2.other _ (fun path hp => (hrest path hp).1)]; exact hp1
    obtain ⟨rest', hn⟩ := makeKeys_head c.pfx c.v1 env.sfx (markKey (isDRS body) c.key)
    have hf : DLeaf.fetch env (mergePatch body patch') (.ann c) = .ok (some essence) := by
      simp only [DLeaf.fetch]
      rw [annNames, isDRS_merge hw' hs' body, hn]
      exact fetchNames_head env _ _ _ _ _ (merged_set_str hw' body _ _ hp') hc he
    simp only [dfetch, hf]

/-- … headed by a status storage (e.g. `Multi[StatusDiffBase, AnnotationsDiffBase]`) -/
theorem roundtrip_dmulti_status_head (env : Env) (t : DTree) (field : Path) (rest : DStorage)
    (hflat : t.flatten = .status field :: rest) (body patch0 patch' essence : J)
    (hc : env.dec (env.enc essence) = some essence) (hw : wf patch0 = true) (he : essence ≠ null)
    (hrest : ∀ path ∈ rest.flatMap (DLeaf.writes env body), diverge field path = true)
    (h : DTree.store env body essence t patch0 = .ok patch') :
    DTree.fetch env (mergePatch body patch') t = .ok (some essence) := by
  rw [(dtree_ops_flat env body essence patch0 t).1, hflat] at h
  rw [(dtree_ops_flat env (mergePatch body patch') essence patch0 t).2, hflat]
  simp only [dstore] at h
  cases h1 : DLeaf.store env body patch0 essence (.status field) with
  | error e => rw [h1] at h; cases h
  | ok p1 =>
    rw [h1] at h
    have t1 : Touches patch0 p1 [field] := dleaf_store_touches h1
    have hw1 := t1.keepsWf hw
    have t2 := dstore_touches rest h
    have hw' := t2.keepsWf hw1
    simp only [DLeaf.store] at h1
    have hp := probe_ensure_same _ _ _ _ (liftD_ok h1)
    simp only [Probe.ofValue] at hp
    have hp' : probe patch' field = .set (str (env.enc essence)) := by rw [t2.other _ hrest]; exact hp
    have hf : DLeaf.fetch env (mergePatch body patch') (.status field) = .ok (some essence) :=
      roundtrip_status_leaf_fetch env field body patch' essence hc hw' he hp'
    simp only [dfetch, hf]

/-! ## Purge is complete -/

/-- after `purge`, none of the handler's annotation names is on the patched object (whether the
    record was on the object, only in the patch, or both), and `fetch` finds nothing. -/
theorem purge_complete_ann (env : Env) (c : AnnCfg) (body patch0 patch' : J) (k : Str)
    (hw : wf patch0 = true) (hs : MarkStable patch0)
    (h : annPurge env c body patch0 k = .ok patch') :
    (∀ n ∈ annNames env c.pfx c.v1 body k, resolve? (mergePatch body patch') (annPath n) = none) ∧
    annFetch env c (mergePatch body patch') k = .ok none := by
  unfold annPurge at h
  have t := purgeAll_touches _ h
  have hw' := t.keepsWf hw
  have hs' : MarkStable patch' := hs.of_touches_ann t
  have hnone := purgeAll_none _ hw (by intro q hq; obtain ⟨n, _, rfl⟩ := List.mem_map.1 hq; simp [annPath])
    (pairwise_annPath (makeKeys_nodup _ _ _ _)) h
  have hall : ∀ n ∈ annNames env c.pfx c.v1 body k, resolve? (mergePatch body patch') (annPath n) = none :=
    fun n hn => hnone _ (List.mem_map.2 ⟨n, hn, rfl⟩)
  refine ⟨hall, ?_⟩
  unfold annFetch
  have e : annNames env c.pfx c.v1 (mergePatch body patch') k = annNames env c.pfx c.v1 body k := by
    simp only [annNames, isDRS_merge hw' hs' body]
  rw [e]
  exact fetchNames_none env _ _ hall

/-- status storage: nothing is left under the handler's key -/
theorem purge_complete_status (c : StatusCfg) (body patch0 patch' : J) (k : Str)
    (hw : wf patch0 = true) (h : statusPurge c body patch0 k = .ok patch') :
    resolve? (mergePatch body patch') (c.field ++ [String.ofList k]) = none ∧
    ∀ x, statusFetch c (mergePatch body patch') k ≠ .ok (some x) := by
  have hn := purgePath_none hw (by simp) h
  refine ⟨hn, fun x hx => ?_⟩
  rw [resolve_of_statusFetch c _ k x hx] at hn
  cases hn

/-- Smart / Multi(annotations, status): purged from both places in one patch -/
theorem purge_complete_smart (env : Env) (a : AnnCfg) (sc : StatusCfg) (hf : FieldApart sc.field)
    (body patch0 patch' : J) (k : Str) (hw : wf patch0 = true) (hs : MarkStable patch0)
    (h : purge env body k patch0 [.ann a, .status sc] = .ok patch') :
    ∀ x, fetch env (mergePatch body patch') k [.ann a, .status sc] ≠ .ok (some x) := by
  simp only [purge, Leaf.purge] at h
  cases h1 : annPurge env a body patch0 k with
  | error e => rw [h1] at h; cases h
  | ok p1 =>
    simp only [h1] at h
    cases h2 : statusPurge sc body p1 k with
    | error e => simp only [h2] at h; cases h
    | ok p2 =>
      simp only [h2] at h
      have e : p2 = patch' := by simpa using h
      subst e
      have t1 := purgeAll_touches _ h1
      have hw1 := t1.keepsWf hw
      have hs1 : MarkStable p1 := hs.of_touches_ann t1
      have t2 : Touches p1 p2 [sc.field ++ [String.ofList k]] := purgePath_touches h2
      have hw2 := t2.keepsWf hw1
      have hs2 : MarkStable p2 := hs1.of_touches t2
        (by intro path hp; simp at hp; subst hp; exact hf.diverge_kind _)
        (by intro path hp; simp at hp; subst hp; exact hf.diverge_owners _)
      obtain ⟨hall, _⟩ := purge_complete_ann env a body patch0 p1 k hw hs h1
      have hall2 : ∀ n ∈ annNames env a.pfx a.v1 body k, resolve? (mergePatch body p2) (annPath n) = none := by
        intro n hn
        rw [t2.merged hw1 body (annPath n) (by intro path hp; simp at hp; subst hp; exact hf.diverge_ann _ n)]
        exact hall n hn
      have hst := (purge_complete_status sc body p1 p2 k hw1 h2).2
      intro x
      have e : annNames env a.pfx a.v1 (mergePatch body p2) k = annNames env a.pfx a.v1 body k := by
        simp only [annNames, isDRS_merge hw2 hs2 body]
      simp only [fetch, Leaf.fetch, annFetch, e, fetchNames_none env _ _ hall2]
      cases hsf : statusFetch sc (mergePatch body p2) k with
      | error er => simp
      | ok o =>
        cases o with
        | none => simp
        | some y => exact absurd hsf (hst y)


/-- **Purge through any Multi storage tree**: after `purge`, `fetch` of the whole tree finds nothing
    (or fails on a corrupted status stanza, as before), provided the status fields are not under
    `metadata`/`kind` and any two of them coincide or part ways. -/
theorem purge_complete_multi (env : Env) (t : STree) (body patch0 patch' : J) (k : Str)
    (hw : wf patch0 = true) (hs : MarkStable patch0)
    (hf : ∀ sc, Leaf.status sc ∈ t.flatten → FieldApart sc.field)
    (hcompat : ∀ sc sc', Leaf.status sc ∈ t.flatten → Leaf.status sc' ∈ t.flatten →
      sc.field = sc'.field ∨
      diverge (sc.field ++ [String.ofList k]) (sc'.field ++ [String.ofList k]) = true)
    (h : STree.purge env body k patch0 t = .ok patch') :
    ∀ x, STree.fetch env (mergePatch body patch') k t ≠ .ok (some x) := by
  rw [(tree_ops_flat env body k [] null patch0 t).2.2.1, purge_eq_purgeAll] at h
  rw [(tree_ops_flat env (mergePatch body patch') k [] null patch0 t).2.1]
  generalize t.flatten = ls at *
  have tt := purgeAll_touches _ h
  have hw' := tt.keepsWf hw
  have hcls : ∀ q ∈ ls.flatMap (Leaf.owns env body k),
      (∃ n, q = annPath n) ∨ (∃ sc, Leaf.status sc ∈ ls ∧ q = sc.field ++ [String.ofList k]) := by
    intro q hq
    obtain ⟨l, hl, hql⟩ := List.mem_flatMap.1 hq
    cases l with
    | ann c =>
      simp only [Leaf.owns, List.mem_map] at hql
      obtain ⟨n, _, rfl⟩ := hql
      exact Or.inl ⟨n, rfl⟩
    | status sc =>
      simp only [Leaf.owns, List.mem_singleton] at hql
      exact Or.inr ⟨sc, hl, hql⟩
  have hs' : MarkStable patch' := by
    apply hs.of_touches tt
    · intro path hp
      obtain ⟨l, hl, hpl⟩ := List.mem_flatMap.1 hp
      exact (leaf_owns_apart_mark l (fun sc e => hf sc (e ▸ hl)) path hpl).1
    · intro path hp
      obtain ⟨l, hl, hpl⟩ := List.mem_flatMap.1 hp
      exact (leaf_owns_apart_mark l (fun sc e => hf sc (e ▸ hl)) path hpl).2
  have hnone := purgeAll_none_compat _ hw
    (by
      intro q hq
      rcases hcls q hq with ⟨n, rfl⟩ | ⟨sc, _, rfl⟩
      · simp [annPath]
      · simp)
    (by
      intro a ha b hb
      rcases hcls a ha with ⟨n, rfl⟩ | ⟨sc, hsc, rfl⟩ <;> rcases hcls b hb with ⟨n', rfl⟩ | ⟨sc', hsc', rfl⟩
      · exact annPath_compat n n'
      · exact Or.inr ((hf sc' hsc').diverge_ann _ _)
      · exact Or.inr ((hf sc hsc).diverge_ann' _ _)
      · rcases hcompat sc sc' hsc hsc' with e | d
        · exact Or.inl (by rw [e])
        · exact Or.inr d) h
  have hd := isDRS_merge hw' hs' body
  exact fetch_not_some ls (fun l hl => leaf_fetch_not_some hd l
    (fun q hq => hnone q (List.mem_flatMap.2 ⟨l, hl, hq⟩)))

/-! ## Isolation: a store / purge / touch changes nothing but the handler's own names -/

/-- `store` for `k`: every path of the patched object that parts ways with the handler's
    annotation names and with the `<prefix>/kopf-managed` marker — other handlers' annotations,
    other operators' prefixes, user annotations, labels, spec, status — is what it would be
    without this store (`patch0` = whatever else the cycle accumulated). -/
theorem isolation_store_ann (env : Env) (c : AnnCfg) (body patch0 patch' : J) (k : Str) (r : Rec)
    (hw : wf patch0 = true) (h : annStore env c body patch0 k r = .ok patch') (q : Path)
    (hq : ∀ n ∈ annNames env c.pfx c.v1 body k, diverge q (annPath n) = true)
    (hm : diverge q (annPath (markerName c.pfx)) = true) :
    resolve? (mergePatch body patch') q = resolve? (mergePatch body patch0) q := by
  unfold annStore at h
  cases h1 : ensureAll patch0 (annNames env c.pfx c.v1 body k) (str (env.enc (obj (stored c.verbose r)))) with
  | error e => rw [h1] at h; cases h
  | ok p1 =>
    rw [h1] at h
    have t1 := ensureAll_touches _ (wf_str _) h1
    have t2 := storeMarker_touches h
    rw [t2.merged (t1.keepsWf hw) body q (by intro path hp; simp at hp; subst hp; exact hm),
      t1.merged hw body q (by intro path hp; obtain ⟨n, hn, rfl⟩ := List.mem_map.1 hp; exact hq n hn)]

theorem isolation_purge_ann (env : Env) (c : AnnCfg) (body patch0 patch' : J) (k : Str)
    (hw : wf patch0 = true) (h : annPurge env c body patch0 k = .ok patch') (q : Path)
    (hq : ∀ n ∈ annNames env c.pfx c.v1 body k, diverge q (annPath n) = true) :
    resolve? (mergePatch body patch') q = resolve? (mergePatch body patch0) q := by
  unfold annPurge at h
  exact (purgeAll_touches _ h).merged hw body q
    (by intro path hp; obtain ⟨n, hn, rfl⟩ := List.mem_map.1 hp; exact hq n hn)

theorem isolation_store_status (c : StatusCfg) (body patch0 patch' : J) (k : Str) (r : Rec)
    (hw : wf patch0 = true) (hr : wf (obj r) = true) (h : statusStore c patch0 k r = .ok patch') (q : Path)
    (hq : diverge q (c.field ++ [String.ofList k]) = true) :
    resolve? (mergePatch body patch') q = resolve? (mergePatch body patch0) q := by
  unfold statusStore at h
  split at h
  · cases h; rfl
  · exact (touches_ensure hr (liftD_ok h)).merged hw body q (by intro path hp; simp at hp; subst hp; exact hq)

theorem isolation_purge_status (c : StatusCfg) (body patch0 patch' : J) (k : Str)
    (hw : wf patch0 = true) (h : statusPurge c body patch0 k = .ok patch') (q : Path)
    (hq : diverge q (c.field ++ [String.ofList k]) = true) :
    resolve? (mergePatch body patch') q = resolve? (mergePatch body patch0) q :=
  (purgePath_touches h).merged hw body q (by intro path hp; simp at hp; subst hp; exact hq)

/-- `touch` writes under the names of the touch key (and the marker) only -/
theorem isolation_touch_ann (env : Env) (c : AnnCfg) (body patch0 patch' value : J)
    (hv : wf value = true) (hw : wf patch0 = true) (h : annTouch env c body patch0 value = .ok patch') (q : Path)
    (hq : ∀ n ∈ annNames env c.pfx c.v1 body c.touchKey, diverge q (annPath n) = true)
    (hm : diverge q (annPath (markerName c.pfx)) = true) :
    resolve? (mergePatch body patch') q = resolve? (mergePatch body patch0) q :=
  (touchNames_touches _ hv h).merged hw body q (by
    intro path hp
    rcases List.mem_append.1 hp with hp | hp
    · obtain ⟨n, hn, rfl⟩ := List.mem_map.1 hp; exact hq n hn
    · simp at hp; subst hp; exact hm)

/-- name-level composition: storing `k` does not change what a handler `k'` with disjoint
    *names* (none of them the marker) reads. The step from distinct *ids* to disjoint names is
    `isolation_ids_short_partial` / `_reformed_partial` / `_v1_hashed_partial` in `Props/C16_Keys.lean`. -/
theorem isolation_other_handler (env : Env) (c : AnnCfg) (body patch0 patch' : J) (k k' : Str) (r : Rec)
    (hw : wf patch0 = true) (hs : MarkStable patch0)
    (h : annStore env c body patch0 k r = .ok patch')
    (hdisj : ∀ n ∈ annNames env c.pfx c.v1 body k, ∀ n' ∈ annNames env c.pfx c.v1 body k', n' ≠ n)
    (hmark : ∀ n' ∈ annNames env c.pfx c.v1 body k', n' ≠ markerName c.pfx) :
    annFetch env c (mergePatch body patch') k' = annFetch env c (mergePatch body patch0) k' := by
  have hstab : MarkStable patch' ∧ wf patch' = true := by
    unfold annStore at h
    cases h1 : ensureAll patch0 (annNames env c.pfx c.v1 body k) (str (env.enc (obj (stored c.verbose r)))) with
    | error e => rw [h1] at h; cases h
    | ok p1 =>
      rw [h1] at h
      have t1 := ensureAll_touches _ (wf_str _) h1
      have t2 := storeMarker_touches h
      exact ⟨(hs.of_touches_ann t1).of_touches_ann (names := [markerName c.pfx]) (by simpa using t2),
        t2.keepsWf (t1.keepsWf hw)⟩
  have hd : isDRS (mergePatch body patch') = isDRS (mergePatch body patch0) := by
    rw [isDRS_merge hstab.2 hstab.1, isDRS_merge hw hs]
  apply annFetch_congr env c _ _ k' hd
  intro n' hn'
  have hn'' : n' ∈ annNames env c.pfx c.v1 body k' := by
    simpa only [annNames, isDRS_merge hstab.2 hstab.1] using hn'
  exact isolation_store_ann env c body patch0 patch' k r hw h (annPath n')
    (fun n hn => diverge_annPath (hdisj n hn n' hn''))
    (diverge_annPath (hmark n' hn''))

/-- the same for `purge` -/
theorem isolation_other_handler_purge (env : Env) (c : AnnCfg) (body patch0 patch' : J) (k k' : Str)
    (hw : wf patch0 = true) (hs : MarkStable patch0)
    (h : annPurge env c body patch0 k = .ok patch')
    (hdisj : ∀ n ∈ annNames env c.pfx c.v1 body k, ∀ n' ∈ annNames env c.pfx c.v1 body k', n' ≠ n) :
    annFetch env c (mergePatch body patch') k' = annFetch env c (mergePatch body patch0) k' := by
  unfold annPurge at h
  have t := purgeAll_touches _ h
  refine fetch_unchanged_of_touches hw hs t (hs.of_touches_ann t) ?_
  intro n' hn' path hp
  obtain ⟨n, hn, rfl⟩ := List.mem_map.1 hp
  exact diverge_annPath (hdisj n hn n' hn')

/-- `touch` of a status storage writes its touch field only -/
theorem isolation_touch_status (sc : StatusCfg) (body patch0 patch' value : J)
    (hv : wf value = true) (hw : wf patch0 = true) (h : statusTouch sc body patch0 value = .ok patch') (q : Path)
    (hq : diverge q sc.touchField = true) :
    resolve? (mergePatch body patch') q = resolve? (mergePatch body patch0) q := by
  unfold statusTouch at h
  split at h
  · cases h; rfl
  · split at h
    · exact (touches_ensure hv (liftD_ok h)).merged hw body q (by intro path hp; simp at hp; subst hp; exact hq)
    · cases h; rfl

/-- **storing the last-handled state** (any diff-base storage tree) changes nothing but the
    diff-base's own annotation names, its marker and its status fields -/
theorem isolation_dstore (env : Env) (t : DTree) (body patch0 patch' essence : J) (hw : wf patch0 = true)
    (h : DTree.store env body essence t patch0 = .ok patch') (q : Path)
    (hq : ∀ path ∈ t.flatten.flatMap (DLeaf.writes env body), diverge q path = true) :
    resolve? (mergePatch body patch') q = resolve? (mergePatch body patch0) q := by
  rw [(dtree_ops_flat env body essence patch0 t).1] at h
  exact (dstore_touches _ h).merged hw body q hq

/-- **a touch changes no handler's record**: what `k'` reads is unchanged, provided none of its
    names is a name of the touch key or the marker (`reserved_touch_witness`, F6g, is the other case) -/
theorem touch_leaves_records (env : Env) (c : AnnCfg) (body patch0 patch' value : J) (k' : Str)
    (hv : wf value = true) (hw : wf patch0 = true) (hs : MarkStable patch0)
    (h : annTouch env c body patch0 value = .ok patch')
    (hdisj : ∀ n ∈ annNames env c.pfx c.v1 body c.touchKey, ∀ n' ∈ annNames env c.pfx c.v1 body k', n' ≠ n)
    (hmark : ∀ n' ∈ annNames env c.pfx c.v1 body k', n' ≠ markerName c.pfx) :
    annFetch env c (mergePatch body patch') k' = annFetch env c (mergePatch body patch0) k' := by
  have t := touchNames_touches (pfx := c.pfx) (body := body) (annNames env c.pfx c.v1 body c.touchKey) hv h
  have hs' : MarkStable patch' := hs.of_touches_ann (names := annNames env c.pfx c.v1 body c.touchKey ++ [markerName c.pfx])
    (by simpa using t)
  refine fetch_unchanged_of_touches hw hs t hs' ?_
  intro n' hn' path hp
  rcases List.mem_append.1 hp with hp | hp
  · obtain ⟨n, hn, rfl⟩ := List.mem_map.1 hp
    exact diverge_annPath (hdisj n hn n' hn')
  · simp at hp; subst hp
    exact diverge_annPath (hmark n' hn')

/-- **storing the last-handled state changes no handler's record** (annotations diff-base next to an
    annotations progress storage, e.g. both under the default prefix): provided none of the
    handler's names is a name of the diff-base key or the diff-base's marker
    (`reserved_diffbase_witness`, F6g, is the other case) -/
theorem dstore_leaves_records (env : Env) (c : AnnCfg) (d : AnnDiffCfg) (body patch0 patch' essence : J) (k' : Str)
    (hw : wf patch0 = true) (hs : MarkStable patch0)
    (h : DLeaf.store env body patch0 essence (.ann d) = .ok patch')
    (hdisj : ∀ n ∈ annNames env d.pfx d.v1 body d.key, ∀ n' ∈ annNames env c.pfx c.v1 body k', n' ≠ n)
    (hmark : ∀ n' ∈ annNames env c.pfx c.v1 body k', n' ≠ markerName d.pfx) :
    annFetch env c (mergePatch body patch') k' = annFetch env c (mergePatch body patch0) k' := by
  have t := dleaf_store_touches h
  obtain ⟨_, hs', _⟩ := dannStore_facts hw hs h
  refine fetch_unchanged_of_touches hw hs t hs' ?_
  intro n' hn' path hp
  simp only [DLeaf.writes, List.mem_append, List.mem_map, List.mem_singleton] at hp
  rcases hp with ⟨n, hn, rfl⟩ | rfl
  · exact diverge_annPath (hdisj n hn n' hn')
  · exact diverge_annPath (hmark n' hn')

/-- **User data and other operators' records**: an annotation whose name is not `<prefix>/…` is
    never changed by a store, a purge or a touch of this storage, whatever the handler id. -/
theorem foreign_annotation_untouched (env : Env) (c : AnnCfg) (hp : c.pfx ≠ []) (body patch0 : J)
    (hw : wf patch0 = true) (name : Str) (hn : ∀ x, name ≠ c.pfx ++ '/' :: x) :
    (∀ k r ps, annStore env c body patch0 k r = .ok ps →
      resolve? (mergePatch body ps) (annPath name) = resolve? (mergePatch body patch0) (annPath name)) ∧
    (∀ k pp, annPurge env c body patch0 k = .ok pp →
      resolve? (mergePatch body pp) (annPath name) = resolve? (mergePatch body patch0) (annPath name)) ∧
    (∀ value pt, wf value = true → annTouch env c body patch0 value = .ok pt →
      resolve? (mergePatch body pt) (annPath name) = resolve? (mergePatch body patch0) (annPath name)) := by
  have hnames : ∀ k, ∀ n ∈ annNames env c.pfx c.v1 body k, diverge (annPath name) (annPath n) = true := by
    intro k n hn'
    obtain ⟨x, rfl⟩ := own_names_of_makeKeys c.pfx hp c.v1 env.sfx _ n hn'
    exact diverge_annPath (hn x)
  have hmark : diverge (annPath name) (annPath (markerName c.pfx)) = true :=
    diverge_annPath (hn "kopf-managed".toList)
  exact ⟨fun k r ps h => isolation_store_ann env c body patch0 ps k r hw h _ (hnames k) hmark,
    fun k pp h => isolation_purge_ann env c body patch0 pp k hw h _ (hnames k),
    fun value pt hv h => isolation_touch_ann env c body patch0 pt value hv hw h _ (hnames _) hmark⟩

/-- **Records of operators using another prefix**: no store, purge or touch under prefix `c.pfx`
    changes any annotation `<p'>/<n'>` of a different plain prefix `p'` (every `validPrefix` is
    plain: `plain_of_valid`). -/
theorem other_prefix_untouched (env : Env) (c : AnnCfg) (hp : PlainPrefix c.pfx) (p' n' : Str)
    (hp' : PlainPrefix p') (hne : p' ≠ c.pfx) (body patch0 : J) (hw : wf patch0 = true) :
    (∀ k r ps, annStore env c body patch0 k r = .ok ps →
      resolve? (mergePatch body ps) (annPath (p' ++ '/' :: n')) = resolve? (mergePatch body patch0) (annPath (p' ++ '/' :: n'))) ∧
    (∀ k pp, annPurge env c body patch0 k = .ok pp →
      resolve? (mergePatch body pp) (annPath (p' ++ '/' :: n')) = resolve? (mergePatch body patch0) (annPath (p' ++ '/' :: n'))) ∧
    (∀ value pt, wf value = true → annTouch env c body patch0 value = .ok pt →
      resolve? (mergePatch body pt) (annPath (p' ++ '/' :: n')) = resolve? (mergePatch body patch0) (annPath (p' ++ '/' :: n'))) :=
  foreign_annotation_untouched env c hp.1 body patch0 hw (p' ++ '/' :: n')
    (fun x e => hne (slash_split_unique p' c.pfx n' x hp'.2 hp.2 e).1)

/-! ## `clear` (what the diff sees): own annotations go, everything else stays -/

theorem clear_removes_own (c : AnnCfg) (e e' : J) (h : annClear c e = .ok e') (name : String)
    (hu : underPrefix c.pfx name = true) :
    resolve? e' ["metadata", "annotations", name] = none :=
  annClear_removes c e e' h name hu

theorem clear_keeps_foreign (c : AnnCfg) (e e' : J) (h : annClear c e = .ok e') (name : String)
    (hu : underPrefix c.pfx name = false) :
    resolve? e' ["metadata", "annotations", name] = resolve? e ["metadata", "annotations", name] :=
  annClear_keeps c e e' h name hu

/-! ## `clear` of the status storage, and of any storage tree, since kopf 571b1b2

Before 571b1b2 `StatusProgressStorage.clear` let the TypeError of `dicts.remove` out whenever one of its
two fields was hidden behind a non-mapping value of the object (`status: "a string"`, `status.kopf: 7`,
`status: null` with a handler's field restoring it): the cause of every event of that object could not
be detected any more (C04-F13). Now (`removeLenient`) a hidden field is an absent field. Stated for ALL
essences — `EssOK e` asks only what the API guarantees (the essence, its `metadata` and its
`metadata.annotations` are mappings where present); `status` and `spec` may hold anything:

* `clear_never_raises`   — no storage tree's `clear` raises (and the result is `EssOK` again);
* `clear_leaves_nothing_own` — after the `clear` of any tree, nothing that any of its leaves owns — an annotation
  under its prefix, its progress field, its touch field — is found in the essence (hidden or not:
  the framework's own writes never reach the diff);
* `clear_hidden_untouched`, `clear_hidden_each_on_its_own` — the hidden case says what it does: nothing is
  removed; and a hidden progress field does not keep the touch field in the essence;
* `clear_hidden_regression` — the variant before the repair raises on `status: "a string"`. -/

/-- **No `clear` raises**: for ANY tree of progress storages (any prefixes, any non-empty status fields) and
    ANY essence whose `metadata` / `metadata.annotations` are mappings where present — whatever `status`,
    `spec`, … hold, a string, a number, a list, null — `clear` answers with an essence (of the same kind). -/
theorem clear_never_raises (t : STree) (hl : ∀ l ∈ t.flatten, l.fieldsNonEmpty) (e : J) (he : EssOK e) :
    ∃ e', STree.clear e t = .ok e' ∧ EssOK e' := by
  rw [(tree_ops_flat ⟨id, fun _ => "", fun _ => none⟩ null [] [] null e t).2.2.2.2]
  exact clear_total t.flatten hl he

/-- **Nothing of the framework's own is left in the essence**: after the `clear` of any storage tree, no
    leaf's annotation (any name under its prefix), progress field or touch field is found in the result —
    with or without non-mapping values on the way (since 571b1b2 `clear` answers in both cases). -/
theorem clear_leaves_nothing_own (t : STree) (e e' : J) (h : STree.clear e t = .ok e')
    (l : Leaf) (hl : l ∈ t.flatten) (q : Path) (hq : l.ownsInEssence q) : resolve? e' q = none := by
  rw [(tree_ops_flat ⟨id, fun _ => "", fun _ => none⟩ null [] [] null e t).2.2.2.2] at h
  exact clear_removes t.flatten h l hl q hq

/-- the status leaf alone: both fields are gone -/
theorem clear_removes_own_status (c : StatusCfg) (e e' : J) (h : statusClear c e = .ok e') :
    resolve? e' c.field = none ∧ resolve? e' c.touchField = none :=
  statusClear_removes h

/-- **Hidden fields**: when both fields of the status storage are hidden behind non-mapping values of the
    essence, nothing is removed and nothing is raised: `clear` is `remove_empty_stanzas` alone. -/
theorem clear_hidden_untouched (c : StatusCfg) (e : J) (h1 : hiddenAt e c.field = true)
    (h2 : hiddenAt e c.touchField = true) : statusClear c e = removeEmptyStanzas e := by
  simp only [statusClear, removeLenient_hidden h1, removeLenient_hidden h2]

/-- each removal is skipped on its own: a hidden progress field does not keep a reachable touch field
    in the essence (one `try` around both removals would) -/
theorem clear_hidden_each_on_its_own (c : StatusCfg) (e e2 : J) (h1 : hiddenAt e c.field = true)
    (h2 : remove e c.touchField = .ok e2) : statusClear c e = removeEmptyStanzas e2 := by
  simp only [statusClear, removeLenient_hidden h1, removeLenient_of_remove h2]

/-- **A hidden field is an absent field, for every operation of the status storage** (the model has said so
    all along — `dicts.resolve` with a default, writes go to the patch; `clear` since 571b1b2): on an object
    whose progress field / touch field is hidden behind a non-mapping value, `fetch` reads nothing and raises
    nothing, `purge` and `touch` decide as on an object without a `status` at all (`store` never looks at the
    object). -/
theorem status_hidden_is_absent (c : StatusCfg) (body patch value : J) (k : Str) :
    (hiddenAt body c.field = true → statusFetch c body k = .ok none ∧
      statusPurge c body patch k = statusPurge c (obj []) patch k) ∧
    (hiddenAt body c.touchField = true → statusTouch c body patch value = statusTouch c (obj []) patch value) := by
  refine ⟨fun h => ⟨?_, ?_⟩, fun h => ?_⟩
  · have hn : resolve? body c.field = none := resolve_none_of_hidden _ _ h
    simp [statusFetch, hn, lookup]
  · have hn := resolve_none_under_hidden h [String.ofList k]
    have hf : c.field ≠ [] := by intro e; rw [e, hiddenAt_nil] at h; cases h
    obtain ⟨a, as, ha⟩ : ∃ a as, c.field = a :: as := by cases hc : c.field with
      | nil => exact absurd hc hf
      | cons a as => exact ⟨a, as, rfl⟩
    have h0 : resolve? (obj []) (c.field ++ [String.ofList k]) = none := by
      rw [ha, List.cons_append]; exact resolve_nil_obj_cons _ _
    simp only [statusPurge, purgePath, hn, h0]
  · have hn : resolve? body c.touchField = none := resolve_none_of_hidden _ _ h
    obtain ⟨a, as, ha⟩ : ∃ a as, c.touchField = a :: as := by cases hc : c.touchField with
      | nil => rw [hc, hiddenAt_nil] at h; cases h
      | cons a as => exact ⟨a, as, rfl⟩
    have h0 : resolve? (obj []) c.touchField = none := by rw [ha]; exact resolve_nil_obj_cons _ _
    simp only [statusTouch, resolveD, hn, h0]

/-- … and the round trip goes through it: a record stored for ANY id on an object with a hidden progress field
    is what `fetch` reads from the patched object (the merge-patch replaces the value in the way by the
    mapping the record is written into) -/
theorem roundtrip_status_hidden (c : StatusCfg) (hnw : c.noWrite = false) (body patch0 patch' : J) (k : Str) (r : Rec)
    (hw : wf patch0 = true) (hr : FlatRec r) (hh : hiddenAt body c.field = true)
    (h : statusStore c patch0 k r = .ok patch') :
    statusFetch c (mergePatch body patch') k = .ok (some (obj (stored false r))) :=
  roundtrip_status_fresh c hnw body patch0 patch' k r hw hr
    (by rw [resolve_none_under_hidden hh [String.ofList k]]; rfl) h

/-- `hiddenAt` is exactly "dicts.remove raises TypeError" -/
theorem hidden_iff_typeError (e : J) (f : Path) : hiddenAt e f = true ↔ remove e f = .error .typeError :=
  ⟨remove_hidden f e, hidden_of_remove_typeError⟩

/-- **Regression of C04-F13** (the variant before 571b1b2 on `status: "a string"`, default fields): the old
    `clear` raises TypeError; the repaired one returns the essence as it is — the string is the user's. -/
theorem clear_hidden_regression :
    let c : StatusCfg := ⟨["status", "kopf", "progress"], ["status", "kopf", "dummy"], false⟩
    let e : J := obj [("spec", obj [("n", num 1)]), ("status", str "a string")]
    statusClearStrict c e = .error .type ∧ statusClear c e = .ok e := by
  intro c e
  exact ⟨by rfl, by rfl⟩

-- non-vacuity: `status.kopf: 7` hides both default fields; `status: null` as well; a touch field elsewhere is
-- removed although the progress field is hidden; the essence of the regression is `EssOK`
example : hiddenAt (obj [("status", obj [("kopf", num 7), ("x", num 1)])]) ["status", "kopf", "progress"] = true := by decide
example : hiddenAt (obj [("status", null)]) ["status", "kopf", "dummy"] = true := by decide
example : hiddenAt (obj [("status", obj [("x", num 1)])]) ["status", "kopf", "progress"] = false := by decide
example : statusClear ⟨["status", "kopf", "progress"], ["status", "kopf", "dummy"], false⟩
    (obj [("status", obj [("kopf", num 7), ("x", num 1)])]) = .ok (obj [("status", obj [("kopf", num 7), ("x", num 1)])]) := by rfl
example : statusClear ⟨["status", "kopf", "progress"], ["poke", "t"], false⟩
    (obj [("poke", obj [("t", str "2020")]), ("status", str "s")]) = .ok (obj [("status", str "s")]) := by rfl
-- a record stored on an object whose status is a string is read back from the patched object
example : (match statusStore ⟨["status", "kopf", "progress"], ["status", "kopf", "dummy"], false⟩ (obj []) ['f', 'n'] [("retries", num 1)] with
    | .ok p => (match statusFetch ⟨["status", "kopf", "progress"], ["status", "kopf", "dummy"], false⟩
          (mergePatch (obj [("status", str "a string")]) p) ['f', 'n'] with
        | .ok (some j) => j == obj [("retries", num 1)]
        | _ => false)
    | _ => false) = true := by decide
example : EssOK (obj [("spec", obj [("n", num 1)]), ("status", str "a string")]) :=
  ⟨fun v h => by rw [resolve_nil] at h; cases h; rfl, fun v h => by simp [resolve?, lookup] at h,
   fun v h => by simp [resolve?, lookup] at h⟩
example : (Leaf.status ⟨["status", "kopf", "progress"], ["status", "kopf", "dummy"], false⟩).fieldsNonEmpty :=
  ⟨by simp, by simp⟩

/-! ## The names do not move

"Identical across restarts" has two halves. That nothing outside the arguments (process state, hash
seed, dict order, time) enters is *not* a theorem about a Lean function — it is what the tie checks
on the real code (fresh storage object, fresh interpreter with another hash seed, recorded golden
names). What can fail inside the mechanism is the other half: the names are recomputed from the
object at every fetch/purge, so they must not depend on anything a cycle changes. -/

/-- the names depend on the body only through `kind` and `metadata.ownerReferences`: annotations,
    labels, spec, status, resourceVersion … may change between store and fetch (or across a restart)
    without moving a single record -/
theorem names_depend_on_kind_and_owners (env : Env) (p : Str) (v1 : Bool) (b b' : J) (k : Str)
    (h1 : resolve? b ["kind"] = resolve? b' ["kind"])
    (h2 : resolve? b ["metadata", "ownerReferences"] = resolve? b' ["metadata", "ownerReferences"]) :
    annNames env p v1 b k = annNames env p v1 b' k := by
  simp only [annNames, isDRS_congr h1 h2]

/-- … and no store or purge of any storage tree (status fields outside `metadata`/`kind`) moves
    them: on the patched object every handler id has the names it had before the PATCH -/
theorem names_stable (env : Env) (t : STree) (body patch0 ps pp : J) (k : Str) (r : Rec)
    (hw : wf patch0 = true) (hs : MarkStable patch0) (hr : wf (obj r) = true)
    (hf : ∀ sc, Leaf.status sc ∈ t.flatten → FieldApart sc.field)
    (hstore : STree.store env body k r patch0 t = .ok ps) (hpurge : STree.purge env body k patch0 t = .ok pp)
    (p : Str) (v1 : Bool) (k' : Str) :
    annNames env p v1 (mergePatch body ps) k' = annNames env p v1 body k' ∧
    annNames env p v1 (mergePatch body pp) k' = annNames env p v1 body k' := by
  rw [(tree_ops_flat env body k r null patch0 t).1] at hstore
  rw [(tree_ops_flat env body k r null patch0 t).2.2.1, purge_eq_purgeAll] at hpurge
  have t1 := store_touches hr _ hstore
  have t2 := purgeAll_touches _ hpurge
  have hs1 : MarkStable ps := by
    apply hs.of_touches t1
    · intro path hp
      obtain ⟨l, hl, hpl⟩ := List.mem_flatMap.1 hp
      exact (leaf_writes_apart_mark l (fun sc e => hf sc (e ▸ hl)) path hpl).1
    · intro path hp
      obtain ⟨l, hl, hpl⟩ := List.mem_flatMap.1 hp
      exact (leaf_writes_apart_mark l (fun sc e => hf sc (e ▸ hl)) path hpl).2
  have hs2 : MarkStable pp := by
    apply hs.of_touches t2
    · intro path hp
      obtain ⟨l, hl, hpl⟩ := List.mem_flatMap.1 hp
      exact (leaf_owns_apart_mark l (fun sc e => hf sc (e ▸ hl)) path hpl).1
    · intro path hp
      obtain ⟨l, hl, hpl⟩ := List.mem_flatMap.1 hp
      exact (leaf_owns_apart_mark l (fun sc e => hf sc (e ▸ hl)) path hpl).2
  exact ⟨by simp only [annNames, isDRS_merge (t1.keepsWf hw) hs1 body],
    by simp only [annNames, isDRS_merge (t2.keepsWf hw) hs2 body]⟩

/-! ## Sequences: several handlers' operations accumulated in one patch

The isolation theorems above hold for ANY accumulated patch `patch0`, so they compose over the
sequences of a handling cycle (records of several handlers pending in the patch, one of them
finished and purged at once, the last-handled state stored in between).  The compositions the
sequence run of the harness judges, spelled out: -/

/-- a record stored into the patch is still what is read after ANOTHER handler (disjoint names) is
    purged in the same patch — whether that purge nullifies (record on the body) or withdraws a
    pending write -/
theorem pending_store_survives_purge (env : Env) (c : AnnCfg) (body patch0 p1 p2 : J) (k k' : Str) (r : Rec)
    (hc : env.dec (env.enc (obj (stored c.verbose r))) = some (obj (stored c.verbose r)))
    (hw : wf patch0 = true) (hs : MarkStable patch0)
    (h1 : annStore env c body patch0 k' r = .ok p1)
    (h2 : annPurge env c body p1 k = .ok p2)
    (hdisj : ∀ n ∈ annNames env c.pfx c.v1 body k, ∀ n' ∈ annNames env c.pfx c.v1 body k', n' ≠ n) :
    annFetch env c (mergePatch body p2) k' = .ok (some (obj (stored c.verbose r))) := by
  have hstab : MarkStable p1 ∧ wf p1 = true := by
    unfold annStore at h1
    cases e1 : ensureAll patch0 (annNames env c.pfx c.v1 body k') (str (env.enc (obj (stored c.verbose r)))) with
    | error e => rw [e1] at h1; cases h1
    | ok q =>
      rw [e1] at h1
      have t1 := ensureAll_touches _ (wf_str _) e1
      have t2 := storeMarker_touches h1
      exact ⟨(hs.of_touches_ann t1).of_touches_ann (names := [markerName c.pfx]) (by simpa using t2),
        t2.keepsWf (t1.keepsWf hw)⟩
  rw [isolation_other_handler_purge env c body p1 p2 k k' hstab.2 hstab.1 h2 hdisj]
  exact roundtrip_ann env c body patch0 p1 k' r hc hw hs h1

/-- **The record stored LAST is the record read** — whatever the cycle did to the patch before: ANY sequence of
    stores and purges of ANY handlers (the handler `k` itself included: another record pending for it, a purge of
    it pending, both, repeatedly) and of touches, all decided on the same object, whatever that object carries
    (the very record that is stored, for instance).  `roundtrip_ann` holds for any accumulated patch; every
    operation keeps the patch within its hypotheses. -/
theorem last_store_wins_ann (env : Env) (c : AnnCfg) (body patch0 p1 p2 : J) (ops : List AnnOp) (k : Str) (r : Rec)
    (hc : env.dec (env.enc (obj (stored c.verbose r))) = some (obj (stored c.verbose r)))
    (hw : wf patch0 = true) (hs : MarkStable patch0)
    (h1 : runAnnOps env c body patch0 ops = .ok p1)
    (h2 : annStore env c body p1 k r = .ok p2) :
    annFetch env c (mergePatch body p2) k = .ok (some (obj (stored c.verbose r))) := by
  have hk := runAnnOps_keeps ops h1 hw hs
  exact roundtrip_ann env c body p1 p2 k r hc hk.1 hk.2 h2

/-- … and a purge that comes last leaves nothing, whatever was pending for the handler before -/
theorem last_purge_wins_ann (env : Env) (c : AnnCfg) (body patch0 p1 p2 : J) (ops : List AnnOp) (k : Str)
    (hw : wf patch0 = true) (hs : MarkStable patch0)
    (h1 : runAnnOps env c body patch0 ops = .ok p1)
    (h2 : annPurge env c body p1 k = .ok p2) :
    annFetch env c (mergePatch body p2) k = .ok none := by
  have hk := runAnnOps_keeps ops h1 hw hs
  exact (purge_complete_ann env c body p1 p2 k hk.1 hk.2 h2).2

/-- the instance the seeded change C16f breaks: the handler is purged and its record stored again in one patch -/
theorem restore_after_purge_ann (env : Env) (c : AnnCfg) (body patch0 p1 p2 : J) (k : Str) (r : Rec)
    (hc : env.dec (env.enc (obj (stored c.verbose r))) = some (obj (stored c.verbose r)))
    (hw : wf patch0 = true) (hs : MarkStable patch0)
    (h1 : annPurge env c body patch0 k = .ok p1)
    (h2 : annStore env c body p1 k r = .ok p2) :
    annFetch env c (mergePatch body p2) k = .ok (some (obj (stored c.verbose r))) :=
  last_store_wins_ann env c body patch0 p1 p2 [.purge k] k r hc hw hs (by simp [runAnnOps, AnnOp.run, h1]) h2

/-- … and: another record of the handler is stored first, then this one -/
theorem restore_after_store_ann (env : Env) (c : AnnCfg) (body patch0 p1 p2 : J) (k : Str) (r' r : Rec)
    (hc : env.dec (env.enc (obj (stored c.verbose r))) = some (obj (stored c.verbose r)))
    (hw : wf patch0 = true) (hs : MarkStable patch0)
    (h1 : annStore env c body patch0 k r' = .ok p1)
    (h2 : annStore env c body p1 k r = .ok p2) :
    annFetch env c (mergePatch body p2) k = .ok (some (obj (stored c.verbose r))) :=
  last_store_wins_ann env c body patch0 p1 p2 [.store k r'] k r hc hw hs (by simp [runAnnOps, AnnOp.run, h1]) h2

/-- `statusFetch` never answers `null` (a null entry reads as no record) -/
theorem statusFetch_ne_null (c : StatusCfg) (b : J) (k : Str) (x : J)
    (h : statusFetch c b k = .ok (some x)) : x ≠ null := by
  intro hx
  subst hx
  unfold statusFetch at h
  cases hc : (resolve? b c.field).getD (obj []) with
  | obj ckvs =>
    rw [hc] at h
    cases hl : lookup (String.ofList k) ckvs with
    | none => simp [hl] at h
    | some v => cases v <;> simp_all
  | _ => rw [hc] at h; simp at h

/-- status storage, at the level of `fetch`: a record another handler `k'` reads from the object
    patched with what is pending (`p1` — ANY well-formed patch) is still what it reads when the
    purge of `k` is added to the patch.  (A purge that withdrew the whole pending container, not
    only its own entry, would fail exactly this.) -/
theorem status_record_survives_other_purge (c : StatusCfg) (body p1 p2 : J) (k k' : Str) (x : J)
    (hw : wf p1 = true) (hne : k' ≠ k)
    (hf : statusFetch c (mergePatch body p1) k' = .ok (some x))
    (h2 : statusPurge c body p1 k = .ok p2) :
    statusFetch c (mergePatch body p2) k' = .ok (some x) := by
  have hx := statusFetch_ne_null c _ k' x hf
  have hr := resolve_of_statusFetch c _ k' x hf
  have hd : diverge (c.field ++ [String.ofList k']) (c.field ++ [String.ofList k]) = true := by
    induction c.field with
    | nil =>
      exact diverge_cons_ne (fun e => hne (by simpa using congrArg String.toList e)) _ _
    | cons a t ih => simpa [diverge_cons_same] using ih
  rw [← isolation_purge_status c body p1 p2 k hw h2 _ hd] at hr
  exact statusFetch_of_resolve c _ k' x hr hx

/-- … and when another handler's record is stored into the same patch -/
theorem status_record_survives_other_store (c : StatusCfg) (body p1 p2 : J) (k k' : Str) (r : Rec) (x : J)
    (hw : wf p1 = true) (hrw : wf (obj r) = true) (hne : k' ≠ k)
    (hf : statusFetch c (mergePatch body p1) k' = .ok (some x))
    (h2 : statusStore c p1 k r = .ok p2) :
    statusFetch c (mergePatch body p2) k' = .ok (some x) := by
  have hx := statusFetch_ne_null c _ k' x hf
  have hr := resolve_of_statusFetch c _ k' x hf
  have hd : diverge (c.field ++ [String.ofList k']) (c.field ++ [String.ofList k]) = true := by
    induction c.field with
    | nil =>
      exact diverge_cons_ne (fun e => hne (by simpa using congrArg String.toList e)) _ _
    | cons a t ih => simpa [diverge_cons_same] using ih
  rw [← isolation_store_status c body p1 p2 k r hw hrw h2 _ hd] at hr
  exact statusFetch_of_resolve c _ k' x hr hx

/-! ## The covering hypothesis of `roundtrip_status` -/

/-- the covering hypothesis of `roundtrip_status` is necessary: a record written over an older
    record with other keys reads back merged (RFC 7386), not as stored. -/
theorem status_cover_witness :
    let c : StatusCfg := ⟨["status", "kopf", "progress"], ["status", "kopf", "dummy"], false⟩
    let body : J := obj [("status", obj [("kopf", obj [("progress", obj [("h", obj [("b", num 2)])])])])]
    ∃ patch', statusStore c (obj []) ['h'] [("a", num 1)] = .ok patch' ∧
      (match statusFetch c (mergePatch body patch') ['h'] with
       | .ok (some j) => j == obj [("b", num 2), ("a", num 1)]
       | _ => false) = true := by
  intro c body
  exact ⟨obj [("status", obj [("kopf", obj [("progress", obj [("h", obj [("a", num 1)])])])])], by rfl, by decide⟩

/-! ## Example data (shared with `Props/C16_Keys.lean`) -/

def kz : Str := "kopf.zalando.org".toList
def constSfx (s : String) : Str → Str := fun _ => s.toList
def xs (n : Nat) : Str := List.replicate n 'x'
/-- a 55-character and a 60-character valid DNS prefix -/
def p55 : Str := "operators.platform-engineering.example-company.internal".toList
def p60 : Str := "operators.platform-engineering.emea.example-company.internal".toList


/-! ## Non-vacuity: the hypotheses of the theorems are met by concrete, non-trivial instances -/

/-- a codec that tells the values of these examples apart (`hc` only ever asks for the instance of
    the round-trip law at the value written; CPython's `json` itself is exercised by the tie) -/
def env0 : Env :=
  { sfx := constSfx "-AAAAAQ",
    enc := fun j => if j == obj [("retries", num 1)] then "A"
                    else if j == obj [("spec", obj [("n", num 2)])] then "B" else "X",
    dec := fun s => if s == "A" then some (obj [("retries", num 1)])
                    else if s == "B" || s == "B\n" then some (obj [("spec", obj [("n", num 2)])])
                    else none }
def c0 : AnnCfg := ⟨"my-op.example.com".toList, true, false, "touch-dummy".toList⟩
/-- a ReplicaSet owned by a Deployment, with a user annotation -/
def body0 : J := obj [("kind", str "ReplicaSet"),
  ("metadata", obj [("ownerReferences", arr [obj [("kind", str "Deployment")]]),
                    ("annotations", obj [("note", str "user data")])])]
def r0 : Rec := [("retries", num 1), ("message", null)]
/-- 70 characters: hashed in v2 and in v1 -/
def k0 : Str := "fn/".toList ++ xs 67

example : isDRS body0 = true := by decide
example : (makeKeys c0.pfx c0.v1 env0.sfx (markKey true k0)).length = 2 := by decide
example : wf (obj []) = true ∧ MarkStable (obj []) := ⟨by decide, markStable_nil⟩
example : env0.dec (env0.enc (obj (stored c0.verbose r0))) = some (obj (stored c0.verbose r0)) := by rfl
example : env0.dec (env0.enc (obj [("spec", obj [("n", num 2)])]) ++ newline) = some (obj [("spec", obj [("n", num 2)])]) := by rfl
example : (match annStore env0 c0 body0 (obj []) k0 r0 with | .ok _ => true | _ => false) = true := by decide
example : (match annPurge env0 c0 body0 (obj []) k0 with | .ok _ => true | _ => false) = true := by decide
example : FlatRec r0 := ⟨by decide, by decide⟩
example : FieldApart ["status", "kopf", "progress"] := ⟨"status", _, rfl, by decide, by decide⟩
/-! Multi storages: a nested tree `Multi[Multi[Annotations], Status, Multi[]]` on the ReplicaSet -/

def sc0 : StatusCfg := ⟨["status", "kopf", "progress"], ["status", "kopf", "dummy"], false⟩
def t0 : STree := .multi [.multi [.leaf (.ann c0)], .leaf (.status sc0), .multi []]

example : t0.flatten = [.ann c0, .status sc0] := rfl
example : (match STree.store env0 body0 k0 r0 (obj []) t0 with | .ok _ => true | _ => false) = true := by decide
example : (match STree.purge env0 body0 k0 (obj []) t0 with | .ok _ => true | _ => false) = true := by decide
example : PlainPrefix c0.pfx := ⟨by decide, by decide⟩

/-- `roundtrip_multi_apart` applied: whatever patch the store on the tree produces, the tree reads
    the record back from the patched ReplicaSet -/
example : ∀ p', STree.store env0 body0 k0 r0 (obj []) t0 = .ok p' →
    STree.fetch env0 (mergePatch body0 p') k0 t0 = .ok (some (obj [("retries", num 1)])) :=
  fun p' h => roundtrip_multi_apart env0 t0 c0 [.status sc0] rfl body0 (obj []) p' k0 r0 rfl
    (by decide) markStable_nil (by decide) ⟨by decide, by decide⟩
    (by intro l hl; simp at hl; subst hl; exact ⟨"status", _, rfl, by decide, by decide⟩) h

/-- `purge_complete_multi` applied to the same tree -/
example : ∀ p', STree.purge env0 body0 k0 (obj []) t0 = .ok p' →
    ∀ x, STree.fetch env0 (mergePatch body0 p') k0 t0 ≠ .ok (some x) :=
  fun p' h => purge_complete_multi env0 t0 body0 (obj []) p' k0 (by decide) markStable_nil
    (by intro sc hsc
        have : sc = sc0 := by simpa [show t0.flatten = [.ann c0, .status sc0] from rfl] using hsc
        subst this; exact ⟨"status", _, rfl, by decide, by decide⟩)
    (by intro sc sc' hsc hsc'
        have e1 : sc = sc0 := by simpa [show t0.flatten = [.ann c0, .status sc0] from rfl] using hsc
        have e2 : sc' = sc0 := by simpa [show t0.flatten = [.ann c0, .status sc0] from rfl] using hsc'
        subst e1; subst e2; exact Or.inl rfl) h

/-- `pending_store_survives_purge` applied: the record of `k0` stored into the patch is read back although the handler
    `other` is purged in the same patch -/
example : ∀ p1 p2, annStore env0 c0 body0 (obj []) k0 r0 = .ok p1 → annPurge env0 c0 body0 p1 "other".toList = .ok p2 →
    annFetch env0 c0 (mergePatch body0 p2) k0 = .ok (some (obj [("retries", num 1)])) :=
  fun p1 p2 h1 h2 => pending_store_survives_purge env0 c0 body0 (obj []) p1 p2 "other".toList k0 r0 rfl
    (by decide) markStable_nil h1 h2 (by decide)

/-! `last_store_wins_ann` on an object that ALREADY CARRIES the record which is stored (`bodyA`): non-vacuity, and the
    witness that the variant `annStoreSkipUnchanged` (seeded change C16f: "no need to re-send what is there") loses it -/
def kA : Str := "fn".toList
/-- `body0` after a cycle in which `r0` was stored for `fn` -/
def bodyA : J :=
  match annStore env0 c0 body0 (obj []) kA r0 with
  | .ok p => mergePatch body0 p
  | .error _ => body0

example : (match annFetch env0 c0 bodyA kA with | .ok (some j) => j == obj [("retries", num 1)] | _ => false) = true := by decide

/-- the theorem applied: purge, another record, a touch, then the record the object carries — it is what is read -/
example : ∀ p1 p2, runAnnOps env0 c0 bodyA (obj []) [.purge kA, .store kA [("retries", num 9)], .touch (some "t"), .purge kA] = .ok p1 →
    annStore env0 c0 bodyA p1 kA r0 = .ok p2 →
    annFetch env0 c0 (mergePatch bodyA p2) kA = .ok (some (obj [("retries", num 1)])) :=
  fun p1 p2 h1 h2 => last_store_wins_ann env0 c0 bodyA (obj []) p1 p2 _ kA r0 rfl (by decide) markStable_nil h1 h2
example : (match runAnnOps env0 c0 bodyA (obj []) [.purge kA, .store kA [("retries", num 9)], .touch (some "t"), .purge kA] with
    | .ok p1 => (match annStore env0 c0 bodyA p1 kA r0 with | .ok _ => true | _ => false) | _ => false) = true := by decide

/-- **The variant that skips "what is already there" loses the record** (seeded change C16f): on the object that carries
    the record, a purge of the handler followed by the store of that very record in ONE patch leaves the purge's null in
    the patch — the patched object holds no record; and after another record stored first, that other record is read.
    (With the real `annStore`: `restore_after_purge_ann`, `restore_after_store_ann`.) -/
theorem store_skip_unchanged_witness :
    (match annPurge env0 c0 bodyA (obj []) kA with
     | .ok p1 =>
       (match annStoreSkipUnchanged env0 c0 bodyA p1 kA r0 with
        | .ok p2 => (match annFetch env0 c0 (mergePatch bodyA p2) kA with | .ok none => true | _ => false)
        | .error _ => false)
     | .error _ => false) = true ∧
    (match annStoreSkipUnchanged env0 c0 bodyA (obj []) kA [("spec", obj [("n", num 2)])] with
     | .ok p1 =>
       (match annStoreSkipUnchanged env0 c0 bodyA p1 kA r0 with
        | .ok p2 => (match annFetch env0 c0 (mergePatch bodyA p2) kA with
                     | .ok (some j) => j == obj [("spec", obj [("n", num 2)])] | _ => false)
        | .error _ => false)
     | .error _ => false) = true := by
  constructor <;> decide

/-- an object without status records, and a patch in which the records of `a` and `b` are pending -/
def bodyS : J := obj [("metadata", obj [("name", str "x")])]
def patchS : J := obj [("status", obj [("kopf", obj [("progress",
  obj [("a", obj [("retries", num 3)]), ("b", obj [("retries", num 4)])])])])]

/-- `status_record_survives_other_purge` applied where the purge WITHDRAWS a pending record (nothing of `b` is on the
    object): `a`'s pending record stays -/
example : ∀ p2, statusPurge sc0 bodyS patchS "b".toList = .ok p2 →
    statusFetch sc0 (mergePatch bodyS p2) "a".toList = .ok (some (obj [("retries", num 3)])) :=
  fun p2 h => status_record_survives_other_purge sc0 bodyS patchS p2 "b".toList "a".toList _ (by decide) (by decide) rfl h
example : (match statusPurge sc0 bodyS patchS "b".toList with | .ok _ => true | _ => false) = true := by decide

/-- `status_record_survives_other_store` applied -/
example : ∀ p2, statusStore sc0 patchS "c".toList [("retries", num 5)] = .ok p2 →
    statusFetch sc0 (mergePatch bodyS p2) "a".toList = .ok (some (obj [("retries", num 3)])) :=
  fun p2 h => status_record_survives_other_store sc0 bodyS patchS p2 "c".toList "a".toList _ _ (by decide) (by decide) (by decide) rfl h

/-- `foreign_annotation_untouched`: the user annotation `note` is not `<prefix>/…` -/
example : ∀ x, "note".toList ≠ c0.pfx ++ '/' :: x := by
  intro x e
  have h : ("note".toList).take 1 = (c0.pfx ++ '/' :: x).take 1 := congrArg (List.take 1) e
  have h2 : (c0.pfx ++ '/' :: x).take 1 = ['m'] := rfl
  rw [h2] at h
  revert h; decide

/-! ## Where the bodies come from: the listing of a freshly started operator (C16h) -/

/-- `'<Kind>List'.removesuffix('List') = '<Kind>'` for EVERY kind (also kinds that end in L, i, s, t: ReplicaSet, Ingress,
    TodoList): the kind `list_objs` restores into the items is the kind of the objects -/
theorem removeSuffix_append (K : Str) : removeSuffix listWord (K ++ listWord) = K := by
  have h : listWord.isSuffixOf (K ++ listWord) = true := by
    rw [List.isSuffixOf_iff_suffix]; exact List.suffix_append K listWord
  simp only [removeSuffix, h, if_true, List.length_append, Nat.add_sub_cancel]
  exact List.take_left' rfl

/-- a ReplicaSet owned by a Deployment as the cluster stores it, and the list response Kubernetes sends for it -/
def bodyL : J := obj [("apiVersion", str "apps/v1"), ("kind", str "ReplicaSet"),
  ("metadata", obj [("name", str "web-1"), ("ownerReferences", arr [obj [("kind", str "Deployment"), ("name", str "web")]])])]
def rspL : J := obj [("kind", str "ReplicaSetList"), ("apiVersion", str "apps/v1"),
  ("items", arr [obj [("metadata", obj [("name", str "web-1"), ("ownerReferences", arr [obj [("kind", str "Deployment"), ("name", str "web")]])])]])]

/-- the listed item is the stored ReplicaSet again as far as the names go: same mark, same annotation names at the listing
    of a restarted operator as at a watch-event (which carries the stored object) -/
theorem listed_names_identical_instance :
    (listObjs rspL).map isDRS = [true] ∧
    (listObjs rspL).map (fun b => annNames env0 c0.pfx c0.v1 b kA) = [annNames env0 c0.pfx c0.v1 bodyL kA] := by
  constructor <;> decide

/-- NOT so with `rstrip('List')` (seeded change C16h): it strips a character SET, 'ReplicaSetList' becomes 'ReplicaSe', the
    listed ReplicaSet loses its mark and its names differ from those of the very same object seen in a watch-event -/
theorem listed_rstrip_witness :
    rstripChars listWord "ReplicaSetList".toList = "ReplicaSe".toList ∧
    (listObjsRstrip rspL).map isDRS = [false] ∧
    (listObjsRstrip rspL).map (fun b => annNames env0 c0.pfx c0.v1 b kA) ≠ [annNames env0 c0.pfx c0.v1 bodyL kA] := by
  refine ⟨by decide, by decide, by decide⟩

/-- … while kinds ending in none of L, i, s, t come out the same either way (why Pods and custom resources never showed it) -/
example : rstripChars listWord "PodList".toList = removeSuffix listWord "PodList".toList := by decide
example : isDRS bodyL = true := by decide

end Kopf.C16
