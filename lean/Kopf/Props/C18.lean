/-
  C18 — property theorems only. Admission responses faithfully reflect handler outcomes and the
  requested mutations. Model: Kopf/Model/C18_Admission.lean; lemmas: Kopf/Lemmas/C18_*.lean.
-/
import Kopf.Lemmas.C18_Total
import Kopf.Lemmas.C18_Spec
import Kopf.Lemmas.C18_Misc
namespace Kopf.C18
open Kopf Kopf.J

/-! ## allowed / status / warnings -/

/-- allowed ⇔ no selected handler raised -/
theorem allowed_iff (outs : List Outcome) (ws : List String) :
    (buildResponse outs ws).allowed = true ↔ ∀ o ∈ outs, o = none := by
  simp [buildResponse, List.all_eq_true, Option.isNone_iff_eq_none]

/-- a status (message, code) is reported exactly on denial -/
theorem status_iff_denied (outs : List Outcome) (ws : List String) :
    (buildResponse outs ws).status = none ↔ (buildResponse outs ws).allowed = true := by
  rw [allowed_iff, ← errorsOf_eq_nil, ← pickMin_eq_none]
  simp [buildResponse]

/-- the priority order of the error classes: admission, then permanent, temporary, other -/
theorem prio_strict_order :
    prio .admission < prio .permanent ∧ prio .permanent < prio .temporary ∧
    prio .temporary < prio .other := by decide

/-- The reported error is a raised one with the minimal priority key, and the FIRST such in the
    order of the outcomes (Python's stable sort); message and code are taken from it. -/
theorem error_priority (outs : List Outcome) (ws : List String) (st : Status)
    (h : (buildResponse outs ws).status = some st) :
    ∃ pre m post, errorsOf outs = pre ++ m :: post ∧
      st = ⟨message m, statusCode m⟩ ∧
      (∀ e ∈ pre, prio m.kind < prio e.kind) ∧ (∀ e ∈ post, prio m.kind ≤ prio e.kind) := by
  simp only [buildResponse, Option.map_eq_some_iff] at h
  obtain ⟨m, hm, rfl⟩ := h
  obtain ⟨pre, post, hdec, hpre, hpost⟩ := pickMin_spec _ m hm
  exact ⟨pre, m, post, hdec, rfl, hpre, hpost⟩

/-- code: the admission error's own code when it is truthy, else 500; message: `str(e) or repr(e)` -/
theorem status_code_message (e : Err) :
    statusCode e = (if e.kind = .admission then
                      (match e.code with
                       | some c => if c = 0 then 500 else c
                       | none => 500)
                    else 500) ∧
    message e = (if e.str = "" then e.repr else e.str) := by
  constructor
  · rcases e with ⟨k, c, s, r⟩
    cases k <;> cases c <;> simp [statusCode]
  · by_cases hs : e.str = "" <;> simp [message, hs]

/-- warnings are returned unchanged and in order (the field is absent iff there are none) -/
theorem warnings_order (outs : List Outcome) (ws : List String) :
    (buildResponse outs ws).warnings.getD [] = ws ∧
    ((buildResponse outs ws).warnings = none ↔ ws = []) := by
  cases ws <;> simp [buildResponse]

/-! ## which handlers run -/

/-- a mutating handler's deletion opt-in: `set(operations) == {'DELETE'}` -/
def OnlyDelete (h : Handler) : Prop :=
  ∃ ops, h.operations = some ops ∧ ops ≠ [] ∧ ∀ o ∈ ops, o = "DELETE"

theorem explicitlyForDeletion_iff (h : Handler) : explicitlyForDeletion h = true ↔ OnlyDelete h := by
  unfold explicitlyForDeletion OnlyDelete
  cases h.operations with
  | none => simp
  | some ops => cases ops <;> simp [List.all_eq_true]

/-- the gate, declaratively: type hint, webhook-id hint, DELETE exclusion of mutating handlers
    unless opted in, subresource ('*' or equal, incl. None = None), remaining filters. -/
theorem gate_spec (h : Handler) (c : Cause) (m : Bool) :
    gate h c m = true ↔
      (c.reason = none ∨ c.reason = some h.reason) ∧
      (c.webhook = none ∨ c.webhook = some h.id) ∧
      (h.reason = .mutating → c.operation = some "DELETE" → OnlyDelete h) ∧
      (h.subresource = some "*" ∨ h.subresource = c.subresource) ∧
      m = true := by
  rw [← explicitlyForDeletion_iff]
  rcases h with ⟨hid, hr, hops, hsub⟩
  rcases c with ⟨cr, cw, cop, csub⟩
  simp only [gate, matchesSubresource, Bool.and_eq_true, Bool.or_eq_true, beq_iff_eq, bne_iff_ne, ne_eq]
  constructor
  · rintro ⟨⟨⟨h1, h2⟩, h3⟩, h4, h5⟩
    refine ⟨h1, h2, ?_, h4, h5⟩
    intro hm hd
    rcases h3 with (h3 | h3) | h3
    · exact absurd hm h3
    · exact absurd hd h3
    · exact h3
  · rintro ⟨h1, h2, h3, h4, h5⟩
    refine ⟨⟨⟨h1, h2⟩, ?_⟩, h4, h5⟩
    by_cases hm : hr = .mutating
    · by_cases hd : cop = some "DELETE"
      · exact Or.inr (h3 hm hd)
      · exact Or.inl (Or.inr hd)
    · exact Or.inl (Or.inl hm)

/-- exactly the registered handlers passing the gate are selected, in registry order -/
theorem select_spec (hs : List (Handler × Bool)) (c : Cause) (h : Handler) :
    (h ∈ select hs c ↔ ∃ m, (h, m) ∈ hs ∧ gate h c m = true) ∧
    (select hs c).Sublist (hs.map (·.1)) := by
  constructor
  · simp only [select, List.mem_map, List.mem_filter]
    constructor
    · rintro ⟨⟨h', m⟩, ⟨hmem, hg⟩, rfl⟩; exact ⟨m, hmem, hg⟩
    · rintro ⟨m, hmem, hg⟩; exact ⟨(h, m), ⟨hmem, hg⟩, rfl⟩
  · exact List.Sublist.map _ List.filter_sublist

/-- The property's "handlers matching the operation" is NOT what the gate does: the handler's
    declared `operations` are never compared with the request's operation (witness replayed on the
    real code: corpus/C18/C18-F3-operations-ignored.json). -/
theorem gate_ignores_operations_witness :
    ∃ (h : Handler) (c : Cause), h.operations = some ["CREATE"] ∧ c.operation = some "UPDATE" ∧
      gate h c true = true :=
  ⟨⟨"h", .validating, some ["CREATE"], none⟩, ⟨none, none, some "UPDATE", none⟩, rfl, rfl, by decide⟩

/-! ## fidelity of the mutation (code after the repair 74dc18a)

  For EVERY reviewed object (a mapping) and EVERY merge-style patch content — no well-typedness
  guard, not even uniqueness of patch keys — `_apply_patch` returns, and the mutated body has
  exactly the leaves of the RFC 7386 merge at every path. `LeafEq` = same leaf at every path =
  equality up to key order and the presence of empty mappings (`dropEmpty_leafEq`).
  The only remaining hypothesis is that the body itself is a mapping (a non-mapping root makes
  `dicts.ensure(body, (), {})` raise ValueError in the code and in the model; reviewed objects are
  always mappings). -/

/-- no exception, whatever the patch: mappings over scalars / lists / nulls included -/
theorem apply_total (b : J) (hb : b.isObj = true) (p : List (String × J)) :
    ∃ b', applyPatch b p = .ok b' := by
  obtain ⟨b', h, _⟩ := applyPatch_ok_sem b hb p
  exact ⟨b', h⟩

/-- the mutated body has exactly the leaves of the RFC 7386 merge -/
theorem fidelity (b b' : J) (hb : b.isObj = true) (p : List (String × J))
    (hr : applyPatch b p = .ok b') : LeafEq b' (mergePatch b (.obj p)) := by
  intro q
  obtain ⟨b2, h2, hs⟩ := applyPatch_ok_sem b hb p
  rw [h2] at hr
  cases hr
  obtain ⟨kvs, rfl⟩ : ∃ kvs, b = .obj kvs := by cases b <;> simp [isObj] at hb; exact ⟨_, rfl⟩
  rw [hs, mergePatch, mergeKvs_sem]

/-- `dropEmpty` (remove empty mappings, recursively) does not change the leaves: `LeafEq` is
    insensitive to exactly the presence of empty mappings (and to key order, by `lookup`). -/
theorem dropEmpty_leafEq (j : J) (h : J.wf j = true) : LeafEq (dropEmpty j) j :=
  fun q => dropEmpty_leaf j h q

/-- former F4 (raised TypeError before 74dc18a): a mapping over a scalar replaces it, as RFC 7386 -/
theorem mapping_over_scalar_replaces :
    applyPatch (.obj [("spec", .obj [("a", .num 1)])]) [("spec", .obj [("a", .obj [("b", .num 2)])])]
      = .ok (.obj [("spec", .obj [("a", .obj [("b", .num 2)])])]) ∧
    mergePatch (.obj [("spec", .obj [("a", .num 1)])]) (.obj [("spec", .obj [("a", .obj [("b", .num 2)])])])
      = .obj [("spec", .obj [("a", .obj [("b", .num 2)])])] := ⟨rfl, rfl⟩

/-- former C18-F2 (silently ignored before 74dc18a): an empty mapping over a scalar replaces it;
    a deletion below a list removes the whole key (RFC 7386 leaves `{}`: equal up to an empty mapping) -/
theorem empty_mapping_over_scalar_replaces :
    applyPatch (.obj [("a", .num 1)]) [("a", .obj [])] = .ok (.obj [("a", .obj [])]) ∧
    applyPatch (.obj [("a", .arr [.num 1]), ("z", .num 1)]) [("a", .obj [("b", .null)])]
      = .ok (.obj [("z", .num 1)]) ∧
    mergePatch (.obj [("a", .arr [.num 1]), ("z", .num 1)]) (.obj [("a", .obj [("b", .null)])])
      = .obj [("a", .obj []), ("z", .num 1)] := ⟨rfl, rfl, rfl⟩

/-- the remaining guard is needed: over a non-mapping root the root call raises (ValueError) -/
theorem apply_nonmapping_root_raises :
    applyPatch (.num 1) [("a", .num 2)] = .error .valueError := rfl

/-! ## non-vacuity -/

-- nested merge, deletion (emptying a parent), type changes both ways, new nested keys, special
-- characters in keys, duplicate-free or not: the hypotheses of `fidelity` are met
example : ∃ b', applyPatch
    (.obj [("spec", .obj [("a", .obj [("x", .num 1)]), ("m", .obj [("n", .num 1)]), ("s", .str "v")]), ("a/b", .num 1)])
    [("spec", .obj [("a", .obj [("x", .null), ("y", .num 2)]), ("m", .str "s"), ("s", .obj [("~k", .bool true)])]),
     ("a/b", .null)] = .ok b' ∧
    b' = .obj [("spec", .obj [("m", .str "s"), ("s", .obj [("~k", .bool true)]), ("a", .obj [("y", .num 2)])])] :=
  ⟨_, rfl, rfl⟩

example : ∃ b', applyPatch
    (.obj [("spec", .obj [("a", .obj [("x", .num 1)])]), ("k", .num 1)])
    [("spec", .obj [("a", .obj [("x", .null)])])] = .ok b' ∧ b' = .obj [("k", .num 1)] := ⟨_, rfl, rfl⟩

-- the response clauses on a mixed outcome list: temporary, admission(403), admission(400) → first admission
example : (buildResponse [none, some ⟨.temporary, none, "t", "T"⟩, some ⟨.admission, some 403, "", "A()"⟩,
    some ⟨.admission, some 400, "x", "A('x')"⟩] ["w1", "w2"])
    = ⟨false, some ⟨"A()", 403⟩, some ["w1", "w2"]⟩ := by decide

example : gate ⟨"h", .mutating, some ["DELETE"], some "*"⟩ ⟨none, some "h", some "DELETE", some "status"⟩ true = true := by decide
example : gate ⟨"h", .mutating, some ["CREATE", "DELETE"], none⟩ ⟨none, none, some "DELETE", none⟩ true = false := by decide

end Kopf.C18
