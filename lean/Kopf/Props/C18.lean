/-
  C18 — property theorems only. Admission responses faithfully reflect handler outcomes and the
  requested mutations. Model: Kopf/Model/C18_Admission.lean; lemmas: Kopf/Lemmas/C18_*.lean.
-/
import Kopf.Lemmas.C18_Total
import Kopf.Lemmas.C18_Misc
namespace Kopf.C18
open Kopf Kopf.J

/-! ## allowed / status / warnings -/

/-- allowed ⇔ no selected handler raised -/
theorem allowed_iff (outs : List Outcome) (ws : List String) :
    (buildResponse outs ws).allowed = true ↔ ∀ o ∈ outs, o = none := by
  simp [buildResponse, List.all_eq_true, Option.isNone_iff_eq_none]

/-- a status (message, code) is reported exactly on denial -/
theorem status_iff_denied (outs : List Outcome) (ws : List String) :
    (buildResponse outs ws).status = none ↔ (buildResponse outs ws).allowed = true := by
  rw [allowed_iff, ← errorsOf_eq_nil, ← pickMin_eq_none]
  simp [buildResponse]

/-- the priority order of the error classes: admission, then permanent, temporary, other -/
theorem prio_strict_order :
    prio .admission < prio .permanent ∧ prio .permanent < prio .temporary ∧
    prio .temporary < prio .other := by decide

/-- The reported error is a raised one with the minimal priority key, and the FIRST such in the
    order of the outcomes (Python's stable sort); message and code are taken from it. -/
theorem error_priority (outs : List Outcome) (ws : List String) (st : Status)
    (h : (buildResponse outs ws).status = some st) :
    ∃ pre m post, errorsOf outs = pre ++ m :: post ∧
      st = ⟨message m, statusCode m⟩ ∧
      (∀ e ∈ pre, prio m.kind < prio e.kind) ∧ (∀ e ∈ post, prio m.kind ≤ prio e.kind) := by
  simp only [buildResponse, Option.map_eq_some_iff] at h
  obtain ⟨m, hm, rfl⟩ := h
  obtain ⟨pre, post, hdec, hpre, hpost⟩ := pickMin_spec _ m hm
  exact ⟨pre, m, post, hdec, rfl, hpre, hpost⟩

/-- code: the admission error's own code when it is truthy, else 500; message: `str(e) or repr(e)` -/
theorem status_code_message (e : Err) :
    statusCode e = (if e.kind = .admission then
                      (match e.code with
                       | some c => if c = 0 then 500 else c
                       | none => 500)
                    else 500) ∧
    message e = (if e.str = "" then e.repr else e.str) := by
  constructor
  · rcases e with ⟨k, c, s, r⟩
    cases k <;> cases c <;> simp [statusCode]
  · by_cases hs : e.str = "" <;> simp [message, hs]

/-- warnings are returned unchanged and in order (the field is absent iff there are none) -/
theorem warnings_order (outs : List Outcome) (ws : List String) :
    (buildResponse outs ws).warnings.getD [] = ws ∧
    ((buildResponse outs ws).warnings = none ↔ ws = []) := by
  cases ws <;> simp [buildResponse]

/-! ## which handlers run -/

/-- a mutating handler's deletion opt-in: `set(operations) == {'DELETE'}` -/
def OnlyDelete (h : Handler) : Prop :=
  ∃ ops, h.operations = some ops ∧ ops ≠ [] ∧ ∀ o ∈ ops, o = "DELETE"

theorem explicitlyForDeletion_iff (h : Handler) : explicitlyForDeletion h = true ↔ OnlyDelete h := by
  unfold explicitlyForDeletion OnlyDelete
  cases h.operations with
  | none => simp
  | some ops => cases ops <;> simp [List.all_eq_true]

/-- the gate, declaratively: type hint, webhook-id hint, DELETE exclusion of mutating handlers
    unless opted in, subresource ('*' or equal, incl. None = None), remaining filters. -/
theorem gate_spec (h : Handler) (c : Cause) (m : Bool) :
    gate h c m = true ↔
      (c.reason = none ∨ c.reason = some h.reason) ∧
      (c.webhook = none ∨ c.webhook = some h.id) ∧
      (h.reason = .mutating → c.operation = some "DELETE" → OnlyDelete h) ∧
      (h.subresource = some "*" ∨ h.subresource = c.subresource) ∧
      m = true := by
  rw [← explicitlyForDeletion_iff]
  rcases h with ⟨hid, hr, hops, hsub⟩
  rcases c with ⟨cr, cw, cop, csub⟩
  simp only [gate, matchesSubresource, Bool.and_eq_true, Bool.or_eq_true, beq_iff_eq, bne_iff_ne, ne_eq]
  constructor
  · rintro ⟨⟨⟨h1, h2⟩, h3⟩, h4, h5⟩
    refine ⟨h1, h2, ?_, h4, h5⟩
    intro hm hd
    rcases h3 with (h3 | h3) | h3
    · exact absurd hm h3
    · exact absurd hd h3
    · exact h3
  · rintro ⟨h1, h2, h3, h4, h5⟩
    refine ⟨⟨⟨h1, h2⟩, ?_⟩, h4, h5⟩
    by_cases hm : hr = .mutating
    · by_cases hd : cop = some "DELETE"
      · exact Or.inr (h3 hm hd)
      · exact Or.inl (Or.inr hd)
    · exact Or.inl (Or.inl hm)

/-- exactly the registered handlers passing the gate are selected, in registry order -/
theorem select_spec (hs : List (Handler × Bool)) (c : Cause) (h : Handler) :
    (h ∈ select hs c ↔ ∃ m, (h, m) ∈ hs ∧ gate h c m = true) ∧
    (select hs c).Sublist (hs.map (·.1)) := by
  constructor
  · simp only [select, List.mem_map, List.mem_filter]
    constructor
    · rintro ⟨⟨h', m⟩, ⟨hmem, hg⟩, rfl⟩; exact ⟨m, hmem, hg⟩
    · rintro ⟨m, hmem, hg⟩; exact ⟨(h, m), ⟨hmem, hg⟩, rfl⟩
  · exact List.Sublist.map _ List.filter_sublist

/-- The property's "handlers matching the operation" is NOT what the gate does: the handler's
    declared `operations` are never compared with the request's operation (witness replayed on the
    real code: corpus/C18/C18-F3-operations-ignored.json). -/
theorem gate_ignores_operations_witness :
    ∃ (h : Handler) (c : Cause), h.operations = some ["CREATE"] ∧ c.operation = some "UPDATE" ∧
      gate h c true = true :=
  ⟨⟨"h", .validating, some ["CREATE"], none⟩, ⟨none, none, some "UPDATE", none⟩, rfl, rfl, by decide⟩

/-! ## fidelity of the mutation

  Full statement (FALSE of the code, see the witnesses below):
    `applyPatch b p = .ok b' → LeafEq b' (mergePatch b (.obj p))`  and  `applyPatch` total.
  Proved: both under the guard `WellTyped b p` (patch mappings only descend into mappings or absent
  keys; patch keys unique per level, as in any Python dict). `LeafEq` = same leaf at every path =
  equality up to key order and the presence of empty mappings (`dropEmpty_leafEq`). -/

/-- no exception when the patch is well-typed over the body -/
theorem apply_total_on_welltyped (b : J) (p : List (String × J)) (h : WellTyped b p) :
    ∃ b', applyPatch b p = .ok b' := by
  have hx := okx_of_wtAt (.obj p) (some b) h.1
  exact applyInstr_total (.obj p) b [] (Or.inr rfl)
    (fun q hq hne => by cases q <;> simp_all [pre]) hx h.2

/-- on well-typed pairs the mutated body has exactly the leaves of the RFC 7386 merge -/
theorem fidelity_partial (b b' : J) (p : List (String × J)) (h : WellTyped b p)
    (hr : applyPatch b p = .ok b') : LeafEq b' (mergePatch b (.obj p)) := by
  intro q
  have h1 := applyKvs_sem p b b' [] hr
  have h2 := mergePatch_sem (.obj p) (some b) rfl h.1 h.2
  simp only [Option.getD, Lopt, absInstr] at h2
  rw [h1, h2]

/-- `dropEmpty` (remove empty mappings, recursively) does not change the leaves: `LeafEq` is
    insensitive to exactly the presence of empty mappings (and to key order, by `lookup`). -/
theorem dropEmpty_leafEq (j : J) (h : J.wf j = true) : LeafEq (dropEmpty j) j :=
  fun q => dropEmpty_leaf j h q

/-- F4: a mapping patched over a scalar raises (model: `.error .typeError`) where RFC 7386 replaces it -/
theorem apply_error_witness :
    applyPatch (.obj [("spec", .obj [("a", .num 1)])]) [("spec", .obj [("a", .obj [("b", .num 2)])])]
      = .error .typeError ∧
    leafAt (mergePatch (.obj [("spec", .obj [("a", .num 1)])])
      (.obj [("spec", .obj [("a", .obj [("b", .num 2)])])])) ["spec", "a", "b"] = some (.num 2) :=
  ⟨rfl, rfl⟩

/-- a leafless mapping over a scalar is silently ignored: the scalar survives where the merge has
    an (empty) mapping — more than "the presence of empty mappings". -/
theorem fidelity_unguarded_witness :
    applyPatch (.obj [("a", .num 1)]) [("a", .obj [])] = .ok (.obj [("a", .num 1)]) ∧
    ¬ LeafEq (.obj [("a", .num 1)]) (mergePatch (.obj [("a", .num 1)]) (.obj [("a", .obj [])])) := by
  constructor
  · rfl
  · intro h
    have h' := h ["a"]
    have e1 : leafAt (.obj [("a", .num 1)]) ["a"] = some (.num 1) := rfl
    have e2 : leafAt (mergePatch (.obj [("a", .num 1)]) (.obj [("a", .obj [])])) ["a"] = none := rfl
    rw [e1, e2] at h'
    cases h'

/-! ## non-vacuity -/

-- a well-typed pair with nested merge, deletion (emptying a parent), type change mapping→scalar,
-- new nested keys and special characters in keys:
example : WellTyped
    (.obj [("spec", .obj [("a", .obj [("x", .num 1)]), ("m", .obj [("n", .num 1)])]), ("a/b", .num 1)])
    [("spec", .obj [("a", .obj [("x", .null), ("y", .num 2)]), ("m", .str "s"), ("new", .obj [("~k", .bool true)])]),
     ("a/b", .null)] := ⟨rfl, rfl⟩

example : ∃ b', applyPatch
    (.obj [("spec", .obj [("a", .obj [("x", .num 1)])]), ("k", .num 1)])
    [("spec", .obj [("a", .obj [("x", .null)])])] = .ok b' ∧ b' = .obj [("k", .num 1)] := ⟨_, rfl, rfl⟩

-- the response clauses on a mixed outcome list: temporary, admission(403), admission(400) → first admission
example : (buildResponse [none, some ⟨.temporary, none, "t", "T"⟩, some ⟨.admission, some 403, "", "A()"⟩,
    some ⟨.admission, some 400, "x", "A('x')"⟩] ["w1", "w2"])
    = ⟨false, some ⟨"A()", 403⟩, some ["w1", "w2"]⟩ := by decide

example : gate ⟨"h", .mutating, some ["DELETE"], some "*"⟩ ⟨none, some "h", some "DELETE", some "status"⟩ true = true := by decide
example : gate ⟨"h", .mutating, some ["CREATE", "DELETE"], none⟩ ⟨none, none, some "DELETE", none⟩ true = false := by decide

end Kopf.C18
