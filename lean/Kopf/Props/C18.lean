/-
  C18 — property theorems only. Admission responses faithfully reflect handler outcomes and the
  requested mutations. Model: Kopf/Model/C18_Admission.lean; lemmas: Kopf/Lemmas/C18_*.lean.
-/
import Kopf.Lemmas.C18_Total
import Kopf.Lemmas.C18_Spec
import Kopf.Lemmas.C18_Misc
import Kopf.Lemmas.C18_Fns
import Kopf.Lemmas.C18_Select
namespace Kopf.C18
open Kopf Kopf.J

/-! ## allowed / status / warnings -/

/-- allowed ⇔ no selected handler raised -/
theorem allowed_iff {Op : Type} (outs : List Outcome) (ws : List String) (ops : List Op) :
    (buildResponse outs ws ops).allowed = true ↔ ∀ o ∈ outs, o = none := by
  simp [buildResponse, List.all_eq_true, Option.isNone_iff_eq_none]

/-- a status (message, code) is reported exactly on denial -/
theorem status_iff_denied {Op : Type} (outs : List Outcome) (ws : List String) (ops : List Op) :
    (buildResponse outs ws ops).status = none ↔ (buildResponse outs ws ops).allowed = true := by
  rw [allowed_iff, ← errorsOf_eq_nil, ← pickMin_eq_none]
  simp [buildResponse]

/-- the priority order of the error classes: admission, then permanent, temporary, other -/
theorem prio_strict_order :
    prio .admission < prio .permanent ∧ prio .permanent < prio .temporary ∧
    prio .temporary < prio .other := by decide

/-- The reported error is a raised one with the minimal priority key, and the FIRST such in the
    order of the outcomes (Python's stable sort); message and code are taken from it. -/
theorem error_priority {Op : Type} (outs : List Outcome) (ws : List String) (ops : List Op) (st : Status)
    (h : (buildResponse outs ws ops).status = some st) :
    ∃ pre m post, errorsOf outs = pre ++ m :: post ∧
      st = ⟨message m, statusCode m⟩ ∧
      (∀ e ∈ pre, prio m.kind < prio e.kind) ∧ (∀ e ∈ post, prio m.kind ≤ prio e.kind) := by
  simp only [buildResponse, Option.map_eq_some_iff] at h
  obtain ⟨m, hm, rfl⟩ := h
  obtain ⟨pre, post, hdec, hpre, hpost⟩ := pickMin_spec _ m hm
  exact ⟨pre, m, post, hdec, rfl, hpre, hpost⟩

/-- warnings are returned unchanged and in order (the field is absent iff there are none) -/
theorem warnings_order {Op : Type} (outs : List Outcome) (ws : List String) (ops : List Op) :
    (buildResponse outs ws ops).warnings.getD [] = ws ∧
    ((buildResponse outs ws ops).warnings = none ↔ ws = []) := by
  cases ws <;> simp [buildResponse]

/-- The `patch` field: present exactly when the JSON patch is non-empty, always together with
    `patchType = "JSONPatch"`, and — as in the code — independently of the outcomes: it is attached
    on denial as well (the apiserver ignores it then). -/
theorem patch_field_spec {Op : Type} (outs : List Outcome) (ws : List String) (ops : List Op) :
    ((buildResponse outs ws ops).patch = none ↔ ops = []) ∧
    (∀ p, (buildResponse outs ws ops).patch = some p → p = ops) ∧
    ((buildResponse outs ws ops).patchType = if ops = [] then none else some "JSONPatch") ∧
    (∀ outs' ws', (buildResponse outs' ws' ops).patch = (buildResponse outs ws ops).patch) := by
  cases ops <;> simp [buildResponse]

/-! ## which handlers run -/

/-- a mutating handler's deletion opt-in: `set(operations) == {'DELETE'}` -/
def OnlyDelete (h : Handler) : Prop :=
  ∃ ops, h.operations = some ops ∧ ops ≠ [] ∧ ∀ o ∈ ops, o = "DELETE"

theorem explicitlyForDeletion_iff (h : Handler) : explicitlyForDeletion h = true ↔ OnlyDelete h := by
  unfold explicitlyForDeletion OnlyDelete
  cases h.operations with
  | none => simp
  | some ops => cases ops <;> simp [List.all_eq_true]

/-- "the handler matches the operation": the request's operation is admitted by the operations the
    handler declared, read as the rule list kopf also sends to the apiserver for the handler's own
    webhook (`managedRuleOps`: the declared collection, or `["*"]` when none/empty; `"*"` admits every
    operation). A review without an operation (malformed) has nothing to match against. -/
def OpMatches (h : Handler) (c : Cause) : Prop :=
  "*" ∈ managedRuleOps h ∨ c.operation = none ∨ ∃ op, c.operation = some op ∧ op ∈ managedRuleOps h

theorem matchingOperation_iff (h : Handler) (c : Cause) : matchingOperation h c = true ↔ OpMatches h c := by
  rcases h with ⟨hid, hr, hops, hsub, hfn⟩
  rcases c with ⟨cr, cw, cop, csub⟩
  unfold OpMatches
  cases hops with
  | none => simp [matchingOperation, opsTruthy, managedRuleOps]
  | some ops =>
    cases ops with
    | nil => simp [matchingOperation, opsTruthy, managedRuleOps]
    | cons o os =>
      cases cop with
      | none => simp [matchingOperation, opsTruthy, managedRuleOps]
      | some op =>
        simp [matchingOperation, opsTruthy, opsContains, opInOps, managedRuleOps]

/-- the gate, declaratively and in full (code after the repair cc4195a): type hint, webhook-id hint,
    the request's operation among the handler's declared ones, DELETE exclusion of mutating handlers
    unless opted in, subresource ('*' or equal, incl. None = None), remaining filters. -/
theorem gate_spec (h : Handler) (c : Cause) (m : Bool) :
    gate h c m = true ↔
      (c.reason = none ∨ c.reason = some h.reason) ∧
      (c.webhook = none ∨ c.webhook = some h.id) ∧
      OpMatches h c ∧
      (h.reason = .mutating → c.operation = some "DELETE" → OnlyDelete h) ∧
      (h.subresource = some "*" ∨ h.subresource = c.subresource) ∧
      m = true := by
  rw [← explicitlyForDeletion_iff, ← matchingOperation_iff]
  rcases h with ⟨hid, hr, hops, hsub, hfn⟩
  rcases c with ⟨cr, cw, cop, csub⟩
  simp only [gate, matchesSubresource, Bool.and_eq_true, Bool.or_eq_true, beq_iff_eq, bne_iff_ne, ne_eq]
  constructor
  · rintro ⟨⟨⟨⟨h1, h2⟩, h0⟩, h3⟩, h4, h5⟩
    refine ⟨h1, h2, h0, ?_, h4, h5⟩
    intro hm hd
    rcases h3 with (h3 | h3) | h3
    · exact absurd hm h3
    · exact absurd hd h3
    · exact h3
  · rintro ⟨h1, h2, h0, h3, h4, h5⟩
    refine ⟨⟨⟨⟨h1, h2⟩, h0⟩, ?_⟩, h4, h5⟩
    by_cases hm : hr = .mutating
    · by_cases hd : cop = some "DELETE"
      · exact Or.inr (h3 hm hd)
      · exact Or.inl (Or.inr hd)
    · exact Or.inl (Or.inl hm)

/-- "Only handlers matching … run": every selected handler is a registered one that passes the gate;
    the selection keeps the registry order; and no function/id pair is selected twice. -/
theorem select_spec (hs : List (Handler × Bool)) (c : Cause) :
    (∀ h, h ∈ select hs c → ∃ m, (h, m) ∈ hs ∧ gate h c m = true) ∧
    (select hs c).Sublist (hs.map (·.1)) ∧
    ((select hs c).map Handler.key).Nodup := by
  refine ⟨?_, ?_, dedupAux_nodup _ []⟩
  · intro h hsel
    have := (dedupAux_mem _ [] h hsel).1
    simp only [List.mem_map, List.mem_filter] at this
    obtain ⟨⟨h', m⟩, ⟨hmem, hg⟩, rfl⟩ := this
    exact ⟨m, hmem, hg⟩
  · exact (dedupAux_sublist _ []).trans (List.Sublist.map _ List.filter_sublist)

/-- …and conversely (stacked decorators: ONE function registered several times under the same id
    with different criteria): if ANY registration of a function passes the gate, that function is
    selected — through a registration that itself passes the gate — exactly once. Deduplication
    happens after the selection criteria, never before. -/
theorem stacked_registration_selected (hs : List (Handler × Bool)) (c : Cause) (h : Handler) (m : Bool)
    (hmem : (h, m) ∈ hs) (hg : gate h c m = true) :
    (∃ h', h' ∈ select hs c ∧ h'.key = h.key ∧ ∃ m', (h', m') ∈ hs ∧ gate h' c m' = true) ∧
    ((select hs c).filter (fun x => x.key == h.key)).length = 1 := by
  have hin : h ∈ (hs.filter (fun hm => gate hm.1 c hm.2)).map (·.1) :=
    List.mem_map.2 ⟨(h, m), List.mem_filter.2 ⟨hmem, hg⟩, rfl⟩
  obtain ⟨y, hy, hyk⟩ := dedupAux_cover _ [] h hin (by simp)
  have hy' : y ∈ select hs c := hy
  refine ⟨⟨y, hy', hyk, (select_spec hs c).1 y hy'⟩, ?_⟩
  -- exactly once: keys are pairwise different and one of them is `h.key`
  have hnd := (select_spec hs c).2.2
  generalize select hs c = sel at hy' hnd
  induction sel with
  | nil => simp at hy'
  | cons x xs ih =>
    simp only [List.map_cons, List.nodup_cons] at hnd
    by_cases hx : x.key = h.key
    · have hnone : xs.filter (fun z => z.key == h.key) = [] := by
        apply List.filter_eq_nil_iff.2
        intro z hz hzk
        exact hnd.1 (List.mem_map.2 ⟨z, hz, by rw [hx]; simpa using hzk⟩)
      simp [hx, hnone]
    · have : y ∈ xs := by
        rcases List.mem_cons.1 hy' with e | e
        · exact absurd (e ▸ hyk) hx
        · exact e
      simp [hx, ih this hnd.2]

/-- "Only handlers matching the … operation … run": a selected handler's declared operations admit
    the request's operation (before cc4195a this was false: finding C18-F3, now a regression case in
    corpus/C18/C18-F3-operations-ignored.json). The in-process test is the same as the rule kopf
    sends to the apiserver (`managedRuleOps`, tied to `build_webhooks`). -/
theorem gate_enforces_operations (hs : List (Handler × Bool)) (c : Cause) (h : Handler)
    (hsel : h ∈ select hs c) : OpMatches h c := by
  obtain ⟨m, _, hg⟩ := (select_spec hs c).1 h hsel
  exact ((gate_spec h c m).1 hg).2.2.1

/-- in particular: declared `["CREATE"]`, request `UPDATE` ⇒ not selected, with or without a hint -/
theorem restricted_handler_skipped (h : Handler) (c : Cause) (m : Bool) (ops : List String) (op : String)
    (ho : h.operations = some ops) (hne : ops ≠ []) (hstar : "*" ∉ ops) (hop : c.operation = some op)
    (hnot : op ∉ ops) : gate h c m = false := by
  cases hg : gate h c m with
  | false => rfl
  | true =>
    have := ((gate_spec h c m).1 hg).2.2.1
    have hr : managedRuleOps h = ops := by
      unfold managedRuleOps; rw [ho]; cases ops with
      | nil => exact absurd rfl hne
      | cons _ _ => rfl
    rcases this with h1 | h1 | ⟨op', h1, h2⟩
    · rw [hr] at h1; exact absurd h1 hstar
    · rw [hop] at h1; cases h1
    · rw [hop] at h1; cases h1; rw [hr] at h2; exact absurd h2 hnot

/-- with a webhook-id hint, at most the handler carrying that id runs -/
theorem hinted_only_that_handler (hs : List (Handler × Bool)) (c : Cause) (id : String)
    (hw : c.webhook = some id) (h : Handler) (hsel : h ∈ select hs c) : h.id = id := by
  obtain ⟨m, _, hg⟩ := (select_spec hs c).1 h hsel
  have := ((gate_spec h c m).1 hg).2.1
  rw [hw] at this
  rcases this with h0 | h1
  · cases h0
  · exact (Option.some.inj h1).symm

/-! ## fidelity of the mutation (code after the repair 74dc18a)

  For EVERY reviewed object (a mapping) and EVERY merge-style patch content — no well-typedness
  guard, not even uniqueness of patch keys — `_apply_patch` returns, and the mutated body has
  exactly the leaves of the RFC 7386 merge at every path. `LeafEq` = same leaf at every path =
  equality up to key order and the presence of empty mappings (`dropEmpty_leafEq`).
  The only remaining hypothesis is that the body itself is a mapping (a non-mapping root makes
  `dicts.ensure(body, (), {})` raise ValueError in the code and in the model; reviewed objects are
  always mappings). -/

/-- no exception, whatever the patch: mappings over scalars / lists / nulls included -/
theorem apply_total (b : J) (hb : b.isObj = true) (p : List (String × J)) :
    ∃ b', applyPatch b p = .ok b' := by
  obtain ⟨b', h, _⟩ := applyPatch_ok_sem b hb p
  exact ⟨b', h⟩

/-- the mutated body has exactly the leaves of the RFC 7386 merge -/
theorem fidelity (b b' : J) (hb : b.isObj = true) (p : List (String × J))
    (hr : applyPatch b p = .ok b') : LeafEq b' (mergePatch b (.obj p)) := by
  intro q
  obtain ⟨b2, h2, hs⟩ := applyPatch_ok_sem b hb p
  rw [h2] at hr
  cases hr
  obtain ⟨kvs, rfl⟩ : ∃ kvs, b = .obj kvs := by cases b <;> simp [isObj] at hb; exact ⟨_, rfl⟩
  rw [hs, mergePatch, mergeKvs_sem]

/-- `dropEmpty` (remove empty mappings, recursively) does not change the leaves: `LeafEq` is
    insensitive to exactly the presence of empty mappings (and to key order, by `lookup`). -/
theorem dropEmpty_leafEq (j : J) (h : J.wf j = true) : LeafEq (dropEmpty j) j :=
  fun q => dropEmpty_leaf j h q

/-- former F4 (raised TypeError before 74dc18a): a mapping over a scalar replaces it, as RFC 7386
    (regression instance of `apply_total` / `fidelity`) -/
example :
    applyPatch (.obj [("spec", .obj [("a", .num 1)])]) [("spec", .obj [("a", .obj [("b", .num 2)])])]
      = .ok (.obj [("spec", .obj [("a", .obj [("b", .num 2)])])]) ∧
    mergePatch (.obj [("spec", .obj [("a", .num 1)])]) (.obj [("spec", .obj [("a", .obj [("b", .num 2)])])])
      = .obj [("spec", .obj [("a", .obj [("b", .num 2)])])] := ⟨rfl, rfl⟩

/-- former C18-F2 (silently ignored before 74dc18a): an empty mapping over a scalar replaces it;
    a deletion below a list removes the whole key (RFC 7386 leaves `{}`: equal up to an empty mapping) -/
example :
    applyPatch (.obj [("a", .num 1)]) [("a", .obj [])] = .ok (.obj [("a", .obj [])]) ∧
    applyPatch (.obj [("a", .arr [.num 1]), ("z", .num 1)]) [("a", .obj [("b", .null)])]
      = .ok (.obj [("z", .num 1)]) ∧
    mergePatch (.obj [("a", .arr [.num 1]), ("z", .num 1)]) (.obj [("a", .obj [("b", .null)])])
      = .obj [("a", .obj []), ("z", .num 1)] := ⟨rfl, rfl, rfl⟩

/-! ### transformations and the returned JSON patch -/

/-- "…and transformations applied": whenever the code's path (`mutated` = merge instructions, then the
    functions in order) and the reference path (RFC 7386 merge, then the same functions) both return,
    the results have the same leaves. The functions are the two the framework queues
    (`block_deletion`, `allow_deletion`); both raise on a `metadata`/`finalizers` of the wrong type —
    in the code (AttributeError/TypeError) and in the model — hence the two "returns" hypotheses. -/
theorem fidelity_fns (b r m : J) (hb : b.isObj = true) (p : List (String × J)) (fns : List Fn)
    (hr : mutated b p fns = .ok r)
    (hm : applyFns (mergePatch b (.obj p)) fns = .ok m) : LeafEq r m := by
  unfold mutated at hr
  cases h1 : applyPatch b p with
  | error e => simp [h1] at hr
  | ok b1 =>
    simp only [h1] at hr
    intro q
    have hl : leafAt b1 = leafAt (mergePatch b (.obj p)) := funext (fidelity b b1 hb p h1)
    rw [applyFns_sem fns b1 r hr, applyFns_sem fns _ m hm, hl]

/-- The clause as the property states it — "the returned JSON patch, applied to the reviewed object,
    yields the object with the requested field changes and transformations applied, up to the
    presence of empty mappings" — for the whole review (`serve`), with the third-party diff library
    as an explicit hypothesis instead of a trusted-base note:
      `contract` : POINTWISE — applying the produced `from_diff body body_to_be` to `body` gives
                   `body_to_be`, for THIS review only (so the theorem is instantiable with jsonpatch on
                   every input where the differential run confirms it; the open findings C18-F4 / C18-F5
                   are the inputs on which jsonpatch 1.33 fails it);
      `nil`      : the empty patch changes nothing.
    Holds whatever the handlers' outcomes are (the patch is attached on denial too). -/
theorem returned_patch_fidelity {Op : Type} (applyOps : J → List Op → Option J)
    (fromDiff : J → J → List Op)
    (nil : ∀ a, applyOps a [] = some a)
    (hs : List (Handler × Bool)) (c : Cause) (act : Handler → Act)
    (b m : J) (hb : b.isObj = true) (p : List (String × J)) (fns : List Fn) (resp : Response Op)
    (contract : ∀ toBe, mutated b p fns = .ok toBe → applyOps b (fromDiff b toBe) = some toBe)
    (hserve : serve fromDiff hs c act b p fns = .ok resp)
    (hm : applyFns (mergePatch b (.obj p)) fns = .ok m) :
    ∃ r, appliedObject applyOps b resp = some r ∧ LeafEq r m := by
  obtain ⟨kvs, rfl⟩ : ∃ kvs, b = .obj kvs := by cases b <;> simp [isObj] at hb; exact ⟨_, rfl⟩
  unfold serve at hserve
  cases hj : asJsonPatch fromDiff (.obj kvs) p fns with
  | error e => simp [hj] at hserve
  | ok ops =>
    simp only [hj] at hserve
    cases hserve
    unfold asJsonPatch at hj
    by_cases he : (p.isEmpty && fns.isEmpty) = true
    · -- falsy patch: no operations, nothing requested
      simp only [he, if_true] at hj
      cases hj
      simp only [Bool.and_eq_true, List.isEmpty_iff] at he
      obtain ⟨rfl, rfl⟩ := he
      refine ⟨.obj kvs, by simp [appliedObject, buildResponse], ?_⟩
      simp only [applyFns, mergePatch, mergeKvs] at hm
      cases hm
      exact fun _ => rfl
    · simp only [he] at hj
      cases hmu : mutated (.obj kvs) p fns with
      | error e => simp [hmu] at hj
      | ok toBe =>
        simp [hmu] at hj
        subst hj
        have hle := fidelity_fns (.obj kvs) toBe m hb p fns hmu hm
        cases hops : fromDiff (.obj kvs) toBe with
        | nil =>
          have h1 := contract toBe hmu
          rw [hops, nil] at h1
          cases h1
          exact ⟨.obj kvs, by simp [appliedObject, buildResponse], hle⟩
        | cons o os =>
          refine ⟨toBe, ?_, hle⟩
          have h1 := contract toBe hmu
          rw [hops] at h1
          simp [appliedObject, buildResponse, h1]

/-- corollary: a diff library that honours its contract everywhere -/
theorem returned_patch_fidelity_of_contract {Op : Type} (applyOps : J → List Op → Option J)
    (fromDiff : J → J → List Op)
    (contract : ∀ a b, applyOps a (fromDiff a b) = some b) (nil : ∀ a, applyOps a [] = some a)
    (hs : List (Handler × Bool)) (c : Cause) (act : Handler → Act)
    (b m : J) (hb : b.isObj = true) (p : List (String × J)) (fns : List Fn) (resp : Response Op)
    (hserve : serve fromDiff hs c act b p fns = .ok resp)
    (hm : applyFns (mergePatch b (.obj p)) fns = .ok m) :
    ∃ r, appliedObject applyOps b resp = some r ∧ LeafEq r m :=
  returned_patch_fidelity applyOps fromDiff nil hs c act b m hb p fns resp (fun _ _ => contract _ _) hserve hm

/-! ## changes between Python-equal values of different JSON type (`1` → `true`, `false` → `0`) -/

/-- The diff is ALWAYS consulted: whenever something was requested (a non-empty patch or a queued
    function) and the mutation succeeds, the operations of the review are exactly what `from_diff` says
    about (reviewed body, mutated body) — no comparison of the two bodies decides beforehand that
    "nothing changed". -/
theorem diff_always_consulted {Op : Type} (fromDiff : J → J → List Op) (b toBe : J) (p : List (String × J))
    (fns : List Fn) (hreq : (p.isEmpty && fns.isEmpty) = false) (hmu : mutated b p fns = .ok toBe) :
    asJsonPatch fromDiff b p fns = .ok (fromDiff b toBe) := by
  simp [asJsonPatch, hreq, hmu]

/-- "the returned JSON patch, applied to the reviewed object, yields the object with the requested field
    changes": at EVERY path the patched object holds the very JSON value the requested result holds —
    in particular a value requested in place of a Python-equal one of another JSON type (`true` over `1`,
    `0` over `false`) is there, and differs from what the reviewed object had. Same hypotheses as
    `returned_patch_fidelity` (the diff library by its pointwise contract). -/
theorem type_change_reflected {Op : Type} (applyOps : J → List Op → Option J)
    (fromDiff : J → J → List Op)
    (nil : ∀ a, applyOps a [] = some a)
    (hs : List (Handler × Bool)) (c : Cause) (act : Handler → Act)
    (b m : J) (hb : b.isObj = true) (p : List (String × J)) (fns : List Fn) (resp : Response Op)
    (contract : ∀ toBe, mutated b p fns = .ok toBe → applyOps b (fromDiff b toBe) = some toBe)
    (hserve : serve fromDiff hs c act b p fns = .ok resp)
    (hm : applyFns (mergePatch b (.obj p)) fns = .ok m)
    (q : List String) (v : J) (hv : leafAt m q = some v) :
    ∃ r, appliedObject applyOps b resp = some r ∧ leafAt r q = some v ∧
      (leafAt b q ≠ some v → leafAt r q ≠ leafAt b q) := by
  obtain ⟨r, h1, h2⟩ := returned_patch_fidelity applyOps fromDiff nil hs c act b m hb p fns resp contract hserve hm
  have hq : leafAt r q = some v := (h2 q).trans hv
  exact ⟨r, h1, hq, fun hne heq => hne (heq ▸ hq)⟩

-- non-vacuity: `spec.enabled: 1` overwritten with `true` through the merge content, `spec.ratio: 0`
-- with `false` through a user's function, next to a no-op write; the patched object has the booleans
example : ∃ r, appliedObject (fun a ops => some (ops.getLastD a))
      (.obj [("spec", .obj [("enabled", .num 1), ("ratio", .num 0), ("n", .str "x")])])
      (buildResponse (Op := J) [] []
        [J.obj [("spec", .obj [("enabled", .bool true), ("ratio", .bool false), ("n", .str "x")])]])
      = some r ∧ leafAt r ["spec", "enabled"] = some (.bool true) ∧
      (leafAt (.obj [("spec", .obj [("enabled", .num 1), ("ratio", .num 0), ("n", .str "x")])]) ["spec", "enabled"]
          ≠ some (.bool true) → leafAt r ["spec", "enabled"] ≠
        leafAt (.obj [("spec", .obj [("enabled", .num 1), ("ratio", .num 0), ("n", .str "x")])]) ["spec", "enabled"]) :=
  type_change_reflected (Op := J) (fun a ops => some (ops.getLastD a)) (fun _ b => [b])
    (fun _ => rfl) [] ⟨none, none, some "CREATE", none⟩ (fun _ => ⟨[], none⟩)
    _ _ rfl [("spec", .obj [("enabled", .bool true), ("n", .str "x")])]
    [.mergeWith [("spec", .obj [("ratio", .bool false)])]] _ (fun _ _ => rfl) rfl rfl
    ["spec", "enabled"] (.bool true) rfl

/-- The rejected variant (`if body_to_be == body_as_is: return []` with Python's `==`) FAILS the clause:
    with a diff library that honours its contract on every pair, the review that overwrites
    `spec.enabled: 1` with `true` (next to a no-op write) gets no operations at all, so the patched
    object still has `1` where `true` was requested — while `asJsonPatch` (the code) returns the diff. -/
theorem eq_shortcut_witness :
    ∃ (b toBe : J) (p : List (String × J)),
      mutated b p [] = .ok toBe ∧
      (∀ a t : J, (fun (a : J) (ops : List J) => some (ops.getLastD a)) a ((fun _ t => [t]) a t) = some t) ∧
      asJsonPatchEqShortcut (Op := J) (fun _ t => [t]) b p [] = .ok [] ∧
      asJsonPatch (Op := J) (fun _ t => [t]) b p [] = .ok [toBe] ∧
      leafAt toBe ["spec", "enabled"] = some (.bool true) ∧
      leafAt b ["spec", "enabled"] = some (.num 1) ∧
      ¬ LeafEq b toBe :=
  ⟨.obj [("spec", .obj [("enabled", .num 1), ("n", .str "x")])],
   .obj [("spec", .obj [("enabled", .bool true), ("n", .str "x")])],
   [("spec", .obj [("enabled", .bool true), ("n", .str "x")])],
   rfl, fun _ _ => rfl, rfl, rfl, rfl, rfl,
   fun h => by have := h ["spec", "enabled"]; simp [leafAt, lookup] at this⟩

/-- …and through a user's transformation function alone (an empty merge content) -/
theorem eq_shortcut_fn_witness :
    asJsonPatchEqShortcut (Op := J) (fun _ t => [t])
      (.obj [("spec", .obj [("debug", .bool false)])]) [] [.mergeWith [("spec", .obj [("debug", .num 0)])]] = .ok [] ∧
    asJsonPatch (Op := J) (fun _ t => [t])
      (.obj [("spec", .obj [("debug", .bool false)])]) [] [.mergeWith [("spec", .obj [("debug", .num 0)])]]
      = .ok [.obj [("spec", .obj [("debug", .num 0)])]] := ⟨rfl, rfl⟩

/-- Which object is "the reviewed object": whenever the review carries an `object` (CREATE, UPDATE,
    CONNECT) the whole review — handlers' body, filters, patch reference — is about THAT object,
    whatever `oldObject` holds (on UPDATE: the stored state, in general different). -/
theorem review_is_about_the_object {Op : Type} (fromDiff : J → J → List Op) (hs : List (Handler × Bool))
    (c : Cause) (act : Handler → Act) (n : J) (old : Option J) (p : List (String × J)) (fns : List Fn) :
    serveReview fromDiff hs c act (some n) old p fns = some (serve fromDiff hs c act n p fns) := rfl

/-- a review without `object` (DELETE) is about `oldObject`; without both it is refused before any
    handler runs (MissingDataError). -/
theorem review_without_object {Op : Type} (fromDiff : J → J → List Op) (hs : List (Handler × Bool))
    (c : Cause) (act : Handler → Act) (old : Option J) (p : List (String × J)) (fns : List Fn) :
    serveReview fromDiff hs c act none old p fns = old.map (fun o => serve fromDiff hs c act o p fns) := by
  cases old <;> rfl

/-- The fidelity clause for the review as the apiserver sends it: the JSON patch of the response,
    applied to `request.object` — the object the apiserver applies it to — yields the requested
    object up to empty mappings, for EVERY `oldObject` (same hypotheses on the diff library as
    `returned_patch_fidelity`). -/
theorem review_patch_fidelity {Op : Type} (applyOps : J → List Op → Option J)
    (fromDiff : J → J → List Op)
    (nil : ∀ a, applyOps a [] = some a)
    (hs : List (Handler × Bool)) (c : Cause) (act : Handler → Act)
    (n m : J) (old : Option J) (hn : n.isObj = true) (p : List (String × J)) (fns : List Fn) (resp : Response Op)
    (contract : ∀ toBe, mutated n p fns = .ok toBe → applyOps n (fromDiff n toBe) = some toBe)
    (hserve : serveReview fromDiff hs c act (some n) old p fns = some (.ok resp))
    (hm : applyFns (mergePatch n (.obj p)) fns = .ok m) :
    ∃ r, appliedObject applyOps n resp = some r ∧ LeafEq r m := by
  have h : serve fromDiff hs c act n p fns = .ok resp := by
    simpa [serveReview, reviewedBody] using hserve
  exact returned_patch_fidelity applyOps fromDiff nil hs c act n m hn p fns resp contract h hm

/-- non-vacuity: an UPDATE review whose stored object already has the requested value — relative to
    `oldObject` there would be nothing to patch; the response patches `object`. -/
example : ∃ resp : Response J,
    serveReview (fun _ toBe => [toBe]) [] ⟨none, none, some "UPDATE", none⟩ (fun _ => ⟨[], none⟩)
      (some (.obj [("spec", .obj [("a", .num 2)])])) (some (.obj [("spec", .obj [("a", .num 1)])]))
      [("spec", .obj [("a", .num 1)])] [] = some (.ok resp) ∧
    resp.patch = some [.obj [("spec", .obj [("a", .num 1)])]] := by
  exact ⟨_, rfl, rfl⟩

/-- allowed ⇔ no function with a MATCHING registration raised (selection and response combined) —
    unguarded: also for two DIFFERENT functions under one id (before 2903555 the later outcome
    overwrote the earlier one under the shared id: finding C18-F6, now a regression case in
    corpus/C18/C18-F6-same-id-denial-lost.json).
    `hact`: what an invocation does depends on the function and the id, not on which of the stacked
    registrations of that function let it in. -/
theorem serve_allowed_iff {Op : Type} (fromDiff : J → J → List Op) (hs : List (Handler × Bool)) (c : Cause)
    (act : Handler → Act) (hact : ∀ h h', h.key = h'.key → act h = act h')
    (b : J) (p : List (String × J)) (fns : List Fn) (resp : Response Op)
    (hserve : serve fromDiff hs c act b p fns = .ok resp) :
    resp.allowed = true ↔ ∀ h m, (h, m) ∈ hs → gate h c m = true → (act h).error = none := by
  unfold serve at hserve
  cases hj : asJsonPatch fromDiff b p fns with
  | error e => simp [hj] at hserve
  | ok ops =>
    simp only [hj] at hserve
    cases hserve
    rw [allowed_iff]
    constructor
    · intro h1 h m hmem hg
      obtain ⟨⟨h', hsel, hk, _⟩, _⟩ := stacked_registration_selected hs c h m hmem hg
      rw [← hact h' h hk]
      exact h1 _ (List.mem_map.2 ⟨h', hsel, rfl⟩)
    · intro h1 o ho
      obtain ⟨h, hsel, rfl⟩ := List.mem_map.1 ho
      obtain ⟨m, hmem, hg⟩ := (select_spec hs c).1 h hsel
      exact h1 h m hmem hg

/-- every raised error of a selected handler is among those the status is chosen from: the errors the
    response ranks are exactly the selected handlers' errors, in execution order -/
theorem serve_errors_complete {Op : Type} (fromDiff : J → J → List Op) (hs : List (Handler × Bool)) (c : Cause)
    (act : Handler → Act) (b : J) (p : List (String × J)) (fns : List Fn) (resp : Response Op)
    (hserve : serve fromDiff hs c act b p fns = .ok resp) :
    resp.status = (pickMin ((select hs c).filterMap (fun h => (act h).error))).map
      (fun e => ⟨message e, statusCode e⟩) := by
  unfold serve at hserve
  cases hj : asJsonPatch fromDiff b p fns with
  | error e => simp [hj] at hserve
  | ok ops =>
    simp only [hj] at hserve
    cases hserve
    simp [buildResponse, errorsOf, List.filterMap_map]

-- regression for C18-F6: `@kopf.on.validate … def check: raise AdmissionError(code=422)` and
-- `@kopf.on.mutate … def check` (two functions, one id) — the review is denied with the 422 status
-- in BOTH registration orders (and the patch is still attached):
example : ∃ resp : Response Nat,
    serve (fun _ _ => [1])
      [(⟨"check", .validating, none, none, "f1"⟩, true), (⟨"check", .mutating, none, none, "f2"⟩, true)]
      ⟨none, some "check", some "CREATE", none⟩
      (fun h => if h.fn == "f1" then ⟨[], some ⟨.admission, some 422, "spec is wrong", "r"⟩⟩ else ⟨[], none⟩)
      (.obj []) [("spec", .obj [("x", .num 1)])] [] = .ok resp ∧
    resp.allowed = false ∧ resp.status = some ⟨"spec is wrong", 422⟩ ∧ resp.patch = some [1] := ⟨_, rfl, rfl, rfl, rfl⟩
example : ∃ resp : Response Nat,
    serve (fun _ _ => [1])
      [(⟨"check", .mutating, none, none, "f2"⟩, true), (⟨"check", .validating, none, none, "f1"⟩, true)]
      ⟨none, some "check", some "CREATE", none⟩
      (fun h => if h.fn == "f1" then ⟨[], some ⟨.admission, some 422, "spec is wrong", "r"⟩⟩ else ⟨[], none⟩)
      (.obj []) [("spec", .obj [("x", .num 1)])] [] = .ok resp ∧
    resp.allowed = false ∧ resp.status = some ⟨"spec is wrong", 422⟩ := ⟨_, rfl, rfl, rfl⟩

/-- the warnings of the response are those the selected handlers issued, handler by handler in
    registry (= execution) order, each handler's own in the order it issued them -/
theorem serve_warnings_order {Op : Type} (fromDiff : J → J → List Op) (hs : List (Handler × Bool)) (c : Cause)
    (act : Handler → Act) (b : J) (p : List (String × J)) (fns : List Fn) (resp : Response Op)
    (hserve : serve fromDiff hs c act b p fns = .ok resp) :
    resp.warnings.getD [] = (select hs c).flatMap (fun h => (act h).warnings) := by
  unfold serve at hserve
  cases hj : asJsonPatch fromDiff b p fns with
  | error e => simp [hj] at hserve
  | ok ops =>
    simp only [hj] at hserve
    cases hserve
    exact (warnings_order _ _ _).1

/-- the remaining guard is needed: over a non-mapping root the root call raises (ValueError) -/
theorem apply_nonmapping_root_raises :
    applyPatch (.num 1) [("a", .num 2)] = .error .valueError := rfl

/-! ## non-vacuity -/

-- nested merge, deletion (emptying a parent), type changes both ways, new nested keys, special
-- characters in keys, duplicate-free or not: the hypotheses of `fidelity` are met
example : ∃ b', applyPatch
    (.obj [("spec", .obj [("a", .obj [("x", .num 1)]), ("m", .obj [("n", .num 1)]), ("s", .str "v")]), ("a/b", .num 1)])
    [("spec", .obj [("a", .obj [("x", .null), ("y", .num 2)]), ("m", .str "s"), ("s", .obj [("~k", .bool true)])]),
     ("a/b", .null)] = .ok b' ∧
    b' = .obj [("spec", .obj [("m", .str "s"), ("s", .obj [("~k", .bool true)]), ("a", .obj [("y", .num 2)])])] :=
  ⟨_, rfl, rfl⟩

example : ∃ b', applyPatch
    (.obj [("spec", .obj [("a", .obj [("x", .num 1)])]), ("k", .num 1)])
    [("spec", .obj [("a", .obj [("x", .null)])])] = .ok b' ∧ b' = .obj [("k", .num 1)] := ⟨_, rfl, rfl⟩

-- the response clauses on a mixed outcome list: temporary, admission(403), admission(400) → first admission
-- … and the patch is attached although the review is denied:
example : (buildResponse [none, some ⟨.temporary, none, "t", "T"⟩, some ⟨.admission, some 403, "", "A()"⟩,
    some ⟨.admission, some 400, "x", "A('x')"⟩] ["w1", "w2"] [(1 : Nat)])
    = ⟨false, some ⟨"A()", 403⟩, some ["w1", "w2"], some [1], some "JSONPatch"⟩ := by
  simp [buildResponse, errorsOf, pickMin, prio, message, statusCode]

example : gate ⟨"h", .mutating, some ["DELETE"], some "*", "f"⟩ ⟨none, some "h", some "DELETE", some "status"⟩ true = true := by decide
example : gate ⟨"h", .mutating, some ["CREATE", "DELETE"], none, "f"⟩ ⟨none, none, some "DELETE", none⟩ true = false := by decide

-- `fidelity_fns`: both paths return on a body with finalizers, a patch that edits metadata and
-- empties a parent, and the functions remove-then-add:
example :
    mutated (.obj [("metadata", .obj [("finalizers", .arr [.str "x"])]), ("spec", .obj [("a", .num 1)])])
      [("spec", .obj [("a", .null)]), ("metadata", .obj [("labels", .obj [("l", .str "v")])])]
      [.removeFinalizer "x", .addFinalizer "k"]
      = .ok (.obj [("metadata", .obj [("labels", .obj [("l", .str "v")]), ("finalizers", .arr [.str "k"])])]) ∧
    applyFns (mergePatch
      (.obj [("metadata", .obj [("finalizers", .arr [.str "x"])]), ("spec", .obj [("a", .num 1)])])
      (.obj [("spec", .obj [("a", .null)]), ("metadata", .obj [("labels", .obj [("l", .str "v")])])]))
      [.removeFinalizer "x", .addFinalizer "k"]
      = .ok (.obj [("metadata", .obj [("labels", .obj [("l", .str "v")]), ("finalizers", .arr [.str "k"])]),
                   ("spec", .obj [])]) := ⟨rfl, rfl⟩

-- `returned_patch_fidelity`: its two library hypotheses are satisfiable (the "replace the root"
-- diff library), and a denied review with a mutating handler meets the others:
example : ∃ r, appliedObject (fun a ops => some (ops.getLastD a))
      (.obj [("spec", .obj [("a", .num 1)])])
      (buildResponse [some ⟨.admission, some 403, "no", "A('no')"⟩] [] [J.obj [("spec", .obj [("a", .num 2)])]])
      = some r ∧ LeafEq r (.obj [("spec", .obj [("a", .num 2)])]) :=
  returned_patch_fidelity (Op := J) (fun a ops => some (ops.getLastD a)) (fun _ b => [b])
    (fun _ => rfl)
    [(⟨"m", .mutating, none, none, "f"⟩, true), (⟨"v", .validating, some ["CREATE"], none, "f"⟩, false)]
    ⟨none, none, some "UPDATE", none⟩ (fun _ => ⟨[], some ⟨.admission, some 403, "no", "A('no')"⟩⟩)
    _ _ rfl [("spec", .obj [("a", .num 2)])] [] _ (fun _ _ => rfl) rfl rfl

-- the former C18-F3 witness is now rejected by the gate; a matching operation, `*`, no declared
-- operations and an absent operation pass:
example : gate ⟨"h", .validating, some ["CREATE"], none, "f"⟩ ⟨none, none, some "UPDATE", none⟩ true = false := by decide
example : gate ⟨"h", .validating, some ["CREATE", "UPDATE"], none, "f"⟩ ⟨none, none, some "UPDATE", none⟩ true = true := by decide
example : gate ⟨"h", .validating, some ["*"], none, "f"⟩ ⟨none, none, some "CONNECT", none⟩ true = true := by decide
example : gate ⟨"h", .validating, some ["CREATE"], none, "f"⟩ ⟨none, none, none, none⟩ true = true := by decide
example : gate ⟨"h", .validating, some [], none, "f"⟩ ⟨none, none, some "UPDATE", none⟩ true = true := by decide

-- stacked decorators: one function `f` registered under the same id for CREATE and for UPDATE (and a
-- third time, matching as well): an UPDATE review selects it once, through the first MATCHING registration
example : select
    [(⟨"fn", .validating, some ["CREATE"], none, "f"⟩, true),
     (⟨"fn", .validating, some ["UPDATE"], none, "f"⟩, true),
     (⟨"fn", .validating, none, some "*", "f"⟩, true)]
    ⟨none, none, some "UPDATE", none⟩ = [⟨"fn", .validating, some ["UPDATE"], none, "f"⟩] := by decide

end Kopf.C18
