/-
  C08 — Accumulated patches are delivered completely, atomically and exactly once.
  Property theorems only, about the model `Kopf/Model/C08_Patching.lean` of `patching.patch_obj`,
  the stateful server, and the carry-forward of `memory.remaining_patch`.

  Quantification: every patch content (well-formed field dict × list of transformation functions),
  with and without a status subresource, every foreign write (edit / finalizer edit / delete /
  delete-and-recreate) right before any of the four possible requests, every injected 404/422.
-/
import Kopf.Lemmas.C08_Quiet
import Kopf.Lemmas.C08_Discovery
namespace Kopf.C08
open Kopf Kopf.J

/-! ## merge-patches: complete, routed by the subresource -/

/-- Every field of a merge-patch is in the server object right after its request (the response body
    is what the server stored, unless the write released a marked object): removed fields are absent,
    set fields have their value — whatever foreign write slipped in before the request. The two
    payload shapes are the ones `patch_obj` sends (`routed_by_subresource`). -/
theorem merge_delivered (sub : Bool) (env : Env) (k : Kind) (p : Kvs) (s : Server)
    (hp : wfKvs p = true)
    (hk : (k = .mergeBody ∧ (sub = true → lookup "status" p = none)) ∨
          (k = .mergeStatus ∧ ∃ v, p = [("status", v)]))
    (hcode : (step sub env k (.merge p) s).2.1.code = 200) :
    ∃ o, (step sub env k (.merge p) s).2.2 = some o ∧ Delivered p o.body ∧
      ((step sub env k (.merge p) s).1.obj = some o ∨
       ((step sub env k (.merge p) s).1.obj = none ∧ o.marked = true ∧ o.fins = [])) := by
  rcases step_cases sub env k (.merge p) s with (⟨_, e⟩ | ⟨c, hc, e⟩) | ⟨_, _, e⟩ | ⟨o, _, _, ha, _⟩ | ⟨o, new, _, ho, ha, e⟩
  · rw [e] at hcode; simp at hcode
  · rw [e] at hcode; exact absurd hcode hc.2.1
  · rw [e] at hcode; simp at hcode
  · simp [applyPayload] at ha
  · simp only [applyPayload, Option.some.injEq] at ha
    subst ha
    have hd := delivered_route sub k p o hp hk
    rw [e]
    simp only
    rcases put_cases (slipped env k s) o (route sub k.toStatus o { o with body := clean (mergeKvs o.body p) })
      with ⟨hsame, h⟩ | ⟨_, h1, h2, h⟩ | ⟨_, _, h⟩ <;> rw [h]
    · obtain ⟨_, _, hb⟩ := sameContent_eq hsame
      exact ⟨o, rfl, by rw [hb]; exact hd, Or.inl ho⟩
    · exact ⟨_, rfl, hd, Or.inr ⟨rfl, h1, h2⟩⟩
    · exact ⟨_, rfl, hd, Or.inl rfl⟩

-- non-vacuity: a status merge through the subresource, accepted, while a foreign edit slips in
example :
    let s : Server := ⟨5, 1, some ⟨1, 5, false, [], [("spec", obj [("x", num 0)])]⟩⟩
    let env : Env := { slips := fun _ => [.edit [("spec", obj [("x", num 7)])], .setFins ["late"]], faults := fun _ => .none }
    (step true env .mergeStatus (.merge [("status", obj [("a", num 1)])]) s).2.1.code = 200 ∧
    wfKvs [("status", obj [("a", num 1)])] = true := by decide

/-- What a call sends: the body part without `status` to the main resource and `{status: …}` to
    `/status` when the resource has the subresource; the whole dict to the main resource otherwise.
    Nothing goes to `/status` without the subresource; with it, the main resource never receives
    status content (neither merge fields nor JSON ops). -/
theorem routed_by_subresource (sub : Bool) (p : Patch) (orig : Obj) (env : Env) (s : Server) :
    ∀ r ∈ (patchObj sub p orig env s).reqs,
      (r.kind = .mergeBody → r.payload = .merge (bodyPart sub p.fields) ∧
          (sub = true → lookup "status" (bodyPart sub p.fields) = none) ∧ (sub = false → bodyPart sub p.fields = p.fields)) ∧
      (r.kind = .mergeStatus → sub = true ∧ ∃ v, lookup "status" p.fields = some v ∧ r.payload = .merge [("status", v)]) ∧
      (sub = false → r.kind ≠ .mergeStatus ∧ r.kind ≠ .jsonStatus) ∧
      (sub = true → ∀ t fi sv, r.kind = .jsonBody → r.payload = .json t fi sv → sv = none) := by
  intro r hr
  unfold patchObj at hr
  rw [(finish_reqs p _).1] at hr
  have hs := patch_shape sub p orig env s r hr
  rcases hs with ⟨hk, hp, _⟩ | ⟨hk, hsub, v, hl, hp⟩ | ⟨hk, t, fi, sb, hp, hsb⟩ | ⟨hk, hsub, t, v, hp⟩
  · refine ⟨?_, ?_, ?_, ?_⟩
    · intro _
      refine ⟨hp, ?_, ?_⟩
      · intro h; simp [bodyPart, h, lookup_erase_self]
      · intro h; simp [bodyPart, h]
    · intro h; rw [hk] at h; cases h
    · intro _; rw [hk]; simp
    · intro _ t fi sv h; rw [hk] at h; cases h
  · refine ⟨?_, ?_, ?_, ?_⟩
    · intro h; rw [hk] at h; cases h
    · intro _; exact ⟨hsub, v, hl, hp⟩
    · intro h; rw [hsub] at h; cases h
    · intro _ t fi sv h; rw [hk] at h; cases h
  · refine ⟨?_, ?_, ?_, ?_⟩
    · intro h; rw [hk] at h; cases h
    · intro h; rw [hk] at h; cases h
    · intro _; rw [hk]; simp
    · intro h t' fi' sv' _ hp'
      rw [hp] at hp'
      cases hp'
      exact hsb h
  · refine ⟨?_, ?_, ?_, ?_⟩
    · intro h; rw [hk] at h; cases h
    · intro h; rw [hk] at h; cases h
    · intro h; rw [hsub] at h; cases h
    · intro _ t' fi' sv' h; rw [hk] at h; cases h

/-- Completeness: the body part is always sent first when there is one; if no request of the call
    was refused, the status part is sent too — whatever its value, `null` (remove the status) included. -/
theorem merge_complete (sub : Bool) (p : Patch) (orig : Obj) (env : Env) (s : Server) :
    ((bodyPart sub p.fields).isEmpty = false → ∃ r ∈ (patchObj sub p orig env s).reqs, r.kind = .mergeBody) ∧
    (∀ v, sub = true → lookup "status" p.fields = some v →
      (∀ r ∈ (patchObj sub p orig env s).reqs, r.code = 200) →
      ∃ r ∈ (patchObj sub p orig env s).reqs, r.kind = .mergeStatus) := by
  unfold patchObj
  rw [(finish_reqs p _).1]
  unfold stageMerge
  constructor
  · intro hne
    have h1 : ∃ r ∈ (stageMergeBody sub p env ⟨s, [], none⟩).final.reqs, r.kind = .mergeBody := by
      unfold stageMergeBody
      rw [if_neg (by simpa using hne)]
      refine ⟨(step sub env .mergeBody (.merge (bodyPart sub p.fields)) s).2.1, ?_, (step_kind sub env .mergeBody _ s).1⟩
      rw [(doReq_final _ _ _ _ _).1]; simp
    obtain ⟨r, hr, hk⟩ := h1
    exact ⟨r, mem_final_of_mem (mono_stageJson sub p orig env) (mem_final_of_mem (mono_stageMergeStatus sub p env) hr), hk⟩
  · intro v hsub hl hall
    have hg := good_stageMerge sub p env ⟨s, [], none⟩ (by intro r hr; cases hr)
    unfold stageMerge at hg
    cases hb : stageMergeBody sub p env ⟨s, [], none⟩ with
    | error e =>
      exfalso
      rw [hb] at hg hall
      cases hg with
      | stop st pre r h1 _ h3 =>
        refine h3 (hall r ?_)
        show r ∈ st.reqs
        rw [h1]; simp
    | ok st1 =>
      have hsp : statusPart sub p.fields = some v := by
        unfold statusPart
        rw [hsub, if_pos rfl, hl]
      have h2 : ∃ r ∈ (stageMergeStatus sub p env st1).final.reqs, r.kind = .mergeStatus := by
        unfold stageMergeStatus
        rw [hsp]
        refine ⟨(step sub env .mergeStatus (.merge [("status", v)]) st1.server).2.1, ?_, (step_kind sub env .mergeStatus _ st1.server).1⟩
        rw [(doReq_final _ _ _ _ _).1]; simp
      obtain ⟨r, hr, hk⟩ := h2
      refine ⟨r, ?_, hk⟩
      exact mem_final_of_mem (mono_stageJson sub p orig env) hr

/-- The removal of the whole status (`status: null`) is delivered like any other status patch
    (repaired defect C08-F1: `pop('status', None)` used to drop it): with the subresource it is sent to
    `/status` as `{status: null}` unless an earlier request was refused, and the object the server
    answers with has no status any more. -/
theorem status_removal_delivered (p : Patch) (orig : Obj) (env : Env) (s : Server)
    (hl : lookup "status" p.fields = some .null) :
    ((∀ r ∈ (patchObj true p orig env s).reqs, r.code = 200) →
      ∃ r ∈ (patchObj true p orig env s).reqs, r.kind = .mergeStatus ∧ r.payload = .merge [("status", .null)]) ∧
    (∀ s', (step true env .mergeStatus (.merge [("status", .null)]) s').2.1.code = 200 →
      ∃ o, (step true env .mergeStatus (.merge [("status", .null)]) s').2.2 = some o ∧ lookup "status" o.body = none) := by
  constructor
  · intro hall
    obtain ⟨r, hr, hk⟩ := (merge_complete true p orig env s).2 .null rfl hl hall
    obtain ⟨_, v, hv, hp⟩ := (routed_by_subresource true p orig env s r hr).2.1 hk
    rw [hl] at hv
    cases hv
    exact ⟨r, hr, hk, hp⟩
  · intro s' hc
    obtain ⟨o, ho, hd, _⟩ := merge_delivered true env .mergeStatus [("status", .null)] s' (by decide)
      (Or.inr ⟨rfl, .null, rfl⟩) hc
    refine ⟨o, ho, ?_⟩
    have := (hd ["status"] .null (Leaf.here (by simp [lookup]) rfl)).1 rfl
    rw [resolve_cons_obj] at this
    cases hx : lookup "status" o.body with
    | none => rfl
    | some x => rw [hx] at this; simp [resolve_nil] at this

-- non-vacuity, evaluated by the model: one request to `/status`, accepted, the status is gone;
-- without the subresource the same patch goes to the main resource and removes it too
example :
    let o : Obj := ⟨1, 5, false, [], [("spec", obj []), ("status", obj [("seen", num 1)])]⟩
    let r := patchObj true ⟨[("status", .null)], []⟩ o Env.quiet ⟨5, 1, some o⟩
    r.reqs.map (fun q => (q.kind, q.code)) = [(.mergeStatus, 200)] ∧
    r.server.obj.map (fun x => (lookup "status" x.body).isSome) = some false ∧
    (patchObj false ⟨[("status", .null)], []⟩ o Env.quiet ⟨5, 1, some o⟩).server.obj.map
      (fun x => (lookup "status" x.body).isSome) = some false := by decide

/-! ## transformations: atomic at a version -/

/-- The body JSON-patch is computed from the fresh body `F` and tested against `F`'s version.
    Served on an object at that version it is applied: the finalizer list becomes what the fns made of
    `F`'s. Served on an object at any other version (a foreign write slipped in, or the body the patch
    was computed for was stale) NOTHING of that computation is written — the server is exactly what the
    foreign write left — and the call ends returning all the fns as the remaining patch. -/
theorem fns_atomic (sub : Bool) (p : Patch) (F : Obj) (env : Env) (st : St)
    (hch : finsChanged F (applyFns p.fns F) = true)
    (hf : env.faults .jsonBody = .none)
    (o : Obj) (ho : (slipped env .jsonBody st.server).obj = some o) :
    (o.rv = F.rv →
      ∃ st' resp, stageJsonBody sub p F env st = .ok st' ∧ st'.fresh = some resp ∧
        resp.fins = (applyFns p.fns F).fins ∧ resp.uid = o.uid ∧
        (st'.server.obj = some resp ∨ (st'.server.obj = none ∧ o.marked = true ∧ resp.fins = []))) ∧
    (o.rv ≠ F.rv →
      ∃ st', stageJsonBody sub p F env st = .error (st', .conflict) ∧
        st'.server = slipped env .jsonBody st.server ∧ st'.fresh = st.fresh ∧
        ∀ g, (finish p (stageJsonBody sub p F env st >>= g)).outcome = .ok (some p.fns) st.fresh ∧
             (finish p (stageJsonBody sub p F env st >>= g)).server = slipped env .jsonBody st.server) := by
  have hpl : ∃ sb, jsonBodyPayload sub p.fns F = some (.json F.rv (some (applyFns p.fns F).fins) sb) := by
    unfold jsonBodyPayload
    simp [hch]
  obtain ⟨sb, hpl⟩ := hpl
  constructor
  · intro hrv
    obtain ⟨new, hu, hm, hfi, e⟩ := step_json_at_version sub env .jsonBody (some (applyFns p.fns F).fins) sb st.server o hf ho
    obtain ⟨h1, h2, h3, h4⟩ := put_holds (slipped env .jsonBody st.server) o new ho hu hm
    have hnf : new.fins = (applyFns p.fns F).fins := by
      rw [hfi]; unfold finsAfter; simp [Kind.toStatus]
    refine ⟨{ server := ((slipped env .jsonBody st.server).put o new).1,
              reqs := st.reqs ++ [⟨.jsonBody, .json o.rv (some (applyFns p.fns F).fins) sb, some o.uid, 200⟩],
              fresh := some ((slipped env .jsonBody st.server).put o new).2 },
            ((slipped env .jsonBody st.server).put o new).2, ?_, rfl, by rw [h2, hnf], h3, ?_⟩
    · unfold stageJsonBody
      rw [hpl, ← hrv]
      unfold doReq
      simp only [e, if_true]
    · simp only
      rcases h1 with ⟨x, hx, _, _, _⟩ | ⟨hn, hmk, hl⟩
      · left; rw [hx, h4 x hx]
      · right; exact ⟨hn, hmk, by rw [h2]; exact hl⟩
  · intro hne
    have e := step_json_stale sub env .jsonBody F.rv (some (applyFns p.fns F).fins) sb st.server o hf ho hne
    have hs : stageJsonBody sub p F env st =
        .error ({ server := slipped env .jsonBody st.server,
                  reqs := st.reqs ++ [⟨.jsonBody, .json F.rv (some (applyFns p.fns F).fins) sb, some o.uid, 422⟩],
                  fresh := st.fresh }, .conflict) := by
      unfold stageJsonBody
      rw [hpl]
      unfold doReq
      simp [e, Kind.isJson]
    refine ⟨_, hs, rfl, rfl, ?_⟩
    intro g
    rw [hs]
    exact ⟨rfl, rfl⟩

-- non-vacuity: `block` on an object without the finalizer; the server at the version / one ahead
example :
    let F : Obj := ⟨1, 5, false, [], []⟩
    finsChanged F (applyFns [.block "f"] F) = true ∧
    ((slipped Env.quiet .jsonBody ⟨5, 1, some F⟩).obj.map (·.rv)) = some 5 ∧
    ((slipped { slips := fun _ => [.edit [("spec", num 1)]], faults := fun _ => .none } .jsonBody ⟨5, 1, some F⟩).obj.map (·.rv))
      = some 6 := by decide

/-- A refused JSON-patch (422, also an injected one) is the last request of the call and returns
    ALL the fns as the remaining patch — also those of an already accepted body JSON-patch. -/
theorem conflict_keeps_all_fns (sub : Bool) (p : Patch) (orig : Obj) (env : Env) (s : Server)
    (r : Req) (hr : r ∈ (patchObj sub p orig env s).reqs) (hj : r.kind.isJson = true) (hc : r.code = 422) :
    (patchObj sub p orig env s).reqs.getLast? = some r ∧
    ∃ b, (patchObj sub p orig env s).outcome = .ok (some p.fns) b := by
  unfold patchObj at hr ⊢
  obtain ⟨hl, st, hm⟩ := good_stop_last (good_patch sub p orig env s) p r hr (by rw [hc]; decide)
  refine ⟨hl, st.fresh, ?_⟩
  rw [hm]
  have : stopOf r = .conflict := by simp [stopOf, hc, hj]
  rw [this]
  rfl

/-- …and a remaining patch is returned only then: the last request is a JSON-patch answered 422. -/
theorem remaining_only_after_refusal (sub : Bool) (p : Patch) (orig : Obj) (env : Env) (s : Server)
    (f : List Fn) (b : Option Obj) (h : (patchObj sub p orig env s).outcome = .ok (some f) b) :
    f = p.fns ∧ ∃ r, (patchObj sub p orig env s).reqs.getLast? = some r ∧ r.kind.isJson = true ∧ r.code = 422 := by
  unfold patchObj at h ⊢
  rcases good_inv (good_patch sub p orig env s) with ⟨st, e, _⟩ | ⟨st, pre, r, e, h1, _, h3⟩
  · rw [e] at h; simp [finish] at h
  · rw [e] at h ⊢
    have hreq : (finish p (.error (st, stopOf r))).reqs = st.reqs := (finish_reqs p _).1
    rw [hreq, h1]
    unfold stopOf at h
    by_cases h404 : r.code = 404
    · simp [h404, finish] at h
    · by_cases hj : r.code = 422 ∧ r.kind.isJson = true
      · rw [if_neg h404, if_pos hj] at h
        simp only [finish, Outcome.ok.injEq, Option.some.injEq] at h
        exact ⟨h.1.symm, r, by simp, hj.2, hj.1⟩
      · rw [if_neg h404, if_neg hj] at h
        simp [finish] at h

/-! ## carry-forward: neither lost nor duplicated -/

/-- The carry-forward cycle, for ANY dict content of the cycle (progress, results, touch removal, …).
    The carried (handler-supplied) fns `mem`, fed into the next cycle's patch
    (`Patch(memory.remaining_patch, body=body)`) together with whatever this cycle queues itself (`newfns`:
    the framework's finalizer decision on the fresh state), computed for the object the server holds,
    nobody interfering: afterwards the object holds exactly ONE application of these fns to the then-fresh
    finalizer list (or has been released by it), and nothing remains in the memory. (A marked object
    without finalizers is never stored — `Server.put` removes it — hence `hns`.) -/
theorem carry_forward (sub : Bool) (mem : Option (List Fn)) (fields : Kvs) (newfns : List Fn) (o : Obj) (s : Server)
    (ho : s.obj = some o) (hns : ¬ (o.marked = true ∧ o.fins = [])) :
    (cycle sub mem fields newfns o Env.quiet s).2 = none ∧
    ((∃ o', (cycle sub mem fields newfns o Env.quiet s).1.server.obj = some o' ∧ o'.uid = o.uid ∧
        o'.fins = (applyFns (mem.getD [] ++ newfns) o).fins) ∨
     ((cycle sub mem fields newfns o Env.quiet s).1.server.obj = none ∧ o.marked = true ∧
        (applyFns (mem.getD [] ++ newfns) o).fins = [])) := by
  by_cases hemp : (nextPatch mem fields newfns).isEmpty = true
  · have e : cycle sub mem fields newfns o Env.quiet s = (⟨[], s, .ok none none⟩, none) := by
      simp [cycle, cycleOf, hemp]
    have hf : mem.getD [] ++ newfns = [] := by
      simp only [Patch.isEmpty, nextPatch, Bool.and_eq_true, List.isEmpty_iff] at hemp
      exact hemp.2
    rw [e, hf]
    exact ⟨rfl, Or.inl ⟨o, ho, rfl, rfl⟩⟩
  · have e : cycle sub mem fields newfns o Env.quiet s =
        (patchObj sub (nextPatch mem fields newfns) o Env.quiet s,
         memoryAfter false mem (patchObj sub (nextPatch mem fields newfns) o Env.quiet s).outcome) := by
      simp [cycle, cycleOf, hemp]
    rw [e]
    obtain ⟨hh, hout⟩ := quiet_call sub (nextPatch mem fields newfns) o s ho hns
    unfold patchObj
    constructor
    · rcases hout with ⟨st, e'⟩ | ⟨st, e'⟩ <;> rw [e'] <;> rfl
    · rw [(finish_reqs _ _).2]
      rcases hh with ⟨x, hx, hu, _, hfx⟩ | ⟨hn, hm, hl⟩
      · exact Or.inl ⟨x, hx, hu, hfx⟩
      · exact Or.inr ⟨hn, hm, hl⟩

-- non-vacuity: the server holds an object (with a foreign finalizer); a handler's finalizer edit is
-- carried and applied once, next to the framework's fresh decision and the cycle's dict content
example : (⟨7, 1, some ⟨1, 7, false, ["other"], []⟩⟩ : Server).obj = some ⟨1, 7, false, ["other"], []⟩ := rfl
example : ((cycle true (some [.userFin true "u"]) [("status", obj [("p", num 1)]), ("metadata", obj [("annotations", obj [("a", str "1")])])]
    [.block "kopf"] ⟨1, 7, false, ["other"], []⟩ Env.quiet
    ⟨7, 1, some ⟨1, 7, false, ["other"], []⟩⟩).1.server.obj.map (·.fins)) = some ["other", "u", "kopf"] := by decide

/-- …and when the cycle works on a STALE body (the server has moved on since the event it processes) and
    has no dict content to refresh its view with: the JSON-patch is refused again, NOTHING is written, and
    the handler-supplied fns are carried once more — retried until a cycle sees the fresh state. -/
theorem stale_view_conflicts_and_carries (sub : Bool) (ufns : List Fn) (orig o : Obj) (s : Server)
    (hu : ∀ f ∈ ufns, f.isFramework = false)
    (ho : s.obj = some o) (hstale : o.rv ≠ orig.rv)
    (hch : finsChanged orig (applyFns ufns orig) = true) :
    (cycle sub (some ufns) [] [] orig Env.quiet s).1.server = s ∧
    (cycle sub (some ufns) [] [] orig Env.quiet s).2 = some ufns := by
  have hne : ufns ≠ [] := by
    intro e; subst e; simp [finsChanged, applyFns_nil] at hch
  have hp : nextPatch (some ufns) [] [] = ⟨[], ufns⟩ := by simp [nextPatch]
  have hemp : (nextPatch (some ufns) [] []).isEmpty = false := by
    rw [hp]; cases ufns <;> simp_all [Patch.isEmpty]
  have e : cycle sub (some ufns) [] [] orig Env.quiet s =
      (patchObj sub ⟨[], ufns⟩ orig Env.quiet s,
       memoryAfter false (some ufns) (patchObj sub ⟨[], ufns⟩ orig Env.quiet s).outcome) := by
    rw [hp] at hemp
    simp [cycle, cycleOf, hp, hemp]
  rw [e]
  have hm0 : stageMerge sub ⟨[], ufns⟩ Env.quiet ⟨s, [], none⟩ = .ok ⟨s, [], none⟩ := by
    unfold stageMerge stageMergeBody stageMergeStatus bodyPart statusPart
    cases sub <;> simp [erase, lookup] <;> rfl
  obtain ⟨_, hconf⟩ := fns_atomic sub ⟨[], ufns⟩ orig Env.quiet ⟨s, [], none⟩ hch rfl o (by rw [slipped_quiet]; exact ho)
  obtain ⟨st', _, _, _, hfin⟩ := hconf hstale
  have hpo : patchObj sub ⟨[], ufns⟩ orig Env.quiet s =
      finish ⟨[], ufns⟩ (stageJsonBody sub ⟨[], ufns⟩ orig Env.quiet ⟨s, [], none⟩ >>=
        stageJsonStatus sub ⟨[], ufns⟩ orig orig Env.quiet) := by
    unfold patchObj
    rw [hm0]
    rfl
  rw [hpo]
  obtain ⟨h1, h2⟩ := hfin (stageJsonStatus sub ⟨[], ufns⟩ orig orig Env.quiet)
  refine ⟨by rw [h2, slipped_quiet], ?_⟩
  rw [h1]
  simp only [memoryAfter, Bool.false_eq_true, if_false, carried]
  have hfil : ufns.filter (fun f => !f.isFramework) = ufns := by
    rw [List.filter_eq_self]
    intro f hf; simp [hu f hf]
  rw [hfil]
  cases ufns with
  | nil => exact absurd rfl hne
  | cons f fs => simp

-- non-vacuity: the event body is at version 5, the server at 6; the handler's finalizer is carried again
example :
    let orig : Obj := ⟨1, 5, false, [], []⟩
    finsChanged orig (applyFns [.userFin true "u"] orig) = true ∧ (6 : Nat) ≠ orig.rv := by decide

/-- After an accepted call (or a vanished object) the memory is empty: whatever was carried has now been
    applied and is never applied again. -/
theorem accepted_call_empties_memory (sub : Bool) (mem : Option (List Fn)) (c : CycleIn) (s : Server)
    (h : (cycle sub mem c.fields c.fns c.orig c.env s).1.outcome.accepted = true) :
    (cycle sub mem c.fields c.fns c.orig c.env s).2 = none := by
  unfold cycle cycleOf at h ⊢
  simp only at h ⊢
  split
  · rfl
  · rename_i hne
    rw [if_neg hne] at h
    simp only at h ⊢
    cases ho : (patchObj sub (nextPatch mem c.fields c.fns) c.orig c.env s).outcome with
    | ok rem b =>
      rw [ho] at h
      cases rem with
      | none => simp [memoryAfter, carried]
      | some r => simp [Outcome.accepted] at h
    | gone => rfl
    | raised => rw [ho] at h; simp [Outcome.accepted] at h

/-- Not lost: a handler-supplied fn that is in the memory stays there through ANY run of cycles whose
    calls are all refused or fail — whatever these cycles add, whatever the others write, whatever is
    injected — and is therefore part of every one of their patches (`nextPatch`) up to and including the
    first accepted call, which applies it (`fns_atomic`) and empties the memory
    (`accepted_call_empties_memory`): applied in exactly one accepted call. -/
theorem carried_until_accepted (sub : Bool) (f : Fn) (hf : f.isFramework = false) :
    ∀ (cs : List CycleIn) (mem : Option (List Fn)) (s : Server),
      f ∈ mem.getD [] → allRefused sub mem s cs = true → f ∈ ((run sub mem s cs).1).getD [] := by
  intro cs
  induction cs with
  | nil => intro mem s hm _; exact hm
  | cons c cs ih =>
    intro mem s hm hall
    simp only [allRefused, Bool.and_eq_true, Bool.not_eq_true'] at hall
    simp only [run]
    apply ih _ _ _ hall.2
    -- one refused cycle keeps it
    have hacc := hall.1
    have hmem : f ∈ (nextPatch mem c.fields c.fns).fns := by
      simp only [nextPatch, List.mem_append]; exact Or.inl hm
    have hne : (nextPatch mem c.fields c.fns).isEmpty = false := by
      cases hfs : (nextPatch mem c.fields c.fns).fns with
      | nil => rw [hfs] at hmem; cases hmem
      | cons x xs => simp [Patch.isEmpty, hfs]
    unfold cycle cycleOf at hacc ⊢
    simp only [hne, Bool.false_eq_true, if_false] at hacc ⊢
    cases ho : (patchObj sub (nextPatch mem c.fields c.fns) c.orig c.env s).outcome with
    | ok rem b =>
      rw [ho] at hacc
      cases rem with
      | none => simp [Outcome.accepted] at hacc
      | some r =>
        have hr := (remaining_only_after_refusal sub _ c.orig c.env s r b ho).1
        simp only [memoryAfter, Bool.false_eq_true, if_false, carried]
        have hin : f ∈ r.filter (fun g => !g.isFramework) := by
          rw [hr]; simp [List.mem_filter, hmem, hf]
        split
        · rename_i he
          rw [List.isEmpty_iff] at he
          rw [he] at hin; cases hin
        · exact hin
    | gone => rw [ho] at hacc; simp [Outcome.accepted] at hacc
    | raised => simpa [memoryAfter] using hm

-- non-vacuity: two refused cycles (a conflict through a foreign edit, then an injected 409 on the retry)
example :
    let o : Obj := ⟨1, 5, false, [], []⟩
    let c1 : CycleIn := ⟨[], [.userFin true "u"], o,
      { slips := fun k => if k = .jsonBody then [.edit [("spec", num 1)]] else [], faults := fun _ => .none }⟩
    let c2 : CycleIn := ⟨[], [], ⟨1, 6, false, [], [("spec", num 1)]⟩,
      { slips := fun _ => [], faults := fun k => if k = .jsonBody then .error 409 else .none }⟩
    allRefused true none ⟨5, 1, some o⟩ [c1, c2] = true ∧
    ((run true none ⟨5, 1, some o⟩ [c1, c2]).1.getD []).length = 1 := by decide

/-! ### the variant of commit 608a57d (forget fulfilled carried fns at the head of the cycle): regression theorems

  608a57d was in /repo for a few hours: to keep a carried patch from swallowing a cycle (C03-N2) it forgot, at the
  head of `process_resource_event`, the carried fns that yield no operation on the body of the new cycle
  (`settled`, `cycleForgetting`). This check found that it loses effects the code before it delivered (finding
  C08-F4) and that it evaluates the handlers' functions outside the error throttling (C08-F5); the rework that
  followed took the head block back (the cycle's patch starts from the memory again: `cycle`) and repaired C03-N2
  by a zero delay in the early exit of `process_resource_causes` instead. -/

/-- What the variant did: the carried fns `l` either open the cycle's patch as ever (the cycle is `cycle`), or one
    application of them to the cycle's body changes nothing and the cycle is that of an empty memory — a carried fn
    was never dropped while it would change the BODY AT HAND. (That body is not the freshest state the cycle gets
    to see: `forgetting_variant_loses_witness`.) -/
theorem forgetting_variant_forgets_only_fulfilled (sub : Bool) (l : List Fn) (fields : Kvs) (fns : List Fn) (orig : Obj)
    (env : Env) (s : Server) :
    (noOps l orig = false ∧
      cycleForgetting sub (some l) fields fns orig env s = cycle sub (some l) fields fns orig env s) ∨
    (noOps l orig = true ∧ (applyFns l orig).fins = orig.fins ∧ statusChanged orig (applyFns l orig) = false ∧
      cycleForgetting sub (some l) fields fns orig env s = cycle sub none fields fns orig env s) := by
  by_cases h : noOps l orig = true
  · refine Or.inr ⟨h, noOps_fins l orig h, ?_, ?_⟩
    · simp only [noOps, Bool.and_eq_true, Bool.not_eq_true'] at h
      exact h.2
    · unfold cycleForgetting cycle
      rw [settled_of_noOps l orig h]
  · have h' : noOps l orig = false := by simpa using h
    refine Or.inl ⟨h', ?_⟩
    unfold cycleForgetting cycle
    rw [settled_of_ops l orig h']

-- non-vacuity: both alternatives occur
example : noOps [.userFin true "u"] ⟨1, 6, false, [], []⟩ = false ∧ noOps [.userFin true "u"] ⟨1, 6, false, ["u"], []⟩ = true := by
  decide

/-- Nobody interfering, on the fresh body, the variant ended exactly as `carry_forward` says of the code: one
    application of carried + new fns to the fresh finalizer list, empty memory. The two differ only under
    interference — and in what the cycle does besides (the variant did not skip the handlers: C03's clause). -/
theorem forgetting_variant_same_when_quiet (sub : Bool) (mem : Option (List Fn)) (fields : Kvs) (newfns : List Fn) (o : Obj) (s : Server)
    (ho : s.obj = some o) (hns : ¬ (o.marked = true ∧ o.fins = [])) :
    (cycleForgetting sub mem fields newfns o Env.quiet s).2 = none ∧
    ((∃ o', (cycleForgetting sub mem fields newfns o Env.quiet s).1.server.obj = some o' ∧ o'.uid = o.uid ∧
        o'.fins = (applyFns (mem.getD [] ++ newfns) o).fins) ∨
     ((cycleForgetting sub mem fields newfns o Env.quiet s).1.server.obj = none ∧ o.marked = true ∧
        (applyFns (mem.getD [] ++ newfns) o).fins = [])) := by
  have h := quiet_cycleOf sub (settled mem o) fields newfns o s ho hns
  rw [settled_fins mem newfns o] at h
  exact h

/-- REGRESSION of the variant (finding C08-F4, fixed by the rework): the carried `ensure finalizer u` is fulfilled on
    the body of the next cycle (the conflicting foreign write had added `u`) and the variant forgets it at the head;
    the cycle has dict content of its own; right before its merge-patch the foreign actor removes `u` again. The
    variant sends the merge-patch only and leaves the object WITHOUT `u`, nothing in the memory; the code evaluates
    the carried fn on the RESPONSE of that merge-patch (the freshest body), sends the JSON-patch and leaves `u` on
    the object. Replayed on the real code by the check (corpus/C08/F4_forgotten_then_unfulfilled.json). -/
theorem forgetting_variant_loses_witness :
    ∃ (sub : Bool) (l : List Fn) (fields : Kvs) (o : Obj) (env : Env) (s : Server),
      s.obj = some o ∧ (∀ f ∈ l, f.isFramework = false) ∧ noOps l o = true ∧
      -- the variant
      ((cycleForgetting sub (some l) fields [] o env s).1.reqs.map (fun r => (r.kind, r.code)) = [(.mergeBody, 200)]) ∧
      ((cycleForgetting sub (some l) fields [] o env s).1.server.obj.map (·.fins) = some []) ∧
      (cycleForgetting sub (some l) fields [] o env s).2 = none ∧
      -- the code
      ((cycle sub (some l) fields [] o env s).1.reqs.map (fun r => (r.kind, r.code)) = [(.mergeBody, 200), (.jsonBody, 200)]) ∧
      ((cycle sub (some l) fields [] o env s).1.server.obj.map (·.fins) = some ["u"]) ∧
      (cycle sub (some l) fields [] o env s).2 = none :=
  ⟨false, [.userFin true "u"], [("status", obj [("p", num 1)])], ⟨1, 6, false, ["u"], []⟩,
   { slips := fun k => if k = .mergeBody then [.setFins []] else [], faults := fun _ => .none },
   ⟨6, 1, some ⟨1, 6, false, ["u"], []⟩⟩,
   rfl, by decide, by decide, by decide, by decide, by rfl, by decide, by decide, by rfl⟩

/-- The framework's finalizer edit after a conflict is RE-DECIDED, not re-applied. Relative to any
    decision function `decide` (C06's decision block: the framework fns it queues for a body): whatever
    happens to the cycle that queued `decide o₁` — a conflict included — nothing of it stays in the
    memory; and the next cycle, evaluated on the fresh object `o`, leaves exactly ONE application of
    `decide o` (the decision on the FRESH state) on the then-fresh finalizer list: the outdated decision
    is neither written later nor lost, the current one is applied once. -/
theorem finalizer_redecided (decide : Obj → List Fn) (hd : ∀ b, ∀ f ∈ decide b, f.isFramework = true)
    (sub : Bool) (fields : Kvs) (o₁ : Obj) (env : Env) (s₁ : Server) (o : Obj) (s : Server) (ho : s.obj = some o)
    (hns : ¬ (o.marked = true ∧ o.fins = [])) :
    (cycle sub none fields (decide o₁) o₁ env s₁).2 = none ∧
    (cycle sub none [] (decide o) o Env.quiet s).2 = none ∧
    ((∃ o', (cycle sub none [] (decide o) o Env.quiet s).1.server.obj = some o' ∧ o'.uid = o.uid ∧
        o'.fins = (applyFns (decide o) o).fins) ∨
     ((cycle sub none [] (decide o) o Env.quiet s).1.server.obj = none ∧ o.marked = true ∧
        (applyFns (decide o) o).fins = [])) := by
  refine ⟨?_, ?_⟩
  · cases hc : (cycle sub none fields (decide o₁) o₁ env s₁).2 with
    | none => rfl
    | some l =>
      exfalso
      unfold cycle cycleOf at hc
      simp only at hc
      split at hc
      · cases hc
      · unfold memoryAfter at hc
        split at hc
        · rename_i rem b hout
          simp only [Bool.false_eq_true, if_false] at hc
          -- a remaining patch holds the call's fns, all of them the framework's: nothing is carried
          cases rem with
          | none => simp [carried] at hc
          | some r =>
            have hr := (remaining_only_after_refusal sub _ o₁ env s₁ r b hout).1
            simp only [nextPatch, Option.getD_none, List.nil_append] at hr
            simp only [carried] at hc
            split at hc
            · cases hc
            · rename_i hne
              apply hne
              rw [hr]
              simp only [List.isEmpty_iff, List.filter_eq_nil_iff]
              intro f hf
              simp [hd o₁ f hf]
        · cases hc
        · cases hc
  · simpa using carry_forward sub none [] (decide o) o s ho hns

/-
  NOT DUPLICATED — FULL STATEMENT (false of the code, see `reapplied_after_status_conflict_witness`):
    "along any run, what the fns leave on the finalizer list is exactly ONE application of them, to the
     state on which their JSON-patch was accepted".
  It holds whenever the refusal hits the body JSON-patch (third request) or earlier: then nothing of the
  computation is written (`fns_atomic`, `stale_view_conflicts_and_carries`) and the accepted call applies
  the fns once (`carry_forward`). It fails when the body JSON-patch is accepted and the STATUS JSON-patch
  (fourth request) is refused: `patch_obj` cannot tell body fns from status fns, returns ALL of them, and
  the next cycle applies the body fns a second time. Only handler-supplied fns are concerned (the
  framework's own are not carried), and docs/patches.rst demands of them exactly what makes this
  harmless: "The transformation functions may be called more than once … should therefore be safe to
  call repeatedly: they should check the current state before making changes." For such state-checking
  fns (all fns of the model are) re-application never changes WHICH finalizers are there
  (`not_duplicated_partial`); it may change their order. Not recorded as a defect: documented contract.
-/

/-- NOT DUPLICATED, the part that holds: re-applying the whole list of (state-checking) fns on top of
    their own result never changes which finalizers are present — none is added twice, none is lost. -/
theorem not_duplicated_partial (fns : List Fn) (o : Obj) (x : String) :
    x ∈ (applyFns fns (applyFns fns o)).fins ↔ x ∈ (applyFns fns o).fins := by
  rw [mem_applyFns x fns (applyFns fns o), mem_applyFns x fns o]
  cases lastOp x fns <;> simp

/-- The negation of the full statement, on a real run: body JSON-patch accepted (`["f", "g"]` is on the
    server), a foreign edit slips in before the status JSON-patch, 422, ALL fns remain; the next, quiet
    cycle applies them again and leaves `["g", "f"]` — not what one application left. Replayed on the
    real code by the check (corpus/C08/reapply_after_status_conflict.json). -/
theorem reapplied_after_status_conflict_witness :
    ∃ (fns : List Fn) (o : Obj) (s : Server) (env : Env),
      s.obj = some o ∧ (∀ f ∈ fns, f.isFramework = false) ∧
      -- first cycle: third request accepted, fourth refused
      ((cycle true none [] fns o env s).1.reqs.map (fun r => (r.kind, r.code))
          = [(.jsonBody, 200), (.jsonStatus, 422)]) ∧
      ((cycle true none [] fns o env s).1.server.obj.map (·.fins)) = some (applyFns fns o).fins ∧
      (cycle true none [] fns o env s).2 = some fns ∧
      -- second cycle on the fresh object: everything accepted, the list is another one now
      ∃ o₂, (cycle true none [] fns o env s).1.server.obj = some o₂ ∧
        ((cycle true (some fns) [] [] o₂ Env.quiet (cycle true none [] fns o env s).1.server).1.server.obj.map (·.fins))
          = some ["g", "f"] ∧ (applyFns fns o).fins = ["f", "g"] := by
  refine ⟨[.userFin false "f", .userFin true "f", .userFin true "g", .setStatus "k" (num 1)],
          ⟨1, 5, false, [], []⟩, ⟨5, 1, some ⟨1, 5, false, [], []⟩⟩,
          { slips := fun k => if k = .jsonStatus then [.edit [("spec", num 1)]] else [], faults := fun _ => .none },
          rfl, by decide, by decide, by decide, by rfl,
          ⟨1, 7, false, ["f", "g"], [("spec", num 1)]⟩, by rfl, by decide, by decide⟩

/-! ## daemons and timers: every invocation delivers its own patch, once -/

/-- Patch ownership, as an invariant of the interleaving. Several daemons/timers of one object write to
    and deliver their patches in ANY interleaving (`drun` over any label list; every delivery with any
    foreign writes and faults). As long as `d` itself has not delivered, the patch `d` holds is exactly what
    `d`'s own invocation wrote on top of what it held before — whatever the others wrote or delivered
    meanwhile. (Hoisting the `Patch(body=live_body)` out of the loop of `spawn_daemons` breaks exactly this.) -/
theorem patch_is_own_accumulation (sub : Bool) (d : String) :
    ∀ (ls : List DLabel) (st : DaemonsState), (∀ o e, DLabel.deliver d o e ∉ ls) →
      ((drun sub st ls).fields d, (drun sub st ls).fns d) = ownAcc d (st.fields d, st.fns d) ls := by
  intro ls
  induction ls with
  | nil => intro st _; rfl
  | cons l ls ih =>
    intro st h
    have hrest : ∀ o e, DLabel.deliver d o e ∉ ls := fun o e hm => h o e (List.mem_cons_of_mem _ hm)
    simp only [drun]
    rw [ih _ hrest]
    cases l with
    | write d' upd fns =>
      simp only [dstep, ownAcc, setAt]
      by_cases e : d' = d
      · subst e; simp
      · have e' : ¬ d = d' := fun x => e x.symm
        simp [e, e']
    | deliver d' o env =>
      have e : d' ≠ d := by
        intro x; subst x; exact h o env (by simp)
      have e' : ¬ d = d' := fun x => e x.symm
      simp only [ownAcc]
      unfold dstep
      simp only
      split
      · rfl
      · split <;> simp [setAt, e']

/-- …and what a delivery hands to `patch_obj` is that patch: its merge requests carry exactly the dict `d`
    accumulated (split by the subresource); an accepted delivery (or a vanished object) leaves `d` with an
    empty patch, a refused one with an empty dict and ALL its fns for `d`'s next delivery. -/
theorem delivery_sends_own_patch (sub : Bool) (st : DaemonsState) (d : String) (orig : Obj) (env : Env) :
    ∃ r, (dstep sub st (.deliver d orig env)).2 = some (⟨st.fields d, st.fns d⟩, r) ∧
      (∀ q ∈ r.reqs,
        (q.kind = .mergeBody → q.payload = .merge (bodyPart sub (st.fields d))) ∧
        (q.kind = .mergeStatus → ∃ v, lookup "status" (st.fields d) = some v ∧ q.payload = .merge [("status", v)])) ∧
      (r.outcome.accepted = true →
        (dstep sub st (.deliver d orig env)).1.fields d = [] ∧ (dstep sub st (.deliver d orig env)).1.fns d = []) ∧
      (∀ rem b, r.outcome = .ok (some rem) b →
        (dstep sub st (.deliver d orig env)).1.fields d = [] ∧ (dstep sub st (.deliver d orig env)).1.fns d = st.fns d) := by
  unfold dstep
  simp only
  by_cases hemp : (Patch.isEmpty ⟨st.fields d, st.fns d⟩) = true
  · rw [if_pos hemp]
    have hf : st.fields d = [] ∧ st.fns d = [] := by
      simpa [Patch.isEmpty, List.isEmpty_iff] using hemp
    refine ⟨_, rfl, ?_, fun _ => hf, ?_⟩
    · intro q hq; cases hq
    · intro rem b h; cases h
  · rw [if_neg hemp]
    have hrt := routed_by_subresource sub ⟨st.fields d, st.fns d⟩ orig env st.server
    cases ho : (patchObj sub ⟨st.fields d, st.fns d⟩ orig env st.server).outcome with
    | raised =>
      refine ⟨_, rfl, ?_, ?_, ?_⟩
      · intro q hq; exact ⟨fun hk => ((hrt q hq).1 hk).1, fun hk => ((hrt q hq).2.1 hk).2⟩
      · intro h; rw [ho] at h; simp [Outcome.accepted] at h
      · intro rem b h; rw [ho] at h; cases h
    | gone =>
      refine ⟨_, rfl, ?_, ?_, ?_⟩
      · intro q hq; exact ⟨fun hk => ((hrt q hq).1 hk).1, fun hk => ((hrt q hq).2.1 hk).2⟩
      · intro _; simp [setAt]
      · intro rem b h; rw [ho] at h; cases h
    | ok rem0 b0 =>
      refine ⟨_, rfl, ?_, ?_, ?_⟩
      · intro q hq; exact ⟨fun hk => ((hrt q hq).1 hk).1, fun hk => ((hrt q hq).2.1 hk).2⟩
      · intro h; rw [ho] at h
        cases rem0 with
        | none => simp [setAt]
        | some r => simp [Outcome.accepted] at h
      · intro rem b h
        rw [ho] at h
        injection h with h1 h2
        subst h1
        have := (remaining_only_after_refusal sub _ orig env st.server rem b0 ho).1
        simp [setAt, this]

-- non-vacuity, evaluated by the model: `tb` writes, awaits; `ta` writes and delivers meanwhile; `tb` writes
-- again and delivers: each delivery carries its own field(s) only, the list holds each token once
example :
    let o : Obj := ⟨1, 5, false, [], []⟩
    let st0 : DaemonsState := ⟨⟨5, 1, some o⟩, fun _ => [], fun _ => []⟩
    let ls : List DLabel := [
      .write "tb" (fun _ => [("status", obj [("tb-a", str "B")])]) [.appendStatus "log" (str "B")],
      .write "ta" (fun _ => [("status", obj [("ta-a", str "A")])]) [.appendStatus "log" (str "A")],
      .deliver "ta" o Env.quiet,
      .write "tb" (fun f => mergeKvs f [("status", obj [("tb-b", str "B2")])]) [],
      .deliver "tb" o Env.quiet]
    ((drun false st0 ls).server.obj.map (fun x => (lookup "status" x.body).map (fun st => J.beq st
      (obj [("ta-a", str "A"), ("log", arr [str "A", str "B"]), ("tb-a", str "B"), ("tb-b", str "B2")])))) = some (some true) ∧
    (∀ o' e, DLabel.deliver "tb" o' e ∉ ls.take 4) := by
  refine ⟨by decide, ?_⟩
  intro o' e h
  simp at h

/-- The same for one daemon in isolation (`daemonCycle`): after an accepted delivery nothing remains, so the next invocation's patch
    (`Patch(remaining_patch, body=body)`) holds only what that next invocation accumulates; a refused one
    keeps ALL its fns (daemons carry the framework's too) for the same daemon's next delivery. -/
theorem daemon_delivery_not_repeated (sub : Bool) (mem : Option (List Fn)) (c : CycleIn) (s : Server) :
    ((daemonCycle sub mem c.fields c.fns c.orig c.env s).1.outcome.accepted = true →
      (daemonCycle sub mem c.fields c.fns c.orig c.env s).2 = none) ∧
    (∀ r b, (nextPatch mem c.fields c.fns).isEmpty = false →
      (daemonCycle sub mem c.fields c.fns c.orig c.env s).1.outcome = .ok (some r) b →
      (daemonCycle sub mem c.fields c.fns c.orig c.env s).2 = some (mem.getD [] ++ c.fns)) := by
  constructor
  · intro h
    unfold daemonCycle cycleOf at h ⊢
    simp only at h ⊢
    split
    · rfl
    · rename_i hne
      rw [if_neg hne] at h
      simp only at h ⊢
      cases ho : (patchObj sub (nextPatch mem c.fields c.fns) c.orig c.env s).outcome with
      | ok rem b =>
        rw [ho] at h
        cases rem with
        | none => simp [memoryAfter]
        | some r => simp [Outcome.accepted] at h
      | gone => rfl
      | raised => rw [ho] at h; simp [Outcome.accepted] at h
  · intro r b hne ho
    unfold daemonCycle cycleOf at ho ⊢
    simp only [hne, Bool.false_eq_true, if_false] at ho ⊢
    have hr := (remaining_only_after_refusal sub _ c.orig c.env s r b ho).1
    rw [ho]
    simp only [memoryAfter, if_true]
    rw [hr]; rfl

-- non-vacuity: two invocations of a timer; the first appends to a status list and is accepted, the
-- second sends only its own field: the list holds the token once
example :
    let o : Obj := ⟨1, 5, false, [], []⟩
    let c1 : CycleIn := ⟨[("status", obj [("a", str "t#0")])], [.appendStatus "log" (str "t#0")], o, Env.quiet⟩
    let c2 : CycleIn := ⟨[("status", obj [("a", str "t#1")])], [], o, Env.quiet⟩
    let out := daemonRun false none ⟨5, 1, some o⟩ [c1, c2]
    out.1.map (fun x => x.2.reqs.map (fun r => (r.kind, r.code))) = [[(.mergeBody, 200), (.jsonBody, 200)], [(.mergeBody, 200)]] ∧
    out.2.1.isNone = true ∧
    (out.2.2.obj.map (fun x => ((lookup "status" x.body).bind (fun st => st.get? "log")).map (fun l => J.beq l (arr [str "t#0"])))) = some (some true) := by
  decide

/-- NOT LOST fails for a daemon that ends (finding C08-F3): the daemon's only invocation appends a transformation,
    a foreign edit slips in right before the JSON-patch of its delivery (422: everything remains), the function
    has returned, so the runner leaves its loop — the remaining patch is dropped with the task: the object lives
    on without the effect and nothing is left to bring it. (`daemon_delivery_not_repeated` is the part that holds:
    an accepted last delivery leaves nothing behind.) Replayed on the real operator by the check
    (corpus/C08/F3_daemon_exit_drops_remaining.json). -/
theorem daemon_exit_drops_remaining_witness :
    ∃ (sub : Bool) (o : Obj) (s : Server) (c : CycleIn),
      s.obj = some o ∧ c.orig = o ∧ c.fns ≠ [] ∧
      ((daemonRun sub none s [c]).1.map (fun x => x.2.reqs.map (fun r => (r.kind, r.code)))) = [[(.mergeBody, 200), (.jsonBody, 422)]] ∧
      (daemonLife sub s [c]).2 = some c.fns ∧
      ((daemonLife sub s [c]).1.obj.map (fun x => (x.uid, ((lookup "status" x.body).bind (fun st => st.get? "log")).isNone)))
        = some (o.uid, true) :=
  ⟨false, ⟨1, 5, false, [], []⟩, ⟨5, 1, some ⟨1, 5, false, [], []⟩⟩,
   ⟨[("status", obj [("a", str "d#0")])], [.appendStatus "log" (str "d#0")], ⟨1, 5, false, [], []⟩,
    { slips := fun k => if k = .jsonBody then [.edit [("spec", num 1)]] else [], faults := fun _ => .none }⟩,
   rfl, rfl, by simp, by decide, by rfl, by decide⟩

/-- `memories.recall`: the remaining patch is kept under the uid of the object it was computed for; a cycle for an
    object of another uid (the name re-used) starts from an empty memory, whatever remained for the former one —
    so the patch of its first cycle holds exactly what that cycle accumulates. -/
theorem remaining_stays_with_its_uid (u : Nat) (orig : Obj) (mem : Option (List Fn)) (fields : Kvs) (fns : List Fn)
    (h : orig.uid ≠ u) :
    recalled (some u) orig mem = none ∧ nextPatch (recalled (some u) orig mem) fields fns = ⟨fields, fns⟩ := by
  have h' : ¬ (u = orig.uid) := fun e => h e.symm
  simp [recalled, h', nextPatch]

example : recalled (some 1) ⟨1, 5, false, [], []⟩ (some [.userFin true "u"]) = some [.userFin true "u"] := by rfl
example : (recalled (some 1) ⟨2, 7, false, [], []⟩ (some [.userFin true "u"])).isNone = true := by decide

/-! ## a vanished object ends the patching silently -/

/-- A 404 — the object is gone, or was deleted by a foreign write right before the request, or the
    response was injected — is the last request of the call, and the call returns `(None, None)`:
    no exception, no remaining patch, nothing further is sent. -/
theorem silent_404 (sub : Bool) (p : Patch) (orig : Obj) (env : Env) (s : Server)
    (r : Req) (hr : r ∈ (patchObj sub p orig env s).reqs) (hc : r.code = 404) :
    (patchObj sub p orig env s).reqs.getLast? = some r ∧ (patchObj sub p orig env s).outcome = .gone := by
  unfold patchObj at hr ⊢
  obtain ⟨hl, st, hm⟩ := good_stop_last (good_patch sub p orig env s) p r hr (by rw [hc]; decide)
  refine ⟨hl, ?_⟩
  rw [hm]
  have : stopOf r = .gone := by simp [stopOf, hc]
  rw [this]
  rfl

/-- The only way out by exception is an API error other than the two the call handles itself: the last
    request was answered with a status that is neither a success, nor 404, nor a 422 on a JSON-patch
    (a 422 on a merge-patch, 403, 409, a 5xx after the retries, …; those are C12's subject). -/
theorem raised_only_on_api_error (sub : Bool) (p : Patch) (orig : Obj) (env : Env) (s : Server)
    (h : (patchObj sub p orig env s).outcome = .raised) :
    ∃ r, (patchObj sub p orig env s).reqs.getLast? = some r ∧ r.code ≠ 200 ∧ r.code ≠ 404 ∧
      ¬ (r.code = 422 ∧ r.kind.isJson = true) := by
  unfold patchObj at h ⊢
  rcases good_inv (good_patch sub p orig env s) with ⟨st, e, _⟩ | ⟨st, pre, r, e, h1, _, h3⟩
  · rw [e] at h; simp [finish] at h
  · rw [e] at h ⊢
    have hreq : (finish p (.error (st, stopOf r))).reqs = st.reqs := (finish_reqs p _).1
    rw [hreq, h1]
    unfold stopOf at h
    by_cases h404 : r.code = 404
    · simp [h404, finish] at h
    · by_cases hj : r.code = 422 ∧ r.kind.isJson = true
      · rw [if_neg h404, if_pos hj] at h
        simp [finish] at h
      · exact ⟨r, by simp, h3, h404, hj⟩

-- non-vacuity: an injected 409 on the status merge-patch (after a foreign edit and a finalizer edit slipped in)
example :
    (patchObj true ⟨[("status", obj [("a", num 1)])], []⟩ ⟨1, 5, false, [], []⟩
      { slips := fun _ => [.edit [("spec", num 1)], .setFins ["x"]], faults := fun k => if k = .mergeStatus then .error 409 else .none }
      ⟨5, 1, some ⟨1, 5, false, [], []⟩⟩).reqs.map (fun r => (r.kind, r.code)) = [(.mergeStatus, 409)] := by decide

/-! ## what the caller gets back when nothing was sent -/

/-- A non-empty patch can send NOTHING: no dict content, and fns that turn out to be no-ops on the body
    the patch was computed for (a carried fn whose effect is already there, an `allow` of an absent
    finalizer, …). Then `patch_obj` makes no request, leaves the server alone and returns `(None, None)`. -/
theorem noop_patch_sends_nothing (sub : Bool) (fns : List Fn) (orig : Obj) (env : Env) (s : Server)
    (hf : finsChanged orig (applyFns fns orig) = false) (hs : statusChanged orig (applyFns fns orig) = false) :
    (patchObj sub ⟨[], fns⟩ orig env s).reqs = [] ∧ (patchObj sub ⟨[], fns⟩ orig env s).server = s ∧
    (patchObj sub ⟨[], fns⟩ orig env s).outcome.returned = some (none, none) := by
  have hm0 : stageMerge sub ⟨[], fns⟩ env ⟨s, [], none⟩ = .ok ⟨s, [], none⟩ := by
    unfold stageMerge stageMergeBody stageMergeStatus bodyPart statusPart
    cases sub <;> simp [erase, lookup] <;> rfl
  have hb : jsonBodyPayload sub fns orig = none := by
    unfold jsonBodyPayload; simp [hf, hs]
  have hv : jsonStatusValue sub fns orig = none := by
    unfold jsonStatusValue; simp [hs]
  have : patchObj sub ⟨[], fns⟩ orig env s = ⟨[], s, .ok none none⟩ := by
    unfold patchObj
    rw [hm0]
    show finish _ (stageJson sub ⟨[], fns⟩ orig env ⟨s, [], none⟩) = _
    unfold stageJson stageJsonBody
    simp only [Option.getD_none, hb]
    show finish _ (stageJsonStatus sub ⟨[], fns⟩ orig orig env ⟨s, [], none⟩) = _
    unfold stageJsonStatus
    simp only [hv]
    rfl
  rw [this]
  exact ⟨rfl, rfl, rfl⟩

/-- `(None, None)` is ALSO what a vanished object gives (`silent_404`), and nothing else does: the pair is
    returned exactly when no request was made at all or the last one was answered 404. The caller
    (`application.patch_and_check`: `resource_version = None`) cannot tell "nothing was sent, the object is as
    it was" from "sent, the object is gone". What `application.apply` makes of that (it takes the truthy patch
    for a change and skips the sleep for the delays) is C03/C06's clause, not C08's; here: what is returned. -/
theorem returns_none_none_iff (sub : Bool) (p : Patch) (orig : Obj) (env : Env) (s : Server) :
    (patchObj sub p orig env s).outcome.returned = some (none, none) ↔
      ((patchObj sub p orig env s).reqs = [] ∨
       ∃ r, (patchObj sub p orig env s).reqs.getLast? = some r ∧ r.code = 404) := by
  unfold patchObj
  have hbody := patch_ok_body sub p orig env s
  rcases good_inv (good_patch sub p orig env s) with ⟨st, e, hall⟩ | ⟨st, pre, r, e, h1, _, h3⟩
  · rw [e]
    have hreq : (finish p (.ok st)).reqs = st.reqs := rfl
    rw [hreq]
    constructor
    · intro h
      simp only [finish, Outcome.returned, Option.some.injEq, Prod.mk.injEq] at h
      rcases hbody st e with h0 | h0
      · exact Or.inl h0.1
      · rw [h.1] at h0; simp at h0
    · rintro (h | ⟨r, hl, hc⟩)
      · rcases hbody st e with h0 | h0
        · simp [finish, Outcome.returned, h0.2]
        · exact absurd h h0.1
      · have hm : r ∈ st.reqs := List.mem_of_getLast? hl
        have := hall r hm
        rw [hc] at this; cases this
  · rw [e]
    have hreq : (finish p (.error (st, stopOf r))).reqs = st.reqs := (finish_reqs p _).1
    rw [hreq, h1]
    unfold stopOf
    by_cases h404 : r.code = 404
    · simp [h404, finish, Outcome.returned]
    · by_cases hj : r.code = 422 ∧ r.kind.isJson = true
      · rw [if_neg h404, if_pos hj]
        constructor
        · intro h
          simp only [finish, Outcome.returned, Option.some.injEq, Prod.mk.injEq] at h
          exact absurd h.2 (by simp)
        · rintro (h | ⟨r', hl, hc⟩)
          · simp at h
          · simp at hl; subst hl; exact absurd hc h404
      · rw [if_neg h404, if_neg hj]
        constructor
        · intro h; simp [finish, Outcome.returned] at h
        · rintro (h | ⟨r', hl, hc⟩)
          · simp at h
          · simp at hl; subst hl; exact absurd hc h404

-- non-vacuity: a carried `allow` of a finalizer that is not there (any more) — a non-empty patch, no request
example :
    let o : Obj := ⟨1, 5, false, ["other"], []⟩
    finsChanged o (applyFns [.userFin false "gone"] o) = false ∧ statusChanged o (applyFns [.userFin false "gone"] o) = false ∧
    (Patch.isEmpty ⟨[], [.userFin false "gone"]⟩) = false := by decide

/-! ## same object -/

/-
  FULL STATEMENT (false of the code, see `name_reuse_witness`):
    theorem same_object : ∀ sub p orig env s, (∀ o, s.obj = some o → o.uid = orig.uid) →
      ∀ r ∈ (patchObj sub p orig env s).reqs, ∀ u, r.target = some u → u = orig.uid
  "no request lands on an object whose uid differs from the one the patch was computed for".
  Requests are addressed by namespace/name only, so the statement needs the guard below.
-/

/-- No request lands on another object — PROVIDED nobody recreates the object under the same name
    during the call (any other foreign write is allowed: edits, finalizer edits, deletion). -/
theorem same_object_partial (sub : Bool) (p : Patch) (orig : Obj) (env : Env) (s : Server)
    (h0 : ∀ o, s.obj = some o → o.uid = orig.uid)
    (hw : ∀ k w, w ∈ env.slips k → ∀ b, w ≠ .recreate b) :
    ∀ r ∈ (patchObj sub p orig env s).reqs, ∀ u, r.target = some u → u = orig.uid := by
  intro r hr u hu
  unfold patchObj at hr
  rw [(finish_reqs p _).1] at hr
  have h : TargetsOk orig.uid (stageMerge sub p env ⟨s, [], none⟩ >>= stageJson sub p orig env).final := by
    apply final_inv (TargetsOk orig.uid)
    · exact stageMerge_targets orig.uid sub p env _ hw ⟨h0, by intro r hr; cases hr⟩
    · intro st hst; exact stageJson_targets orig.uid sub p orig env st hw hst
  exact h.2 r hr u hu

-- non-vacuity: an environment with foreign edits and a deletion but no recreation
example : ∀ k w, w ∈ ({ slips := fun k => if k = .jsonBody then [.delete] else [.edit [], .setFins ["x"]],
                         faults := fun _ => .none } : Env).slips k → ∀ b, w ≠ .recreate b := by
  intro k w hw b
  cases k <;> simp at hw <;> rcases hw with rfl | rfl <;> simp

/-- The negation of the full statement: the object is deleted and recreated under the same name
    right before the status merge-patch of a cycle computed for uid 1. The status lands on uid 2 — and
    so does the finalizer JSON-patch, because it is tested against the version the NEW object's
    response reported. Defect F2, replayed on the real code by the check. -/
theorem name_reuse_witness :
    ∃ (sub : Bool) (p : Patch) (orig : Obj) (env : Env) (s : Server),
      s.obj = some orig ∧
      ∃ r1 ∈ (patchObj sub p orig env s).reqs, ∃ r2 ∈ (patchObj sub p orig env s).reqs,
        r1.kind = .mergeStatus ∧ r1.code = 200 ∧ r1.target = some 2 ∧
        r2.kind = .jsonBody ∧ r2.code = 200 ∧ r2.target = some 2 ∧ orig.uid = 1 :=
  ⟨true, ⟨[("metadata", obj [("annotations", obj [("progress", str "done")])]), ("status", obj [("result", num 1)])],
          [.block "kopf"]⟩,
   ⟨1, 5, false, [], [("spec", obj [("x", num 0)])]⟩,
   { slips := fun k => if k = .mergeStatus then [.recreate [("spec", obj [("x", num 1)])]] else [],
     faults := fun _ => .none },
   ⟨5, 1, some ⟨1, 5, false, [], [("spec", obj [("x", num 0)])]⟩⟩,
   rfl, by decide⟩

/-! ## `exactly when the resource has one`: where the `sub` of the call comes from (API discovery) -/

/-- What kopf takes for the subresources of a resource is what the cluster serves for THAT resource: for every
    cluster (any resources side by side in the group/version — plurals that are prefixes, extensions or suffixes of
    one another included —, any subresources, any order of the entries in the discovery answer), every plural
    and every subresource name. Plurals have no slash (they are path segments). -/
theorem discovered_subresources (cl : List ResDef) (names : List Name) (p s : Name)
    (hnames : ∀ n, n ∈ names ↔ n ∈ discoveryNames cl)
    (hcl : ∀ r ∈ cl, '/' ∉ r.plural) (hp : '/' ∉ p) :
    s ∈ subresourcesOf names p ↔ ∃ r ∈ cl, r.plural = p ∧ s ∈ r.subs := by
  rw [mem_subresourcesOf names p s hp, hnames, mem_discoveryNames_sub cl p s hcl hp]

-- non-vacuity: two resources, one plural a prefix of the other, the entries in a shuffled order
example :
    let cl : List ResDef := [⟨"widgets".toList, ["scale".toList]⟩, ⟨"widgetsets".toList, [statusName]⟩]
    let names : List Name := ["widgetsets/status".toList, "widgets".toList, "widgetsets".toList, "widgets/scale".toList]
    (∀ n, n ∈ names ↔ n ∈ discoveryNames cl) ∧ (∀ r ∈ cl, '/' ∉ r.plural) ∧
    readVersion names = [("widgets".toList, ["scale".toList]), ("widgetsets".toList, [statusName])] := by
  refine ⟨?_, by decide, by decide⟩
  intro n
  simp [discoveryNames, statusName]
  constructor <;> intro h <;> rcases h with h | h | h | h <;> simp [h]

/-- `patch_obj`'s question `'status' in resource.subresources` is answered by the cluster's fact. -/
theorem status_belief_is_cluster_fact (cl : List ResDef) (names : List Name) (p : Name)
    (hnames : ∀ n, n ∈ names ↔ n ∈ discoveryNames cl)
    (hcl : ∀ r ∈ cl, '/' ∉ r.plural) (hp : '/' ∉ p) :
    believesStatus names p = true ↔ servesStatus cl p := by
  rw [believesStatus_iff, discovered_subresources cl names p statusName hnames hcl hp]
  rfl

/-- `status through the status subresource EXACTLY WHEN THE RESOURCE HAS ONE`, end to end (discovery + patching): a
    request of the call goes to `/status` only if the cluster serves it for this resource; and if it does, the main
    resource never receives status content in a merge-patch. For every cluster, discovery order, patch, environment. -/
theorem status_routed_iff_served (cl : List ResDef) (names : List Name) (p : Name)
    (hnames : ∀ n, n ∈ names ↔ n ∈ discoveryNames cl)
    (hcl : ∀ r ∈ cl, '/' ∉ r.plural) (hp : '/' ∉ p)
    (pt : Patch) (orig : Obj) (env : Env) (s : Server) :
    ∀ r ∈ (patchObj (believesStatus names p) pt orig env s).reqs,
      ((r.kind = .mergeStatus ∨ r.kind = .jsonStatus) → servesStatus cl p) ∧
      (servesStatus cl p → r.kind = .mergeBody → ∃ f, r.payload = .merge f ∧ lookup "status" f = none) := by
  intro r hr
  have hb := status_belief_is_cluster_fact cl names p hnames hcl hp
  have h := routed_by_subresource (believesStatus names p) pt orig env s r hr
  constructor
  · intro hk
    apply hb.1
    cases hsub : believesStatus names p with
    | true => rfl
    | false =>
      have := h.2.2.1 hsub
      rcases hk with hk | hk
      · exact absurd hk this.1
      · exact absurd hk this.2
  · intro hs hk
    have hsub := hb.2 hs
    have := h.1 hk
    exact ⟨_, this.1, this.2.1 hsub⟩

/-- The delimiter matters (seeded change C08g): with `name.startswith(plural)` instead of `startswith(plural + '/')` a
    resource inherits the subresources of a sibling whose plural merely begins with its own. `widgets` (no status
    subresource) next to `widgetsets` (with one): the code's reading says no subresource and the whole patch (status
    field + finalizer) is delivered; the variant's reading says there is one, the status goes to `/status`, the cluster
    answers 404 (no such route), the call ends as for a vanished object, and neither the status nor the finalizer
    reaches the object, which lives on. -/
theorem prefix_match_variant_witness :
    let cl : List ResDef := [⟨"widgets".toList, []⟩, ⟨"widgetsets".toList, [statusName]⟩]
    let names := discoveryNames cl
    let o : Obj := ⟨1, 5, false, [], [("spec", obj [("x", num 0)])]⟩
    let s : Server := ⟨5, 1, some o⟩
    let pt : Patch := ⟨[("status", obj [("phase", str "Ready")])], [.block "kopf"]⟩
    let good := patchObj (believesStatus names "widgets".toList) pt o noStatusEndpoint s
    let bad := patchObj (believesStatusPrefix names "widgets".toList) pt o noStatusEndpoint s
    believesStatus names "widgets".toList = false ∧ believesStatusPrefix names "widgets".toList = true ∧
    believesStatus names "widgetsets".toList = true ∧
    good.outcome.isGone = false ∧
      (good.server.obj.map (fun o => (o.fins, (lookup "status" o.body).isSome))) = some (["kopf"], true) ∧
    bad.outcome.isGone = true ∧
      (bad.server.obj.map (fun o => (o.uid, o.rv, o.fins, (lookup "status" o.body).isSome))) = some (1, 5, [], false) := by decide

end Kopf.C08
