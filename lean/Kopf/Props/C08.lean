/-
  C08 — Accumulated patches are delivered completely, atomically and exactly once.
  Property theorems only, about the model `Kopf/Model/C08_Patching.lean` of `patching.patch_obj`,
  the stateful server, and the carry-forward of `memory.remaining_patch`.

  Quantification: every patch content (well-formed field dict × list of transformation functions),
  with and without a status subresource, every foreign write (edit / finalizer edit / delete /
  delete-and-recreate) right before any of the four possible requests, every injected 404/422.
-/
import Kopf.Lemmas.C08_Quiet
namespace Kopf.C08
open Kopf Kopf.J

/-! ## merge-patches: complete, routed by the subresource -/

/-- Every field of a merge-patch is in the server object right after its request (the response body
    is what the server stored, unless the write released a marked object): removed fields are absent,
    set fields have their value — whatever foreign write slipped in before the request. The two
    payload shapes are the ones `patch_obj` sends (`routed_by_subresource`). -/
theorem merge_delivered (sub : Bool) (env : Env) (k : Kind) (p : Kvs) (s : Server)
    (hp : wfKvs p = true)
    (hk : (k = .mergeBody ∧ (sub = true → lookup "status" p = none)) ∨
          (k = .mergeStatus ∧ ∃ v, p = [("status", v)]))
    (hcode : (step sub env k (.merge p) s).2.1.code = 200) :
    ∃ o, (step sub env k (.merge p) s).2.2 = some o ∧ Delivered p o.body ∧
      ((step sub env k (.merge p) s).1.obj = some o ∨
       ((step sub env k (.merge p) s).1.obj = none ∧ o.marked = true ∧ o.fins = [])) := by
  rcases step_cases sub env k (.merge p) s with (⟨_, e⟩ | ⟨_, e⟩) | ⟨_, _, e⟩ | ⟨o, _, _, ha, _⟩ | ⟨o, new, _, ho, ha, e⟩
  · rw [e] at hcode; simp at hcode
  · rw [e] at hcode; simp at hcode
  · rw [e] at hcode; simp at hcode
  · simp [applyPayload] at ha
  · simp only [applyPayload, Option.some.injEq] at ha
    subst ha
    have hd := delivered_route sub k p o hp hk
    rw [e]
    simp only
    rcases put_cases (slipped env k s) o (route sub k.toStatus o { o with body := clean (mergeKvs o.body p) })
      with ⟨hsame, h⟩ | ⟨_, h1, h2, h⟩ | ⟨_, _, h⟩ <;> rw [h]
    · obtain ⟨_, _, hb⟩ := sameContent_eq hsame
      exact ⟨o, rfl, by rw [hb]; exact hd, Or.inl ho⟩
    · exact ⟨_, rfl, hd, Or.inr ⟨rfl, h1, h2⟩⟩
    · exact ⟨_, rfl, hd, Or.inl rfl⟩

-- non-vacuity: a status merge through the subresource, accepted, while a foreign edit slips in
example :
    let s : Server := ⟨5, 1, some ⟨1, 5, false, [], [("spec", obj [("x", num 0)])]⟩⟩
    let env : Env := { slips := fun _ => some (.edit [("spec", obj [("x", num 7)])]), faults := fun _ => .none }
    (step true env .mergeStatus (.merge [("status", obj [("a", num 1)])]) s).2.1.code = 200 ∧
    wfKvs [("status", obj [("a", num 1)])] = true := by decide

/-- What a call sends: the body part without `status` to the main resource and `{status: …}` to
    `/status` when the resource has the subresource; the whole dict to the main resource otherwise.
    Nothing goes to `/status` without the subresource; with it, the main resource never receives
    status content (neither merge fields nor JSON ops). -/
theorem routed_by_subresource (sub : Bool) (p : Patch) (orig : Obj) (env : Env) (s : Server) :
    ∀ r ∈ (patchObj sub p orig env s).reqs,
      (r.kind = .mergeBody → r.payload = .merge (bodyPart sub p.fields) ∧
          (sub = true → lookup "status" (bodyPart sub p.fields) = none) ∧ (sub = false → bodyPart sub p.fields = p.fields)) ∧
      (r.kind = .mergeStatus → sub = true ∧ ∃ v, lookup "status" p.fields = some v ∧ r.payload = .merge [("status", v)]) ∧
      (sub = false → r.kind ≠ .mergeStatus ∧ r.kind ≠ .jsonStatus) ∧
      (sub = true → ∀ t fi sv, r.kind = .jsonBody → r.payload = .json t fi sv → sv = none) := by
  intro r hr
  unfold patchObj at hr
  rw [(finish_reqs p _).1] at hr
  have hs := patch_shape sub p orig env s r hr
  rcases hs with ⟨hk, hp, _⟩ | ⟨hk, hsub, v, hl, hp⟩ | ⟨hk, t, fi, sb, hp, hsb⟩ | ⟨hk, hsub, t, v, hp⟩
  · refine ⟨?_, ?_, ?_, ?_⟩
    · intro _
      refine ⟨hp, ?_, ?_⟩
      · intro h; simp [bodyPart, h, lookup_erase_self]
      · intro h; simp [bodyPart, h]
    · intro h; rw [hk] at h; cases h
    · intro _; rw [hk]; simp
    · intro _ t fi sv h; rw [hk] at h; cases h
  · refine ⟨?_, ?_, ?_, ?_⟩
    · intro h; rw [hk] at h; cases h
    · intro _; exact ⟨hsub, v, hl, hp⟩
    · intro h; rw [hsub] at h; cases h
    · intro _ t fi sv h; rw [hk] at h; cases h
  · refine ⟨?_, ?_, ?_, ?_⟩
    · intro h; rw [hk] at h; cases h
    · intro h; rw [hk] at h; cases h
    · intro _; rw [hk]; simp
    · intro h t' fi' sv' _ hp'
      rw [hp] at hp'
      cases hp'
      exact hsb h
  · refine ⟨?_, ?_, ?_, ?_⟩
    · intro h; rw [hk] at h; cases h
    · intro h; rw [hk] at h; cases h
    · intro h; rw [hsub] at h; cases h
    · intro _ t' fi' sv' h; rw [hk] at h; cases h

/-- Completeness: the body part is always sent first when there is one; if no request of the call
    was refused, the status part is sent too — whatever its value, `null` (remove the status) included. -/
theorem merge_complete (sub : Bool) (p : Patch) (orig : Obj) (env : Env) (s : Server) :
    ((bodyPart sub p.fields).isEmpty = false → ∃ r ∈ (patchObj sub p orig env s).reqs, r.kind = .mergeBody) ∧
    (∀ v, sub = true → lookup "status" p.fields = some v →
      (∀ r ∈ (patchObj sub p orig env s).reqs, r.code = 200) →
      ∃ r ∈ (patchObj sub p orig env s).reqs, r.kind = .mergeStatus) := by
  unfold patchObj
  rw [(finish_reqs p _).1]
  unfold stageMerge
  constructor
  · intro hne
    have h1 : ∃ r ∈ (stageMergeBody sub p env ⟨s, [], none⟩).final.reqs, r.kind = .mergeBody := by
      unfold stageMergeBody
      rw [if_neg (by simpa using hne)]
      refine ⟨(step sub env .mergeBody (.merge (bodyPart sub p.fields)) s).2.1, ?_, (step_kind sub env .mergeBody _ s).1⟩
      rw [(doReq_final _ _ _ _ _).1]; simp
    obtain ⟨r, hr, hk⟩ := h1
    exact ⟨r, mem_final_of_mem (mono_stageJson sub p orig env) (mem_final_of_mem (mono_stageMergeStatus sub p env) hr), hk⟩
  · intro v hsub hl hall
    have hg := good_stageMerge sub p env ⟨s, [], none⟩ (by intro r hr; cases hr)
    unfold stageMerge at hg
    cases hb : stageMergeBody sub p env ⟨s, [], none⟩ with
    | error e =>
      exfalso
      rw [hb] at hg hall
      cases hg with
      | stop st pre r h1 _ h3 =>
        refine h3 (hall r ?_)
        show r ∈ st.reqs
        rw [h1]; simp
    | ok st1 =>
      have hsp : statusPart sub p.fields = some v := by
        unfold statusPart
        rw [hsub, if_pos rfl, hl]
      have h2 : ∃ r ∈ (stageMergeStatus sub p env st1).final.reqs, r.kind = .mergeStatus := by
        unfold stageMergeStatus
        rw [hsp]
        refine ⟨(step sub env .mergeStatus (.merge [("status", v)]) st1.server).2.1, ?_, (step_kind sub env .mergeStatus _ st1.server).1⟩
        rw [(doReq_final _ _ _ _ _).1]; simp
      obtain ⟨r, hr, hk⟩ := h2
      refine ⟨r, ?_, hk⟩
      exact mem_final_of_mem (mono_stageJson sub p orig env) hr

/-- The removal of the whole status (`status: null`) is delivered like any other status patch
    (repaired defect C08-F1: `pop('status', None)` used to drop it): with the subresource it is sent to
    `/status` as `{status: null}` unless an earlier request was refused, and the object the server
    answers with has no status any more. -/
theorem status_removal_delivered (p : Patch) (orig : Obj) (env : Env) (s : Server)
    (hl : lookup "status" p.fields = some .null) :
    ((∀ r ∈ (patchObj true p orig env s).reqs, r.code = 200) →
      ∃ r ∈ (patchObj true p orig env s).reqs, r.kind = .mergeStatus ∧ r.payload = .merge [("status", .null)]) ∧
    (∀ s', (step true env .mergeStatus (.merge [("status", .null)]) s').2.1.code = 200 →
      ∃ o, (step true env .mergeStatus (.merge [("status", .null)]) s').2.2 = some o ∧ lookup "status" o.body = none) := by
  constructor
  · intro hall
    obtain ⟨r, hr, hk⟩ := (merge_complete true p orig env s).2 .null rfl hl hall
    obtain ⟨_, v, hv, hp⟩ := (routed_by_subresource true p orig env s r hr).2.1 hk
    rw [hl] at hv
    cases hv
    exact ⟨r, hr, hk, hp⟩
  · intro s' hc
    obtain ⟨o, ho, hd, _⟩ := merge_delivered true env .mergeStatus [("status", .null)] s' (by decide)
      (Or.inr ⟨rfl, .null, rfl⟩) hc
    refine ⟨o, ho, ?_⟩
    have := (hd ["status"] .null (Leaf.here (by simp [lookup]) rfl)).1 rfl
    rw [resolve_cons_obj] at this
    cases hx : lookup "status" o.body with
    | none => rfl
    | some x => rw [hx] at this; simp [resolve_nil] at this

-- non-vacuity, evaluated by the model: one request to `/status`, accepted, the status is gone;
-- without the subresource the same patch goes to the main resource and removes it too
example :
    let o : Obj := ⟨1, 5, false, [], [("spec", obj []), ("status", obj [("seen", num 1)])]⟩
    let r := patchObj true ⟨[("status", .null)], []⟩ o Env.quiet ⟨5, 1, some o⟩
    r.reqs.map (fun q => (q.kind, q.code)) = [(.mergeStatus, 200)] ∧
    r.server.obj.map (fun x => (lookup "status" x.body).isSome) = some false ∧
    (patchObj false ⟨[("status", .null)], []⟩ o Env.quiet ⟨5, 1, some o⟩).server.obj.map
      (fun x => (lookup "status" x.body).isSome) = some false := by decide

/-! ## transformations: atomic at a version -/

/-- The body JSON-patch is computed from the fresh body `F` and tested against `F`'s version.
    Served on an object at that version it is applied: the finalizer list becomes what the fns made of
    `F`'s. Served on an object at any other version (a foreign write slipped in, or the body the patch
    was computed for was stale) NOTHING of that computation is written — the server is exactly what the
    foreign write left — and the call ends returning all the fns as the remaining patch. -/
theorem fns_atomic (sub : Bool) (p : Patch) (F : Obj) (env : Env) (st : St)
    (hch : finsChanged F (applyFns p.fns F) = true)
    (hf : env.faults .jsonBody = .none)
    (o : Obj) (ho : (slipped env .jsonBody st.server).obj = some o) :
    (o.rv = F.rv →
      ∃ st' resp, stageJsonBody sub p F env st = .ok st' ∧ st'.fresh = some resp ∧
        resp.fins = (applyFns p.fns F).fins ∧ resp.uid = o.uid ∧
        (st'.server.obj = some resp ∨ (st'.server.obj = none ∧ o.marked = true ∧ resp.fins = []))) ∧
    (o.rv ≠ F.rv →
      ∃ st', stageJsonBody sub p F env st = .error (st', .conflict) ∧
        st'.server = slipped env .jsonBody st.server ∧ st'.fresh = st.fresh ∧
        ∀ g, (finish p (stageJsonBody sub p F env st >>= g)).outcome = .ok (some p.fns) st.fresh ∧
             (finish p (stageJsonBody sub p F env st >>= g)).server = slipped env .jsonBody st.server) := by
  have hpl : ∃ sb, jsonBodyPayload sub p.fns F = some (.json F.rv (some (applyFns p.fns F).fins) sb) := by
    unfold jsonBodyPayload
    simp [hch]
  obtain ⟨sb, hpl⟩ := hpl
  constructor
  · intro hrv
    obtain ⟨new, hu, hm, hfi, e⟩ := step_json_at_version sub env .jsonBody (some (applyFns p.fns F).fins) sb st.server o hf ho
    obtain ⟨h1, h2, h3, h4⟩ := put_holds (slipped env .jsonBody st.server) o new ho hu hm
    have hnf : new.fins = (applyFns p.fns F).fins := by
      rw [hfi]; unfold finsAfter; simp [Kind.toStatus]
    refine ⟨{ server := ((slipped env .jsonBody st.server).put o new).1,
              reqs := st.reqs ++ [⟨.jsonBody, .json o.rv (some (applyFns p.fns F).fins) sb, some o.uid, 200⟩],
              fresh := some ((slipped env .jsonBody st.server).put o new).2 },
            ((slipped env .jsonBody st.server).put o new).2, ?_, rfl, by rw [h2, hnf], h3, ?_⟩
    · unfold stageJsonBody
      rw [hpl, ← hrv]
      unfold doReq
      simp only [e, if_true]
    · simp only
      rcases h1 with ⟨x, hx, _, _, _⟩ | ⟨hn, hmk, hl⟩
      · left; rw [hx, h4 x hx]
      · right; exact ⟨hn, hmk, by rw [h2]; exact hl⟩
  · intro hne
    have e := step_json_stale sub env .jsonBody F.rv (some (applyFns p.fns F).fins) sb st.server o hf ho hne
    have hs : stageJsonBody sub p F env st =
        .error ({ server := slipped env .jsonBody st.server,
                  reqs := st.reqs ++ [⟨.jsonBody, .json F.rv (some (applyFns p.fns F).fins) sb, some o.uid, 422⟩],
                  fresh := st.fresh }, .conflict) := by
      unfold stageJsonBody
      rw [hpl]
      unfold doReq
      simp [e, Kind.isJson]
    refine ⟨_, hs, rfl, rfl, ?_⟩
    intro g
    rw [hs]
    exact ⟨rfl, rfl⟩

-- non-vacuity: `block` on an object without the finalizer; the server at the version / one ahead
example :
    let F : Obj := ⟨1, 5, false, [], []⟩
    finsChanged F (applyFns [.block "f"] F) = true ∧
    ((slipped Env.quiet .jsonBody ⟨5, 1, some F⟩).obj.map (·.rv)) = some 5 ∧
    ((slipped { slips := fun _ => some (.edit [("spec", num 1)]), faults := fun _ => .none } .jsonBody ⟨5, 1, some F⟩).obj.map (·.rv))
      = some 6 := by decide

/-- A refused JSON-patch (422, also an injected one) is the last request of the call and returns
    ALL the fns as the remaining patch — also those of an already accepted body JSON-patch. -/
theorem conflict_keeps_all_fns (sub : Bool) (p : Patch) (orig : Obj) (env : Env) (s : Server)
    (r : Req) (hr : r ∈ (patchObj sub p orig env s).reqs) (hj : r.kind.isJson = true) (hc : r.code = 422) :
    (patchObj sub p orig env s).reqs.getLast? = some r ∧
    ∃ b, (patchObj sub p orig env s).outcome = .ok (some p.fns) b := by
  unfold patchObj at hr ⊢
  obtain ⟨hl, st, hm⟩ := good_stop_last (good_patch sub p orig env s) p r hr (by rw [hc]; decide)
  refine ⟨hl, st.fresh, ?_⟩
  rw [hm]
  have : stopOf r = .conflict := by simp [stopOf, hc, hj]
  rw [this]
  rfl

/-- …and a remaining patch is returned only then. -/
theorem remaining_only_after_refusal (sub : Bool) (p : Patch) (orig : Obj) (env : Env) (s : Server)
    (f : List Fn) (b : Option Obj) (h : (patchObj sub p orig env s).outcome = .ok (some f) b) :
    f = p.fns ∧ ∃ r, (patchObj sub p orig env s).reqs.getLast? = some r ∧ r.kind.isJson = true ∧ r.code ≠ 200 ∧ r.code ≠ 404 := by
  unfold patchObj at h ⊢
  rcases good_inv (good_patch sub p orig env s) with ⟨st, e, _⟩ | ⟨st, pre, r, e, h1, _, h3⟩
  · rw [e] at h; simp [finish] at h
  · rw [e] at h ⊢
    have hreq : (finish p (.error (st, stopOf r))).reqs = st.reqs := (finish_reqs p _).1
    rw [hreq, h1]
    unfold stopOf at h
    by_cases h404 : r.code = 404
    · simp [h404, finish] at h
    · by_cases hj : r.kind.isJson = true
      · simp only [h404, hj, if_false, if_true, finish, Outcome.ok.injEq, Option.some.injEq] at h
        exact ⟨h.1.symm, r, by simp, hj, h3, h404⟩
      · simp [h404, hj, finish] at h

/-! ## idempotence, carry-forward -/

theorem block_idem (f : String) (l : List String) : blockDeletion f (blockDeletion f l) = blockDeletion f l := by
  have h : f ∈ blockDeletion f l := (mem_block f f l).2 (Or.inl rfl)
  generalize blockDeletion f l = l' at h ⊢
  unfold blockDeletion
  rw [if_pos h]

theorem allow_idem (f : String) (l : List String) : allowDeletion f (allowDeletion f l) = allowDeletion f l := by
  unfold allowDeletion
  rw [List.filter_filter]
  congr 1
  funext x
  simp

/-- Block/allow touch nothing but their own finalizer: the others keep their place and order. -/
theorem foreign_finalizers_untouched (f : String) (l : List String) :
    (blockDeletion f l).filter (fun x => x != f) = l.filter (fun x => x != f) ∧
    (allowDeletion f l).filter (fun x => x != f) = l.filter (fun x => x != f) := by
  constructor
  · unfold blockDeletion
    split
    · rfl
    · simp [List.filter_append]
  · unfold allowDeletion
    rw [List.filter_filter]
    congr 1
    funext x
    simp

/-- What is carried: after a call that returned a remaining patch, `process_resource_event` keeps
    exactly the handler-supplied fns of it, in order (the framework's own finalizer edits are dropped:
    they are decided anew in every cycle), `_daemon/_timer` keep all of it. -/
theorem carried_after_conflict (sub : Bool) (mem : Option (List Fn)) (fields : Kvs) (fns : List Fn)
    (orig : Obj) (env : Env) (s : Server) (rem : Option (List Fn)) (b : Option Obj)
    (hne : (nextPatch mem fields fns).isEmpty = false)
    (hout : (patchObj sub (nextPatch mem fields fns) orig env s).outcome = .ok rem b) :
    (cycle sub mem fields fns orig env s).2 = carried rem ∧
    (daemonCycle sub mem fields fns orig env s).2 = rem ∧
    (∀ l, carried rem = some l → l ≠ [] ∧ ∀ f, f ∈ l ↔ (∃ r, rem = some r ∧ f ∈ r) ∧ f.isFramework = false) := by
  refine ⟨?_, ?_, ?_⟩
  · simp [cycle, cycleOf, hne, hout, memoryAfter]
  · simp [daemonCycle, cycleOf, hne, hout, memoryAfter]
  · intro l hl
    cases rem with
    | none => simp [carried] at hl
    | some r =>
      simp only [carried] at hl
      split at hl
      · cases hl
      · rename_i hne'
        cases hl
        refine ⟨by intro e; rw [e] at hne'; simp at hne', ?_⟩
        intro f
        simp [List.mem_filter]

/-- The framework's own finalizer edits never stay in the memory of `process_resource_event`,
    whatever happened to the call (conflict, 404, exception, success). -/
theorem framework_fns_not_carried (sub : Bool) (mem : Option (List Fn)) (fields : Kvs) (fns : List Fn)
    (orig : Obj) (env : Env) (s : Server)
    (hmem : ∀ l, mem = some l → ∀ f ∈ l, f.isFramework = false) :
    ∀ l, (cycle sub mem fields fns orig env s).2 = some l → ∀ f ∈ l, f.isFramework = false := by
  intro l hl f hf
  unfold cycle cycleOf at hl
  simp only at hl
  split at hl
  · cases hl
  · unfold memoryAfter at hl
    split at hl
    · rename_i rem _ _
      simp only [Bool.false_eq_true, if_false] at hl
      cases rem with
      | none => simp [carried] at hl
      | some r =>
        simp only [carried] at hl
        split at hl
        · cases hl
        · cases hl
          simp [List.mem_filter] at hf
          exact hf.2
    · cases hl
    · exact hmem l hl f hf

/-- The carry-forward cycle. The carried (handler-supplied) fns `mem`, fed into the next cycle's patch
    (`Patch(memory.remaining_patch, body=fresh body)`) together with whatever this cycle queues itself
    (`newfns`: the framework's finalizer decision on the fresh state), nobody interfering: afterwards the
    object holds exactly ONE application of these fns to the then-fresh finalizer list (or has been
    released by it), and nothing remains in the memory — not lost, not carried any further. -/
theorem carry_forward (sub : Bool) (mem : Option (List Fn)) (newfns : List Fn) (o : Obj) (s : Server)
    (ho : s.obj = some o) :
    (cycle sub mem [] newfns o Env.quiet s).2 = none ∧
    ((∃ o', (cycle sub mem [] newfns o Env.quiet s).1.server.obj = some o' ∧ o'.uid = o.uid ∧
        o'.fins = (applyFns (mem.getD [] ++ newfns) o).fins) ∨
     ((cycle sub mem [] newfns o Env.quiet s).1.server.obj = none ∧ o.marked = true ∧
        (applyFns (mem.getD [] ++ newfns) o).fins = [])) := by
  generalize hfns : mem.getD [] ++ newfns = fns
  cases fns with
  | nil =>
    have e : cycle sub mem [] newfns o Env.quiet s = (⟨[], s, .ok none none⟩, none) := by
      simp [cycle, cycleOf, nextPatch, Patch.isEmpty, hfns]
    rw [e]
    exact ⟨rfl, Or.inl ⟨o, ho, rfl, rfl⟩⟩
  | cons f fs =>
    have e : cycle sub mem [] newfns o Env.quiet s =
        (patchObj sub ⟨[], f :: fs⟩ o Env.quiet s,
         memoryAfter false mem (patchObj sub ⟨[], f :: fs⟩ o Env.quiet s).outcome) := by
      simp [cycle, cycleOf, nextPatch, Patch.isEmpty, hfns]
    rw [e]
    obtain ⟨hh, hout⟩ := quiet_fns_cycle sub (f :: fs) o s ho
    unfold patchObj
    constructor
    · rcases hout with ⟨st, e'⟩ | ⟨st, e'⟩ <;> rw [e'] <;> rfl
    · rw [(finish_reqs _ _).2]
      rcases hh with ⟨x, hx, hu, _, hfx⟩ | ⟨hn, hm, hl⟩
      · exact Or.inl ⟨x, hx, hu, hfx⟩
      · exact Or.inr ⟨hn, hm, hl⟩

-- non-vacuity: the server holds an object (with a foreign finalizer); a handler's finalizer edit is
-- carried and applied once, next to the framework's fresh decision
example : (⟨7, 1, some ⟨1, 7, false, ["other"], []⟩⟩ : Server).obj = some ⟨1, 7, false, ["other"], []⟩ := rfl
example : ((cycle true (some [.userFin true "u"]) [] [.block "kopf"] ⟨1, 7, false, ["other"], []⟩ Env.quiet
    ⟨7, 1, some ⟨1, 7, false, ["other"], []⟩⟩).1.server.obj.map (·.fins)) = some ["other", "u", "kopf"] := by decide

/-- The framework's finalizer edit after a conflict is RE-DECIDED, not re-applied. Relative to any
    decision function `decide` (C06's decision block: the framework fns it queues for a body): whatever
    happens to the cycle that queued `decide o₁` — a conflict included — nothing of it stays in the
    memory; and the next cycle, evaluated on the fresh object `o`, leaves exactly ONE application of
    `decide o` (the decision on the FRESH state) on the then-fresh finalizer list: the outdated decision
    is neither written later nor lost, the current one is applied once. -/
theorem finalizer_redecided (decide : Obj → List Fn) (hd : ∀ b, ∀ f ∈ decide b, f.isFramework = true)
    (sub : Bool) (fields : Kvs) (o₁ : Obj) (env : Env) (s₁ : Server) (o : Obj) (s : Server) (ho : s.obj = some o) :
    (cycle sub none fields (decide o₁) o₁ env s₁).2 = none ∧
    (cycle sub none [] (decide o) o Env.quiet s).2 = none ∧
    ((∃ o', (cycle sub none [] (decide o) o Env.quiet s).1.server.obj = some o' ∧ o'.uid = o.uid ∧
        o'.fins = (applyFns (decide o) o).fins) ∨
     ((cycle sub none [] (decide o) o Env.quiet s).1.server.obj = none ∧ o.marked = true ∧
        (applyFns (decide o) o).fins = [])) := by
  refine ⟨?_, ?_⟩
  · cases hc : (cycle sub none fields (decide o₁) o₁ env s₁).2 with
    | none => rfl
    | some l =>
      exfalso
      unfold cycle cycleOf at hc
      simp only at hc
      split at hc
      · cases hc
      · unfold memoryAfter at hc
        split at hc
        · rename_i rem b hout
          simp only [Bool.false_eq_true, if_false] at hc
          -- a remaining patch holds the call's fns, all of them the framework's: nothing is carried
          cases rem with
          | none => simp [carried] at hc
          | some r =>
            have hr := (remaining_only_after_refusal sub _ o₁ env s₁ r b hout).1
            simp only [nextPatch, Option.getD_none, List.nil_append] at hr
            simp only [carried] at hc
            split at hc
            · cases hc
            · rename_i hne
              apply hne
              rw [hr]
              simp only [List.isEmpty_iff, List.filter_eq_nil_iff]
              intro f hf
              simp [hd o₁ f hf]
        · cases hc
        · cases hc
  · simpa using carry_forward sub none (decide o) o s ho

/-- With nothing remaining and nothing new the next cycle sends nothing: the effect is not repeated. -/
theorem carry_forward_not_repeated (sub : Bool) (orig : Obj) (env : Env) (s : Server) :
    cycle sub none [] [] orig env s = (⟨[], s, .ok none none⟩, none) ∧
    daemonCycle sub none [] [] orig env s = (⟨[], s, .ok none none⟩, none) := by
  simp [cycle, daemonCycle, cycleOf, nextPatch, Patch.isEmpty]

/-- The conflict may also hit AFTER the body JSON-patch was accepted (on the status JSON-patch): then
    the carried fns (the handler-supplied ones in `process_resource_event`, all of them in daemons and
    timers) are applied again in the next cycle. For the finalizer list this re-application is harmless:
    membership after applying the fns twice is membership after applying them once… -/
theorem reapply_membership (fns : List Fn) (o : Obj) (x : String) :
    x ∈ (applyFns fns (applyFns fns o)).fins ↔ x ∈ (applyFns fns o).fins := by
  rw [mem_applyFns x fns (applyFns fns o), mem_applyFns x fns o]
  cases lastOp x fns <;> simp

/-- …but the ORDER may change when one list mixes a remove-and-re-add with another addition
    (order-level idempotence holds for each single function, `block_idem`/`allow_idem`, which is
    all that kopf itself ever queues). -/
theorem reapply_order_witness :
    ∃ (fns : List Fn) (o : Obj),
      (applyFns fns (applyFns fns o)).fins ≠ (applyFns fns o).fins := by
  refine ⟨[.userFin false "f", .userFin true "f", .userFin true "g"], ⟨1, 1, false, [], []⟩, ?_⟩
  decide

/-! ## a vanished object ends the patching silently -/

/-- A 404 — the object is gone, or was deleted by a foreign write right before the request, or the
    response was injected — is the last request of the call, and the call returns `(None, None)`:
    no exception, no remaining patch, nothing further is sent. -/
theorem silent_404 (sub : Bool) (p : Patch) (orig : Obj) (env : Env) (s : Server)
    (r : Req) (hr : r ∈ (patchObj sub p orig env s).reqs) (hc : r.code = 404) :
    (patchObj sub p orig env s).reqs.getLast? = some r ∧ (patchObj sub p orig env s).outcome = .gone := by
  unfold patchObj at hr ⊢
  obtain ⟨hl, st, hm⟩ := good_stop_last (good_patch sub p orig env s) p r hr (by rw [hc]; decide)
  refine ⟨hl, ?_⟩
  rw [hm]
  have : stopOf r = .gone := by simp [stopOf, hc]
  rw [this]
  rfl

/-- The only way out by exception is a 422 on a merge-patch. -/
theorem raised_only_on_merge_422 (sub : Bool) (p : Patch) (orig : Obj) (env : Env) (s : Server)
    (h : (patchObj sub p orig env s).outcome = .raised) :
    ∃ r, (patchObj sub p orig env s).reqs.getLast? = some r ∧ r.kind.isJson = false ∧ r.code ≠ 200 ∧ r.code ≠ 404 := by
  unfold patchObj at h ⊢
  rcases good_inv (good_patch sub p orig env s) with ⟨st, e, _⟩ | ⟨st, pre, r, e, h1, _, h3⟩
  · rw [e] at h; simp [finish] at h
  · rw [e] at h ⊢
    have hreq : (finish p (.error (st, stopOf r))).reqs = st.reqs := (finish_reqs p _).1
    rw [hreq, h1]
    unfold stopOf at h
    by_cases h404 : r.code = 404
    · simp [h404, finish] at h
    · by_cases hj : r.kind.isJson = true
      · simp [h404, hj, finish] at h
      · exact ⟨r, by simp, by simpa using hj, h3, h404⟩

/-! ## same object -/

/-
  FULL STATEMENT (false of the code, see `name_reuse_witness`):
    theorem same_object : ∀ sub p orig env s, (∀ o, s.obj = some o → o.uid = orig.uid) →
      ∀ r ∈ (patchObj sub p orig env s).reqs, ∀ u, r.target = some u → u = orig.uid
  "no request lands on an object whose uid differs from the one the patch was computed for".
  Requests are addressed by namespace/name only, so the statement needs the guard below.
-/

/-- No request lands on another object — PROVIDED nobody recreates the object under the same name
    during the call (any other foreign write is allowed: edits, finalizer edits, deletion). -/
theorem same_object_partial (sub : Bool) (p : Patch) (orig : Obj) (env : Env) (s : Server)
    (h0 : ∀ o, s.obj = some o → o.uid = orig.uid)
    (hw : ∀ k b, env.slips k ≠ some (.recreate b)) :
    ∀ r ∈ (patchObj sub p orig env s).reqs, ∀ u, r.target = some u → u = orig.uid := by
  intro r hr u hu
  unfold patchObj at hr
  rw [(finish_reqs p _).1] at hr
  have h : TargetsOk orig.uid (stageMerge sub p env ⟨s, [], none⟩ >>= stageJson sub p orig env).final := by
    apply final_inv (TargetsOk orig.uid)
    · exact stageMerge_targets orig.uid sub p env _ hw ⟨h0, by intro r hr; cases hr⟩
    · intro st hst; exact stageJson_targets orig.uid sub p orig env st hw hst
  exact h.2 r hr u hu

-- non-vacuity: an environment with foreign edits and a deletion but no recreation
example : ∀ k b, ({ slips := fun k => if k = .jsonBody then some .delete else some (.edit []), faults := fun _ => .none } : Env).slips k
    ≠ some (.recreate b) := by
  intro k b; cases k <;> simp

/-- The negation of the full statement: the object is deleted and recreated under the same name
    right before the status merge-patch of a cycle computed for uid 1. The status lands on uid 2 — and
    so does the finalizer JSON-patch, because it is tested against the version the NEW object's
    response reported. Defect F2, replayed on the real code by the check. -/
theorem name_reuse_witness :
    ∃ (sub : Bool) (p : Patch) (orig : Obj) (env : Env) (s : Server),
      s.obj = some orig ∧
      ∃ r1 ∈ (patchObj sub p orig env s).reqs, ∃ r2 ∈ (patchObj sub p orig env s).reqs,
        r1.kind = .mergeStatus ∧ r1.code = 200 ∧ r1.target = some 2 ∧
        r2.kind = .jsonBody ∧ r2.code = 200 ∧ r2.target = some 2 ∧ orig.uid = 1 :=
  ⟨true, ⟨[("metadata", obj [("annotations", obj [("progress", str "done")])]), ("status", obj [("result", num 1)])],
          [.block "kopf"]⟩,
   ⟨1, 5, false, [], [("spec", obj [("x", num 0)])]⟩,
   { slips := fun k => if k = .mergeStatus then some (.recreate [("spec", obj [("x", num 1)])]) else none,
     faults := fun _ => .none },
   ⟨5, 1, some ⟨1, 5, false, [], [("spec", obj [("x", num 0)])]⟩⟩,
   rfl, by decide⟩

end Kopf.C08
