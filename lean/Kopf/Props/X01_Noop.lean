/-
  X01 — what a PATCH that changes nothing on the server does in the composed system (GLUE 2: a stale view whose change was written
  before; GLUE 7: the constant patch of an on.event handler on a stale view): no version, no echo, no own write logged, and the
  worker is handed the version the server HOLDS (on which C07's `feedback` arms if it is not the event's). Theorems only.
-/
import Kopf.Props.X01
namespace Kopf.X01
open Kopf
variable {E : Type} [DecidableEq E]

theorem turn_echo_eq (env : C03.Env) (r : RState E) (ev : Ev E) (rest : List (Ev E)) :
    (turn env r ev rest).echo = ((turn env r ev rest).sv'.pending && !(turn env r ev rest).noop) ∧
    (turn env r ev rest).wrote = ((turn env r ev rest).echo || (turn env r ev rest).released) := ⟨rfl, rfl⟩

/-- **noop_makes_no_version.** An iteration whose write changes nothing on the server (`Turn.noop`: either kind) and that does not
    release the object makes no version, queues no echo, logs no own write, and hands the worker the version the server holds. -/
theorem noop_makes_no_version (T : Int) (env : C03.Env) (d : Nat) (r : RState E) (ev : Ev E) (rest : List (Ev E))
    (hq : r.queue = ev :: rest) (hn : (turn env r ev rest).noop = true) (hrel : (turn env r ev rest).released = false) :
    (work T env d r).rv = r.rv ∧ (work T env d r).queue = rest ∧ (work T env d r).owns = r.owns ∧
    patchedOf r.rv (turn env r ev rest) = some ⟨r.rv, false⟩ := by
  obtain ⟨he, hw⟩ := turn_echo_eq env r ev rest
  have hecho : (turn env r ev rest).echo = false := by rw [he, hn]; simp
  have hwrote : (turn env r ev rest).wrote = false := by rw [hw, hecho, hrel]; rfl
  have hwk : work T env d r = work T env d { r with queue := ev :: rest } := by
    have : r = { r with queue := ev :: rest } := by cases r; simp_all
    rw [← this]
  refine ⟨?_, ?_, ?_, ?_⟩
  · rw [hwk]; show (if (turn env r ev rest).wrote then r.rv + 1 else r.rv) = r.rv; rw [hwrote]; rfl
  · rw [hwk]; show (if (turn env r ev rest).echo then _ else rest) = rest; rw [hecho]; rfl
  · rw [hwk]; show (if (turn env r ev rest).wrote then _ else r.owns) = r.owns; rw [hwrote]; rfl
  · unfold patchedOf; rw [hwrote, hn]; rfl

end Kopf.X01
