/-
  C07 — change handlers never run on a view older than the operator's own last write.
  Property theorems only; all of them hold for EVERY list of worker steps (iterations with any event
  versions, arrival times, pressure, wake-ups, patch states, and idle retirements of the worker).

  Reading of a run: `pre ++ .event k :: (mid ++ .event i :: post)` from the initial configuration;
  iteration `k` returned the patched version `p` (applied by the server at `k.tp`), no step of `mid`
  patched, so `(p, k.tp)` is the last own patch when iteration `i` is processed. `mid` holds the
  foreign events (any number of them), possibly with retirements of the idle worker in between.
  `mid` may also hold `.background` steps (PATCHes by the object's daemon/timer tasks): they hand no
  version to the worker. The FULL property clause — the same conclusion for EVERY framework patch,
  including those background ones — is FALSE of the mechanism: see `barrier_background_witness` (finding
  C07-F1). The theorems named `…_partial` prove it under the exact guard "the PATCH was issued by the
  object's worker, i.e. its version is what the processor returned" (`k.patched = some p`).
  `wf` = the clock does not run backwards, a PATCH is applied after its iteration began and before the
  processor returns, and a worker retires only after its idle wait `max(idle_timeout, consistency_time - now)` has timed out.
-/
import Kopf.Lemmas.C07_Barrier
import Kopf.Lemmas.C07_Reached
namespace Kopf.C07

/-- **The barrier.** If change handlers run in iteration `i` (at time `t`), then the version of the
    last own patch has been dequeued by the worker — in `mid` or as `i`'s own event, i.e. after that
    patch; or it is the version of `k`'s own event, which is the case exactly when the PATCH changed
    nothing on the server (fix 460c956: nothing is awaited then, the view at hand IS the patched one) —
    or the consistency timeout has elapsed since the server applied the patch. -/
theorem barrier_partial (T idle : Int) (pre mid post : List Step) (k i : Iter) (p : Ver) (t : Int)
    (hwf : wf T idle Cfg.init (pre ++ .event k :: (mid ++ .event i :: post)) = true)
    (hk : k.patched = some p)
    (hmid : ∀ st ∈ mid, st.patched = none)
    (hran : (outcomeAt T (exec T Cfg.init (pre ++ .event k :: mid)) i).handlers = some t) :
    some p ∈ k.ver :: (mid.map Step.ver ++ [i.ver]) ∨ k.tp + T ≤ t := by
  obtain ⟨_, hokk, hrest⟩ := wf_split hwf
  obtain ⟨hwfmid, hoki, _⟩ := wf_split hrest
  have h0 : Cover T (next T (exec T Cfg.init pre) (.event k)) p k.tp (k.ver = some p) := cover_after_patch hokk hk
  have h1 := cover_exec mid _ _ h0 hwfmid hmid
  have hcfg : exec T Cfg.init (pre ++ .event k :: mid) = exec T (next T (exec T Cfg.init pre) (.event k)) mid := by
    rw [exec_append, exec_cons]
  rw [hcfg] at hran
  have hclk := (okStep_event hoki).1
  rcases cover_handlers h1 hclk hran with (hf | hs) | hv | ht
  · left; rw [hf]; exact List.mem_cons_self ..
  · left; exact List.mem_cons_of_mem _ (List.mem_append_left _ hs)
  · left; exact List.mem_cons_of_mem _ (List.mem_append_right _ (by simp [hv]))
  · exact Or.inr ht

-- "Regardless of how many foreign events arrive in between": `mid` is universally quantified above, no
-- counter appears anywhere in the model. Spelled out for a given length (a corollary, not a separate theorem):
example (n : Nat) (T idle : Int) (pre mid post : List Step) (k i : Iter) (p : Ver) (t : Int) (_hn : mid.length = n)
    (hwf : wf T idle Cfg.init (pre ++ .event k :: (mid ++ .event i :: post)) = true)
    (hk : k.patched = some p) (hmid : ∀ st ∈ mid, st.patched = none)
    (hran : (outcomeAt T (exec T Cfg.init (pre ++ .event k :: mid)) i).handlers = some t) :
    some p ∈ k.ver :: (mid.map Step.ver ++ [i.ver]) ∨ k.tp + T ≤ t :=
  barrier_partial T idle pre mid post k i p t hwf hk hmid hran

/-- **The full clause is false: background patches are not guarded** (finding C07-F1). A timer's (or a
    daemon's) task PATCHes the object at `tq = 100` and gets version 106; one tick later the worker
    dequeues an older view (105, delivered late) with nothing expected, and change handlers run on it
    at once: 106 was never dequeued, and only 1 of `T = 320` ticks has passed since that patch. -/
theorem barrier_background_witness :
    ∃ (T idle : Int) (mid : List Step) (i : Iter) (q v : Ver) (tq t : Int),
      wf T idle Cfg.init (.background q tq :: (mid ++ [.event i])) = true ∧
      (outcomeAt T (exec T Cfg.init (.background q tq :: mid)) i).handlers = some t ∧
      i.ver = some v ∧ v.n < q.n ∧                        -- the view is older than the framework's patch
      some q ∉ mid.map Step.ver ++ [i.ver] ∧              -- whose version has not come back
      ¬ (tq + T ≤ t) :=                                   -- and the timeout has not elapsed
  ⟨320, 320, [], { ver := some ⟨105, false⟩, now := 101, dur := 0, pressure := false, wake := none, lag := 0,
                    gone := false, required := true, patchMid := true, patched := none,
                    tp := 101, tret := 101 },
   ⟨106, false⟩, ⟨105, false⟩, 100, 101, by decide, by decide, rfl, by decide, by decide, by decide⟩

/-- The same for EVERY earlier own patch, not only the last one: if iteration `k` patched (at `k.tp`)
    and change handlers run later in iteration `i`, then there is a last own patch `(q, j.tp)` made at
    or after `k`'s (`k.tp ≤ j.tp`) whose version was dequeued after it, or whose timeout — hence also
    `k`'s — has elapsed. (`mid` may now contain further patches.) -/
theorem barrier_every_patch_partial (T idle : Int) (pre mid post : List Step) (k i : Iter) (p : Ver) (t : Int)
    (hwf : wf T idle Cfg.init (pre ++ .event k :: (mid ++ .event i :: post)) = true)
    (hk : k.patched = some p)
    (hran : (outcomeAt T (exec T Cfg.init (pre ++ .event k :: mid)) i).handlers = some t) :
    ∃ (a : List Step) (j : Iter) (q : Ver) (b : List Step),
      pre ++ .event k :: mid = a ++ .event j :: b ∧ pre.length ≤ a.length ∧ j.patched = some q ∧
      (j = k ∧ q = p ∨ Step.event j ∈ mid) ∧ (∀ st ∈ b, st ∈ mid) ∧
      (∀ st ∈ b, st.patched = none) ∧ k.tp ≤ j.tp ∧
      (some q ∈ j.ver :: (b.map Step.ver ++ [i.ver]) ∨ j.tp + T ≤ t) := by
  rcases last_patch_split mid with hnone | ⟨a', x, q, b, hmid, hx, hb⟩
  · exact ⟨pre, k, p, mid, rfl, Nat.le_refl _, hk, Or.inl ⟨rfl, rfl⟩, fun _ h => h, hnone, Int.le_refl _,
      barrier_partial T idle pre mid post k i p t hwf hk hnone hran⟩
  · have hlist : pre ++ .event k :: mid = (pre ++ .event k :: a') ++ .event x :: b := by
      rw [hmid]; simp
    have hwf' : wf T idle Cfg.init ((pre ++ .event k :: a') ++ .event x :: (b ++ .event i :: post)) = true := by
      have : (pre ++ .event k :: a') ++ .event x :: (b ++ .event i :: post)
          = pre ++ .event k :: (mid ++ .event i :: post) := by rw [hmid]; simp
      rw [this]; exact hwf
    have hran' : (outcomeAt T (exec T Cfg.init ((pre ++ .event k :: a') ++ .event x :: b)) i).handlers = some t := by
      rw [← hlist]; exact hran
    have hb' := barrier_partial T idle (pre ++ .event k :: a') b post x i q t hwf' hx hb hran'
    -- k.tp ≤ k.tret = clock after k ≤ clock before x ≤ x.now ≤ x.tp
    have htp : k.tp ≤ x.tp := by
      have h1 : wf T idle Cfg.init (pre ++ .event k :: (a' ++ .event x :: (b ++ .event i :: post))) = true := by
        have : pre ++ .event k :: (a' ++ .event x :: (b ++ .event i :: post))
            = pre ++ .event k :: (mid ++ .event i :: post) := by rw [hmid]; simp
        rw [this]; exact hwf
      obtain ⟨_, hokk, hrest⟩ := wf_split h1
      obtain ⟨hwfa, hokx, _⟩ := wf_split hrest
      have hk' := okStep_event hokk
      have hx' := okStep_event hokx
      have hm : k.tret ≤ (exec T (next T (exec T Cfg.init pre) (.event k)) a').clock :=
        clock_mono_exec (T := T) (idle := idle) a' _ hwfa
      omega
    refine ⟨pre ++ .event k :: a', x, q, b, hlist, ?_, hx, Or.inr (by rw [hmid]; simp),
      (fun st hst => by rw [hmid]; exact List.mem_append_right _ (List.mem_cons_of_mem _ hst)), hb, htp, hb'⟩
    simp only [List.length_append, List.length_cons]; omega

/-- With the per-object order of the watch stream (versions dequeued earlier are not newer than the
    one dequeued now — C01/C19), "the patched version was dequeued" means the view is not older than
    the patch. -/
theorem barrier_view_partial (T idle : Int) (pre mid post : List Step) (k i : Iter) (p v : Ver) (t : Int)
    (hwf : wf T idle Cfg.init (pre ++ .event k :: (mid ++ .event i :: post)) = true)
    (hk : k.patched = some p)
    (hmid : ∀ st ∈ mid, st.patched = none)
    (hv : i.ver = some v)
    (hordk : ∀ u, k.ver = some u → u.n ≤ v.n)
    (hord : ∀ st ∈ mid, ∀ u, st.ver = some u → u.n ≤ v.n)
    (hran : (outcomeAt T (exec T Cfg.init (pre ++ .event k :: mid)) i).handlers = some t) :
    p.n ≤ v.n ∨ k.tp + T ≤ t := by
  rcases barrier_partial T idle pre mid post k i p t hwf hk hmid hran with h | h
  · left
    rcases List.mem_cons.mp h with h | h
    · exact hordk p h.symm
    · rcases List.mem_append.mp h with h | h
      · obtain ⟨st, hst, hver⟩ := List.mem_map.mp h
        exact hord st hst p hver
      · simp only [List.mem_singleton] at h
        rw [hv] at h
        cases h
        exact Nat.le_refl _
  · exact Or.inr h

/-- … and for EVERY earlier worker patch, also when later iterations patched again — including later
    no-op patches, which `barrier_every_patch_partial` alone lets "discharge" an earlier real one through
    their own event's version. With the order of the stream (`hordk`, `hord`: nothing dequeued before is
    newer than the view `v` at hand) and of the server's answers (`hmono`: a later PATCH of the worker is
    answered with a version not below an earlier answer — a no-op is answered with the CURRENT version),
    the view at hand is not older than `k`'s patch, or `k`'s timeout has elapsed. -/
theorem barrier_every_patch_view_partial (T idle : Int) (pre mid post : List Step) (k i : Iter) (p v : Ver) (t : Int)
    (hwf : wf T idle Cfg.init (pre ++ .event k :: (mid ++ .event i :: post)) = true)
    (hk : k.patched = some p)
    (hv : i.ver = some v)
    (hordk : ∀ u, k.ver = some u → u.n ≤ v.n)
    (hord : ∀ st ∈ mid, ∀ u, st.ver = some u → u.n ≤ v.n)
    (hmono : ∀ st ∈ mid, ∀ q, st.patched = some q → p.n ≤ q.n)
    (hran : (outcomeAt T (exec T Cfg.init (pre ++ .event k :: mid)) i).handlers = some t) :
    p.n ≤ v.n ∨ k.tp + T ≤ t := by
  obtain ⟨a, j, q, b, _, _, hj, hwho, hbmid, _, htp, hconc⟩ :=
    barrier_every_patch_partial T idle pre mid post k i p t hwf hk hran
  rcases hconc with hmem | ht
  · left
    have hpq : p.n ≤ q.n := by
      rcases hwho with ⟨_, hqp⟩ | hjm
      · rw [hqp]; exact Nat.le_refl _
      · exact hmono _ hjm q hj
    have hqv : q.n ≤ v.n := by
      rcases List.mem_cons.mp hmem with h | h
      · rcases hwho with ⟨hjk, _⟩ | hjm
        · rw [hjk] at h; exact hordk q h.symm
        · exact hord _ hjm q h.symm
      · rcases List.mem_append.mp h with h | h
        · obtain ⟨st, hst, hver⟩ := List.mem_map.mp h
          exact hord st (hbmid st hst) q hver
        · simp only [List.mem_singleton] at h
          rw [hv] at h; cases h; exact Nat.le_refl _
    exact Nat.le_trans hpq hqv
  · right; omega

-- "Raw-event handlers, indexing, daemons and timers are not delayed by this barrier." In the model this is a
-- STRUCTURAL fact — `stepStage` reads `consistency_time` only in the barrier stage, which comes after the
-- low-level stages in `kopfOrder` (`Lemmas: stages_before_barrier_independent`, and its failure for a
-- sleep-first order, `barrier_first_delays_witness`); it says that the model has this order, not that the
-- code has. That the CODE has it is evidence of the S-tie (when the index and on.event handlers really
-- started, per iteration) and of the oracle (raw handlers/indexers at the dequeue instant also in held-back
-- iterations, timers on schedule during barrier sleeps, daemons spawned in the first iteration). What the
-- theorem below adds over the structure: the sleep begins only after them, and a wake-up ends it at once.

/-- **Not delayed (kopf's order,** `kopfOrder = [indexing, watching, spawning] ++ barrier :: [changing]`**):**
    indexing and the raw-event handlers start when the event is dequeued, daemons/timers are spawned as
    soon as the raw-event handlers are done (`dur` is what those handlers themselves take), for every
    `consistency_time`; the barrier sleep, if any, begins only then; and a further arrival (or the exiting
    watcher) before the deadline ends the sleep at that moment, so that the next event's low-level stages
    are not held up either. -/
theorem not_delayed_kopf (dl : Option Int) (it : Iter) :
    (process dl it).low = [(Stage.indexing, it.now), (Stage.watching, it.now), (Stage.spawning, it.now + it.dur)]
    ∧ (∀ s, (process dl it).slept = some s → it.now + it.dur ≤ s.tEnd)
    ∧ (∀ d s (w : Nat), dl = some d → (process dl it).slept = some s → it.wake = some w → it.now + it.dur + w < d →
          s.timedOut = false ∧ s.tEnd ≤ it.now + it.dur + w) := by
  refine ⟨process_low dl it, ?_, ?_⟩
  · intro s hs
    rw [process_closed] at hs
    cases dl with
    | none => simp [processClosed] at hs
    | some d =>
      unfold processClosed at hs
      simp only at hs
      split at hs
      · cases hs; exact sleepUntil_ge_now _ _ _ _ _
      · cases hs
  · intro d s w hd hs hw hlt
    subst hd
    rw [process_closed] at hs
    unfold processClosed at hs
    simp only at hs
    split at hs
    · cases hs; rw [hw]; exact sleepUntil_woken hlt
    · cases hs

/-- **An interrupted sleep is never consistency.** Whatever ends the barrier sleep before its
    deadline — a new event, or the pressure raised by the exiting watcher together with its
    end-of-stream marker — the iteration returns early: not achieved, held back, no change handler. -/
theorem interrupted_never_achieved (dl : Option Int) (it : Iter) (s : Slept)
    (hs : (process dl it).slept = some s) (hw : s.timedOut = false) :
    (process dl it).achieved = false ∧ (process dl it).held = true ∧
      (process dl it).entered = none ∧ (process dl it).handlers = none := by
  rw [process_closed] at hs ⊢
  cases dl with
  | none => simp [processClosed] at hs
  | some d =>
    unfold processClosed at hs ⊢
    cases hr : it.required <;> cases hg : it.gone <;> cases hm : it.patchMid <;> cases hi : it.patchInit <;>
      cases hz : it.paused <;>
      by_cases hd : d = 0 <;> by_cases hp : d ≤ it.now + (it.dur : Int) <;> simp [hr, hg, hm, hi, hz, hd, hp] at hs ⊢
    all_goals (rw [hs]; simp [hw])

/-- **Released at the deadline** (fix 5dff3c1). Once the waiting time is over — the barrier is reached at or
    after `consistency_time` — and no patch was pending at the entry, the changing stage is entered at
    once: no sleep, whatever has been accumulated in the patch meanwhile (`patchMid`), whatever the
    pressure. (`d ≠ 0`: a `consistency_time` of exactly 0.0 is falsy in the code and never releases.)
    Since fix 3cc60e3 only while the operator is NOT paused: see `paused_holds`. -/
theorem released_after_deadline (d : Int) (it : Iter)
    (hreq : it.required = true) (hinit : it.patchInit = true) (hd : d ≠ 0) (hpast : d ≤ it.now + it.dur)
    (hrun : it.paused = false) :
    (process (some d) it).slept = none ∧ (process (some d) it).held = false ∧
      (process (some d) it).entered = some (it.now + it.dur) := by
  rw [process_closed]
  unfold processClosed
  cases hg : it.gone <;> cases hm : it.patchMid <;> simp [hreq, hinit, hd, hpast, hg, hm, hrun]

/-- … lifted to runs: whatever the worker still expects after any (well-formed or not) history, an
    iteration that reaches the barrier at or after the deadline it is given, with no pending patch, is not
    held back. -/
theorem released_after_deadline_run (T : Int) (pre : List Step) (i : Iter) (d : Int)
    (hgiven : (outcomeAt T (exec T Cfg.init pre) i).given = some d)
    (hreq : i.required = true) (hinit : i.patchInit = true) (hd : d ≠ 0) (hpast : d ≤ i.now + i.dur)
    (hrun : i.paused = false) :
    (outcomeAt T (exec T Cfg.init pre) i).held = false ∧
      (outcomeAt T (exec T Cfg.init pre) i).entered = some (i.now + i.dur) := by
  have hdl : (arrive (exec T Cfg.init pre).s i.ver).deadline = some d := by
    have := process_given (arrive (exec T Cfg.init pre).s i.ver).deadline i
    show (arrive (exec T Cfg.init pre).s i.ver).deadline = some d
    rw [← this]; exact hgiven
  have ho : outcomeAt T (exec T Cfg.init pre) i = process (some d) i := by
    show process (arrive (exec T Cfg.init pre).s i.ver).deadline i = _
    rw [hdl]
  rw [ho]
  exact ⟨(released_after_deadline d i hreq hinit hd hpast hrun).2.1, (released_after_deadline d i hreq hinit hd hpast hrun).2.2⟩

/-- The barrier's verdict as it was BEFORE fix 5dff3c1: the deadline was noticed only as the outcome of a
    sleep, and the sleep was taken only with an empty patch. -/
def achievedPre5dff3c1 (d : Int) (it : Iter) : Bool :=
  (if it.required && !it.gone && it.patchMid && decide (d ≠ 0)
   then (sleepUntil d (it.now + it.dur) it.pressure it.wake it.lag).timedOut else it.gone) && it.patchInit

/-- **Regression witness.** An iteration that reaches the barrier at 500, long after its deadline 423, with a
    non-empty patch (an `on.event` handler's result): before the fix it was held back — and so was every
    later one, as long as the awaited version stayed away; now its handlers run at 500. -/
theorem deadline_with_patch_regression_witness :
    ∃ (it : Iter), it.patchMid = false ∧ it.now = 500 ∧
      achievedPre5dff3c1 423 it = false ∧ (process (some 423) it).handlers = some 500 :=
  ⟨{ ver := some ⟨107, false⟩, now := 500, dur := 0, pressure := false, wake := none, lag := 0, gone := false,
     required := true, patchMid := false, patched := some ⟨107, false⟩, tp := 502, tret := 503 },
   rfl, rfl, by decide, by decide⟩

/-- **Released by the timeout.** The dual of `interrupted_never_achieved`: a barrier sleep that ran into its
    deadline, with no patch pending at the entry and the operator not paused when the sleep ends, is followed
    by the changing stage at once (at the moment the sleep ended). -/
theorem released_by_timeout (dl : Option Int) (it : Iter) (s : Slept)
    (hs : (process dl it).slept = some s) (hto : s.timedOut = true)
    (hreq : it.required = true) (hinit : it.patchInit = true) (hrun : it.paused = false) :
    (process dl it).held = false ∧ (process dl it).entered = some s.tEnd := by
  rw [process_closed] at hs ⊢
  cases dl with
  | none => simp [processClosed] at hs
  | some d =>
    unfold processClosed at hs ⊢
    cases hg : it.gone <;> cases hm : it.patchMid <;>
      by_cases hd : d = 0 <;> by_cases hp : d ≤ it.now + (it.dur : Int) <;> simp [hreq, hinit, hrun, hg, hm, hd, hp] at hs ⊢
    all_goals (rw [hs]; simp [hto])

/-- **Never faked while paused** (fix 3cc60e3). While the worker expects a version (`consistency_time` is not
    None — whatever its value, 0.0 included) and the operator is paused when the consistency block is left,
    an iteration with a changing cause is held back: no release at or after the deadline, none by a
    timed-out sleep, none for a GONE cause; the low-level stages are what they always are. The watch
    streams of a paused operator are closed: the awaited version cannot arrive, the timeout proves nothing. -/
theorem paused_holds (d : Int) (it : Iter) (hreq : it.required = true) (hp : it.paused = true) :
    (process (some d) it).achieved = false ∧ (process (some d) it).held = true ∧
      (process (some d) it).entered = none ∧ (process (some d) it).handlers = none ∧
      (process (some d) it).low = [(Stage.indexing, it.now), (Stage.watching, it.now), (Stage.spawning, it.now + it.dur)] := by
  refine ⟨?_, ?_, ?_, ?_, process_low _ it⟩ <;>
  · rw [process_closed]
    unfold processClosed
    simp [hreq, hp]

/-- … lifted to runs: after ANY history, an iteration that is given a `consistency_time` (the worker still
    expects its own patch) while the operator is paused runs no change handler. -/
theorem paused_holds_run (T : Int) (pre : List Step) (i : Iter) (d : Int)
    (hgiven : (outcomeAt T (exec T Cfg.init pre) i).given = some d)
    (hreq : i.required = true) (hp : i.paused = true) :
    (outcomeAt T (exec T Cfg.init pre) i).held = true ∧ (outcomeAt T (exec T Cfg.init pre) i).handlers = none := by
  have hdl : (arrive (exec T Cfg.init pre).s i.ver).deadline = some d := by
    have := process_given (arrive (exec T Cfg.init pre).s i.ver).deadline i
    show (arrive (exec T Cfg.init pre).s i.ver).deadline = some d
    rw [← this]; exact hgiven
  have ho : outcomeAt T (exec T Cfg.init pre) i = process (some d) i := by
    show process (arrive (exec T Cfg.init pre).s i.ver).deadline i = _
    rw [hdl]
  rw [ho]
  exact ⟨(paused_holds d i hreq hp).2.1, (paused_holds d i hreq hp).2.2.2.1⟩

/-- The pause does not touch the VERDICT when nothing is awaited: with `consistency_time = None` the processor
    decides the same whether the operator is paused or not (events that are still queued when the operator gets
    paused are handled as always — not this barrier's business). Only the waiting delay of an iteration that a
    carried patch holds back is withheld while paused (`wait_only_when_held`). -/
theorem pause_ignored_when_nothing_expected (it : Iter) (b : Bool) :
    { process none { it with paused := b } with wait := (process none it).wait } = process none it := by
  rw [process_closed, process_closed]
  simp [processClosed, Iter.patchInit]

/-- **The awaited version releases, paused or not.** After ANY history — held-back iterations while paused
    included — the event that carries the version the worker expects (e.g. the object as the re-listing
    that follows the un-pausing shows it, when nobody has changed it meanwhile) resets the expectation:
    the processor is given `None`, and with no patch pending the changing stage is entered at once. -/
theorem awaited_version_releases (T : Int) (pre : List Step) (i : Iter) (e : Ver)
    (hexp : (exec T Cfg.init pre).s.expected = some e) (hv : i.ver = some e)
    (hreq : i.required = true) (hinit : i.patchInit = true) :
    (outcomeAt T (exec T Cfg.init pre) i).given = none ∧ (outcomeAt T (exec T Cfg.init pre) i).held = false ∧
      (outcomeAt T (exec T Cfg.init pre) i).entered = some (i.now + i.dur) := by
  have ha : arrive (exec T Cfg.init pre).s i.ver = WState.init := by
    unfold arrive; rw [hexp, hv]; simp
  have ho : outcomeAt T (exec T Cfg.init pre) i = process none i := by
    show process (arrive (exec T Cfg.init pre).s i.ver).deadline i = _
    rw [ha]; rfl
  rw [ho, process_closed]
  simp [processClosed, hreq, hinit]

/-- The barrier's verdict as it was BEFORE fix 3cc60e3: the pause was not looked at. -/
def achievedPre3cc60e3 (dl : Option Int) (it : Iter) : Bool :=
  (process dl { it with paused := false }).achieved

/-- **Regression witness.** The worker expects 106 until 423; the operator is paused (its streams are closed);
    a stale view 104 that was queued before sleeps from 110 to the deadline. Before the fix the timeout
    "proved" consistency and the change handlers ran at 423 on 104 < 106 — while paused, for a change that
    the awaited patch has already recorded as handled; now the event is dropped. -/
theorem paused_timeout_regression_witness :
    ∃ (k i : Iter) (p v : Ver), k.patched = some p ∧ i.ver = some v ∧ v.n < p.n ∧ i.paused = true ∧
      wf 320 320 Cfg.init [.event k, .event i] = true ∧
      (outcomeAt 320 (exec 320 Cfg.init [.event k]) i).slept = some ⟨423, true⟩ ∧
      achievedPre3cc60e3 (exec 320 Cfg.init [.event k]).s.deadline i = true ∧            -- before the fix
      (outcomeAt 320 (exec 320 Cfg.init [.event k]) i).held = true ∧                      -- after the fix
      (outcomeAt 320 (exec 320 Cfg.init [.event k]) i).handlers = none :=
  ⟨{ ver := some ⟨105, false⟩, now := 100, dur := 0, pressure := false, wake := none, lag := 0, gone := false,
     required := true, patchMid := true, patched := some ⟨106, false⟩, tp := 102, tret := 103 },
   { ver := some ⟨104, false⟩, now := 110, dur := 0, pressure := false, wake := none, lag := 0, gone := false,
     required := true, patchMid := true, patched := none, tp := 423, tret := 423, paused := true },
   ⟨106, false⟩, ⟨104, false⟩, rfl, rfl, by decide, rfl, by decide, by decide, by decide, by decide, by decide⟩

/-- **A held-back iteration comes back** (fix 30557a0 and the rework of 608a57d; the release side of "until … the
    consistency timeout has elapsed"; was the open finding C07-F2 = C03-N6, `held_for_good_regression_witness`
    below). EVERY iteration that returns early while the operator is not paused when the consistency block is left
    reports a waiting delay `w` to `application.apply`: while a version is awaited (`consistency_time = d`, any
    value) exactly what is left till the deadline at that moment, `left + w = max left d` (0 when the deadline is
    over); when nothing is awaited — then only a patch carried over from a 422 holds back — 0: "come back at once".
    Whatever the cause (GONE included), the patch (empty, accumulated by the low-level handlers, carried over), the
    pressure, a sleep that was taken and interrupted or none at all.
    "Followed" in this model means just that: the delay is RETURNED. What is done with it is `application.apply`'s
    (C03/C08): no sleep if the patch changed the object (its event will come), else a sleep till then — cut short
    by any new event — and a touch of the object (whose event will come); the view that arrives then is let
    through: `come_back_is_released(+_run)`. -/
theorem held_comes_back (dl : Option Int) (it : Iter)
    (hheld : (process dl it).held = true) (hrun : it.paused = false) :
    ∃ w, (process dl it).wait = some w ∧ 0 ≤ w ∧
      (∀ d, dl = some d → (process dl it).left + w = max (process dl it).left d) ∧ (dl = none → w = 0) := by
  cases dl with
  | none =>
    refine ⟨0, ?_, Int.le_refl _, ?_, fun _ => rfl⟩
    · rw [process_wait, hheld, hrun]; rfl
    · intro d hd; cases hd
  | some d =>
    refine ⟨max 0 (d - (process (some d) it).left), ?_, ?_, ?_, ?_⟩
    · rw [process_wait, hheld, hrun]; rfl
    · omega
    · intro d' hd; cases hd; omega
    · intro hd; cases hd

/-- … lifted to runs: after ANY history (well-formed or not), an iteration that is held back while the operator is
    not paused asks to be visited again: when the waiting time is over, or at once if nothing is awaited. -/
theorem held_comes_back_run (T : Int) (pre : List Step) (i : Iter)
    (hheld : (outcomeAt T (exec T Cfg.init pre) i).held = true) (hrun : i.paused = false) :
    ∃ w, (outcomeAt T (exec T Cfg.init pre) i).wait = some w ∧ 0 ≤ w ∧
      (∀ d, (outcomeAt T (exec T Cfg.init pre) i).given = some d →
        (outcomeAt T (exec T Cfg.init pre) i).left + w = max (outcomeAt T (exec T Cfg.init pre) i).left d) ∧
      ((outcomeAt T (exec T Cfg.init pre) i).given = none → w = 0) := by
  have hg : (outcomeAt T (exec T Cfg.init pre) i).given = (arrive (exec T Cfg.init pre).s i.ver).deadline :=
    process_given _ i
  rw [hg]
  exact held_comes_back (arrive (exec T Cfg.init pre).s i.ver).deadline i hheld hrun

/-- A waiting delay is reported by held-back iterations only, and never while the operator is paused (then nothing
    is to be written; the un-pausing brings a fresh listing). So the delays that `application.apply` gets from an
    iteration that was let through are the handlers' own, as before. Its value: what is left till the deadline
    while a version is awaited; 0 for a patch carried over from a 422 when nothing is awaited. -/
theorem wait_only_when_held (dl : Option Int) (it : Iter) (w : Int) (hw : (process dl it).wait = some w) :
    (process dl it).held = true ∧ it.paused = false ∧ (process dl it).entered = none ∧
      ((∃ d, dl = some d ∧ w = max 0 (d - (process dl it).left)) ∨ (dl = none ∧ w = 0 ∧ it.carried = true)) := by
  have h := process_wait dl it
  rw [hw] at h
  cases hh : (process dl it).held <;> cases hp : it.paused <;> simp [hh, hp] at h
  refine ⟨rfl, rfl, process_held_entered hh, ?_⟩
  cases dl with
  | none =>
    right
    refine ⟨rfl, h, ?_⟩
    have h2 := (process_none it).2.2
    rw [hh] at h2
    have h3 : it.patchInit = false := by
      cases hr : it.required <;> cases hi : it.patchInit <;> simp [hr, hi] at h2 ⊢
    exact (patchInit_false_iff it).mp h3
  | some d => left; exact ⟨d, rfl, h⟩

/-- **The visit that the delay asks for is late enough.** An iteration that reaches the barrier no earlier than
    a held-back one asked for (`left + w`), with the same deadline still awaited, no pending patch, not paused,
    is let through at once (`released_after_deadline`: patch or no patch, pressure or not). -/
theorem come_back_is_released (d : Int) (it j : Iter) (w : Int)
    (hw : (process (some d) it).wait = some w)
    (hlate : (process (some d) it).left + w ≤ j.now + j.dur)
    (hreq : j.required = true) (hinit : j.patchInit = true) (hd : d ≠ 0) (hrun : j.paused = false) :
    (process (some d) j).slept = none ∧ (process (some d) j).held = false ∧
      (process (some d) j).entered = some (j.now + j.dur) := by
  obtain ⟨_, _, _, hcase⟩ := wait_only_when_held (some d) it w hw
  rcases hcase with ⟨d', hd', hwd⟩ | ⟨hnone, _, _⟩
  · have hdd : d = d' := Option.some.inj hd'
    generalize (process (some d) it).left = L at hlate hwd
    have hpast : d ≤ j.now + j.dur := by omega
    exact released_after_deadline d j hreq hinit hd hpast hrun
  · cases hnone

/-- … lifted to runs. Iteration `i` is held back and reports `w`; its writes change nothing on the server
    (`hnoop`: no PATCH, or answered with the version just processed — otherwise the worker awaits THAT write
    afresh: `barrier_partial`); `j` is the next thing the worker dequeues — the object as `apply`'s touch has left
    it, or anything else — reaching the barrier no earlier than `i` asked for. Then `j` is NOT held back,
    whatever version it carries: the awaited one resets the worker, any other finds the deadline over. -/
theorem come_back_is_released_run (T : Int) (pre : List Step) (i j : Iter) (d w : Int)
    (hgiven : (outcomeAt T (exec T Cfg.init pre) i).given = some d)
    (hw : (outcomeAt T (exec T Cfg.init pre) i).wait = some w)
    (hnoop : i.patched = none ∨ i.patched = i.ver)
    (hlate : (outcomeAt T (exec T Cfg.init pre) i).left + w ≤ j.now + j.dur)
    (hreq : j.required = true) (hinit : j.patchInit = true) (hd : d ≠ 0) (hrun : j.paused = false) :
    (outcomeAt T (exec T Cfg.init (pre ++ [.event i])) j).held = false ∧
      (outcomeAt T (exec T Cfg.init (pre ++ [.event i])) j).entered = some (j.now + j.dur) := by
  have hdl : (arrive (exec T Cfg.init pre).s i.ver).deadline = some d := by
    have := process_given (arrive (exec T Cfg.init pre).s i.ver).deadline i
    show (arrive (exec T Cfg.init pre).s i.ver).deadline = some d
    rw [← this]; exact hgiven
  have ho : outcomeAt T (exec T Cfg.init pre) i = process (some d) i := by
    show process (arrive (exec T Cfg.init pre).s i.ver).deadline i = _
    rw [hdl]
  rw [ho] at hw hlate
  -- the worker's locals after `i` are what the arrival of `i`'s event left
  have hs : (exec T Cfg.init (pre ++ [.event i])).s = arrive (exec T Cfg.init pre).s i.ver := by
    rw [exec_append]
    show (stepEvent T (exec T Cfg.init pre).s i).1 = _
    cases hp : i.patched with
    | none => exact stepEvent_state_nopatch hp
    | some p =>
      rcases hnoop with h | h
      · rw [hp] at h; cases h
      · exact stepEvent_state_noop hp (by rw [← h, hp])
  have hoj : outcomeAt T (exec T Cfg.init (pre ++ [.event i])) j
      = process (arrive (arrive (exec T Cfg.init pre).s i.ver) j.ver).deadline j := by
    show process (arrive (exec T Cfg.init (pre ++ [.event i])).s j.ver).deadline j = _
    rw [hs]
  rw [hoj]
  rcases arrive_cases (arrive (exec T Cfg.init pre).s i.ver) j.ver with ⟨h, _, _⟩ | ⟨h, _⟩
  · rw [h, process_closed]
    simp [processClosed, WState.init, hreq, hinit]
  · rw [h, hdl]
    exact (come_back_is_released d i j w hw hlate hreq hinit hd hrun).2

/-- What the early return reported BEFORE fix 30557a0: nothing, ever. -/
def waitPre30557a0 (_ : Option Int) (_ : Iter) : Option Int := none

/-- **Regression witness** (was `held_for_good_witness`: finding C07-F2 = C03-N6). Iteration `k` PATCHes (106 at
    102), the worker expects 106 until 423; the echo is lost (the operator was paused, or the stream was cut and
    re-listed). The next view 107 arrives at 200, before the deadline, with a patch accumulated by the low-level
    handlers (`patchMid = false`: e.g. an on.event handler's constant result): no sleep, early return; its PATCH
    changes nothing and is answered with 107 itself, so the worker arms nothing new, and no event follows. Before
    the fix nobody was asked to act at the deadline: the worker, left alone, idles past it and retires at 523 — a
    complete, well-formed life of the stream in which the change at hand never reaches a change handler. Now the
    early return reports 223 = 423 − 200: `apply` sleeps till 423 and touches the object, and the next view —
    reaching the barrier at 423 or later — is let through (`come_back_is_released_run`). -/
theorem held_for_good_regression_witness :
    ∃ (k i : Iter) (r : Int) (d : Int),
      wf 320 320 Cfg.init [.event k, .event i, .retire r] = true ∧
      (exec 320 Cfg.init [.event k]).s.deadline = some d ∧ i.now + i.dur < d ∧ d ≤ r ∧
      i.paused = false ∧ i.required = true ∧ i.patchInit = true ∧ i.patchMid = false ∧ i.patched = i.ver ∧
      (outcomeAt 320 (exec 320 Cfg.init [.event k]) i).slept = none ∧
      (outcomeAt 320 (exec 320 Cfg.init [.event k]) i).held = true ∧
      (exec 320 Cfg.init [.event k, .event i]).s = (exec 320 Cfg.init [.event k]).s ∧     -- nothing re-armed
      waitPre30557a0 (exec 320 Cfg.init [.event k]).s.deadline i = none ∧                  -- before the fix
      (outcomeAt 320 (exec 320 Cfg.init [.event k]) i).left = 200 ∧                        -- after the fix:
      (outcomeAt 320 (exec 320 Cfg.init [.event k]) i).wait = some 223 :=                  -- come back at 423 = d
  ⟨{ ver := some ⟨105, false⟩, now := 100, dur := 0, pressure := false, wake := none, lag := 0, gone := false,
     required := true, patchMid := true, patched := some ⟨106, false⟩, tp := 102, tret := 103 },
   { ver := some ⟨107, false⟩, now := 200, dur := 0, pressure := false, wake := none, lag := 0, gone := false,
     required := true, patchMid := false, patched := some ⟨107, false⟩, tp := 202, tret := 203, listed := true },
   523, 423, by decide, by decide, by decide, by decide, rfl, rfl, rfl, rfl, rfl, by decide, by decide, by decide, rfl,
   by decide, by decide⟩

/-- With nothing awaited, change handlers are held back exactly for a patch carried over from a 422 (re-sent by
    this cycle; whether it still has anything to do is decided when patching, on the freshest state). -/
theorem pending_holds_iff (it : Iter) :
    (process none it).held = true ↔ it.required = true ∧ it.carried = true := by
  rw [(process_none it).2.2, Bool.and_eq_true, Bool.not_eq_true', patchInit_false_iff]

/-- … and such an iteration asks to be visited again AT ONCE (the rework of 608a57d; was C03-N2 / C06-F9): if the
    carried transformations are fulfilled already, nothing is sent and no event follows — the zero delay makes
    `apply` touch the object, and the handlers run on the touch's event (the carried patch is gone by then). -/
theorem pending_comes_back_at_once (it : Iter)
    (hreq : it.required = true) (hc : it.carried = true) (hrun : it.paused = false) :
    (process none it).held = true ∧ (process none it).wait = some 0 := by
  have hh : (process none it).held = true := (pending_holds_iff it).mpr ⟨hreq, hc⟩
  refine ⟨hh, ?_⟩
  rw [process_wait, hh, hrun]; rfl

/-- What the early return reported before the rework of 608a57d (as of 30557a0 alone): a delay only while a
    version is awaited. -/
def waitPreN2rework (dl : Option Int) (it : Iter) : Option Int :=
  match dl with | some _ => (process dl it).wait | none => none

/-- **Regression witness** (C03-N2 / C06-F9 seen through the barrier). A handler's idempotent transformation was
    rejected (422) because a foreign change slipped in — which happens to fulfil it. The slipped-in view 107 arrives
    at 200, nothing is awaited. The carried patch holds the change handlers back "for the sake of an instant
    re-patching" — which sends nothing (no operation), arms nothing, brings no event. Before: no delay either, the
    change 107 was never handled. Now: "come back at once". -/
theorem carried_fulfilled_regression_witness :
    ∃ (it : Iter), it.carried = true ∧ it.required = true ∧ it.patched = none ∧
      (process none it).held = true ∧ waitPre30557a0 none it = none ∧ waitPreN2rework none it = none ∧
      (process none it).left = 200 ∧ (process none it).wait = some 0 :=
  ⟨{ ver := some ⟨107, false⟩, now := 200, dur := 0, pressure := false, wake := none, lag := 0, gone := false,
     required := true, carried := true, patchMid := false, patched := none, tp := 200, tret := 200 },
   rfl, rfl, rfl, by decide, rfl, rfl, by decide, by decide⟩

/-- **Disabled.** With `consistency_timeout = 0` the worker never expects anything, the processor is
    always called with `consistency_time = None`, never sleeps, and holds change handlers back only
    for a patch that was pending at the entry. -/
theorem disabled (pre : List Step) (i : Iter) :
    (exec 0 Cfg.init pre).s = WState.init
    ∧ (outcomeAt 0 (exec 0 Cfg.init pre) i).given = none
    ∧ (outcomeAt 0 (exec 0 Cfg.init pre) i).slept = none
    ∧ ((outcomeAt 0 (exec 0 Cfg.init pre) i).held = true → i.patchInit = false) := by
  have hs := disabled_exec pre Cfg.init rfl
  have hd : (arrive (exec 0 Cfg.init pre).s i.ver).deadline = none := by rw [hs, arrive_init]; rfl
  have ho : outcomeAt 0 (exec 0 Cfg.init pre) i = process none i := by
    show process (arrive (exec 0 Cfg.init pre).s i.ver).deadline i = _
    rw [hd]
  refine ⟨hs, ?_, ?_, ?_⟩
  · rw [ho]; rfl
  · rw [ho]; exact (process_none i).1
  · rw [ho, (process_none i).2.2]
    cases i.patchInit <;> simp

/-- Deadlines never move backwards along a run. -/
theorem deadline_monotone (T idle : Int) (pre mid : List Step) (d d' : Int)
    (hwf : wf T idle Cfg.init (pre ++ mid) = true)
    (hd : (exec T Cfg.init pre).s.deadline = some d)
    (hd' : (exec T Cfg.init (pre ++ mid)).s.deadline = some d') : d ≤ d' := by
  rw [wf_append, Bool.and_eq_true] at hwf
  rw [exec_append] at hd'
  have hI := deadline_bound_exec (T := T) (idle := idle) pre Cfg.init hwf.1 (by intro d h; cases h) d hd
  rcases deadline_later mid _ hwf.2 d' hd' with h | h
  · rw [hd] at h; cases h; exact Int.le_refl _
  · omega

/-- The idle worker outlives its deadline: a fresh worker (with fresh locals) can only appear after
    the timeout of the last patch has elapsed. -/
theorem retire_after_deadline (idle : Int) (c : Cfg) (t d : Int)
    (hok : okStep idle c (.retire t) = true) (hd : c.s.deadline = some d) : d ≤ t := by
  have h := okStep_retire hok
  have h2 := idleTimeout_deadline idle d c.clock
  rw [hd] at h
  omega

/-- A version marked `~which~never~arrives` is never reset by an event (their versions carry no mark). -/
theorem never_arrives (s : WState) (e : Ver) (v : Option Ver) (he : s.expected = some e)
    (hn : e.never = true) (hv : ∀ u, v = some u → u.never = false) : arrive s v = s := by
  unfold arrive
  rw [he]
  by_cases h : v = some e
  · have := hv e h; rw [hn] at this; cases this
  · simp [h]

/-- A worker that ALSO drops its expectation whenever the event comes from a (re-)listing ("listed objects
    are read from the cluster directly") — the seeded change C14c. -/
def arriveListedClears (s : WState) (it : Iter) : WState :=
  if it.listed then WState.init else arrive s it.ver

/-- **A listed view is not consistency.** Iteration `k` (event 105) runs a slow handler; a "410 Gone" makes the
    watcher re-list meanwhile: the listed object (still 105) is queued; then `k` PATCHes (106 at 102). The
    listed event is dequeued at 110. The worker of the model (= the code) still expects 106 and holds the
    change handlers back; a worker that trusts listed events would run them on 105 < 106, 8 ticks after its
    own patch with `T = 320`. So `barrier_partial` really depends on `arrive` ignoring the event's type. -/
theorem listed_view_is_not_consistency_witness :
    ∃ (k i : Iter) (p v : Ver) (t : Int),
      i.listed = true ∧ k.patched = some p ∧ i.ver = some v ∧ v.n < p.n ∧
      wf 320 320 Cfg.init [.event k, .event i] = true ∧
      (outcomeAt 320 (exec 320 Cfg.init [.event k]) i).held = true ∧                 -- the code: held back
      (process (arriveListedClears (exec 320 Cfg.init [.event k]).s i).deadline i).handlers = some t ∧
      ¬ (k.tp + 320 ≤ t) ∧ some p ∉ [k.ver, i.ver] :=                                  -- the variant: too early
  ⟨{ ver := some ⟨105, false⟩, now := 100, dur := 0, pressure := false, wake := none, lag := 0, gone := false,
     required := true, patchMid := true, patched := some ⟨106, false⟩, tp := 102, tret := 103 },
   { ver := some ⟨105, false⟩, now := 110, dur := 0, pressure := true, wake := none, lag := 0, gone := false,
     required := true, patchMid := true, patched := none, tp := 110, tret := 110, listed := true },
   ⟨106, false⟩, ⟨105, false⟩, 110, rfl, rfl, rfl, by decide, by decide, by decide, by decide, by decide, by decide⟩

/-- **A PATCH that changed nothing arms nothing** (fix 460c956). The server answers a no-op PATCH with the
    version it already had — the one of the event being processed. The worker keeps what the arrival
    of that event left: no new expectation, no new deadline. -/
theorem noop_patch_does_not_arm (T : Int) (s : WState) (it : Iter) (v : Ver)
    (hv : it.ver = some v) (hp : it.patched = some v) :
    (stepEvent T s it).1 = arrive s it.ver :=
  stepEvent_state_noop hp hv

/-- … and, at the level of runs: if the worker expected nothing (or exactly this event) when such an
    iteration began, it expects nothing afterwards, whatever else the iteration did; so the NEXT event is
    processed with `consistency_time = None`: no sleep, and its change handlers are held back only for a
    patch that was pending at its entry — the no-op cycle has left the worker consistent. -/
theorem noop_cycle_leaves_consistent (T : Int) (pre : List Step) (k j : Iter) (v : Ver)
    (hv : k.ver = some v) (hp : k.patched = some v)
    (hs : arrive (exec T Cfg.init pre).s k.ver = WState.init) :
    (exec T Cfg.init (pre ++ [.event k])).s = WState.init
    ∧ (outcomeAt T (exec T Cfg.init (pre ++ [.event k])) j).given = none
    ∧ (outcomeAt T (exec T Cfg.init (pre ++ [.event k])) j).slept = none
    ∧ ((outcomeAt T (exec T Cfg.init (pre ++ [.event k])) j).held = true → j.patchInit = false) := by
  have h1 : (exec T Cfg.init (pre ++ [.event k])).s = WState.init := by
    rw [exec_append]
    show (stepEvent T (exec T Cfg.init pre).s k).1 = _
    rw [noop_patch_does_not_arm T _ k v hv hp, hs]
  have hd : (arrive (exec T Cfg.init (pre ++ [.event k])).s j.ver).deadline = none := by rw [h1, arrive_init]; rfl
  have ho : outcomeAt T (exec T Cfg.init (pre ++ [.event k])) j = process none j := by
    show process (arrive (exec T Cfg.init (pre ++ [.event k])).s j.ver).deadline j = _
    rw [hd]
  refine ⟨h1, ?_, ?_, ?_⟩
  · rw [ho]; exact process_given none j
  · rw [ho]; exact (process_none j).1
  · rw [ho, (process_none j).2.2]
    cases j.patchInit <;> simp

/-- The worker's feedback as it was BEFORE fix 460c956 (armed after every PATCH). -/
def feedbackPre460c956 (T : Int) (s : WState) (it : Iter) : WState :=
  match it.patched with
  | some p => if T ≠ 0 then { expected := some p, deadline := some (it.tret + T) } else s
  | none => s

/-- **Regression witness.** With the old feedback, a no-op PATCH at 102 (answered with 105, the version
    just processed) made the worker expect 105 until 103 + 320; a genuine foreign change (106) arriving
    at 110 with a non-empty patch at the barrier (e.g. an `on.event` handler's constant result, built in
    every cycle) is held back and — as no sleep is taken with a non-empty patch — so is every later one,
    until the deadline (`now = 400`; before fix 5dff3c1 even beyond it): the state-dependent handlers starve. With the repaired feedback
    the same iterations run their handlers at once. -/
theorem noop_stall_regression_witness :
    ∃ (k i late : Iter) (v : Ver),
      k.ver = some v ∧ k.patched = some v ∧ i.patchMid = false ∧ late.patchMid = false ∧ late.now = 400 ∧
      feedbackPre460c956 320 (arrive WState.init k.ver) k = { expected := some v, deadline := some 423 } ∧
      (process (some 423) i).held = true ∧ (process (some 423) late).held = true ∧   -- before the fix
      (exec 320 Cfg.init [.event k]).s = WState.init ∧                              -- after the fix
      (outcomeAt 320 (exec 320 Cfg.init [.event k]) i).handlers = some 110 ∧
      (outcomeAt 320 (exec 320 Cfg.init [.event k, .event i]) late).handlers = some 400 :=
  ⟨{ ver := some ⟨105, false⟩, now := 100, dur := 0, pressure := false, wake := none, lag := 0, gone := false,
     required := true, patchMid := true, patched := some ⟨105, false⟩, tp := 102, tret := 103 },
   { ver := some ⟨106, false⟩, now := 110, dur := 0, pressure := false, wake := none, lag := 0, gone := false,
     required := true, patchMid := false, patched := some ⟨106, false⟩, tp := 112, tret := 113 },
   { ver := some ⟨107, false⟩, now := 400, dur := 0, pressure := false, wake := none, lag := 0, gone := false,
     required := true, patchMid := false, patched := some ⟨107, false⟩, tp := 402, tret := 403 },
   ⟨105, false⟩, rfl, rfl, rfl, rfl, rfl, by decide, by decide, by decide, by decide, by decide, by decide⟩

/-! ### Which dequeued version counts as "my patch has come back" (seeded change C07g)

The worker's one line `expected_version == get_version(raw_event)` with the test as a parameter (`Model/C07_Reached`):
kopf's equality is the worker of all theorems above; a test that also accepts LATER versions keeps the barrier exactly
when it is sound (whatever it accepts is not older than the expected version); Python's `>` on the two strings is not. -/

/-- The parametric worker with kopf's test IS the worker above: same runs, same decisions, same `wf`. -/
theorem version_test_is_equality (T idle : Int) (c : Cfg) (l : List Step) (it : Iter) :
    execBy mEq T c l = exec T c l ∧ outcomeAtBy mEq T c it = outcomeAt T c it ∧ wfBy mEq T idle c l = wf T idle c l :=
  ⟨execBy_mEq T l c, outcomeAtBy_mEq T c it, wfBy_mEq T idle l c⟩

/-- **The barrier for every sound version test** (equality — `sound_mEq` —, "the expected or a numerically later
    version" — `sound_mNum` —, anything else that accepts no older version): with the per-object order of the watch
    stream, if change handlers run in iteration `i` on the view `v`, that view is not older than the worker's last own
    patch `p`, or the consistency timeout has elapsed since the server applied it — whatever arrived in between.
    (Same guard as `barrier_view_partial`: the patch was issued by the object's worker.) -/
theorem barrier_view_sound_test_partial (m : Ver → Ver → Bool) (hm : Sound m)
    (T idle : Int) (pre mid post : List Step) (k i : Iter) (p v : Ver) (t : Int)
    (hwf : wfBy m T idle Cfg.init (pre ++ .event k :: (mid ++ .event i :: post)) = true)
    (hk : k.patched = some p)
    (hmid : ∀ st ∈ mid, st.patched = none)
    (hv : i.ver = some v)
    (hordk : ∀ u, k.ver = some u → u.n ≤ v.n)
    (hord : ∀ st ∈ mid, ∀ u, st.ver = some u → u.n ≤ v.n)
    (hran : (outcomeAtBy m T (execBy m T Cfg.init (pre ++ .event k :: mid)) i).handlers = some t) :
    p.n ≤ v.n ∨ k.tp + T ≤ t := by
  obtain ⟨_, hokk, hrest⟩ := wfBy_split hwf
  obtain ⟨hwfmid, hoki, _⟩ := wfBy_split hrest
  have h0 : CoverBy T (nextBy m T (execBy m T Cfg.init pre) (.event k)) p k.tp (k.ver = some p) :=
    coverBy_after_patch hokk hk
  have h1 := coverBy_exec hm mid _ _ h0 hwfmid hmid
  have hcfg : execBy m T Cfg.init (pre ++ .event k :: mid)
      = execBy m T (nextBy m T (execBy m T Cfg.init pre) (.event k)) mid := by
    rw [execBy_append, execBy_cons]
  rw [hcfg] at hran
  have hclk := (okStep_event hoki).1
  rcases coverBy_handlers hm h1 hclk hran with (hf | ⟨st, hst, u, hu, hpu⟩) | ⟨u, hu, hpu⟩ | ht
  · exact Or.inl (hordk p hf)
  · exact Or.inl (Nat.le_trans hpu (hord st hst u hu))
  · left
    have : some u = some v := by rw [← hu, ← hv]; rfl
    cases this
    exact hpu
  · exact Or.inr ht

example : Sound mEq := sound_mEq
example : Sound mNum := sound_mNum

/-- The string order is not sound: "99" > "100" as strings of digits, and 99 is the older version. -/
theorem string_order_unsound_witness : mStr ⟨99, false⟩ ⟨100, false⟩ = true ∧ ¬ Sound mStr := by
  refine ⟨by decide, ?_⟩
  intro h
  have := h ⟨99, false⟩ ⟨100, false⟩ (by decide)
  exact absurd this (by decide)

/-- **The seeded change C07g breaks the barrier** (the worker takes a version that is greater AS A STRING for its own
    patch come back). The object is seen at 98 (t = 64), the handlers run, the outcome is PATCHed at t = 83: version 100;
    one tick later the event of a foreign write made meanwhile is dequeued: 99, one digit shorter. The changed worker
    drops its expectation and the change handlers run on 99 at t = 84 — the view is older than the patch, 100 was never
    dequeued, 1 of T = 320 ticks has passed; the stream is in order (98 ≤ 99). kopf's worker holds the same iteration back (it sleeps
    in the barrier until the echo of 100 arrives 40 ticks later). -/
theorem string_order_breaks_barrier_witness :
    ∃ (T idle : Int) (k i : Iter) (p v : Ver) (t : Int),
      wfBy mStr T idle Cfg.init ([] ++ .event k :: ([] ++ .event i :: [])) = true ∧
      k.patched = some p ∧ i.ver = some v ∧ (∀ u, k.ver = some u → u.n ≤ v.n) ∧
      (outcomeAtBy mStr T (execBy mStr T Cfg.init ([] ++ .event k :: [])) i).handlers = some t ∧
      ¬ (p.n ≤ v.n ∨ k.tp + T ≤ t) ∧
      (outcomeAt T (exec T Cfg.init [.event k]) i).held = true :=
  ⟨320, 320,
   { ver := some ⟨98, false⟩, now := 64, dur := 0, pressure := false, wake := none, lag := 0, gone := false,
     required := true, patchMid := true, patched := some ⟨100, false⟩, tp := 83, tret := 83 },
   { ver := some ⟨99, false⟩, now := 84, dur := 0, pressure := false, wake := some 40, lag := 0, gone := false,
     required := true, patchMid := true, patched := none, tp := 84, tret := 84 },
   ⟨100, false⟩, ⟨99, false⟩, 84, by decide, rfl, rfl, by decide, by decide, by decide, by decide⟩

/-- Why ordinary use (and every history of ONE decimal width) cannot tell the two orders apart: between strings of
    digits of the same length the string order IS the numeric order. -/
theorem string_order_is_numeric_same_width : ∀ (as bs : List Nat), as.length = bs.length →
    (∀ d ∈ as, d < 10) → (∀ d ∈ bs, d < 10) → (lexLt as bs = true ↔ valOf as < valOf bs)
  | [], [], _, _, _ => by simp [lexLt, valOf]
  | [], _ :: _, h, _, _ => by simp at h
  | _ :: _, [], h, _, _ => by simp at h
  | a :: as, b :: bs, h, ha, hb => by
    have hl : as.length = bs.length := by simpa using h
    have ih := string_order_is_numeric_same_width as bs hl (fun d hd => ha d (List.mem_cons_of_mem _ hd))
      (fun d hd => hb d (List.mem_cons_of_mem _ hd))
    have hx := valOf_lt as (fun d hd => ha d (List.mem_cons_of_mem _ hd))
    have hy := valOf_lt bs (fun d hd => hb d (List.mem_cons_of_mem _ hd))
    simp only [lexLt, valOf, Bool.or_eq_true, Bool.and_eq_true, decide_eq_true_eq, ih]
    rw [hl] at hx ⊢
    generalize 10 ^ bs.length = P at *
    constructor
    · rintro (hlt | ⟨heq, hvv⟩)
      · have h1 : (a + 1) * P ≤ b * P := Nat.mul_le_mul_right _ hlt
        rw [Nat.succ_mul] at h1
        omega
      · subst heq; omega
    · intro hlt
      by_cases hab : a < b
      · exact Or.inl hab
      · by_cases heq : a = b
        · subst heq; exact Or.inr ⟨rfl, by omega⟩
        · have hba : b < a := by omega
          have h1 : (b + 1) * P ≤ a * P := Nat.mul_le_mul_right _ hba
          rw [Nat.succ_mul] at h1
          omega

-- the two renderings involved in the witness, and a same-width pair on which the orders agree
example : digits 99 = [9, 9] ∧ digits 100 = [1, 0, 0] ∧ valOf (digits 100) = 100 := by decide
example : lexLt (digits 100) (digits 99) = true := by decide
example : mStr ⟨1099, false⟩ ⟨1100, false⟩ = false ∧ mStr ⟨1101, false⟩ ⟨1100, false⟩ = true := by decide

/-! ### Non-vacuity: concrete iterations (T = 5 s = 320 ticks, idle 320) -/

/-- Iteration k: event 105 at t=100, handlers ran (nothing expected), PATCH applied at 102 → 106. -/
abbrev exK : Iter :=
  { ver := some ⟨105, false⟩, now := 100, dur := 0, pressure := false, wake := none, lag := 0, gone := false, required := true, patchMid := true, patched := some ⟨106, false⟩, tp := 102, tret := 103 }
/-- A foreign event 104… (an older view, delivered late) at t=110; a further event wakes the sleep after 6 ticks. -/
abbrev exForeign : Iter :=
  { ver := some ⟨104, false⟩, now := 110, dur := 0, pressure := false, wake := some 6, lag := 0, gone := false, required := true, patchMid := true, patched := none, tp := 116, tret := 116 }
/-- The echo 106 arrives at t=116. -/
abbrev exEcho : Iter :=
  { ver := some ⟨106, false⟩, now := 116, dur := 0, pressure := false, wake := none, lag := 0, gone := false, required := true, patchMid := true, patched := none, tp := 116, tret := 116 }
/-- A stale event with no further arrivals: the sleep runs into the deadline 103 + 320 = 423. -/
abbrev exStale : Iter :=
  { ver := some ⟨104, false⟩, now := 110, dur := 0, pressure := false, wake := none, lag := 0, gone := false, required := true, patchMid := true, patched := none, tp := 423, tret := 423 }

-- after k the worker expects 106 until 423
example : (exec 320 Cfg.init [.event exK]).s = { expected := some ⟨106, false⟩, deadline := some 423 } := by decide
-- a held-back iteration: the stale foreign event sleeps, is woken at 116 by the next arrival, returns early
example : outcomeAt 320 (exec 320 Cfg.init [.event exK]) exForeign =
    { given := some 423, low := [(.indexing, 110), (.watching, 110), (.spawning, 110)],
      slept := some ⟨116, false⟩, achieved := false, held := true, left := 116, wait := some 307, entered := none, handlers := none } := by decide
-- released by the echo: handlers run at once, on the patched version
example : (outcomeAt 320 (exec 320 Cfg.init [.event exK, .event exForeign]) exEcho).handlers = some 116 := by decide
example : (exec 320 Cfg.init [.event exK, .event exForeign, .event exEcho]).s = WState.init := by decide
-- released by the timeout: handlers run on the stale view, at 423 = tp + T + (tret - tp)
example : outcomeAt 320 (exec 320 Cfg.init [.event exK]) exStale =
    { given := some 423, low := [(.indexing, 110), (.watching, 110), (.spawning, 110)],
      slept := some ⟨423, true⟩, achieved := true, held := false, left := 423, wait := none, entered := some 423, handlers := some 423 } := by decide
-- the hypotheses of `barrier` are met by these runs (both disjuncts occur)
example : wf 320 320 Cfg.init ([] ++ .event exK :: ([.event exForeign] ++ .event exEcho :: [])) = true := by decide
example : wf 320 320 Cfg.init ([] ++ .event exK :: ([] ++ .event exStale :: [])) = true := by decide
example : some (⟨106, false⟩ : Ver) ∈ [Step.event exForeign].map Step.ver ++ [exEcho.ver] := by decide
example : exK.tp + 320 ≤ (423 : Int) := by decide
-- the exiting watcher raises the pressure 20 ticks into the sleep of a stale view: held, not released
example : outcomeAt 320 (exec 320 Cfg.init [.event exK]) { exStale with wake := some 20, tp := 130, tret := 130 } =
    { given := some 423, low := [(.indexing, 110), (.watching, 110), (.spawning, 110)],
      slept := some ⟨130, false⟩, achieved := false, held := true, left := 130, wait := some 293, entered := none, handlers := none } := by decide
-- background patches in `mid` change nothing for the worker: same state, same release by the echo
example : (exec 320 Cfg.init [.event exK, .background ⟨107, false⟩ 105, .event exForeign]).s
    = (exec 320 Cfg.init [.event exK, .event exForeign]).s := by decide
example : wf 320 320 Cfg.init ([] ++ .event exK :: ([.background ⟨107, false⟩ 105, .event exForeign] ++ .event exEcho :: [])) = true := by decide
-- a retirement of the idle worker is well-formed only at or after the deadline
example : okStep 320 (exec 320 Cfg.init [.event exK]) (.retire 422) = false := by decide
example : okStep 320 (exec 320 Cfg.init [.event exK]) (.retire 423) = true := by decide
-- paused when the sleep ends at the deadline: dropped (the un-paused twin `exStale` above runs its handlers at 423)
example : outcomeAt 320 (exec 320 Cfg.init [.event exK]) { exStale with paused := true } =
    { given := some 423, low := [(.indexing, 110), (.watching, 110), (.spawning, 110)],
      slept := some ⟨423, true⟩, achieved := false, held := true, left := 423, wait := none, entered := none, handlers := none } := by decide
-- paused, dequeued after the deadline: no sleep, dropped; un-paused: released at once (`released_after_deadline`)
example : (outcomeAt 320 (exec 320 Cfg.init [.event exK]) { exStale with now := 500, tp := 500, tret := 500, paused := true }).held = true := by decide
example : (outcomeAt 320 (exec 320 Cfg.init [.event exK]) { exStale with now := 500, tp := 500, tret := 500 }).handlers = some 500 := by decide
-- after the un-pausing the re-listing shows the awaited 106: released although the operator is paused again
example : (outcomeAt 320 (exec 320 Cfg.init [.event exK, .event { exStale with paused := true }])
    { exEcho with now := 600, tp := 600, tret := 600, listed := true, paused := true }).handlers = some 600 := by decide
-- … or a newer state 107 (a foreign change on top): the deadline is over, released at once when not paused
example : (outcomeAt 320 (exec 320 Cfg.init [.event exK, .event { exStale with paused := true }])
    { exEcho with ver := some ⟨107, false⟩, now := 600, tp := 600, tret := 600, listed := true }).handlers = some 600 := by decide
-- a held-back iteration reports what is left till the deadline: woken at 116, 423 - 116 = 307 (`held_comes_back`)
example : (outcomeAt 320 (exec 320 Cfg.init [.event exK]) exForeign).left = 116 ∧
    (outcomeAt 320 (exec 320 Cfg.init [.event exK]) exForeign).wait = some 307 := by decide
-- … nothing while paused, nothing when let through
example : (outcomeAt 320 (exec 320 Cfg.init [.event exK]) { exStale with paused := true }).wait = none := by decide
example : (outcomeAt 320 (exec 320 Cfg.init [.event exK]) exStale).wait = none := by decide
-- a carried patch, while 106 is awaited and the deadline is over: held, "come back at once"
example : (outcomeAt 320 (exec 320 Cfg.init [.event exK]) { exStale with now := 500, tp := 500, tret := 500, carried := true }).held = true ∧
    (outcomeAt 320 (exec 320 Cfg.init [.event exK]) { exStale with now := 500, tp := 500, tret := 500, carried := true }).wait = some 0 := by decide
-- the hypotheses of `come_back_is_released_run` are met: `exForeign` with a no-op patch asked for 423; the touched object arrives then
example : (outcomeAt 320 (exec 320 Cfg.init ([.event exK] ++ [.event exForeign]))
    { exEcho with ver := some ⟨108, false⟩, now := 430, tp := 430, tret := 430 }).handlers = some 430 := by decide
-- a carried patch holds back also when nothing is awaited, and asks to come back at once (`pending_comes_back_at_once`)
example : (outcomeAt 0 Cfg.init { exK with carried := true }).wait = some 0 := by decide
-- a pending patch at the entry holds handlers back even without any expectation (T = 0)
example : (outcomeAt 0 Cfg.init { exK with carried := true }).held = true := by decide

end Kopf.C07
