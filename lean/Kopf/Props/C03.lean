/-
  C03 — level-triggered convergence across changes, restarts, kills and downtime. Property theorems only.

  The state of `Kopf.C03.loopStep` is what one object carries (`P` progress records, `base` last-handled
  essence), its current essence `ess`, the operator's two memory flags, the clock and whether a watch
  event is pending. "Once changes stop" = `ess` is constant and nobody but the framework writes;
  "handlers stop failing" = `AllFinal` (every invocation from now on yields a final outcome).
  Every theorem quantifies over ALL such states — any history (any records, any last-handled state,
  any flags, any clock) leads to one of them — and over all handler sets, lifecycles, limits and delays.
  `UniformOn` (all stored records carry one purpose) is an invariant of every handling pass
  (`Kopf.C02.uniform_preserved`) and holds of an object without records.
-/
import Kopf.Lemmas.C03_Final
namespace Kopf.C03
open Kopf Kopf.C02

variable {E : Type} [DecidableEq E]

/-- TERMINATION. Once every invocation yields a final outcome, the closed loop reaches a state with no
    pending event within `bound env s` turns — an explicit function of the state:
    2·(unfinished selected handlers) + (1 if none is due) + (1 if superseded records remain) + 1
    + keepalive rounds of delays beyond the cap. No bound on handlers, delays or history. -/
theorem terminates (env : Env) (wf : WF env) (hfin : AllFinal env) :
    ∀ (s : State E), UniformOn env.owned s.P →
      ∃ m, m ≤ bound env s ∧ (iter env m s).pending = false := by
  have main : ∀ (n : Nat) (s : State E), bound env s ≤ n → UniformOn env.owned s.P →
      ∃ m, m ≤ bound env s ∧ (iter env m s).pending = false := by
    intro n
    induction n with
    | zero =>
      intro s hn hu
      cases hp : s.pending
      · exact ⟨0, Nat.zero_le _, hp⟩
      · have := step_decreases env wf hfin s hu hp
        omega
    | succ n ih =>
      intro s hn hu
      cases hp : s.pending
      · exact ⟨0, Nat.zero_le _, hp⟩
      · have hdec := step_decreases env wf hfin s hu hp
        obtain ⟨m, hm, hq⟩ := ih (loopStep env s) (by omega) (loopStep_uniform env wf s hu)
        exact ⟨m + 1, by omega, hq⟩
  intro s hu
  exact main (bound env s) s (Nat.le_refl _) hu

/-- FINAL STATE. Whenever the loop has consumed its pending event(s) and nothing is pending any more,
    the recorded last-handled state IS the object's essence, nothing initial is outstanding, and the
    framework has stopped writing: even a further (re-)delivered event is processed with no PATCH,
    no change of records or last-handled state, and leaves nothing pending. -/
theorem final_state (env : Env) (hpm : env.prematch = true) (m : Nat) :
    ∀ (s : State E), s.pending = true → (iter env m s).pending = false →
      (iter env m s).base = some s.ess ∧
      ((iter env m s).noticed = true → (iter env m s).fullyHandled = true) ∧
      (loopStep env { iter env m s with pending := true }).writes = (iter env m s).writes ∧
      (loopStep env { iter env m s with pending := true }).pending = false ∧
      (loopStep env { iter env m s with pending := true }).base = (iter env m s).base ∧
      (∀ i, (loopStep env { iter env m s with pending := true }).P i = (iter env m s).P i) := by
  induction m with
  | zero => intro s hp hq; simp only [iter] at hq; rw [hp] at hq; cases hq
  | succ m ih =>
    intro s hp hq
    simp only [iter] at hq ⊢
    cases hp' : (loopStep env s).pending
    · -- quiescence is reached by this very turn
      rw [iter_quiescent env m _ hp']
      obtain ⟨hb, hi⟩ := quiescent_after_step env s hp hpm hp'
      have hb' : (loopStep env s).base = some (loopStep env s).ess := by rw [hb, loopStep_ess]
      obtain ⟨h1, h2, h3, h4⟩ := settled_event_no_write env (loopStep env s) hb' hi
      refine ⟨hb, ?_, h1, h2, h3, h4⟩
      intro hn
      rw [hn] at hi
      simpa using hi
    · -- an event is still pending: continue from the next state (same essence)
      have h := ih (loopStep env s) hp' hq
      rw [loopStep_ess] at h
      exact h

/-- CONVERGENCE = termination + final state: from any state with a pending event, once handlers stop
    failing, within `bound env s` turns nothing is pending, the last-handled state is the essence, and a
    further event would cause no write. -/
theorem converges (env : Env) (wf : WF env) (hfin : AllFinal env) (hpm : env.prematch = true)
    (s : State E) (hu : UniformOn env.owned s.P) (hp : s.pending = true) :
    ∃ m, m ≤ bound env s ∧ (iter env m s).pending = false ∧ (iter env m s).base = some s.ess ∧
      (loopStep env { iter env m s with pending := true }).writes = (iter env m s).writes ∧
      (loopStep env { iter env m s with pending := true }).pending = false := by
  obtain ⟨m, hm, hq⟩ := terminates env wf hfin s hu
  obtain ⟨h1, _, h3, h4, _⟩ := final_state env hpm m s hp hq
  exact ⟨m, hm, hq, h1, h3, h4⟩

/-- Once quiescent, always quiescent: no turn changes anything (in particular `writes`). -/
theorem quiescent_stays (env : Env) (n : Nat) (t : State E) (h : t.pending = false) :
    iter env n t = t :=
  iter_quiescent env n t h


/-- FULL STATEMENT (property): at quiescence no progress records remain. Still FALSE of the code in two
    situations (`reverted_change_witness`, `blind_witness` below; known findings C03-F3, C03-F2): the
    cause is the no-op (the outstanding change was reverted to the last-handled state) or the framework
    is blind to the object (`prematch = false`) while records are left over. PROVED HERE under the exact
    guard `Purging`: the cause has a handler reason — every pass that closes such a cycle purges all owned
    records, also the `skip` pass without selected handlers (since the repair of C03-F1) — or the object
    carried no record to begin with. -/
theorem no_records_partial (env : Env) (hpm : env.prematch = true) (m : Nat) :
    ∀ (s : State E), s.pending = true → Purging env s → (iter env m s).pending = false →
      ∀ i ∈ env.owned, (iter env m s).P i = none := by
  induction m with
  | zero => intro s hp _ hq; simp only [iter] at hq; rw [hp] at hq; cases hq
  | succ m ih =>
    intro s hp hg hq
    simp only [iter] at hq ⊢
    rcases purging_step env s hp hpm hg with ⟨hp', hg'⟩ | ⟨hp', hn⟩
    · exact ih (loopStep env s) hp' hg' hq
    · rw [iter_quiescent env m _ hp']; exact hn

/-- The cycle is closed — the last-handled state becomes the essence — exactly by a pass after which
    every handler selected for the outstanding change has a final outcome on record; a turn of the loop
    changes the last-handled state in no other way. -/
theorem all_selected_completed (env : Env) (wf : WF env) (s : State E) (hp : s.pending = true)
    (hpm : env.prematch = true) (hh : isHandler s = true) (hne : (env.sel (causeOf s)).isEmpty = false) :
    ((pass env s).closed = true ↔
      ∀ i ∈ env.sel (causeOf s), ∃ h, postState (cfgOf env s) s.P s.now s.now env.exec i = some h ∧
        h.r.finished = true) ∧
    (loopStep env s).base = (if (pass env s).closed then some s.ess else s.base) := by
  constructor
  · exact closed_iff_all_finished (cfgOf env s) s.P s.now s.now env.exec (fun i hi => wf.sub _ i hi) hh hne
  · rcases loopStep_cases env s hp hpm with ⟨_, h⟩ | ⟨d, _, _, h⟩ | ⟨_, _, h⟩ <;> rw [h] <;> rfl

/-- After the last change, a handler that reached a final outcome in one turn of the loop is not
    invoked in any later turn of the same handling cycle (C02's once-per-cycle, along the closed loop). -/
theorem invoked_once_after_last_change (env : Env) (wf : WF env) (hpm : env.prematch = true)
    (s : State E) (hp : s.pending = true) (hh : isHandler s = true)
    (hne : NoExtras (cfgOf env s) s.P)
    (i : Id) (n : Nat) (hinv : (i, n) ∈ (pass env s).invoked) (hfin : (env.exec i n).final = true)
    (hopen : (pass env s).closed = false) (k : Nat) :
    ∀ l ∈ invsOf env k (loopStep env s), ∀ m, (i, m) ∉ l := by
  obtain ⟨now', w, h⟩ := open_next env s hp hpm hh hopen
  have hcz : causeOf (nextState env s now' true w) = causeOf s :=
    causeOf_congr s _ (by simp [nextState, hopen]) rfl rfl (by simp [nextState, hopen])
  have hcfg : cfgOf env (loopStep env s) = cfgOf env s := by rw [h]; unfold cfgOf; rw [hcz]
  have hh' : isHandler (loopStep env s) = true := by rw [h]; unfold isHandler; rw [hcz]; exact hh
  have hp' : (loopStep env s).pending = true := by rw [h]; rfl
  have hP : (loopStep env s).P = (cycle (cfgOf env s) s.P s.now s.now env.exec).P' := by rw [h]; rfl
  rw [invs_eq env hpm k (loopStep env s) hp' hh', hcfg, hP]
  exact once_per_cycle (cfgOf env s) (fun i hi => wf.sub _ i hi) s.P hne ⟨s.now, s.now, env.exec⟩
    (stepsOf env k (loopStep env s)) i n hinv hfin hopen

/-- RESTART SAFETY. A new operator process (graceful restart or kill) starts from what the object
    carries — records and last-handled state — and nothing else: wherever the old process was stopped,
    before its in-flight write reached the server (`restart s t`) or after the server applied it but
    before the response arrived (`restart (loopStep env s) t`), the hypotheses of `terminates` hold
    again and the loop converges from there; the restart itself changes nothing on the object. -/
theorem restart_safe (env : Env) (wf : WF env) (hfin : AllFinal env) (s : State E) (t : Tick)
    (hu : UniformOn env.owned s.P) :
    ((restart s t).P = s.P ∧ (restart s t).base = s.base ∧ (restart s t).ess = s.ess) ∧
    (∃ m, m ≤ bound env (restart s t) ∧ (iter env m (restart s t)).pending = false) ∧
    (∃ m, m ≤ bound env (restart (loopStep env s) t) ∧
      (iter env m (restart (loopStep env s) t)).pending = false) :=
  ⟨⟨rfl, rfl, rfl⟩, terminates env wf hfin (restart s t) hu,
   terminates env wf hfin (restart (loopStep env s) t) (loopStep_uniform env wf s hu)⟩

/-- ACCUMULATED CHANGE. However many edits were made while no operator ran, the first cause the new
    process computes depends only on the stored last-handled state and the FINAL essence: creation if
    nothing was ever handled, ONE update (last-handled → final) if they differ, resuming if they agree. -/
theorem accumulated_change (s : State E) (edits : List E) (t : Tick) :
    let fin := (edits.getLast?).getD s.ess
    causeOf (restart (applyEdits s edits) t) = causeOf (restart { s with ess := fin } t) ∧
    (s.base = none → (causeOf (restart (applyEdits s edits) t)).reason = .create) ∧
    (∀ b, s.base = some b → b ≠ fin → (causeOf (restart (applyEdits s edits) t)).reason = .update) ∧
    (s.base = some fin → (causeOf (restart (applyEdits s edits) t)).reason = .resume) := by
  intro fin
  obtain ⟨h1, _, h3⟩ := applyEdits_fields edits s
  have hc : causeOf (restart (applyEdits s edits) t) = causeOf (restart { s with ess := fin } t) := by
    unfold causeOf restart
    simp only [h1, h3]
    rfl
  refine ⟨hc, ?_, ?_, ?_⟩
  · intro hb
    rw [hc]; simp [causeOf, restart, hb, C05.detect, C05.detectReason]
  · intro b hb hne
    have : some b ≠ some fin := fun h => hne (Option.some.inj h)
    rw [hc]; simp [causeOf, restart, hb, this, C05.detect, C05.detectReason]
  · intro hb
    rw [hc]; simp [causeOf, restart, hb, C05.detect, C05.detectReason]

/-- An object no changing handler's filters accept: the event is consumed, nothing is written. -/
theorem blind_quiescent (env : Env) (hpm : env.prematch = false) (s : State E) (hp : s.pending = true) :
    (loopStep env s).pending = false ∧ (loopStep env s).writes = s.writes ∧
    (loopStep env s).base = s.base ∧ (loopStep env s).P = s.P := by
  have : loopStep env s = { s with pending := false } := by unfold loopStep; simp [hp, hpm]
  rw [this]
  exact ⟨rfl, rfl, rfl, rfl⟩


/-! ### concrete instances: the clauses that are false of the code, and non-vacuity -/

def okOutcome : Outcome := { final := true, delay := none, error := false, subrefs := [] }
def tempOutcome (d : Tick) : Outcome := { final := false, delay := some d, error := true, subrefs := [] }

/-- an update handler's record after one temporary failure: one attempt, due again at tick 512 -/
def retryingRec : Rec :=
  { started := 192, delayed := some 512, purpose := some "update", retries := 1,
    success := false, failure := false, subrefs := [] }

/-- handlers: `c0` (creation, no filter) and `u0` (update, label-filtered: does not match the object any more) -/
def envW (prematch : Bool) : Env :=
  { owned := ["c0", "u0"], subs := [], sel := fun c => if c.reason = .create then ["c0"] else [],
    limits := fun _ => ⟨none, none⟩, lifecycle := .asap, exec := fun _ _ => okOutcome,
    prematch := prematch, lat := 1, cap := 38400 }

def stateW (base : Option Nat) (ess : Nat) : State Nat :=
  { P := fun i => if i = "u0" then some retryingRec else none, base := base, ess := ess,
    noticed := false, fullyHandled := true, now := 256, pending := true, writes := 0 }

theorem envW_wf (b : Bool) : WF (envW b) := by
  refine ⟨?_, by cases b <;> decide, by cases b <;> decide⟩
  intro c i hi
  simp only [envW] at hi ⊢
  split at hi
  · simp at hi; simp [hi]
  · simp at hi

theorem stateW_uniform (b : Bool) (base : Option Nat) (ess : Nat) : UniformOn (envW b).owned (stateW base ess).P := by
  refine ⟨"update", ?_⟩
  intro i _ r hP
  simp only [stateW] at hP
  split at hP
  · cases hP; rfl
  · cases hP

/-- The `skip` pass (a handler reason, but no handler selected any more — e.g. the retrying handler's
    label filter stopped matching): the cycle is closed, the last-handled state becomes the essence and
    EVERY owned progress record is purged, in particular the stale one of the no-longer-selected handler.
    (Formerly false of the code: finding C03-F1, repaired in /repo by 2ae938f.) -/
theorem skip_path_purges (env : Env) (s : State E) (hp : s.pending = true) (hpm : env.prematch = true)
    (hh : isHandler s = true) (he : (env.sel (causeOf s)).isEmpty = true) :
    (loopStep env s).base = some s.ess ∧ (loopStep env s).fullyHandled = true ∧
    ∀ i ∈ env.owned, (loopStep env s).P i = none := by
  obtain ⟨hc, hn⟩ := closed_purges_skip (cfgOf env s) s.P s.now s.now env.exec hh he
  have hc' : (pass env s).closed = true := hc
  rcases loopStep_cases env s hp hpm with ⟨_, h⟩ | ⟨d, _, _, h⟩ | ⟨_, _, h⟩ <;> rw [h] <;>
    exact ⟨by simp [nextState, hc'], by simp [nextState, hc'], hn⟩

/-- The former C03-F1 scenario as a regression instance: `u0` was retrying, a label edit made it stop
    matching and changed the essence; after two turns the loop is quiescent, converged, and `u0`'s record
    is gone; a third turn writes nothing. -/
theorem stale_record_purged_instance :
    WF (envW true) ∧ AllFinal (envW true) ∧ UniformOn (envW true).owned (stateW (some 0) 1).P ∧
    isHandler (stateW (some 0) 1) = true ∧ (envW true).sel (causeOf (stateW (some 0) 1)) = [] ∧
    ((stateW (some 0) 1).P "u0").isSome = true ∧
    (iter (envW true) 2 (stateW (some 0) 1)).pending = false ∧
    (iter (envW true) 2 (stateW (some 0) 1)).base = some 1 ∧
    (iter (envW true) 2 (stateW (some 0) 1)).P "u0" = none ∧
    (iter (envW true) 3 (stateW (some 0) 1)).writes = (iter (envW true) 2 (stateW (some 0) 1)).writes :=
  ⟨envW_wf true, fun _ _ => rfl, stateW_uniform true _ _, by decide, by decide, by decide, by decide, by decide,
   by decide, by decide⟩

/-- C03-F3. The same with no outstanding change at all: the change `u0` was retrying for has been
    reverted to the last-handled state; the cause is the no-op, nothing is written, the record stays. -/
theorem reverted_change_witness :
    ∃ (env : Env) (s : State Nat), WF env ∧ AllFinal env ∧ UniformOn env.owned s.P ∧ env.prematch = true ∧
      s.pending = true ∧ isHandler s = false ∧
      (iter env 1 s).pending = false ∧ (iter env 1 s).base = some s.ess ∧ (iter env 1 s).writes = s.writes ∧
      (iter env 1 s).P "u0" = s.P "u0" ∧ (s.P "u0").isSome = true :=
  ⟨envW true, stateW (some 1) 1, envW_wf true, fun _ _ => rfl, stateW_uniform true _ _, rfl, rfl, by decide,
   by decide, by decide, by decide, by decide, by decide⟩

/-- C03-F2. The object stopped matching every handler: the framework is blind to it; neither the stale
    record nor the outdated last-handled state is ever touched again. -/
theorem blind_witness :
    ∃ (env : Env) (s : State Nat), WF env ∧ AllFinal env ∧ UniformOn env.owned s.P ∧ env.prematch = false ∧
      s.pending = true ∧
      (iter env 1 s).pending = false ∧ (iter env 1 s).base ≠ some s.ess ∧ (iter env 1 s).writes = s.writes ∧
      (iter env 1 s).P "u0" = s.P "u0" ∧ (s.P "u0").isSome = true :=
  ⟨envW false, stateW (some 0) 1, envW_wf false, fun _ _ => rfl, stateW_uniform false _ _, rfl, rfl,
   by decide, by decide, by decide, by decide, by decide⟩

/-- two update handlers, all at once; `u2` fails temporarily on its first attempt -/
def envA : Env :=
  { owned := ["u1", "u2"], subs := [], sel := fun c => if c.reason = .update then ["u1", "u2"] else [],
    limits := fun _ => ⟨none, none⟩, lifecycle := .allAtOnce,
    exec := fun i n => if i = "u2" ∧ n = 0 then tempOutcome 64 else okOutcome,
    prematch := true, lat := 1, cap := 38400 }

def stateA : State Nat :=
  { P := fun _ => none, base := some 0, ess := 1, noticed := false, fullyHandled := true, now := 0,
    pending := true, writes := 0 }

/-- C03-F4. "Every selected handler has completed against the final essential state" is false: `u1`
    completes on essence 1 while `u2` is still retrying; an external edit moves the essence to 2; the
    cycle stays open, `u1`'s finished record keeps it from running again, `u2` succeeds on essence 2 and
    the last-handled state becomes 2 — which `u1` has never seen. -/
theorem absorbed_change_witness :
    (pass envA stateA).invoked = [("u1", 0), ("u2", 0)] ∧
    (let s2 : State Nat := { loopStep envA stateA with ess := 2 }
     s2.pending = true ∧ s2.base = some 0 ∧
     invsOf envA 4 s2 = [[], [("u2", 1)]] ∧
     (iter envA 3 s2).pending = false ∧ (iter envA 3 s2).base = some 2 ∧
     (∀ i ∈ envA.owned, (iter envA 3 s2).P i = none)) := by
  refine ⟨by decide, by decide, by decide, by decide, by decide, by decide, ?_⟩
  intro i hi
  simp only [envA, List.mem_cons, List.mem_nil_iff, or_false] at hi
  rcases hi with rfl | rfl <;> decide

-- non-vacuity of `terminates` / `restart_safe`: a state with two unfinished selected handlers, one of
-- them about to sleep, meets the hypotheses; its bound is 2·2 + 0 + 0 + 1 + 0 = 5 and the loop needs 4 turns
-- (invoke both, sleep + touch, invoke the retry and close, echo of the closing PATCH)
example : WF envA ∧ AllFinal { envA with exec := fun _ _ => okOutcome } ∧ UniformOn envA.owned stateA.P := by
  refine ⟨⟨?_, by decide, by decide⟩, fun _ _ => rfl, ⟨"update", fun i _ r h => by simp [stateA] at h⟩⟩
  intro c i hi
  simp only [envA] at hi ⊢
  split at hi
  · exact hi
  · simp at hi

example : bound envA stateA = 5 ∧ (iter envA 3 stateA).pending = true ∧ (iter envA 4 stateA).pending = false := by
  refine ⟨by decide, by decide, by decide⟩

-- non-vacuity of `no_records_partial` / `all_selected_completed` / `invoked_once_after_last_change`:
-- the guard `Purging` and `NoExtras` hold of that state, the first pass is open and `u1`'s outcome is final;
-- `Purging` also holds of the former C03-F1 state (records present, handler reason, nothing selected)
example : Purging envA stateA ∧ NoExtras (cfgOf envA stateA) stateA.P ∧ (pass envA stateA).closed = false ∧
    (envA.exec "u1" 0).final = true ∧ Purging (envW true) (stateW (some 0) 1) :=
  ⟨Or.inl (by decide), fun i _ r h => by simp [stateA] at h, by decide, by decide, Or.inl (by decide)⟩

-- non-vacuity of `accumulated_change`: three edits during a downtime, one update cause
example : (causeOf (restart (applyEdits stateA [5, 6, 7]) 100)).reason = .update ∧
    causeOf (restart (applyEdits stateA [5, 6, 7]) 100) = causeOf (restart { stateA with ess := 7 } 100) := by
  refine ⟨by decide, by decide⟩

end Kopf.C03
