/-
  C03 — level-triggered convergence across changes, restarts, kills and downtime. Property theorems only.

  The state of `Kopf.C03.loopStep` (Model/C03_Loop.lean, where the whole statement vocabulary lives) is
  what one object carries (`P` progress records, `base` last-handled essence, deletion mark, own
  finalizer), its current essence `ess`, the operator's two memory flags, the clock and whether a watch
  event is pending. "Once changes stop" = nobody but the framework writes; "handlers stop failing" =
  `FinitelyFailing` (every handler's outcome script has finitely many failures: from some retry number
  on every invocation yields a final outcome; `AllFinal` = none at all, which gives the explicit bound).
  The theorems quantify over ALL such states, and `restart_safe` shows that EVERY history of turns (with
  any handler outcomes), external edits, deletion requests, restarts and kills from a fresh object leads
  to one of them.
  GUARD of every theorem about `loopStep env`: the environment `env` (selection, prematch, finalizer
  requirement, handler behaviour) is constant during the silent tail, i.e. filters do not read what
  the framework itself writes — see `Env`, `FiltersStable`, `terminates_stable_partial` and, for what
  happens without it, `unstable_filters_witness`.
  The model follows /repo 608a57d (as reworked by 02af7ce), 30557a0, 40d09eb — and ad4ec08, which took 423b86f back: an object
  the framework is BLIND to is not written to at all, so the clause "no owned progress record remains" of `final_state` /
  `converges` is guarded by `prematch` again (`blind_witness`: finding C03-F2, open again by decision — purging by handler id
  and prefix let one deployment of an operator purge another's records, C15-F9); every other clause holds for EVERY object
  (seen or blind, in deletion or not); a carried no-op never swallows a cycle (`carried_noop_comes_back`,
  `carried_converges`: 02af7ce, the rework of 608a57d — zero delay, touch, the handlers run one turn later); a held-back cycle with a non-empty no-op patch comes back after the deadline
  (`inconsistent_nonempty_revisited`, `inconsistent_converges`). The turns as they were before those repairs
  (`loopStepOld`, `loopStepCOld`, `loopStepIOld`) are kept for the regression theorems
  `free_witness`, `carried_noop_witness`, `carried_noop_blocks_release_witness`, `inconsistent_nonempty_witness`.
  The model follows /repo f7d6401 too (formerly finding C03-N3): the handling pass is `C02.cycleB` — a handler declared
  for the current reason does not inherit the progress recorded under its id for another cause (`pass_is_cycleB`,
  `vis` = the records the pass takes over; `Env.boundH`); `completed_against_final_partial` is guarded by "not finished
  ON THE RECORDS TAKEN OVER" only, `shared_id_regression` shows the former witness handled (the environment without
  reason-bound handlers is the pass as it was). What f7d6401 lost: `namesake_children_leak_witness` (finding C03-N7).
-/
import Kopf.Lemmas.C03_Fail
import Kopf.Lemmas.C03_Relist
import Kopf.Lemmas.C03_Change
namespace Kopf.C03
open Kopf Kopf.C02

variable {E : Type} [DecidableEq E]

/-- TERMINATION with NO assumption on the handlers' scripts, one failure at a time. From every state, within
    `bound env s` turns the closed loop is quiescent, OR it reaches a handling turn (`FailsNow`) whose pass
    runs a handler with a non-final scripted outcome — i.e. it consumes one of the script's failures (the
    handler's retry counter goes up by one, C02 `once_per_cycle`). `bound` is an explicit function of the state: (1 for a finalizer
    adjustment) + 2·(unfinished selected handlers) + (1 if none is due) + (1 if superseded records remain)
    + 1 + keepalive rounds of delays beyond the cap. No bound on handlers, delays or history.
    That a script with finitely many failures is left behind after finitely many such turns is
    `terminates_finitely_failing` below. -/
theorem terminates_or_fails (env : Env) (wf : WF env) :
    ∀ (s : State E), Uniform env s →
      ∃ m, m ≤ bound env s ∧ ((iter env m s).pending = false ∨ FailsNow env (iter env m s)) := by
  have main : ∀ (n : Nat) (s : State E), bound env s ≤ n → UniformOn env.owned s.P →
      ∃ m, m ≤ bound env s ∧ ((iter env m s).pending = false ∨ FailsNow env (iter env m s)) := by
    intro n
    induction n with
    | zero =>
      intro s hn hu
      cases hp : s.pending
      · exact ⟨0, Nat.zero_le _, Or.inl hp⟩
      · by_cases hf : handlesNow env s = true → PassFinal env s
        · have := step_decreases env wf s hf hu hp
          omega
        · exact ⟨0, Nat.zero_le _, Or.inr ⟨Classical.byContradiction (fun h => hf (fun h' => absurd h' h)),
            fun h => hf (fun _ => h)⟩⟩
    | succ n ih =>
      intro s hn hu
      cases hp : s.pending
      · exact ⟨0, Nat.zero_le _, Or.inl hp⟩
      · by_cases hf : handlesNow env s = true → PassFinal env s
        · have hdec := step_decreases env wf s hf hu hp
          obtain ⟨m, hm, hq⟩ := ih (loopStep env s) (by omega) (loopStep_uniform env wf s hu)
          exact ⟨m + 1, by omega, hq⟩
        · exact ⟨0, Nat.zero_le _, Or.inr ⟨Classical.byContradiction (fun h => hf (fun h' => absurd h' h)),
            fun h => hf (fun _ => h)⟩⟩
  intro s hu
  exact main (bound env s) s (Nat.le_refl _) hu

/-- TERMINATION, for every cause including deletion. Once every invocation yields a final outcome, the
    closed loop reaches a state with no pending event within `bound env s` turns (the explicit ranking
    function of `terminates_or_fails`). -/
theorem terminates (env : Env) (wf : WF env) (hfin : AllFinal env) :
    ∀ (s : State E), Uniform env s →
      ∃ m, m ≤ bound env s ∧ (iter env m s).pending = false := by
  intro s hu
  obtain ⟨m, hm, h | ⟨_, h⟩⟩ := terminates_or_fails env wf s hu
  · exact ⟨m, hm, h⟩
  · exact absurd (show PassFinal env (iter env m s) from fun p _ => hfin p.1 p.2) h

/-- TERMINATION for scripts with FINITELY MANY FAILURES (the property's quantifier: "every handler outcome script
    with finitely many failures"). If from some retry number `N` on every invocation yields a final outcome —
    before that the handlers may fail temporarily, raise arbitrary errors, ask for any delays, in any order —
    the closed loop reaches a state with no pending event, from EVERY state, for every cause incl. deletion.
    Proof: `terminates_or_fails` + the failure budget `fb` (Lemmas/C03_Fail: Σ over the handlers selected for
    the open cycle of `N − retries on record`): no turn raises it — the retry counters of selected handlers are
    never reset while the cycle is open — and a turn that consumes a scripted failure lowers it. No bound on
    the number of turns is stated here: between two consumed failures `terminates_or_fails` bounds the turns
    by `bound` of the state reached; a bound that is a function of the first state alone exists only for
    `AllFinal` (`terminates`). -/
theorem terminates_finitely_failing (env : Env) (wf : WF env) (hfin : FinitelyFailing env) :
    ∀ (s : State E), Uniform env s → ∃ m, (iter env m s).pending = false := by
  obtain ⟨N, hN⟩ := hfin
  have main : ∀ (k : Nat) (s : State E), fb env N s ≤ k → UniformOn env.owned s.P →
      ∃ m, (iter env m s).pending = false := by
    intro k
    induction k with
    | zero =>
      intro s hk hu
      obtain ⟨m, _, h | h⟩ := terminates_or_fails env wf s hu
      · exact ⟨m, h⟩
      · have h1 := fb_step_lt env wf N hN (iter env m s) (iter_uniform env wf m s hu) h
        have h2 := fb_iter_le env wf N m s hu
        omega
    | succ k ih =>
      intro s hk hu
      obtain ⟨m, _, h | h⟩ := terminates_or_fails env wf s hu
      · exact ⟨m, h⟩
      · have hum := iter_uniform env wf m s hu
        have h1 := fb_step_lt env wf N hN (iter env m s) hum h
        have h2 := fb_iter_le env wf N m s hu
        obtain ⟨m', hq⟩ := ih (loopStep env (iter env m s)) (by omega) (loopStep_uniform env wf _ hum)
        refine ⟨m + (1 + m'), ?_⟩
        rw [iter_add, iter_add]
        exact hq
  intro s hu
  exact main (fb env N s) s (Nat.le_refl _) hu

/-- FINAL STATE of an object that still exists, WHATEVER it is — seen by the framework or not (no handler's filters
    accept it: "blind"), in deletion (held by somebody else's finalizer only) or not. Whenever the loop has consumed
    its pending event(s) and nothing is pending any more: NO progress record of any owned handler remains — if the
    framework SEES the object (`prematch`; a blind one is not touched: `blind_left_alone`, `blind_witness`) — and the
    framework has stopped writing — even a further (re-)delivered event is processed with no change of records or
    last-handled state and leaves nothing pending; the only request it can cause is the constant part of the patch
    that changes nothing (`cp env`: 0 unless e.g. an `on.event` handler returns a constant). And if the framework
    sees the object (`prematch`) and it is not in deletion, the recorded last-handled state IS the object's essence
    and nothing initial is outstanding. (No hypothesis on the handlers: a safety property of every quiescent state.
    The records clause was guarded by `marked = false` too: C03-N4, repaired by 40d09eb — `free_witness`; its guard
    `prematch` was lifted by 423b86f (C03-F2) and is back with ad4ec08. The last-handled state of a blind object, or of one in
    deletion, is left alone BY DESIGN: it is what makes the changes made meanwhile arrive as ONE accumulated update
    when the object matches again; no handler is selected for such an object.) -/
theorem final_state (env : Env) (m : Nat) :
    ∀ (s : State E), s.pending = true → s.gone = false →
      (iter env m s).pending = false → (iter env m s).gone = false →
      (env.prematch = true → ∀ i ∈ env.owned, (iter env m s).P i = none) ∧
      (env.prematch = true → s.marked = false →
        (iter env m s).base = some s.ess ∧
        ((iter env m s).noticed = true → (iter env m s).fullyHandled = true)) ∧
      (loopStep env { iter env m s with pending := true }).writes = (iter env m s).writes + cp env ∧
      (loopStep env { iter env m s with pending := true }).pending = false ∧
      (loopStep env { iter env m s with pending := true }).base = (iter env m s).base ∧
      (∀ i, (loopStep env { iter env m s with pending := true }).P i = (iter env m s).P i) := by
  induction m with
  | zero => intro s hp _ hq _; simp only [iter] at hq; rw [hp] at hq; cases hq
  | succ m ih =>
    intro s hp hg hq hgq
    simp only [iter] at hq hgq ⊢
    cases hp' : (loopStep env s).pending
    · -- quiescence is reached by this very turn
      rw [iter_quiescent env m _ hp'] at hgq ⊢
      have hs := quiescent_settled env s hp hg hp' hgq
      obtain ⟨h1, h2, h3, h4⟩ := settled_event_no_write env (loopStep env s) hs
      refine ⟨hs.norec, ?_, h1, h2, h3, h4⟩
      intro hpm hmk
      have hmk' : (loopStep env s).marked = false := by rw [loopStep_marked]; exact hmk
      obtain ⟨hb, hi⟩ := hs.handled hpm hmk'
      rw [loopStep_ess] at hb
      refine ⟨hb, ?_⟩
      intro hnt
      rw [hnt] at hi
      simpa using hi
    · -- an event is still pending: continue from the next state (same essence, same deletion mark)
      have hg2 : (loopStep env s).gone = false := by
        cases hg2 : (loopStep env s).gone
        · rfl
        · rw [iter_gone env m _ hg2] at hgq; cases hgq
      have h := ih (loopStep env s) hp' hg2 hq hgq
      rw [loopStep_ess, loopStep_marked] at h
      exact h

/-- FINAL STATE of an object that is being deleted and held by the framework's finalizer: whenever
    nothing is pending any more, the own finalizer has been removed — the object is gone, unless
    somebody else's finalizer still holds it ("gone or released"). -/
theorem final_state_deleted (env : Env) (m : Nat) :
    ∀ (s : State E), s.pending = true → s.gone = false → s.marked = true → s.blocked = true →
      (iter env m s).pending = false →
      (iter env m s).blocked = false ∧ (iter env m s).gone = !env.foreignFins := by
  induction m with
  | zero => intro s hp _ _ _ hq; simp only [iter] at hq; rw [hp] at hq; cases hq
  | succ m ih =>
    intro s hp hg hmk hbl hq
    simp only [iter] at hq ⊢
    rcases marked_step env s hp hg hmk hbl with ⟨hp', hg', hm', hb'⟩ | ⟨hb', hg'⟩
    · exact ih (loopStep env s) hp' hg' hm' hb' hq
    · -- released by this turn; nothing can be pending on a gone object, and a surviving one is FREE
      cases hp' : (loopStep env s).pending
      · rw [iter_quiescent env m _ hp']; exact ⟨hb', hg'⟩
      · -- still pending (a foreign finalizer holds it): the remaining turns are FREE ones
        have key : ∀ (k : Nat) (t : State E), t.blocked = false → t.marked = true →
            (iter env k t).blocked = false ∧ (iter env k t).gone = t.gone := by
          intro k
          induction k with
          | zero => intro t hb _; exact ⟨hb, rfl⟩
          | succ k ihk =>
            intro t hb hmt
            simp only [iter]
            obtain ⟨s1, s2, s3⟩ := free_step env t hb hmt
            obtain ⟨h1, h2⟩ := ihk (loopStep env t) s1 s3
            exact ⟨h1, by rw [h2, s2]⟩
        have hm' : (loopStep env s).marked = true := by rw [loopStep_marked]; exact hmk
        obtain ⟨h1, h2⟩ := key m (loopStep env s) hb' hm'
        exact ⟨h1, by rw [h2, hg']⟩

/-- CONVERGENCE = termination + final state, for EVERY object (seen or blind, in deletion or not): within the bound
    the loop is quiescent; an object that is not in deletion is still there; and an object that is still there
    carries no progress record (if the framework sees it: C03-F2 is open again, ad4ec08), is not written to any more,
    and — if the framework sees it and it is not in deletion — its recorded last-handled state is its essence.
    (The records clause was guarded by `marked = false` as well: C03-N4, repaired by 40d09eb.) -/
theorem converges (env : Env) (wf : WF env) (hfin : AllFinal env)
    (s : State E) (hu : Uniform env s) (hp : s.pending = true) (hg : s.gone = false) :
    ∃ m, m ≤ bound env s ∧ (iter env m s).pending = false ∧
      (s.marked = false → (iter env m s).gone = false) ∧
      ((iter env m s).gone = false →
        (env.prematch = true → ∀ i ∈ env.owned, (iter env m s).P i = none) ∧
        (env.prematch = true → s.marked = false → (iter env m s).base = some s.ess) ∧
        (loopStep env { iter env m s with pending := true }).writes = (iter env m s).writes + cp env ∧
        (loopStep env { iter env m s with pending := true }).pending = false) := by
  obtain ⟨m, hm, hq⟩ := terminates env wf hfin s hu
  refine ⟨m, hm, hq, fun hmk => iter_unmarked_stays env m s hg hmk, ?_⟩
  intro hgq
  obtain ⟨h1, h2, h3, h4, _⟩ := final_state env m s hp hg hq hgq
  exact ⟨h1, fun a b => (h2 a b).1, h3, h4⟩

/-- CONVERGENCE for scripts with finitely many failures (no bound in terms of the first state alone). -/
theorem converges_finitely_failing (env : Env) (wf : WF env) (hfin : FinitelyFailing env)
    (s : State E) (hu : Uniform env s) (hp : s.pending = true) (hg : s.gone = false) :
    ∃ m, (iter env m s).pending = false ∧
      (s.marked = false → (iter env m s).gone = false) ∧
      ((iter env m s).gone = false →
        (env.prematch = true → ∀ i ∈ env.owned, (iter env m s).P i = none) ∧
        (env.prematch = true → s.marked = false → (iter env m s).base = some s.ess) ∧
        (loopStep env { iter env m s with pending := true }).writes = (iter env m s).writes + cp env ∧
        (loopStep env { iter env m s with pending := true }).pending = false) := by
  obtain ⟨m, hq⟩ := terminates_finitely_failing env wf hfin s hu
  refine ⟨m, hq, fun hmk => iter_unmarked_stays env m s hg hmk, ?_⟩
  intro hgq
  obtain ⟨h1, h2, h3, h4, _⟩ := final_state env m s hp hg hq hgq
  exact ⟨h1, fun a b => (h2 a b).1, h3, h4⟩

/-- CONVERGENCE of a deletion whose handlers' scripts have finitely many failures. -/
theorem deletion_converges_finitely_failing (env : Env) (wf : WF env) (hfin : FinitelyFailing env)
    (s : State E) (hu : Uniform env s) (hp : s.pending = true) (hg : s.gone = false)
    (hmk : s.marked = true) (hbl : s.blocked = true) :
    ∃ m, (iter env m s).pending = false ∧ (iter env m s).blocked = false ∧ (iter env m s).gone = !env.foreignFins := by
  obtain ⟨m, hq⟩ := terminates_finitely_failing env wf hfin s hu
  obtain ⟨h1, h2⟩ := final_state_deleted env m s hp hg hmk hbl hq
  exact ⟨m, hq, h1, h2⟩

/-- CONVERGENCE of a deletion: the delete handlers stop failing ⇒ within `bound env s` turns the own
    finalizer is released and the object is gone (or left to the foreign finalizers). This is the
    "is ever released" half that a one-cycle statement about the finalizer cannot give. -/
theorem deletion_converges (env : Env) (wf : WF env) (hfin : AllFinal env)
    (s : State E) (hu : Uniform env s) (hp : s.pending = true) (hg : s.gone = false)
    (hmk : s.marked = true) (hbl : s.blocked = true) :
    ∃ m, m ≤ bound env s ∧ (iter env m s).pending = false ∧
      (iter env m s).blocked = false ∧ (iter env m s).gone = !env.foreignFins := by
  obtain ⟨m, hm, hq⟩ := terminates env wf hfin s hu
  obtain ⟨h1, h2⟩ := final_state_deleted env m s hp hg hmk hbl hq
  exact ⟨m, hm, hq, h1, h2⟩

/-- The cycle is closed — the last-handled state becomes the essence — exactly by a pass after which
    every handler selected for the outstanding change has a final outcome on record; a turn of the loop
    changes the last-handled state in no other way. -/
theorem all_selected_completed (env : Env) (wf : WF env) (s : State E) (hp : s.pending = true)
    (hg : s.gone = false) (hh : isHandler s = true) (hne : (selOf env s).isEmpty = false) :
    ((pass env s).closed = true ↔
      ∀ i ∈ selOf env s, ∃ h, postState (cfgOf env s) (vis env s) s.now s.now env.exec i = some h ∧
        h.r.finished = true) ∧
    ((loopStep env s).base = (if (pass env s).closed then some s.ess else s.base) ∨
     (loopStep env s).base = s.base) := by
  constructor
  · exact closed_iff_all_finished (cfgOf env s) (vis env s) s.now s.now env.exec (fun i hi => selOf_sub env wf s i hi) hh hne
  · rcases turn_cases env s hp hg with ⟨_, _, _, _, h⟩ | ⟨_, _, h⟩ | ⟨_, _, h⟩ | ⟨_, _, _, _, _, h⟩ | ⟨_, _, _, _, h⟩ |
      ⟨_, _, _, _, _, h⟩
    · right; rw [h]; rfl
    · right; rw [h]; rfl
    · right; rw [h]; rfl
    · left; rw [h]; rfl
    · right; rw [h]; exact (purgeTurn_fields env s).2.2.2.2.2.1
    · left; rw [h]
      rcases handleTurn_cases env s with ⟨_, h'⟩ | ⟨d, _, _, h'⟩ | ⟨_, _, h'⟩ <;> rw [h'] <;> rfl

/-- the pass of turn `k` takes handler `i` from unfinished — on the records it takes over (`vis`): a namesake's
    finished record under the same id does not count — to a final outcome on record -/
def CompletedIn (env : Env) (s : State E) (m k : Nat) (i : Id) : Prop :=
  unfin (vis env (iter env k s)) i = true ∧
  ((k < m ∧ ∃ r, (iter env (k + 1) s).P i = some r ∧ r.finished = true) ∨
   (k = m ∧ ∃ h, postState (cfgOf env (iter env k s)) (vis env (iter env k s)) (iter env k s).now (iter env k s).now
                   env.exec i = some h ∧ h.r.finished = true))

/-- FULL STATEMENT (property): every handler selected for the outstanding change has completed against
    the object's FINAL essential state, i.e. in one of the passes of the silent tail (turns `0..m`, the
    `m`-th being the closing one; every one of them is a pass on `s.ess`):
      `∀ i ∈ selOf env s, ∃ k ≤ m, CompletedIn env s m k i`.
    That is FALSE of the code (`absorbed_change_witness`: known finding C03-F4).
    PROVED HERE under the exact guard: the handler is not yet recorded as finished — by a record of ITS OWN, i.e. one
    the pass takes over (`vis`) — when the last change arrives. (Since /repo f7d6401 the finished record of a NAMESAKE,
    the same id registered for another cause, is no such record: the former second witness, C03-N3, is covered by
    this theorem — `shared_id_regression`.) -/
theorem completed_against_final_partial (env : Env) (wf : WF env)
    (hpm : env.prematch = true) (m : Nat) :
    ∀ (s : State E), s.pending = true → s.gone = false → adjusting env s = false → isHandler s = true →
      (∀ k < m, (pass env (iter env k s)).closed = false) → (pass env (iter env m s)).closed = true →
      ∀ i ∈ selOf env s, unfin (vis env s) i = true → ∃ k, k ≤ m ∧ CompletedIn env s m k i := by
  induction m with
  | zero =>
    intro s hp hg _ hh _ hc i hi hu
    have hne : (selOf env s).isEmpty = false := by
      cases hl : selOf env s with
      | nil => rw [hl] at hi; simp at hi
      | cons a as => rfl
    refine ⟨0, Nat.le_refl _, hu, Or.inr ⟨rfl, ?_⟩⟩
    exact (all_selected_completed env wf s hp hg hh hne).1.1 hc i hi
  | succ m ih =>
    intro s hp hg ha hh hopen hc i hi hu
    have h0 : (pass env s).closed = false := hopen 0 (Nat.succ_pos _)
    obtain ⟨now', w, h⟩ := open_next env s hp hg ha hpm hh h0
    have hcz : causeOf (loopStep env s) = causeOf s := by
      rw [h]; exact causeOf_congr s _ (by simp [nextState, h0]) rfl rfl (by simp [nextState, h0]) rfl rfl
    have hV : vis env (loopStep env s) = (loopStep env s).P := by
      rw [h]; exact vis_nextState env wf s hh h0 _ _ _
    cases hu' : unfin (loopStep env s).P i
    · -- finished by this very pass
      refine ⟨0, Nat.zero_le _, hu, Or.inl ⟨Nat.succ_pos _, ?_⟩⟩
      simp only [iter]
      unfold unfin at hu'
      cases hP : (loopStep env s).P i with
      | none => simp [hP] at hu'
      | some r => exact ⟨r, rfl, by simpa [hP] using hu'⟩
    · have hp' : (loopStep env s).pending = true := by rw [h]; rfl
      have hg' : (loopStep env s).gone = false := by rw [h]; exact hg
      have ha' : adjusting env (loopStep env s) = false := by
        rw [h, adjusting_eq]
        show ((env.prematch && env.changeReq && !s.blocked && !s.marked) ||
              (!(env.prematch && env.changeReq) && s.blocked)) = false
        rw [← adjusting_eq]; exact ha
      have hh' : isHandler (loopStep env s) = true := by unfold isHandler; rw [hcz]; exact hh
      have hi' : i ∈ selOf env (loopStep env s) := by
        rw [h]; rw [h] at hu'
        exact selOf_next_mem env s h0 _ _ _ i hi hu'
      obtain ⟨k, hk, hcomp⟩ := ih (loopStep env s) hp' hg' ha' hh'
        (fun k hk => hopen (k + 1) (Nat.succ_lt_succ hk)) hc i hi' (by rw [hV]; exact hu')
      refine ⟨k + 1, Nat.succ_le_succ hk, ?_⟩
      obtain ⟨h1, h2⟩ := hcomp
      refine ⟨h1, ?_⟩
      rcases h2 with ⟨hlt, hr⟩ | ⟨heq, hr⟩
      · exact Or.inl ⟨Nat.succ_lt_succ hlt, hr⟩
      · exact Or.inr ⟨by omega, hr⟩

/-- Delayed handlers are always woken (C03-F7, repaired by 7224f57; C03-N1, repaired by b7bf39c): whether the
    cycle's patch changes the object, holds content that changes nothing on the server (`constPatch`), or sends
    no request at all — a pass that leaves the cycle open leaves an event pending: the echo of a PATCH that
    changed the object, or the touch after the sleep. A cycle that STARTS with a patch carried over from a rejected
    JSON-patch (`memory.remaining_patch`, C08's transport) has its own turn `loopStepC` below. -/
theorem open_pass_leaves_event (env : Env) (s : State E) (hp : s.pending = true) (hg : s.gone = false)
    (ha : adjusting env s = false) (hpm : env.prematch = true) (hh : isHandler s = true)
    (hc : (pass env s).closed = false) :
    (loopStep env s).pending = true ∧ s.writes < (loopStep env s).writes := by
  obtain ⟨now', w, hx⟩ := open_next env s hp hg ha hpm hh hc
  rcases turn_cases env s hp hg with ⟨h1, _⟩ | ⟨h1, _⟩ | ⟨_, h1, _⟩ | ⟨_, _, _, hbl, _, h⟩ | ⟨_, _, hm1, hb1, _⟩ |
    ⟨_, _, _, _, _, h⟩
  · unfold adjusting at ha; simp [h1] at ha
  · unfold adjusting at ha; simp [h1] at ha
  · rw [hpm] at h1; cases h1
  · -- the release turn is excluded by `open_next`'s shape: it never keeps `blocked`
    rw [hx] at h
    have := congrArg State.blocked h
    simp [nextState, releaseTurn, hbl] at this
  · have := handler_marked_blocked s hh hm1
    rw [hb1] at this; cases this
  · rw [h]
    rcases handleTurn_cases env s with ⟨_, h'⟩ | ⟨d, _, _, h'⟩ | ⟨_, hm, h'⟩
    · rw [h']; exact ⟨rfl, by simp [nextState]⟩
    · rw [h']; exact ⟨rfl, by simp [nextState]; omega⟩
    · obtain ⟨_, _, hy⟩ := open_handle_pending env s hh hc
      rw [h'] at hy
      have := congrArg State.pending hy
      simp [nextState] at this

/-- After the last change, a handler that reached a final outcome in one turn of the loop is not
    invoked in any later turn of the same handling cycle (C02's once-per-cycle, along the closed loop). -/
theorem invoked_once_after_last_change (env : Env) (wf : WF env) (hpm : env.prematch = true)
    (s : State E) (hp : s.pending = true) (hg : s.gone = false) (ha : adjusting env s = false)
    (hh : isHandler s = true) (hne : NoExtras (cfgOf env s) (vis env s))
    (i : Id) (n : Nat) (hinv : (i, n) ∈ (pass env s).invoked) (hfin : (env.exec i n).final = true)
    (hopen : (pass env s).closed = false) (k : Nat) :
    ∀ l ∈ invsOf env k (loopStep env s), ∀ m, (i, m) ∉ l := by
  obtain ⟨now', w, h⟩ := open_next env s hp hg ha hpm hh hopen
  have hcz : causeOf (nextState env s now' true w) = causeOf s :=
    causeOf_congr s _ (by simp [nextState, hopen]) rfl rfl (by simp [nextState, hopen]) rfl rfl
  have hcz' : causeOf (loopStep env s) = causeOf s := by rw [h]; exact hcz
  have hh' : isHandler (loopStep env s) = true := by unfold isHandler; rw [hcz']; exact hh
  have hp' : (loopStep env s).pending = true := by rw [h]; rfl
  have hg' : (loopStep env s).gone = false := by rw [h]; exact hg
  have ha' : adjusting env (loopStep env s) = false := by
    rw [h, adjusting_eq]
    show ((env.prematch && env.changeReq && !s.blocked && !s.marked) ||
          (!(env.prematch && env.changeReq) && s.blocked)) = false
    rw [← adjusting_eq]; exact ha
  have hP : vis env (loopStep env s) = (cycle (cfgOf env s) (vis env s) s.now s.now env.exec).P' := by
    rw [h]; exact vis_nextState env wf s hh hopen _ _ _
  rw [invs_eq env wf hpm k (loopStep env s) hp' hg' ha' hh', hcz', hP]
  have hsubs : ∀ st ∈ (⟨s.now, s.now, env.exec, selOf env s, env.limits, env.lifecycle⟩ : StepV) ::
      toSteps env (stepsOf env k (loopStep env s)), ∀ j ∈ st.selected, j ∈ env.owned := by
    intro st hst j hj
    rcases List.mem_cons.1 hst with rfl | hst
    · exact selOf_sub env wf s j hj
    · exact toSteps_sub env wf k _ st hst j hj
  exact once_per_cycle_varying env.owned (C14.reasonStr (causeOf s).reason) hh (vis env s) hne
    ⟨s.now, s.now, env.exec, selOf env s, env.limits, env.lifecycle⟩
    (toSteps env (stepsOf env k (loopStep env s))) hsubs i n hinv hfin hopen

/-- RESTART SAFETY, over whole histories. Take a freshly created object and ANY finite history of:
    turns of the operator with ARBITRARY handler outcomes (failures included), external edits, deletion
    requests, operator restarts, and kills — before the in-flight write reached the server
    (`lostWrite`) or after the server applied it (`turn` then `restart`) — where EVERY action may come with
    its own environment (selection, prematch, finalizer requirement, limits, lifecycle, latencies: label
    edits and operator upgrades), all over the same registered handler ids. The state it leads to meets
    the hypothesis of `terminates_finitely_failing` / `terminates` for the environment in force in the end:
    once the handlers' scripts have only finitely many failures left, the loop converges from there — and
    within the bound of that state if they do not fail at all any more. (Induction over the history.)
    Not an action: a kill between the two requests of a releasing turn (C08's transport). -/
theorem restart_safe (env : Env) (wf : WF env) (hfin : FinitelyFailing env) (hist : List (Env × Act E))
    (hall : ∀ ea ∈ hist, WF ea.1 ∧ ea.1.owned = env.owned) (e : E) (t : Tick) :
    Uniform env (runActsV (created e t) hist) ∧
    (∃ m, (iter env m (runActsV (created e t) hist)).pending = false) ∧
    (AllFinal env → ∃ m, m ≤ bound env (runActsV (created e t) hist) ∧
      (iter env m (runActsV (created e t) hist)).pending = false) := by
  have hu0 : UniformOn env.owned (created e t).P := ⟨"", fun i _ r h => by simp [created] at h⟩
  have hu := runActsV_uniform env.owned hist hall (created e t) hu0
  exact ⟨hu, terminates_finitely_failing env wf hfin _ hu, fun ha => terminates env wf ha _ hu⟩

/-- ACCUMULATED CHANGE. However many edits were made while no operator ran, (a) the first cause the new
    process computes depends only on the stored last-handled state and the FINAL essence — creation if
    nothing was ever handled, ONE update (last-handled → final) if they differ, resuming if they agree —
    and (b) they are handled by at most ONE handling cycle: along any number of turns the last-handled
    state is written by at most one closing pass. -/
theorem accumulated_change (env : Env) (s : State E) (edits : List E) (t : Tick) (hm : s.marked = false) :
    let fin := (edits.getLast?).getD s.ess
    causeOf (restart (applyEdits s edits) t) = causeOf (restart { s with ess := fin } t) ∧
    (s.base = none → (causeOf (restart (applyEdits s edits) t)).reason = .create) ∧
    (∀ b, s.base = some b → b ≠ fin → (causeOf (restart (applyEdits s edits) t)).reason = .update) ∧
    (s.base = some fin → (causeOf (restart (applyEdits s edits) t)).reason = .resume) ∧
    (∀ n, closings env n (restart (applyEdits s edits) t) ≤ 1) := by
  intro fin
  obtain ⟨h1, _, h3, h4, _, h6⟩ := applyEdits_fields edits s
  have hc : causeOf (restart (applyEdits s edits) t) = causeOf (restart { s with ess := fin } t) := by
    unfold causeOf restart
    simp only [h1, h3, h4, h6]
    rfl
  have hone : ∀ (n : Nat) (u : State E), closings env n u ≤ 1 := by
    intro n
    induction n with
    | zero => intro u; exact Nat.zero_le _
    | succ n ih =>
      intro u
      simp only [closings]
      by_cases hi : (u.pending && !u.gone && (decisionOf env u).handlersRun && (pass env u).closed) = true
      · simp only [hi, if_true]
        simp only [Bool.and_eq_true, Bool.not_eq_true'] at hi
        obtain ⟨⟨⟨hp, hg⟩, hrun⟩, hcl⟩ := hi
        have := closings_zero env n (loopStep env u) (after_closing env u hp hg hrun hcl)
        omega
      · simp only [hi, Bool.false_eq_true, if_false, Nat.zero_add]
        exact ih _
  refine ⟨hc, ?_, ?_, ?_, fun n => hone n _⟩
  · intro hb
    rw [hc]; simp [causeOf, restart, hb, hm, C05.detect, C05.detectReason]
  · intro b hb hne
    have : some b ≠ some fin := fun h => hne (Option.some.inj h)
    rw [hc]; simp [causeOf, restart, hb, hm, this, C05.detect, C05.detectReason]
  · intro hb
    rw [hc]; simp [causeOf, restart, hb, hm, C05.detect, C05.detectReason]

/-- An object no changing handler's filters accept (and whose finalizer needs no adjustment) is LEFT ALONE: no handler
    runs, nothing is read or written (but the constant part of the patch), no event follows; the last-handled state and
    whatever progress records the object carries stay as they are. (Repo fix 423b86f had the leftover records purged
    — by handler id and annotation prefix, which every deployment of the same operator code shares: one deployment
    purged what another had just stored, C15-F9 — and ad4ec08 took it back.) -/
theorem blind_left_alone (env : Env) (hpm : env.prematch = false) (s : State E) (hp : s.pending = true)
    (hg : s.gone = false) (ha : adjusting env s = false) :
    (loopStep env s).base = s.base ∧ (loopStep env s).P = s.P ∧
    (loopStep env s).pending = false ∧ (loopStep env s).writes = s.writes + cp env ∧
    (loopStep env s).blocked = s.blocked ∧ (loopStep env s).gone = false := by
  rcases turn_cases env s hp hg with ⟨h1, _⟩ | ⟨h1, _⟩ | ⟨_, _, h⟩ | ⟨_, h1, _⟩ | ⟨_, h1, _⟩ | ⟨_, h1, _⟩
  · unfold adjusting at ha; simp [h1] at ha
  · unfold adjusting at ha; simp [h1] at ha
  · rw [h]; exact ⟨rfl, rfl, rfl, rfl, rfl, hg⟩
  · rw [hpm] at h1; cases h1
  · rw [hpm] at h1; cases h1
  · rw [hpm] at h1; cases h1

/-- A marked object that the own finalizer does not hold (any more) — released, or never blocked — and that
    still exists because somebody else's finalizer holds it: the cause is FREE; no handler runs, finalizer and
    last-handled state are left alone, and the leftover progress records PRESENT on it are purged (repo fix 40d09eb,
    formerly C03-N4): one PATCH and its echo, or — nothing to purge — nothing written. Either way no owned record is on
    the object afterwards. (If the framework sees the object: blindness comes first, `blind_left_alone`.) -/
theorem free_purges (env : Env) (hpm : env.prematch = true) (s : State E) (hp : s.pending = true) (hg : s.gone = false)
    (hmk : s.marked = true) (hbl : s.blocked = false) :
    (loopStep env s).base = s.base ∧ (∀ i ∈ env.owned, (loopStep env s).P i = none) ∧
    (leftovers env s = true → (loopStep env s).pending = true ∧ (loopStep env s).writes = s.writes + 1) ∧
    (leftovers env s = false → (loopStep env s).pending = false ∧
      (loopStep env s).writes = s.writes + cp env ∧ (loopStep env s).P = s.P) ∧
    (loopStep env s).gone = false ∧ (loopStep env s).blocked = false := by
  obtain ⟨f1, f2, _⟩ := free_step env s hbl hmk
  rcases turn_cases env s hp hg with ⟨_, h1, _⟩ | ⟨_, h1, _⟩ | ⟨_, hb, _⟩ | ⟨_, _, _, h1, _⟩ | ⟨_, _, _, _, h⟩ |
    ⟨_, _, _, _, hfr, _⟩
  · rw [hmk] at h1; cases h1
  · rw [hbl] at h1; cases h1
  · rw [hpm] at hb; cases hb
  · rw [hbl] at h1; cases h1
  · obtain ⟨a, b, c, d⟩ := purgeTurn_spec env s
    rw [h] at f1 f2 ⊢; exact ⟨a, b, c, d, f2.trans hg, f1⟩
  · exact absurd ((free_iff s).2 ⟨hmk, hbl⟩) hfr

/-- The `skip` pass (a handler reason, but no handler selected any more — e.g. the retrying handler's
    label filter stopped matching): the cycle is closed, the last-handled state becomes the essence and
    EVERY owned progress record is purged. (Formerly false of the code: C03-F1, repaired by 2ae938f.) -/
theorem skip_path_purges (env : Env) (s : State E) (hp : s.pending = true) (hg : s.gone = false)
    (ha : adjusting env s = false) (hpm : env.prematch = true) (hmk : s.marked = false)
    (hh : isHandler s = true) (he : (selOf env s).isEmpty = true) :
    (loopStep env s).base = some s.ess ∧ (loopStep env s).fullyHandled = true ∧
    ∀ i ∈ env.owned, (loopStep env s).P i = none := by
  obtain ⟨hc, hn⟩ := closed_purges_skip (cfgOf env s) (vis env s) s.now s.now env.exec hh he
  have hc' : (pass env s).closed = true := hc
  rcases turn_cases env s hp hg with ⟨h1, _⟩ | ⟨h1, _⟩ | ⟨_, h1, _⟩ | ⟨_, _, h1, _⟩ | ⟨_, _, h1, _⟩ |
    ⟨_, _, _, _, _, h⟩
  · unfold adjusting at ha; simp [h1] at ha
  · unfold adjusting at ha; simp [h1] at ha
  · rw [hpm] at h1; cases h1
  · rw [hmk] at h1; cases h1
  · rw [hmk] at h1; cases h1
  · rw [h]
    rcases handleTurn_cases env s with ⟨_, h'⟩ | ⟨d, _, _, h'⟩ | ⟨_, _, h'⟩ <;> rw [h'] <;>
      exact ⟨by simp [nextState, hc'], by simp [nextState, hc'], hn⟩

/-- "The recorded last-handled state" is written by a handling pass that CLOSES its cycle, and by nothing else. A turn of
    the loop that changes `base` is a turn in which `process_changing_cause` is reached — not a turn dedicated to the
    finalizer (adding it, removing the unneeded one), not a blind one, not the purge of a FREE object — its pass closed
    (every selected handler has finished, or none is selected), and what it writes is the essence of the event at hand.
    So a state in which `base = some ess` has been reached through a closing pass on that very essence (or started
    that way): the oracle's clause "last-handled stored by a cycle without a handling pass" (white-box review m4: a
    finalizer-adding turn that also stored the diff-base made every creation look handled — the final state was
    perfect, no handler had been called) states the same of the real operator's request log. No hypothesis. -/
theorem last_handled_written_only_by_closing_pass (env : Env) (s : State E)
    (hb : (loopStep env s).base ≠ s.base) :
    s.pending = true ∧ s.gone = false ∧ adjusting env s = false ∧ (decisionOf env s).handlersRun = true ∧
    (pass env s).closed = true ∧ (loopStep env s).base = some s.ess := by
  by_cases hp : s.pending = true
  rotate_left
  · exact absurd (by unfold loopStep; simp [hp]) hb
  by_cases hg : s.gone = false
  rotate_left
  · have hg' : s.gone = true := by simpa using hg
    exact absurd (by unfold loopStep; simp [hp, hg']) hb
  have hnext : ∀ (t : Tick) (pd : Bool) (w : Nat), (nextState env s t pd w).base ≠ s.base →
      (pass env s).closed = true ∧ (nextState env s t pd w).base = some s.ess := by
    intro t pd w h
    by_cases hc : (pass env s).closed = true
    · exact ⟨hc, by simp [nextState, hc]⟩
    · exact absurd (by simp [nextState, hc]) h
  have hrunOf : adjusting env s = false → env.prematch = true → (decisionOf env s).handlersRun = true := by
    intro ha hpm
    unfold adjusting at ha
    rw [dec_run, hpm, ha]; rfl
  rcases turn_cases env s hp hg with ⟨_, _, _, _, h⟩ | ⟨_, _, h⟩ | ⟨_, _, h⟩ | ⟨ha, hpm, _, _, _, h⟩ | ⟨_, _, _, _, h⟩ |
    ⟨ha, hpm, _, _, _, h⟩
  · exact absurd (by rw [h]; rfl) hb
  · exact absurd (by rw [h]; rfl) hb
  · exact absurd (by rw [h]; rfl) hb
  · rw [h] at hb ⊢
    obtain ⟨hc, he⟩ := hnext _ _ _ (by simpa [releaseTurn] using hb)
    exact ⟨hp, hg, ha, hrunOf ha hpm, hc, by simpa [releaseTurn] using he⟩
  · have : (purgeTurn env s).base = s.base := by unfold purgeTurn; split <;> rfl
    exact absurd (by rw [h]; exact this) hb
  · rw [h] at hb ⊢
    rcases handleTurn_cases env s with ⟨_, h'⟩ | ⟨d, _, _, h'⟩ | ⟨_, _, h'⟩ <;> rw [h'] at hb ⊢ <;>
      (obtain ⟨hc, he⟩ := hnext _ _ _ hb; exact ⟨hp, hg, ha, hrunOf ha hpm, hc, he⟩)

/-- … and neither does a turn that skips the handlers because the cycle STARTS with a carried patch, or because it is held
    back by the consistency barrier with a patch accumulated: whenever such a turn differs from the ordinary one, the
    last-handled state is what it was. -/
theorem last_handled_kept_by_skipping_turns (env : Env) (s : State E) (hp : s.pending = true) (hg : s.gone = false)
    (ha : adjusting env s = false) (hpm : env.prematch = true) (c : Carried) (hc : c ≠ .none) (dl : Tick) :
    (loopStepC env c s).base = s.base ∧ (loopStepI env true dl s).base = s.base := by
  constructor
  · unfold loopStepC
    have : (c = .none || !s.pending || s.gone || adjusting env s || !env.prematch) = false := by
      simp [hc, hp, hg, ha, hpm]
    rw [this]
    simp only [Bool.false_eq_true, if_false]
    split <;> rfl
  · unfold loopStepI
    have : (!s.pending || s.gone || adjusting env s || !env.prematch) = false := by simp [hp, hg, ha, hpm]
    rw [this]
    simp

/-- The pass after which every SELECTED handler has finished closes the cycle WHATEVER other records the object
    carries — e.g. the UNFINISHED record, same purpose, of a handler that is not selected any more (its field was
    reverted, its label flipped, while it was retrying: the history of seed C03d): the last-handled state becomes the
    essence, `fully_handled_once` is set and EVERY owned record is purged, that one included. No hypothesis on `s.P`. -/
theorem closing_ignores_unselected_records (env : Env) (wf : WF env) (s : State E)
    (hp : s.pending = true) (hg : s.gone = false)
    (ha : adjusting env s = false) (hpm : env.prematch = true) (hmk : s.marked = false)
    (hh : isHandler s = true) (hne : (selOf env s).isEmpty = false)
    (hall : ∀ i ∈ selOf env s, ∃ h, postState (cfgOf env s) (vis env s) s.now s.now env.exec i = some h ∧
      h.r.finished = true) :
    (loopStep env s).base = some s.ess ∧ (loopStep env s).fullyHandled = true ∧
    ∀ i ∈ env.owned, (loopStep env s).P i = none := by
  have hc : (pass env s).closed = true :=
    (closed_iff_all_finished (cfgOf env s) (vis env s) s.now s.now env.exec (fun i hi => selOf_sub env wf s i hi) hh hne).2 hall
  have hn : ∀ i ∈ env.owned, (pass env s).P' i = none :=
    closed_purges (cfgOf env s) (vis env s) s.now s.now env.exec hh hne hc
  rcases turn_cases env s hp hg with ⟨h1, _⟩ | ⟨h1, _⟩ | ⟨_, h1, _⟩ | ⟨_, _, h1, _⟩ | ⟨_, _, h1, _⟩ |
    ⟨_, _, _, _, _, h⟩
  · unfold adjusting at ha; simp [h1] at ha
  · unfold adjusting at ha; simp [h1] at ha
  · rw [hpm] at h1; cases h1
  · rw [hmk] at h1; cases h1
  · rw [hmk] at h1; cases h1
  · rw [h]
    rcases handleTurn_cases env s with ⟨_, h'⟩ | ⟨d, _, _, h'⟩ | ⟨_, _, h'⟩ <;> rw [h'] <;>
      exact ⟨by simp [nextState, hc], by simp [nextState, hc], hn⟩

/-- What the pass invokes and whether it closes the cycle depends on the records of the SELECTED handlers only:
    replace every other record of the object by anything (`Q`), the pass decides alike. (Whether a record is taken over
    depends on that record alone: `C02.taken_congr_at`.) -/
theorem pass_ignores_unselected_records (env : Env) (wf : WF env) (s : State E) (Q : C02.Store)
    (hagree : ∀ i ∈ selOf env s, s.P i = Q i) :
    (pass env { s with P := Q }).closed = (pass env s).closed ∧
    (pass env { s with P := Q }).invoked = (pass env s).invoked := by
  have h := closed_ignores_unselected_records (cfgOf env s) (vis env s) (vis env { s with P := Q }) s.now s.now env.exec
    (fun i hi => selOf_sub env wf s i hi) (fun i hi => taken_congr_at (hagree i hi))
  exact ⟨h.1.symm, h.2.symm⟩

/-! ### filters that read what the framework writes: the guard, made explicit -/

theorem iter_succ' (env : Env) (n : Nat) : ∀ s : State E, iter env (n + 1) s = loopStep env (iter env n s) := by
  induction n with
  | zero => intro s; rfl
  | succ n ih => intro s; simp only [iter] at ih ⊢; exact ih _

theorem iterG_succ' (envOf : State E → Env) (n : Nat) :
    ∀ s : State E, iterG envOf (n + 1) s = loopStepG envOf (iterG envOf n s) := by
  induction n with
  | zero => intro s; rfl
  | succ n ih => intro s; simp only [iterG] at ih ⊢; exact ih _

/-- FULL STATEMENT (property): for an operator whose filters are evaluated on the whole body — also on what the
    framework itself writes — the loop terminates: `∀ envOf s, … → ∃ m, (iterG envOf m s).pending = false`.
    That is FALSE (`unstable_filters_witness`, replayed on the real operator: a deletion handler whose filter
    reads the framework's own finalizer makes it add and remove that finalizer for ever).
    PROVED HERE under the guard `FiltersStable` (the environment computed from the whole state does not move
    along the silent tail): the loop of such an operator IS the loop of the constant environment, and
    therefore terminates within the same bound. The guard is sufficient, not necessary; without it nothing
    is claimed. -/
theorem terminates_stable_partial (envOf : State E → Env) (s : State E) (hst : FiltersStable envOf s)
    (wf : WF (envOf s)) (hfin : AllFinal (envOf s)) (hu : Uniform (envOf s) s) :
    (∀ n, iterG envOf n s = iter (envOf s) n s) ∧
    ∃ m, m ≤ bound (envOf s) s ∧ (iterG envOf m s).pending = false := by
  have heq : ∀ n, iterG envOf n s = iter (envOf s) n s := by
    intro n
    induction n with
    | zero => rfl
    | succ n ih =>
      rw [iterG_succ', iter_succ', ← ih]
      unfold loopStepG
      rw [hst n]
  obtain ⟨m, hm, hq⟩ := terminates (envOf s) wf hfin s hu
  exact ⟨heq, m, hm, by rw [heq m]; exact hq⟩

/-- The guard holds whenever the environment is computed from the essence and the deletion mark only
    (filters that read labels, annotations, spec — not the framework's own annotations, finalizer or
    status). -/
theorem filtersStable_of_essence (envOf : State E → Env)
    (h : ∀ s s' : State E, s.ess = s'.ess → s.marked = s'.marked → envOf s = envOf s') (s : State E) :
    FiltersStable envOf s := by
  have key : ∀ n, (iterG envOf n s).ess = s.ess ∧ (iterG envOf n s).marked = s.marked := by
    intro n
    induction n with
    | zero => exact ⟨rfl, rfl⟩
    | succ n ih =>
      rw [iterG_succ']
      unfold loopStepG
      rw [loopStep_ess, loopStep_marked]
      exact ih
  intro n
  exact h _ _ (key n).1 (key n).2

/-! ### concrete instances: the clauses that are false of the code, regressions of repaired findings,
    and non-vacuity -/

def tempOutcome (d : Tick) : Outcome := { final := false, delay := some d, error := true, subrefs := [] }

/-- an update handler's record after one temporary failure: one attempt, due again at tick 512 -/
def retryingRec : Rec :=
  { started := 192, delayed := some 512, purpose := some "update", retries := 1,
    success := false, failure := false, subrefs := [] }

/-- handlers: `c0` (creation, no filter) and `u0` (update, label-filtered: does not match the object any more) -/
def envW (prematch : Bool) : Env :=
  { owned := ["c0", "u0"], subs := [], sel := fun c => if c.reason = .create then ["c0"] else [],
    initialH := fun _ => false, boundH := fun _ _ => true,
    limits := fun _ => ⟨none, none⟩, lifecycle := .asap, exec := fun _ _ => okOutcome,
    prematch := prematch, changeReq := false, foreignFins := false, constPatch := false, lat := 1, rtt := 1, cap := 38400 }

def stateW (base : Option Nat) (ess : Nat) : State Nat :=
  { P := fun i => if i = "u0" then some retryingRec else none, base := base, ess := ess,
    marked := false, blocked := false, gone := false,
    noticed := false, fullyHandled := true, resumed := [], now := 256, pending := true, writes := 0 }

theorem envW_wf (b : Bool) : WF (envW b) := by
  refine ⟨?_, by cases b <;> decide, by cases b <;> decide, by cases b <;> decide⟩
  intro c i hi
  simp only [envW] at hi ⊢
  split at hi
  · simp at hi; simp [hi]
  · simp at hi

theorem stateW_uniform (b : Bool) (base : Option Nat) (ess : Nat) : Uniform (envW b) (stateW base ess) := by
  refine ⟨"update", ?_⟩
  intro i _ r hP
  simp only [stateW] at hP
  split at hP
  · cases hP; rfl
  · cases hP

/-- non-vacuity of `last_handled_written_only_by_closing_pass`: a turn that does change the last-handled state -/
example : (loopStep (envW true) (stateW none 1)).base ≠ (stateW none 1).base := by decide

/-- The former C03-F1 scenario as a regression instance: `u0` was retrying, a label edit made it stop
    matching and changed the essence; after two turns the loop is quiescent, converged, and `u0`'s record
    is gone; a third turn writes nothing. -/
theorem stale_record_purged_instance :
    WF (envW true) ∧ AllFinal (envW true) ∧ Uniform (envW true) (stateW (some 0) 1) ∧
    isHandler (stateW (some 0) 1) = true ∧ (envW true).sel (causeOf (stateW (some 0) 1)) = [] ∧
    ((stateW (some 0) 1).P "u0").isSome = true ∧
    (iter (envW true) 2 (stateW (some 0) 1)).pending = false ∧
    (iter (envW true) 2 (stateW (some 0) 1)).base = some 1 ∧
    (iter (envW true) 2 (stateW (some 0) 1)).P "u0" = none ∧
    (iter (envW true) 3 (stateW (some 0) 1)).writes = (iter (envW true) 2 (stateW (some 0) 1)).writes :=
  ⟨envW_wf true, fun _ _ => rfl, stateW_uniform true _ _, by decide, by decide, by decide, by decide, by decide,
   by decide, by decide⟩

/-- handlers `hx = @on.update(field='spec.x')` and `hy = @on.update(field='spec.y')`; the outstanding change is in
    spec.y only (spec.x was changed and reverted): `hy` alone is selected for the update -/
def envX : Env :=
  { owned := ["hx/spec.x", "hy/spec.y"], subs := [],
    sel := fun c => if c.reason = .update then ["hy/spec.y"] else [],
    initialH := fun _ => false, boundH := fun _ _ => true,
    limits := fun _ => ⟨none, none⟩, lifecycle := .asap, exec := fun _ _ => okOutcome,
    prematch := true, changeReq := false, foreignFins := false, constPatch := false, lat := 1, rtt := 1, cap := 38400 }

/-- `hx` failed temporarily when spec.x changed (retry in 3600 s); its unfinished record is still there -/
def stateX : State Nat :=
  { P := fun i => if i = "hx/spec.x" then some C02.seedRecX else none, base := some 0, ess := 1,
    marked := false, blocked := false, gone := false,
    noticed := true, fullyHandled := true, resumed := [], now := 515, pending := true, writes := 0 }

theorem envX_wf : WF envX := by
  refine ⟨?_, by decide, by decide, by decide⟩
  intro c i hi
  simp only [envX] at hi ⊢
  split at hi
  · simp at hi; simp [hi]
  · simp at hi

theorem stateX_uniform : Uniform envX stateX := by
  refine ⟨"update", ?_⟩
  intro i _ r hP
  simp only [stateX] at hP
  split at hP
  · cases hP; rfl
  · cases hP

/-- The history of seed C03d as an instance (non-vacuity of `closing_ignores_unselected_records` and of `converges`
    on such states): the first turn invokes `hy` only, closes the cycle and purges BOTH records although `hx`'s is
    unfinished (and would not be due for an hour); the echo finds nothing to do; a further event writes nothing. -/
theorem deselected_unfinished_instance :
    WF envX ∧ AllFinal envX ∧ Uniform envX stateX ∧ isHandler stateX = true ∧
    selOf envX stateX = ["hy/spec.y"] ∧ unfin stateX.P "hx/spec.x" = true ∧ (stateX.P "hx/spec.x").isSome = true ∧
    (pass envX stateX).invoked = [("hy/spec.y", 0)] ∧ (pass envX stateX).closed = true ∧
    (iter envX 1 stateX).base = some 1 ∧ (iter envX 1 stateX).P "hx/spec.x" = none ∧
    (iter envX 1 stateX).P "hy/spec.y" = none ∧
    (iter envX 2 stateX).pending = false ∧ (iter envX 2 stateX).base = some 1 ∧
    (iter envX 3 stateX).writes = (iter envX 2 stateX).writes :=
  ⟨envX_wf, fun _ _ => rfl, stateX_uniform, by decide, by decide, by decide, by decide, by decide, by decide,
   by decide, by decide, by decide, by decide, by decide, by decide⟩

/-- The former C03-F3 scenario as a regression instance (repaired by d1b2dc4): the change `u0` was
    retrying for has been reverted to the last-handled state; the no-op cause purges the leftover record
    with one PATCH, the echo finds nothing to do. -/
theorem reverted_change_purged_instance :
    isHandler (stateW (some 1) 1) = false ∧ ((stateW (some 1) 1).P "u0").isSome = true ∧
    (iter (envW true) 1 (stateW (some 1) 1)).pending = true ∧
    (iter (envW true) 1 (stateW (some 1) 1)).writes = 1 ∧
    (iter (envW true) 2 (stateW (some 1) 1)).pending = false ∧
    (iter (envW true) 2 (stateW (some 1) 1)).base = some 1 ∧
    (iter (envW true) 2 (stateW (some 1) 1)).P "u0" = none ∧
    bound (envW true) (stateW (some 1) 1) = 2 :=
  ⟨by decide, by decide, by decide, by decide, by decide, by decide, by decide, by decide⟩

/-- C03-F2 (OPEN again: its repair 423b86f was taken back by ad4ec08, see C15-F9): "no progress records remain" is FALSE
    for an object that stopped matching every handler while one was retrying: the framework is blind to it, the stale
    record (and the outdated last-handled state) is never touched again — one turn, nothing written, quiescent, for as
    long as the object does not match. All hypotheses of `terminates` / `converges` hold; the guard `prematch` of their
    records clause is what fails. Replayed on the real operator: corpus/C03/F2_blind_stale_record.json. -/
theorem blind_witness :
    ∃ (env : Env) (s : State Nat), WF env ∧ AllFinal env ∧ Uniform env s ∧ env.prematch = false ∧
      s.pending = true ∧ s.gone = false ∧ s.marked = false ∧ "u0" ∈ env.owned ∧
      (iter env 1 s).pending = false ∧ (iter env 1 s).gone = false ∧ (iter env 1 s).writes = s.writes ∧
      (iter env 1 s).P "u0" = s.P "u0" ∧ (s.P "u0").isSome = true ∧ (iter env 1 s).base = s.base ∧
      s.base ≠ some s.ess ∧ bound env s = 1 ∧ (∀ n, iter env (n + 1) s = iter env 1 s) :=
  ⟨envW false, stateW (some 0) 1, envW_wf false, fun _ _ => rfl, stateW_uniform false _ _, rfl, rfl, rfl, rfl,
   by decide, by decide, by decide, by decide, by decide, by decide, by decide, by decide, by decide,
   fun n => iter_quiescent (envW false) n _ (by decide)⟩

def envF : Env := { envW true with foreignFins := true }
def stateF : State Nat := { stateW (some 0) 1 with marked := true }

/-- C03-N4 (repaired by 40d09eb), kept as a regression of the OLD turn: before the repair "no progress records
    remain" was FALSE as well for an object that is marked for deletion, NOT held by the framework's own finalizer
    (no mandatory deletion handler) and kept alive by somebody else's finalizer: the cause is FREE, the framework left
    the object alone; the record of the handler that was retrying stayed for as long as the object did. -/
theorem free_witness :
    WF envF ∧ AllFinal envF ∧ Uniform envF stateF ∧ envF.prematch = true ∧
      stateF.pending = true ∧ stateF.gone = false ∧ stateF.marked = true ∧ stateF.blocked = false ∧
      "u0" ∈ envF.owned ∧
      (iterOld envF 1 stateF).pending = false ∧ (iterOld envF 1 stateF).gone = false ∧
      (iterOld envF 1 stateF).writes = stateF.writes ∧
      (iterOld envF 1 stateF).P "u0" = stateF.P "u0" ∧ (stateF.P "u0").isSome = true ∧
      -- the repaired turn: one PATCH purges the record, its echo finds nothing to do
      (iter envF 1 stateF).pending = true ∧ (iter envF 1 stateF).writes = stateF.writes + 1 ∧
      (iter envF 1 stateF).P "u0" = none ∧ (iter envF 2 stateF).pending = false ∧
      (iter envF 2 stateF).gone = false ∧ (iter envF 2 stateF).writes = stateF.writes + 1 ∧
      bound envF stateF = 2 := by
  refine ⟨?_, fun _ _ => rfl, ?_, rfl, rfl, rfl, rfl, rfl, by decide, by decide, by decide, by decide, by decide,
    by decide, by decide, by decide, by decide, by decide, by decide, by decide, by decide⟩
  · exact ⟨(envW_wf true).1, by decide, by decide, by decide⟩
  · exact stateW_uniform true (some 0) 1

-- non-vacuity of `blind_left_alone` / `free_purges` (and of the blind and FREE cases of `final_state` / `converges`): the
-- states of `blind_witness` / `free_witness` meet the hypotheses; the FREE one has leftovers to purge, after the purge none
example : adjusting (envW false) (stateW (some 0) 1) = false ∧ (envW false).prematch = false ∧
    adjusting envF stateF = false ∧ envF.prematch = true ∧ leftovers envF stateF = true ∧
    leftovers envF (iter envF 1 stateF) = false ∧
    (iter (envW false) 2 (stateW (some 0) 1)).gone = false ∧ (iter envF 2 stateF).gone = false := by
  refine ⟨by decide, by decide, by decide, by decide, by decide, by decide, by decide, by decide⟩

/-- two update handlers, all at once; `u2` fails temporarily on its first attempt -/
def envA : Env :=
  { owned := ["u1", "u2"], subs := [], sel := fun c => if c.reason = .update then ["u1", "u2"] else [],
    initialH := fun _ => false, boundH := fun _ _ => true,
    limits := fun _ => ⟨none, none⟩, lifecycle := .allAtOnce,
    exec := fun i n => if i = "u2" ∧ n = 0 then tempOutcome 64 else okOutcome,
    prematch := true, changeReq := false, foreignFins := false, constPatch := false, lat := 1, rtt := 1, cap := 38400 }

def stateA : State Nat :=
  { P := fun _ => none, base := some 0, ess := 1, marked := false, blocked := false, gone := false,
    noticed := false, fullyHandled := true, resumed := [], now := 0, pending := true, writes := 0 }

/-- the state of `absorbed_change_witness` when the last change (essence := 2) arrives -/
def stateA2 : State Nat := { loopStep envA stateA with ess := 2 }

/-- C03-F4 (open): the NEGATION of the full statement above `completed_against_final_partial`. `u1`
    completes on essence 1 while `u2` is still retrying; an external edit moves the essence to 2
    (`stateA2`); the cycle stays open, `u1`'s finished record keeps it from running again, `u2` succeeds
    on essence 2 in the closing pass (turn 1) and the last-handled state becomes 2. `u1` is selected for
    the outstanding update, but in NO pass of the tail does it complete: it never saw essence 2. -/
theorem absorbed_change_witness :
    (pass envA stateA).invoked = [("u1", 0), ("u2", 0)] ∧
    stateA2.pending = true ∧ stateA2.base = some 0 ∧ isHandler stateA2 = true ∧
    "u1" ∈ envA.sel (causeOf stateA2) ∧
    (pass envA (iter envA 0 stateA2)).closed = false ∧ (pass envA (iter envA 1 stateA2)).closed = true ∧
    invsOf envA 4 stateA2 = [[], [("u2", 1)]] ∧
    (iter envA 3 stateA2).pending = false ∧ (iter envA 3 stateA2).base = some 2 ∧
    ¬ (∃ k, k ≤ 1 ∧ CompletedIn envA stateA2 1 k "u1") := by
  refine ⟨by decide, by decide, by decide, by decide, by decide, by decide, by decide, by decide, by decide,
    by decide, ?_⟩
  rintro ⟨k, hk, hu, _⟩
  have : k = 0 ∨ k = 1 := by omega
  rcases this with rfl | rfl
  · exact absurd hu (by decide)
  · exact absurd hu (by decide)

/-- one update handler -/
def envI : Env :=
  { owned := ["u0"], subs := [], sel := fun c => if c.reason = .update then ["u0"] else [],
    initialH := fun _ => false, boundH := fun _ _ => true,
    limits := fun _ => ⟨none, none⟩, lifecycle := .asap, exec := fun _ _ => okOutcome,
    prematch := true, changeReq := false, foreignFins := false, constPatch := false, lat := 1, rtt := 1, cap := 38400 }

/-- The former C03-N1 scenario as a regression instance (repaired by b7bf39c; also C03-F7's, 7224f57): `u0`
    failed temporarily and sleeps until tick 512; whatever non-changing patch the cycle carries, the sleep is
    taken, the touch at 512 brings the event at 513, `u0` runs and closes the cycle; three turns, two writes
    (the touch and the closing PATCH), last-handled = essence, no record left. -/
theorem sleeping_handler_woken_instance :
    WF envI ∧ AllFinal envI ∧ Uniform envI (stateW (some 0) 1) ∧
    isHandler (stateW (some 0) 1) = true ∧ (pass envI (stateW (some 0) 1)).closed = false ∧
    (iter envI 1 (stateW (some 0) 1)).pending = true ∧ (iter envI 1 (stateW (some 0) 1)).now = 513 ∧
    (iter envI 1 (stateW (some 0) 1)).writes = 1 ∧
    (iter envI 3 (stateW (some 0) 1)).pending = false ∧ (iter envI 3 (stateW (some 0) 1)).base = some 1 ∧
    (iter envI 3 (stateW (some 0) 1)).P "u0" = none ∧ (iter envI 3 (stateW (some 0) 1)).writes = 2 := by
  refine ⟨⟨?_, by decide, by decide, by decide⟩, fun _ _ => rfl, ⟨"update", ?_⟩, by decide, by decide,
    by decide, by decide, by decide, by decide, by decide, by decide, by decide⟩
  · intro c i hi
    simp only [envI] at hi ⊢
    split at hi
    · exact hi
    · simp at hi
  · intro i _ r hP
    simp only [stateW] at hP
    split at hP
    · cases hP; rfl
    · cases hP

/-! ### cycles that start with a carried patch (C08's transport): where C03-N2 lived -/

/-- A cycle that starts without a carried patch (`memory.remaining_patch = None`) takes the ordinary turn. -/
theorem carried_none (env : Env) (s : State E) : loopStepC env .none s = loopStep env s := by
  unfold loopStepC; simp

/-- A carried patch that has become a no-op (the change it conflicted with has fulfilled it) does NOT swallow the cycle
    (repo fixes 608a57d + 02af7ce, formerly C03-N2): the handlers (and a release) are skipped in this turn and nothing
    is sent for the patch, but the turn returns a zero delay: the object is touched and the touch's echo is pending —
    the next turn is an ordinary one on the same records, last-handled state and essence. -/
theorem carried_noop_comes_back (env : Env) (s : State E) (hp : s.pending = true) (hg : s.gone = false)
    (ha : adjusting env s = false) (hpm : env.prematch = true) :
    (loopStepC env .noop s).pending = true ∧ s.writes < (loopStepC env .noop s).writes ∧
    (loopStepC env .noop s).base = s.base ∧ (loopStepC env .noop s).P = s.P ∧ (loopStepC env .noop s).ess = s.ess ∧
    (loopStepC env .noop s).gone = false ∧ (loopStepC env .noop s).marked = s.marked ∧
    (loopStepC env .noop s).blocked = s.blocked := by
  unfold loopStepC
  simp [hp, hg, ha, hpm]
  omega

/-- A carried patch that still has something to change is harmless: the handlers are skipped in this turn, but the
    re-sent patch changes the object and its echo re-triggers the cycle; records and last-handled state are as
    they were. -/
theorem carried_ops_leaves_event (env : Env) (s : State E) (hp : s.pending = true) (hg : s.gone = false)
    (ha : adjusting env s = false) (hpm : env.prematch = true) :
    (loopStepC env .ops s).pending = true ∧ s.writes < (loopStepC env .ops s).writes ∧
    (loopStepC env .ops s).base = s.base ∧ (loopStepC env .ops s).P = s.P ∧ (loopStepC env .ops s).ess = s.ess ∧
    (loopStepC env .ops s).gone = false ∧ (loopStepC env .ops s).marked = s.marked := by
  unfold loopStepC
  simp [hp, hg, ha, hpm]
  omega

/-- CONVERGENCE WHATEVER PATCH THE CYCLE STARTS WITH (the full statement, formerly false: C03-N2). Let the first cycle
    start with any carried patch `c` — none, one that still changes the object, or a no-op (then the object is touched
    and the handlers run one turn later): if the handlers' scripts
    have only finitely many failures, the loop reaches quiescence, and the object, if it still exists then, carries
    no progress record, is not written to any more and — seen by the framework and not in deletion — has its
    last-handled state equal to its essence. -/
theorem carried_converges (env : Env) (wf : WF env) (hfin : FinitelyFailing env) (c : Carried)
    (s : State E) (hu : Uniform env s) (hp : s.pending = true) (hg : s.gone = false) :
    ∃ m, (iter env m (loopStepC env c s)).pending = false ∧
      ((iter env m (loopStepC env c s)).gone = false →
        (env.prematch = true → ∀ i ∈ env.owned, (iter env m (loopStepC env c s)).P i = none) ∧
        (env.prematch = true → s.marked = false → (iter env m (loopStepC env c s)).base = some s.ess) ∧
        (loopStep env { iter env m (loopStepC env c s) with pending := true }).writes
          = (iter env m (loopStepC env c s)).writes + cp env ∧
        (loopStep env { iter env m (loopStepC env c s) with pending := true }).pending = false) := by
  -- the ordinary turn: one more turn of `iter`
  have ordinary : loopStepC env c s = loopStep env s →
      ∃ m, (iter env m (loopStepC env c s)).pending = false ∧
        ((iter env m (loopStepC env c s)).gone = false →
          (env.prematch = true → ∀ i ∈ env.owned, (iter env m (loopStepC env c s)).P i = none) ∧
          (env.prematch = true → s.marked = false → (iter env m (loopStepC env c s)).base = some s.ess) ∧
          (loopStep env { iter env m (loopStepC env c s) with pending := true }).writes
            = (iter env m (loopStepC env c s)).writes + cp env ∧
          (loopStep env { iter env m (loopStepC env c s) with pending := true }).pending = false) := by
    intro heq
    rw [heq]
    obtain ⟨m, hq⟩ := terminates_finitely_failing env wf hfin (loopStep env s) (loopStep_uniform env wf s hu)
    refine ⟨m, hq, ?_⟩
    intro hgq
    have hq' : (iter env (m + 1) s).pending = false := hq
    have hgq' : (iter env (m + 1) s).gone = false := hgq
    obtain ⟨h1, h2, h3, h4, _⟩ := final_state env (m + 1) s hp hg hq' hgq'
    exact ⟨h1, fun a b => (h2 a b).1, h3, h4⟩
  by_cases hskip : (c = .none || !s.pending || s.gone || adjusting env s || !env.prematch) = true
  · exact ordinary (by unfold loopStepC; rw [if_pos hskip])
  · -- the carried patch is re-sent, or the object is touched: same object, a later clock, an echo pending
    have ha : adjusting env s = false := by
      cases h : adjusting env s
      · rfl
      · simp [h] at hskip
    have hpm : env.prematch = true := by
      cases h : env.prematch
      · simp [h] at hskip
      · rfl
    have hshape : (loopStepC env c s).pending = true ∧ (loopStepC env c s).P = s.P ∧ (loopStepC env c s).ess = s.ess ∧
        (loopStepC env c s).gone = false ∧ (loopStepC env c s).marked = s.marked := by
      cases c
      · simp at hskip
      · obtain ⟨e1, _, _, e4, e5, e6, e7⟩ := carried_ops_leaves_event env s hp hg ha hpm
        exact ⟨e1, e4, e5, e6, e7⟩
      · obtain ⟨e1, _, _, e4, e5, e6, e7, _⟩ := carried_noop_comes_back env s hp hg ha hpm
        exact ⟨e1, e4, e5, e6, e7⟩
    obtain ⟨e1, e4, e5, e6, e7⟩ := hshape
    have hu' : Uniform env (loopStepC env c s) := by
      obtain ⟨q, hq⟩ := hu
      exact ⟨q, fun i hi r h => hq i hi r (by rw [e4] at h; exact h)⟩
    obtain ⟨m, hq⟩ := terminates_finitely_failing env wf hfin _ hu'
    refine ⟨m, hq, ?_⟩
    intro hgq
    obtain ⟨h1, h2, h3, h4, _⟩ := final_state env m _ e1 e6 hq hgq
    rw [e5, e7] at h2
    exact ⟨h1, fun a b => (h2 a b).1, h3, h4⟩

/-- the update `1 → 2` is outstanding, nothing on record yet, its event pending -/
def stateC : State Nat :=
  { P := fun _ => none, base := some 1, ess := 2, marked := false, blocked := false, gone := false,
    noticed := false, fullyHandled := true, resumed := [], now := 256, pending := true, writes := 0 }

/-- C03-N2 (repaired by 608a57d), kept as a regression of the OLD turn (`loopStepCOld`): the lost wake-up that was left
    of C03-F5. The cycle for the outstanding update starts with a carried handler function that has become a no-op:
    the update handler `u0` is selected and would succeed at once (`AllFinal`), but the handlers were skipped, nothing
    was sent, no event followed: quiescent with last-handled ≠ essence, `u0` never called — for ever. With the repair
    the turn touches the object, the next one calls `u0`, and the loop converges in three turns.
    Replayed on the real operator: corpus/C03/N2_carried_noop_fn_swallows_cycle.json. -/
theorem carried_noop_witness :
    WF envI ∧ AllFinal envI ∧ Uniform envI stateC ∧ envI.prematch = true ∧ adjusting envI stateC = false ∧
    stateC.pending = true ∧ stateC.gone = false ∧ stateC.marked = false ∧
    isHandler stateC = true ∧ "u0" ∈ selOf envI stateC ∧ (pass envI stateC).invoked = [("u0", 0)] ∧
    (loopStepCOld envI .noop stateC).pending = false ∧ (loopStepCOld envI .noop stateC).base ≠ some stateC.ess ∧
    (loopStepCOld envI .noop stateC).writes = stateC.writes ∧
    (∀ n, iter envI n (loopStepCOld envI .noop stateC) = loopStepCOld envI .noop stateC) ∧
    -- the repaired turn: a touch (one write), its echo pending; then `u0` runs, the closing PATCH, its echo: quiescent
    (loopStepC envI .noop stateC).pending = true ∧ (loopStepC envI .noop stateC).writes = 1 ∧
    (loopStepC envI .noop stateC).base = some 1 ∧
    (pass envI (loopStepC envI .noop stateC)).invoked = [("u0", 0)] ∧
    (iter envI 2 (loopStepC envI .noop stateC)).pending = false ∧
    (iter envI 2 (loopStepC envI .noop stateC)).base = some 2 ∧
    (iter envI 2 (loopStepC envI .noop stateC)).writes = 2 := by
  refine ⟨⟨?_, by decide, by decide, by decide⟩, fun _ _ => rfl, ⟨"update", fun i _ r h => by simp [stateC] at h⟩,
    rfl, by decide, rfl, rfl, rfl, by decide, by decide, by decide, by decide, by decide, by decide, ?_, by decide,
    by decide, by decide, by decide, by decide, by decide, by decide⟩
  · intro c i hi
    simp only [envI] at hi ⊢
    split at hi
    · exact hi
    · simp at hi
  · intro n
    exact iter_quiescent envI n _ (by decide)

/-- one id `h` registered for update AND deletion (stacked decorators on one function), and a sibling `u2` -/
def envS : Env :=
  { owned := ["h", "u2"], subs := [],
    sel := fun c => if c.reason = .update then ["h", "u2"] else if c.reason = .delete then ["h"] else [],
    initialH := fun _ => false, boundH := fun _ _ => true,
    limits := fun _ => ⟨none, none⟩, lifecycle := .asap, exec := fun _ _ => okOutcome,
    prematch := true, changeReq := true, foreignFins := false, constPatch := false, lat := 1, rtt := 1, cap := 38400 }

/-- the update cycle is open (`h` succeeded, `u2` is retrying) when the deletion request arrives -/
def stateS : State Nat :=
  { P := fun i => if i = "h" then some { retryingRec with delayed := none, success := true }
                  else if i = "u2" then some retryingRec else none,
    base := some 0, ess := 1, marked := true, blocked := true, gone := false,
    noticed := false, fullyHandled := true, resumed := [], now := 256, pending := true, writes := 0 }

/-- the same operator as the pass took it before /repo f7d6401: no selected handler is treated as declared for the cause,
    every record found under a selected id is taken over and re-purposed (`C02.cycleB_unbound`) -/
def envSold : Env := { envS with boundH := fun _ _ => false }

/-- C03-N3 (repaired by /repo f7d6401), kept as a regression: formerly another NEGATION of the full statement above
    `completed_against_final_partial`. The deletion cause selects `h`; under its id the object carries the finished
    UPDATE record of the same function. BEFORE the repair (`envSold`) that record was re-purposed as the deletion
    record, the cycle closed at once: nothing invoked, the finalizer released, the object gone — the deletion handler
    `h` never called. AS OF the repair (`envS`: `h` is declared for the deletion) the record is not taken over: `h` is
    unfinished on the records the pass takes over, is invoked with retry 0, completes in the closing pass (turn 0), and
    only then the object is released. Replayed on the real operator: corpus/C03/N3_shared_id_update_delete.json. -/
theorem shared_id_regression :
    isHandler stateS = true ∧ (causeOf stateS).reason = .delete ∧ "h" ∈ selOf envS stateS ∧
    unfin stateS.P "h" = false ∧
    -- before f7d6401
    (pass envSold stateS).invoked = [] ∧ (pass envSold stateS).closed = true ∧
    (iter envSold 1 stateS).pending = false ∧ (iter envSold 1 stateS).gone = true ∧
    ¬ (∃ k, k ≤ 0 ∧ CompletedIn envSold stateS 0 k "h") ∧
    -- as of f7d6401
    vis envS stateS "h" = none ∧ vis envS stateS "u2" = stateS.P "u2" ∧ unfin (vis envS stateS) "h" = true ∧
    (pass envS stateS).invoked = [("h", 0)] ∧ (pass envS stateS).closed = true ∧
    (iter envS 1 stateS).pending = false ∧ (iter envS 1 stateS).gone = true ∧
    CompletedIn envS stateS 0 0 "h" ∧
    -- and when the deletion handler asks for a retry the object stays, held, with `h`'s OWN record on it
    (iter { envS with exec := fun _ n => if n = 0 then tempOutcome 64 else okOutcome } 1 stateS).gone = false ∧
    (iter { envS with exec := fun _ n => if n = 0 then tempOutcome 64 else okOutcome } 1 stateS).blocked = true ∧
    ((iter { envS with exec := fun _ n => if n = 0 then tempOutcome 64 else okOutcome } 1 stateS).P "h").map
      (fun r => (r.purpose, r.retries)) = some (some "delete", 1) ∧
    (iter { envS with exec := fun _ n => if n = 0 then tempOutcome 64 else okOutcome } 3 stateS).gone = true := by
  refine ⟨by decide, by decide, by decide, by decide, by decide, by decide, by decide, by decide, ?_,
    by decide, by decide, by decide, by decide, by decide, by decide, by decide, ?_, by decide, by decide, by decide,
    by decide⟩
  · rintro ⟨k, hk, hu, _⟩
    have : k = 0 := by omega
    subst this
    exact absurd hu (by decide)
  · exact ⟨by decide, Or.inr ⟨rfl, by decide⟩⟩

-- non-vacuity of `completed_against_final_partial` on the former witness: its guard holds for `h` now
example : "h" ∈ selOf envS stateS ∧ unfin (vis envS stateS) "h" = true ∧ adjusting envS stateS = false ∧
    (pass envS (iter envS 0 stateS)).closed = true := by
  refine ⟨by decide, by decide, by decide, by decide⟩

/-- THE PASS OF THIS LOOP IS THE CODE'S PASS: `pass` (C02's `cycle` over the records taken over, `vis`) is
    `process_changing_cause` as of /repo f7d6401 — `C02.cycleB`, which leaves the namesakes' records out of the loaded
    state — for every environment and every state whose cause is not FREE; what it invokes, whether it closes the cycle
    and its delays are those of `cycleB` for EVERY state. For a FREE state the loop does not take `pass` but
    `purgeTurn`, whose records are those of `cycleB`'s FREE pass (`free_turn_is_cycleB`). -/
theorem pass_is_cycleB (env : Env) (s : State E) :
    ((causeOf s).reason ≠ .free →
      pass env s = C02.cycleB (cfgOf env s) (env.boundH (causeOf s)) s.P s.now s.now env.exec) ∧
    (pass env s).invoked = (C02.cycleB (cfgOf env s) (env.boundH (causeOf s)) s.P s.now s.now env.exec).invoked ∧
    (pass env s).closed = (C02.cycleB (cfgOf env s) (env.boundH (causeOf s)) s.P s.now s.now env.exec).closed ∧
    (pass env s).delays = (C02.cycleB (cfgOf env s) (env.boundH (causeOf s)) s.P s.now s.now env.exec).delays := by
  obtain ⟨h1, h2, h3⟩ := C02.cycleB_invoked_closed (cfgOf env s) (env.boundH (causeOf s)) s.P s.now s.now env.exec
  refine ⟨?_, h1.symm, h2.symm, h3.symm⟩
  intro hnf
  have : ((cfgOf env s).reason == "free") = false := by
    show (C14.reasonStr (causeOf s).reason == "free") = false
    cases hr : (causeOf s).reason <;> first | exact absurd hr hnf | decide
  exact (C02.cycleB_eq_cycle_taken (cfgOf env s) (env.boundH (causeOf s)) s.P s.now s.now env.exec this).symm

/-- the records a FREE turn leaves (`purged`) are those of the code's FREE pass (`C02.cycleB`, 40d09eb) -/
theorem free_turn_is_cycleB (env : Env) (s : State E) (hf : (causeOf s).reason = .free) :
    (C02.cycleB (cfgOf env s) (env.boundH (causeOf s)) s.P s.now s.now env.exec).P' = purged env s ∧
    (C02.cycleB (cfgOf env s) (env.boundH (causeOf s)) s.P s.now s.now env.exec).invoked = [] ∧
    (C02.cycleB (cfgOf env s) (env.boundH (causeOf s)) s.P s.now s.now env.exec).closed = false := by
  have : ((cfgOf env s).reason == "free") = true := by
    show (C14.reasonStr (causeOf s).reason == "free") = true
    rw [hf]; decide
  rw [C02.cycleB_free _ _ _ _ _ _ this]
  exact ⟨rfl, rfl, rfl⟩

/-- the operator of `envS` whose update registration of `h` ran the sub-handlers `h/a`, `h/b`; somebody else's
    finalizer holds the object -/
def envL : Env := { envS with subs := ["h/a", "h/b"], foreignFins := true }

def doneRec (subs : List Id) : Rec :=
  { started := 192, delayed := none, purpose := some "update", retries := 1, success := true, failure := false, subrefs := subs }

/-- the update cycle is open (`h` and its children succeeded, `u2` is retrying) when the deletion request arrives -/
def stateL : State Nat :=
  { stateS with P := fun i => if i = "h" then some (doneRec ["h/a", "h/b"]) else if i = "u2" then some retryingRec
                             else if i = "h/a" ∨ i = "h/b" then some (doneRec []) else none }

/-- C03-N7 (open; brought in by /repo f7d6401): "no progress records remain" is FALSE for the records of the
    sub-handlers of a namesake. The finished update record of `h` references its children `h/a`, `h/b`; the deletion
    handler `h` (same id) does not take that record over — and with it its `subrefs` are forgotten: `h` starts from
    scratch, succeeds, the cycle closes, the closing purge removes the owned records and the children of the states it
    KNOWS, the finalizer is released. The object lives on (somebody else's finalizer), the FREE turn finds nothing to
    purge (it goes by the owned records' subrefs as well): the loop is quiescent with `h/a`, `h/b` still on the
    object — for as long as it exists. All hypotheses of `converges` hold; its conclusion is about the OWNED ids and
    holds. Before f7d6401 (`envL` without reason-bound handlers) the re-purposed record carried the subrefs along and
    the closing purge removed the children — but `h` was never called (C03-N3).
    Replayed on the real operator: corpus/C03/N7_namesake_children_records_leak.json. -/
theorem namesake_children_leak_witness :
    AllFinal envL ∧ Uniform envL stateL ∧ stateL.pending = true ∧ stateL.marked = true ∧ stateL.blocked = true ∧
    (pass envL stateL).invoked = [("h", 0)] ∧ (pass envL stateL).closed = true ∧
    (iter envL 2 stateL).pending = false ∧ (iter envL 2 stateL).gone = false ∧ (iter envL 2 stateL).blocked = false ∧
    (∀ i ∈ envL.owned, (iter envL 2 stateL).P i = none) ∧
    (iter envL 2 stateL).P "h/a" = stateL.P "h/a" ∧ (iter envL 2 stateL).P "h/b" = stateL.P "h/b" ∧
    (stateL.P "h/a").isSome = true ∧ "h/a" ∈ ids envL ∧
    -- before f7d6401: the children's records went with the closing purge
    (iter { envL with boundH := fun _ _ => false } 2 stateL).pending = false ∧
    (iter { envL with boundH := fun _ _ => false } 2 stateL).P "h/a" = none ∧
    (pass { envL with boundH := fun _ _ => false } stateL).invoked = [] := by
  refine ⟨fun _ _ => rfl, ⟨"update", ?_⟩, rfl, rfl, rfl, by decide, by decide, by decide, by decide, by decide,
    by decide, by decide, by decide, by decide, by decide, by decide, by decide, by decide⟩
  intro i hi r hP
  have : i = "h" ∨ i = "u2" := by simpa [envL, envS] using hi
  rcases this with rfl | rfl
  · have : r = doneRec ["h/a", "h/b"] := by simpa [stateL] using hP.symm
    rw [this]; rfl
  · have : r = retryingRec := by simpa [stateL] using hP.symm
    rw [this]; rfl

/-- a mandatory deletion handler `d0` that fails once; the object is marked and holds our finalizer -/
def envD (foreign : Bool) : Env :=
  { owned := ["d0"], subs := [], sel := fun c => if c.reason = .delete then ["d0"] else [],
    initialH := fun _ => false, boundH := fun _ _ => true,
    limits := fun _ => ⟨none, none⟩, lifecycle := .asap,
    exec := fun _ n => if n = 0 then tempOutcome 64 else okOutcome,
    prematch := true, changeReq := true, foreignFins := foreign, constPatch := false, lat := 1, rtt := 1, cap := 38400 }

def stateD : State Nat :=
  { P := fun _ => none, base := some 0, ess := 0, marked := true, blocked := true, gone := false,
    noticed := false, fullyHandled := true, resumed := [], now := 0, pending := true, writes := 0 }

/-- C03-N2, second shape (repaired by 608a57d), a regression of the OLD turn: the swallowed cycle was the RELEASE of a
    deletion. The object is marked and held by the own finalizer, the mandatory deletion handler `d0` succeeds at once:
    with a carried no-op the handlers AND the release were skipped, nothing was sent, no event followed: the object
    stayed marked and blocked for ever. With the repair the turn touches the object and the next one releases it.
    Replayed on the real operator: corpus/C03/N2b_carried_noop_fn_blocks_deletion.json. -/
theorem carried_noop_blocks_release_witness :
    AllFinal { envD false with exec := fun _ _ => okOutcome } ∧
    stateD.pending = true ∧ stateD.marked = true ∧ stateD.blocked = true ∧
    adjusting { envD false with exec := fun _ _ => okOutcome } stateD = false ∧
    (loopStepCOld { envD false with exec := fun _ _ => okOutcome } .noop stateD).pending = false ∧
    (loopStepCOld { envD false with exec := fun _ _ => okOutcome } .noop stateD).blocked = true ∧
    (loopStepCOld { envD false with exec := fun _ _ => okOutcome } .noop stateD).gone = false ∧
    (loopStepCOld { envD false with exec := fun _ _ => okOutcome } .noop stateD).writes = stateD.writes ∧
    -- the repaired turn: touched, still held; the next turn releases it
    (loopStepC { envD false with exec := fun _ _ => okOutcome } .noop stateD).pending = true ∧
    (loopStepC { envD false with exec := fun _ _ => okOutcome } .noop stateD).blocked = true ∧
    (iter { envD false with exec := fun _ _ => okOutcome } 1
      (loopStepC { envD false with exec := fun _ _ => okOutcome } .noop stateD)).gone = true ∧
    (iter { envD false with exec := fun _ _ => okOutcome } 1
      (loopStepC { envD false with exec := fun _ _ => okOutcome } .noop stateD)).blocked = false := by
  refine ⟨fun _ _ => rfl, rfl, rfl, rfl, by decide, by decide, by decide, by decide, by decide, by decide, by decide,
    by decide, by decide⟩

/-! ### cycles held back by the consistency barrier (C07's mechanism): where C03-N6 lived -/

/-- An INCONSISTENT turn (the worker still awaits the echo of its own last write) with no patch accumulated is the
    ordinary turn taken at the consistency deadline. -/
theorem inconsistent_empty (env : Env) (dl : Tick) (s : State E) (hp : s.pending = true) (hg : s.gone = false)
    (ha : adjusting env s = false) (hpm : env.prematch = true) :
    loopStepI env false dl s = loopStep env { s with now := if s.now < dl then dl else s.now } := by
  unfold loopStepI
  simp [hp, hg, ha, hpm]

/-- An inconsistent turn WITH a patch accumulated (an on.event handler's constant result, or functions without
    operations) skips the wait and the handlers — and COMES BACK when the wait is over (repo fix 30557a0, formerly
    C03-N6): the patch changes nothing, so `apply` sleeps the remaining waiting time and touches the object; an event
    is pending again, not before the deadline (if the wait fits under the keepalive cap: the consistency timeout is
    seconds, the cap minutes); records, last-handled state and essence are as they were. -/
theorem inconsistent_nonempty_revisited (env : Env) (wf : WF env) (dl : Tick) (s : State E)
    (hp : s.pending = true) (hg : s.gone = false) (ha : adjusting env s = false) (hpm : env.prematch = true) :
    (loopStepI env true dl s).pending = true ∧ s.writes < (loopStepI env true dl s).writes ∧
    (loopStepI env true dl s).base = s.base ∧ (loopStepI env true dl s).P = s.P ∧
    (loopStepI env true dl s).ess = s.ess ∧ (loopStepI env true dl s).gone = false ∧
    (loopStepI env true dl s).marked = s.marked ∧
    (dl - s.now ≤ env.cap → dl ≤ (loopStepI env true dl s).now) := by
  have heq : loopStepI env true dl s =
      { s with now := s.now + waitOf env dl s + latS env, pending := true, writes := s.writes + cp env + 1 } := by
    unfold loopStepI; simp [hp, hg, ha, hpm]
  rw [heq]
  refine ⟨rfl, ?_, rfl, rfl, rfl, hg, rfl, fun hle => waitOf_reaches env wf dl s hle⟩
  show s.writes < s.writes + cp env + 1
  omega

/-- CONVERGENCE WHATEVER THE VIEW OF THE FIRST TURN (the full statement, formerly false: C03-N6). Let the first turn be
    held back by the consistency barrier, with or without a patch accumulated: if the handlers' scripts have only
    finitely many failures, the loop reaches quiescence, and the object, if it still exists then, carries no progress
    record, is not written to any more and — seen by the framework and not in deletion — has its last-handled state
    equal to its essence. -/
theorem inconsistent_converges (env : Env) (wf : WF env) (hfin : FinitelyFailing env) (ne : Bool) (dl : Tick)
    (s : State E) (hu : Uniform env s) (hp : s.pending = true) (hg : s.gone = false) :
    ∃ m, (iter env m (loopStepI env ne dl s)).pending = false ∧
      ((iter env m (loopStepI env ne dl s)).gone = false →
        (env.prematch = true → ∀ i ∈ env.owned, (iter env m (loopStepI env ne dl s)).P i = none) ∧
        (env.prematch = true → s.marked = false → (iter env m (loopStepI env ne dl s)).base = some s.ess) ∧
        (loopStep env { iter env m (loopStepI env ne dl s) with pending := true }).writes
          = (iter env m (loopStepI env ne dl s)).writes + cp env ∧
        (loopStep env { iter env m (loopStepI env ne dl s) with pending := true }).pending = false) := by
  -- an ordinary turn from a state `s'` that differs from `s` in the clock only
  have ordinary : ∀ s' : State E, s'.P = s.P → s'.pending = true → s'.gone = false → s'.ess = s.ess →
      s'.marked = s.marked → loopStepI env ne dl s = loopStep env s' →
      ∃ m, (iter env m (loopStepI env ne dl s)).pending = false ∧
        ((iter env m (loopStepI env ne dl s)).gone = false →
          (env.prematch = true → ∀ i ∈ env.owned, (iter env m (loopStepI env ne dl s)).P i = none) ∧
          (env.prematch = true → s.marked = false → (iter env m (loopStepI env ne dl s)).base = some s.ess) ∧
          (loopStep env { iter env m (loopStepI env ne dl s) with pending := true }).writes
            = (iter env m (loopStepI env ne dl s)).writes + cp env ∧
          (loopStep env { iter env m (loopStepI env ne dl s) with pending := true }).pending = false) := by
    intro s' hP hp' hg' he hm heq
    rw [heq]
    have hu' : Uniform env s' := by
      obtain ⟨q, hq⟩ := hu
      exact ⟨q, fun i hi r h => hq i hi r (by rw [hP] at h; exact h)⟩
    obtain ⟨m, hq⟩ := terminates_finitely_failing env wf hfin (loopStep env s') (loopStep_uniform env wf s' hu')
    refine ⟨m, hq, ?_⟩
    intro hgq
    have hq' : (iter env (m + 1) s').pending = false := hq
    have hgq' : (iter env (m + 1) s').gone = false := hgq
    obtain ⟨h1, h2, h3, h4, _⟩ := final_state env (m + 1) s' hp' hg' hq' hgq'
    rw [he, hm] at h2
    exact ⟨h1, fun a b => (h2 a b).1, h3, h4⟩
  by_cases hskip : (!s.pending || s.gone || adjusting env s || !env.prematch) = true
  · exact ordinary s rfl hp hg rfl rfl (by unfold loopStepI; rw [if_pos hskip])
  · have ha : adjusting env s = false := by
      cases h : adjusting env s
      · rfl
      · simp [h] at hskip
    have hpm : env.prematch = true := by
      cases h : env.prematch
      · simp [h] at hskip
      · rfl
    cases ne
    · exact ordinary { s with now := if s.now < dl then dl else s.now } rfl hp hg rfl rfl
        (inconsistent_empty env dl s hp hg ha hpm)
    · obtain ⟨e1, _, _, e4, e5, e6, e7, _⟩ := inconsistent_nonempty_revisited env wf dl s hp hg ha hpm
      have hu' : Uniform env (loopStepI env true dl s) := by
        obtain ⟨q, hq⟩ := hu
        exact ⟨q, fun i hi r h => hq i hi r (by rw [e4] at h; exact h)⟩
      obtain ⟨m, hq⟩ := terminates_finitely_failing env wf hfin _ hu'
      refine ⟨m, hq, ?_⟩
      intro hgq
      obtain ⟨h1, h2, h3, h4, _⟩ := final_state env m _ e1 e6 hq hgq
      rw [e5, e7] at h2
      exact ⟨h1, fun a b => (h2 a b).1, h3, h4⟩

/-- C03-N6 (repaired by 30557a0), kept as a regression of the OLD turn (`loopStepIOld`): lost wake-up in the consistency
    wait. The update `1 → 2` is outstanding, its handler `u0` would succeed at once, but the turn is inconsistent (the
    echo of the framework's last write was lost) and a patch is already accumulated (an on.event handler's idempotent
    function, or its constant result): the wait for the deadline and the handlers were skipped, the patch changed
    nothing, no event followed: quiescent for ever with last-handled ≠ essence, `u0` never called. With the repair the
    turn comes back after the deadline (576 + touch and echo), `u0` runs, the loop converges.
    Replayed on the real operator: corpus/C03/N6_inconsistent_noop_patch_skips_wait.json, N6b_*. -/
theorem inconsistent_nonempty_witness :
    WF envI ∧ AllFinal envI ∧ Uniform envI stateC ∧ envI.prematch = true ∧ adjusting envI stateC = false ∧
    stateC.pending = true ∧ stateC.gone = false ∧ isHandler stateC = true ∧ "u0" ∈ selOf envI stateC ∧
    (loopStepIOld envI true 576 stateC).pending = false ∧ (loopStepIOld envI true 576 stateC).base ≠ some stateC.ess ∧
    (loopStepIOld envI true 576 stateC).writes = stateC.writes ∧
    (loopStepIOld { envI with constPatch := true } true 576 stateC).pending = false ∧
    (loopStepIOld { envI with constPatch := true } true 576 stateC).base ≠ some stateC.ess ∧
    (∀ n, iter envI n (loopStepIOld envI true 576 stateC) = loopStepIOld envI true 576 stateC) ∧
    -- the repaired turn: back after the deadline, then handled
    (loopStepI envI true 576 stateC).pending = true ∧ (loopStepI envI true 576 stateC).now = 577 ∧
    (loopStepI envI true 576 stateC).writes = 1 ∧
    (loopStepI { envI with constPatch := true } true 576 stateC).now = 578 ∧
    (loopStepI { envI with constPatch := true } true 576 stateC).writes = 2 ∧
    (pass envI (loopStepI envI true 576 stateC)).invoked = [("u0", 0)] ∧
    (iter envI 2 (loopStepI envI true 576 stateC)).pending = false ∧
    (iter envI 2 (loopStepI envI true 576 stateC)).base = some 2 ∧
    -- with an empty patch the turn is taken at the deadline and the loop converges (as before)
    (loopStepI envI false 576 stateC).now = 577 ∧ (pass envI { stateC with now := 576 }).invoked = [("u0", 0)] ∧
    (iter envI 1 (loopStepI envI false 576 stateC)).pending = false ∧
    (iter envI 1 (loopStepI envI false 576 stateC)).base = some 2 := by
  refine ⟨⟨?_, by decide, by decide, by decide⟩, fun _ _ => rfl, ⟨"update", fun i _ r h => by simp [stateC] at h⟩,
    rfl, by decide, rfl, rfl, by decide, by decide, by decide, by decide, by decide, by decide, by decide, ?_,
    by decide, by decide, by decide, by decide, by decide, by decide, by decide, by decide,
    by decide, by decide, by decide, by decide⟩
  · intro c i hi
    simp only [envI] at hi ⊢
    split at hi
    · exact hi
    · simp at hi
  · intro n
    exact iter_quiescent envI n _ (by decide)

-- `stateN` (Model): a live object that needs the finalizer first: the adding turn, then the creation

-- non-vacuity of `terminates` / `converges` / `completed_against_final_partial` /
-- `invoked_once_after_last_change` / `all_selected_completed`: a state with two unfinished selected handlers
-- meets the hypotheses; its bound is 2·2 + 0 + 0 + 1 + 0 = 5 and the loop needs 4 turns (invoke both, sleep +
-- touch, invoke the retry and close, echo of the closing PATCH); turns 0..1 are open, turn 2 closes
example : WF envA ∧ AllFinal { envA with exec := fun _ _ => okOutcome } ∧ Uniform envA stateA := by
  refine ⟨⟨?_, by decide, by decide, by decide⟩, fun _ _ => rfl, ⟨"update", fun i _ r h => by simp [stateA] at h⟩⟩
  intro c i hi
  simp only [envA] at hi ⊢
  split at hi
  · exact hi
  · simp at hi

example : bound envA stateA = 5 ∧ (iter envA 3 stateA).pending = true ∧ (iter envA 4 stateA).pending = false ∧
    adjusting envA stateA = false ∧ isHandler stateA = true ∧ (envA.sel (causeOf stateA)).isEmpty = false ∧
    (pass envA (iter envA 0 stateA)).closed = false ∧ (pass envA (iter envA 1 stateA)).closed = false ∧
    (pass envA (iter envA 2 stateA)).closed = true ∧ unfin stateA.P "u1" = true := by
  refine ⟨by decide, by decide, by decide, by decide, by decide, by decide, by decide, by decide, by decide, by decide⟩

example : NoExtras (cfgOf envA stateA) stateA.P ∧ (pass envA stateA).closed = false ∧
    (envA.exec "u1" 0).final = true :=
  ⟨fun i _ r h => by simp [stateA] at h, by decide, by decide⟩

-- non-vacuity of `terminates_finitely_failing` / `converges_finitely_failing` / `restart_safe`: `envA`'s script
-- fails once (`u2` at retry 0) and is final from retry 1 on: it is `FinitelyFailing`, and NOT `AllFinal`
example : FinitelyFailing envA ∧ ¬ AllFinal envA := by
  refine ⟨⟨1, fun i n hn => ?_⟩, fun h => absurd (h "u2" 0) (by decide)⟩
  have : ¬ (i = "u2" ∧ n = 0) := fun h => by omega
  simp [envA, this, okOutcome]

-- `envOfU` (Model): ONE mandatory deletion handler whose filter reads the framework's own finalizer

theorem unstable_step (s : State Nat) (hp : s.pending = true) (hg : s.gone = false) (hm : s.marked = false)
    (hP : s.P "d0" = none) :
    (loopStepG envOfU s).pending = true ∧ (loopStepG envOfU s).gone = false ∧ (loopStepG envOfU s).marked = false ∧
    (loopStepG envOfU s).blocked = !s.blocked ∧ (loopStepG envOfU s).writes = s.writes + 1 ∧
    (loopStepG envOfU s).P "d0" = none := by
  have hadj : adjusting (envOfU s) s = true := by
    rw [adjusting_eq]
    cases hb : s.blocked <;> simp [envOfU, hb, hm]
  -- `d0` never runs: no record of it is ever on the object, the removing turn has nothing to purge
  have hl : leftovers (envOfU s) s = false :=
    leftovers_false_of_norec (envOfU s) s (fun i hi => by
      have : i = "d0" := by simpa [envOfU] using hi
      rw [this]; exact hP)
  unfold loopStepG
  rcases turn_cases (envOfU s) s hp hg with ⟨_, _, hb, _, h⟩ | ⟨_, hb, h⟩ | ⟨h1, _⟩ | ⟨h1, _⟩ | ⟨h1, _⟩ | ⟨h1, _⟩
  · rw [h]; exact ⟨rfl, hg, hm, by simp [addState, hb], by simp [addState, cp, envOfU], hP⟩
  · rw [h]; exact ⟨by simp [remState, hm], by simp [remState, hm], hm, by simp [remState, hb],
      by simp [remState, cp, hl]; simp [envOfU], by simp [remState, hl]; exact hP⟩
  · rw [hadj] at h1; cases h1
  · rw [hadj] at h1; cases h1
  · rw [hadj] at h1; cases h1
  · rw [hadj] at h1; cases h1

/-- WITHOUT THE GUARD `FiltersStable` THE LOOP NEED NOT TERMINATE: the negation of the full statement above
    `terminates_stable_partial`. The deletion handler of `envOfU` matches only while the object has no finalizer:
    the framework adds its finalizer (a mandatory deletion handler matches), thereby the handler stops matching, the
    framework is blind to the object and removes the finalizer nobody needs, thereby the handler matches again, …:
    one PATCH per turn, for ever, although no handler ever fails (none is ever invoked). Replayed on the real
    operator (corpus/C03/G1_filter_reads_own_finalizer.json; not a defect of the framework: the user's filter
    flips on the framework's own write). -/
theorem unstable_filters_witness :
    WF (envOfU stateN) ∧ AllFinal (envOfU stateN) ∧ Uniform (envOfU stateN) stateN ∧
    ¬ FiltersStable envOfU stateN ∧
    ∀ n, (iterG envOfU n stateN).pending = true ∧ (iterG envOfU n stateN).writes = n := by
  have key : ∀ (n : Nat) (s : State Nat), s.pending = true → s.gone = false → s.marked = false → s.P "d0" = none →
      (iterG envOfU n s).pending = true ∧ (iterG envOfU n s).writes = s.writes + n := by
    intro n
    induction n with
    | zero => intro s hp _ _ _; exact ⟨hp, rfl⟩
    | succ n ih =>
      intro s hp hg hm hP
      obtain ⟨h1, h2, h3, _, h5, h6⟩ := unstable_step s hp hg hm hP
      obtain ⟨i1, i2⟩ := ih (loopStepG envOfU s) h1 h2 h3 h6
      simp only [iterG]
      exact ⟨i1, by rw [i2, h5]; omega⟩
  refine ⟨⟨?_, by decide, by decide, by decide⟩, fun _ _ => rfl, ⟨"delete", fun i _ r h => by simp [stateN] at h⟩, ?_, ?_⟩
  · intro c i hi
    simp only [envOfU] at hi ⊢
    split at hi
    · exact hi
    · simp at hi
  · intro hst
    have h1 := hst 1
    have hb : (iterG envOfU 1 stateN).blocked = true := by
      have := (unstable_step stateN rfl rfl rfl rfl).2.2.2.1
      simpa [iterG, stateN] using this
    have : (envOfU (iterG envOfU 1 stateN)).prematch = (envOfU stateN).prematch := by rw [h1]
    have h2 : (envOfU (iterG envOfU 1 stateN)).prematch = false := by simp [envOfU, hb]
    have h3 : (envOfU stateN).prematch = true := by decide
    rw [h2, h3] at this
    cases this
  · intro n
    have := key n stateN rfl rfl rfl rfl
    simpa [stateN] using this

-- non-vacuity of `deletion_converges` / `final_state_deleted`: the delete handler fails once, sleeps, is retried,
-- the closing pass releases the finalizer: the object is gone after 3 turns; with a foreign
-- finalizer it stays, released, and one more (FREE) turn is consumed
example : bound (envD false) stateD = 3 ∧ (iter (envD false) 3 stateD).pending = false ∧
    (iter (envD false) 3 stateD).gone = true ∧ (iter (envD false) 2 stateD).gone = false ∧
    (iter (envD true) 4 stateD).pending = false ∧ (iter (envD true) 4 stateD).gone = false ∧
    (iter (envD true) 4 stateD).blocked = false := by
  refine ⟨by decide, by decide, by decide, by decide, by decide, by decide, by decide⟩

-- `constPatch` (an on.event handler returning a constant): the retry is still woken, the deletion still completes;
-- only the request count differs (the no-op patch before each touch and in the last FREE/no-op turn)
example : (iter { envD false with constPatch := true } 3 stateD).gone = true ∧
    (iter { envD false with constPatch := true } 3 stateD).writes = (iter (envD false) 3 stateD).writes + 1 := by
  refine ⟨by decide, by decide⟩

-- the finalizer-adding turn: one extra turn, no handler runs in it
example : adjusting (envD false) stateN = true ∧ (pass (envD false) stateN).invoked = [] ∧
    (loopStep (envD false) stateN).blocked = true ∧ (loopStep (envD false) stateN).P "d0" = none ∧
    (iter (envD false) 3 stateN).pending = false ∧ (iter (envD false) 3 stateN).base = some 0 := by
  refine ⟨by decide, by decide, by decide, by decide, by decide, by decide⟩

-- non-vacuity of `restart_safe`: a history with a failing turn, an edit, a kill before the write, a kill after
-- it, a deletion request; and of `accumulated_change`: three edits during a downtime, one update cause
example : (runActs envA (created 0 0)
    [.turn (fun _ _ => tempOutcome 8), .edit 5 9, .lostWrite (fun _ _ => okOutcome) 12, .turn (fun _ _ => okOutcome),
     .restart 20, .edit 6 21, .delete 22]).ess = 6 := by decide

example : (causeOf (restart (applyEdits stateA [5, 6, 7]) 100)).reason = .update ∧
    causeOf (restart (applyEdits stateA [5, 6, 7]) 100) = causeOf (restart { stateA with ess := 7 } 100) ∧
    closings envA 6 (restart (applyEdits stateA [5, 6, 7]) 100) = 1 := by
  refine ⟨by decide, by decide, by decide⟩

/-! ### events that arrive while `apply` sleeps: the stream re-lists the object AS IT IS (seed C03f)

Every delivery timing of watch events is in the property's quantifier; one event needs no write at all: the listing
with which every re-established watch stream begins (Model/C03_Relist). -/

/-- A re-listing that falls into the sleep of a turn LEAVES AN EVENT (the code as it is): the sleep is interrupted
    without the touch (no request but the constant part of the patch), the records, the last-handled state, the
    essence and the deletion mark are what they were, and the listed event is pending at `t`: the next turn is an
    ordinary one, which re-arms the sleep for what is left of the delay. -/
theorem relist_in_sleep_leaves_event (env : Env) (s : State E) (t : Tick) (h : inSleep env s t = true) :
    (loopStepR env t s).pending = true ∧ (loopStepR env t s).now = t ∧
    (loopStepR env t s).writes = s.writes + cp env ∧ (loopStepR env t s).base = s.base ∧
    (∀ i ∈ ids env, (loopStepR env t s).P i = s.P i) ∧ (loopStepR env t s).ess = s.ess ∧
    (loopStepR env t s).marked = s.marked ∧ (loopStepR env t s).gone = s.gone := by
  obtain ⟨_, hc⟩ := inSleep_cond env s t h
  obtain ⟨hP, hb⟩ := unchanged_of_not_changed env s hc
  unfold loopStepR
  rw [workerTurn_inSleep false env s t h]
  exact ⟨rfl, rfl, rfl, hb, hP, rfl, rfl, rfl⟩

/-- CONVERGENCE ACROSS A RE-LISTING (full): whatever the state, whenever the re-listed object interrupts the sleep
    of a turn, if the handlers' scripts have only finitely many failures the loop still reaches quiescence, and the
    object, if it still exists then, carries no progress record, is not written to any more and — seen by the framework
    and not in deletion — has its last-handled state equal to its essence. -/
theorem relist_converges (env : Env) (wf : WF env) (hfin : FinitelyFailing env) (s : State E) (t : Tick)
    (hu : Uniform env s) (hg : s.gone = false) (h : inSleep env s t = true) :
    ∃ m, (iter env m (loopStepR env t s)).pending = false ∧
      ((iter env m (loopStepR env t s)).gone = false →
        (env.prematch = true → ∀ i ∈ env.owned, (iter env m (loopStepR env t s)).P i = none) ∧
        (env.prematch = true → s.marked = false → (iter env m (loopStepR env t s)).base = some s.ess) ∧
        (loopStep env { iter env m (loopStepR env t s) with pending := true }).writes
          = (iter env m (loopStepR env t s)).writes + cp env ∧
        (loopStep env { iter env m (loopStepR env t s) with pending := true }).pending = false) := by
  have heq : loopStepR env t s = { interrupted env s t with pending := true } := by
    unfold loopStepR; rw [workerTurn_inSleep false env s t h]; rfl
  have hu' : Uniform env (loopStepR env t s) := by rw [heq]; exact interrupted_uniform env wf s t hu
  have hp' : (loopStepR env t s).pending = true := by rw [heq]
  have hg' : (loopStepR env t s).gone = false := by rw [heq]; exact hg
  obtain ⟨m, hq⟩ := terminates_finitely_failing env wf hfin _ hu'
  refine ⟨m, hq, ?_⟩
  intro hgq
  obtain ⟨h1, h2, h3, h4, _⟩ := final_state env m _ hp' hg' hq hgq
  have he : (loopStepR env t s).ess = s.ess := by rw [heq]; rfl
  have hm : (loopStepR env t s).marked = s.marked := by rw [heq]; rfl
  rw [he, hm] at h2
  exact ⟨h1, fun a b => (h2 a b).1, h3, h4⟩

/-- The NEGATION for a worker that drops a listed event repeating the version it has processed last (seed C03f), for
    EVERY state: whenever the re-listed object interrupts the sleep of a turn, the loop is stuck for good — nothing is
    pending, no turn follows, no touch was sent — on exactly what the object carried: every record the sleeping
    handlers were waiting on, the last-handled state as it was. -/
theorem relist_skipped_stuck (env : Env) (s : State E) (t : Tick) (h : inSleep env s t = true) :
    (loopStepRSkip env t s).pending = false ∧ (∀ n, iter env n (loopStepRSkip env t s) = loopStepRSkip env t s) ∧
    (loopStepRSkip env t s).writes = s.writes + cp env ∧ (loopStepRSkip env t s).base = s.base ∧
    (∀ i ∈ ids env, (loopStepRSkip env t s).P i = s.P i) := by
  obtain ⟨_, hc⟩ := inSleep_cond env s t h
  obtain ⟨hP, hb⟩ := unchanged_of_not_changed env s hc
  have heq : loopStepRSkip env t s = { interrupted env s t with pending := false } := by
    unfold loopStepRSkip; rw [workerTurn_inSleep true env s t h]; rfl
  rw [heq]
  exact ⟨rfl, fun n => iter_quiescent env n _ rfl, rfl, hb, hP⟩

/-- The witness (seed C03f; corpus/C03/relist_same_version_during_retry_sleep.json and its neighbours, replayed on
    the real operator): the update `0 → 1` is outstanding, `u0` failed once and sleeps till tick 512; at tick 300 the
    stream re-lists the object as it is. The code as it is: the sleep is interrupted, the listed event is processed
    (nothing due yet), the rest of the delay is slept, the touch at 512 brings the event at 513, `u0` runs and closes
    the cycle: four turns, two writes, last-handled = essence, no record. The worker that drops the listed event:
    quiescent for ever with `u0`'s unfinished record on the object and last-handled ≠ essence, nothing written. -/
theorem relist_skipped_witness :
    WF envI ∧ AllFinal envI ∧ Uniform envI (stateW (some 0) 1) ∧ sleepsTill envI (stateW (some 0) 1) = some 512 ∧
    inSleep envI (stateW (some 0) 1) 300 = true ∧
    (loopStepRSkip envI 300 (stateW (some 0) 1)).pending = false ∧
    (∀ n, iter envI n (loopStepRSkip envI 300 (stateW (some 0) 1)) = loopStepRSkip envI 300 (stateW (some 0) 1)) ∧
    (loopStepRSkip envI 300 (stateW (some 0) 1)).P "u0" = some retryingRec ∧
    (loopStepRSkip envI 300 (stateW (some 0) 1)).base ≠ some (stateW (some 0) 1).ess ∧
    (loopStepRSkip envI 300 (stateW (some 0) 1)).writes = 0 ∧
    -- the code as it is
    (loopStepR envI 300 (stateW (some 0) 1)).pending = true ∧ (loopStepR envI 300 (stateW (some 0) 1)).now = 300 ∧
    (pass envI (loopStepR envI 300 (stateW (some 0) 1))).invoked = [] ∧
    (iter envI 1 (loopStepR envI 300 (stateW (some 0) 1))).now = 513 ∧
    (pass envI (iter envI 1 (loopStepR envI 300 (stateW (some 0) 1)))).invoked = [("u0", 1)] ∧
    (iter envI 3 (loopStepR envI 300 (stateW (some 0) 1))).pending = false ∧
    (iter envI 3 (loopStepR envI 300 (stateW (some 0) 1))).base = some 1 ∧
    (iter envI 3 (loopStepR envI 300 (stateW (some 0) 1))).P "u0" = none ∧
    (iter envI 3 (loopStepR envI 300 (stateW (some 0) 1))).writes = 2 := by
  refine ⟨⟨?_, by decide, by decide, by decide⟩, fun _ _ => rfl, ⟨"update", ?_⟩, by decide, by decide, by decide, ?_,
    by decide, by decide, by decide, by decide, by decide, by decide, by decide, by decide, by decide, by decide,
    by decide, by decide⟩
  · intro c i hi
    simp only [envI] at hi ⊢
    split at hi
    · exact hi
    · simp at hi
  · intro i _ r hP
    simp only [stateW] at hP
    split at hP
    · cases hP; rfl
    · cases hP
  · intro n
    exact iter_quiescent envI n _ (by decide)

-- non-vacuity of `relist_in_sleep_leaves_event` / `relist_converges` / `relist_skipped_stuck`: the hypotheses hold of
-- the witness' state for every moment of its sleep's first stretch
example : Uniform envI (stateW (some 0) 1) ∧ (stateW (some 0) 1).gone = false ∧
    inSleep envI (stateW (some 0) 1) 256 = true ∧ inSleep envI (stateW (some 0) 1) 511 = true ∧
    inSleep envI (stateW (some 0) 1) 512 = false := by
  refine ⟨⟨"update", ?_⟩, rfl, by decide, by decide, by decide⟩
  intro i _ r hP
  simp only [stateW] at hP
  split at hP
  · cases hP; rfl
  · cases hP

/-! ## Where the loop's `base` comes from: every essential change is an outstanding change (seed C03h)

  The loop keeps the essence abstract; `Model/C03_Change.baseClass` is the producer of its `base` class from the JSON
  values (C04's `diff` = `diff_iter`, whose first case is `_same`). "Differ" is `¬ same (dropNulls ·) (dropNulls ·)`: as
  JSON values up to null-valued keys (a key holding `null` vs. the key absent is the open finding C04-F10). -/

/-- **Every essential change is an outstanding change**: whatever two well-formed values the last-handled state and the
    essence are — scalars, mappings, lists, at any depth — if they differ, the cycle that looks at them has an UPDATE
    before it (not a no-op). No bound on sizes or depths. -/
theorem outstanding_change_detected (o n : J) (ho : J.WF o) (hn : J.WF n)
    (h : ¬ C04.same (J.dropNulls o) (J.dropNulls n) = true) :
    baseClass (some o) n = .diff ∧ (causeOf (stateOfClass (baseClass (some o) n))).reason = .update := by
  have hd : baseClass (some o) n = .diff :=
    baseClass_diff_of_diff_ne (fun hnil => h ((C04.diff_nil_iff o n [] ho hn).1 hnil))
  exact ⟨hd, by rw [hd]; exact causeOf_class_diff⟩

/-- … and nothing else is: equal values (up to null-valued keys) are class `same`, the cycle is a no-op. -/
theorem no_change_no_cause (o n : J) (ho : J.WF o) (hn : J.WF n)
    (h : C04.same (J.dropNulls o) (J.dropNulls n) = true) :
    baseClass (some o) n = .same ∧ (causeOf (stateOfClass (baseClass (some o) n))).reason = .noop := by
  have hd : baseClass (some o) n = .same := by
    simp only [baseClass, (C04.diff_nil_iff o n [] ho hn).2 h, List.isEmpty_nil, if_true]
  exact ⟨hd, by rw [hd]; exact causeOf_class_same⟩

/-- **A list that only grew or shrank is a change**: wherever (any path below mappings) the last-handled state and the
    essence hold lists of different lengths — an item appended or dropped at the tail, an empty list filled, a list emptied,
    whatever the items are — the cycle has an UPDATE before it. -/
theorem list_length_change_detected (e e' : J) (p : C04.Path) (xs ys : List J) (hw : J.WF e) (hw' : J.WF e')
    (h1 : J.resolveD e p = .arr xs) (h2 : J.resolveD e' p = .arr ys) (hl : xs.length ≠ ys.length) :
    baseClass (some e) e' = .diff ∧ (causeOf (stateOfClass (baseClass (some e) e'))).reason = .update := by
  have hd : baseClass (some e) e' = .diff :=
    baseClass_diff_of_diff_ne (C04.change_detected_at p hw hw' (by rw [h1, h2]; exact arr_ne_of_length hl))
  exact ⟨hd, by rw [hd]; exact causeOf_class_diff⟩

-- non-vacuity: an item appended at the tail of `spec.items`, and a list emptied
example : J.WF (.obj [("spec", .obj [("items", .arr [.str "a"])])]) ∧ J.WF (.obj [("spec", .obj [("items", .arr [.str "a", .str "b"])])]) ∧
    J.resolveD (.obj [("spec", .obj [("items", .arr [.str "a"])])]) ["spec", "items"] = .arr [.str "a"] ∧
    J.resolveD (.obj [("spec", .obj [("items", .arr [.str "a", .str "b"])])]) ["spec", "items"] = .arr [.str "a", .str "b"] ∧
    [J.str "a"].length ≠ [J.str "a", J.str "b"].length :=
  ⟨by unfold J.WF; decide, by unfold J.WF; decide, rfl, rfl, by decide⟩

/-- **The variant of seed C03h fails the property** (`_same` comparing sequences over `zip` without their lengths): the
    object was handled with `spec.items = ["a"]`, an item is appended — a change by `outstanding_change_detected` — and the
    variant's cycle is a NO-OP: no handler is selected, nothing is stored, `base` stays the old state for good (the state is
    the loop's `same` class, quiescent after its one turn), while the real comparison gives the update. Likewise `[]` vs
    anything. -/
theorem list_prefix_variant_witness :
    ∃ o n : J, J.WF o ∧ J.WF n ∧ ¬ C04.same (J.dropNulls o) (J.dropNulls n) = true ∧
      (causeOf (stateOfClass (baseClass (some o) n))).reason = .update ∧
      (causeOf (stateOfClass (baseClassBy samePfx (some o) n))).reason = .noop ∧
      (causeOf (stateOfClass (baseClassBy samePfx (some n) o))).reason = .noop ∧
      (causeOf (stateOfClass (baseClassBy samePfx (some n) (.obj [("spec", .obj [("items", .arr [])])])))).reason = .noop :=
  ⟨.obj [("spec", .obj [("items", .arr [.str "a"])])], .obj [("spec", .obj [("items", .arr [.str "a", .str "b"])])],
    by unfold J.WF; decide, by unfold J.WF; decide, by decide, by decide, by decide, by decide, by decide⟩

/-- the comparison of the real code in the same frame: `baseClassBy C04.same` is `baseClass` -/
theorem baseClassBy_same (old : Option J) (new : J) :
    baseClassBy C04.same old new = baseClass old new := by
  cases old with
  | none => rfl
  | some o =>
    simp only [baseClassBy, baseClass]
    by_cases hs : C04.same o new = true
    · have : C04.diff o new [] = [] := C04.diff_of_pyEq [] hs
      simp [hs, this]
    · simp [hs]

end Kopf.C03
