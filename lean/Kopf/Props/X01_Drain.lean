/-
  X01 — towards `stale_then_converges` (theorem 3). PARTIAL.

  FULL STATEMENT (not proved): for every `r` with `Inv T r` and nothing carried, if from now on the adversary only performs
  `work 0`, there is `k ≤ f(r)` (f: queue length + number of own echoes still to come + 1 for a deadline to be slept out) with
  `InTime (witer T env k r)` or an empty queue; hence (with `reactor_converges`) the loop reaches C03's final state.
  MISSING: the ranking argument itself — that an iteration which DOES make a version does not go on for ever while stale events are
  still queued. It needs: (a) foreign events are drained first (FIFO: echoes are appended behind them), (b) a held-back iteration
  writes nothing (`heldIdle`, and `cutSleep` when something else is queued), (c) the barrier releases at the deadline at the latest
  (C07 `released_after_deadline`), (d) once only own echoes are queued, each run is on the server's own last state and C03's
  `bound` decreases. PROVED below: the bookkeeping half of the ranking (the queue never grows; it shrinks at every iteration that
  makes no version of its own) and the composition: from the first in-time state on, the composed loop IS C03's loop and converges.
-/
import Kopf.Props.X01
namespace Kopf.X01
open Kopf
variable {E : Type} [DecidableEq E]

/-- an iteration pops one event and queues at most one (the echo of its own write): the queue never grows -/
theorem work_queue_le (T : Int) (env : C03.Env) (d : Nat) (r : RState E) :
    (work T env d r).queue.length ≤ r.queue.length := by
  cases hq : r.queue with
  | nil => simp [work, hq]
  | cons ev rest =>
    obtain ⟨_, _, _, _, echo, _, _, _, _, _, _, _, _, _, _, _, _, _, _, hqueue, _, _⟩ := work_shape T env d r ev rest hq
    rw [hqueue]
    cases echo <;> simp

/-- … and it shrinks at every iteration that makes no version of its own (held back, nothing to write, a server-side no-op) -/
theorem work_queue_lt_of_no_version (T : Int) (env : C03.Env) (d : Nat) (r : RState E) (hne : r.queue ≠ [])
    (hrv : (work T env d r).rv = r.rv) : (work T env d r).queue.length < r.queue.length := by
  cases hq : r.queue with
  | nil => exact absurd hq hne
  | cons ev rest =>
    obtain ⟨_, _, _, wrote, echo, _, _, _, _, _, _, _, _, _, hew, _, _, hrv', _, hqueue, _, _⟩ := work_shape T env d r ev rest hq
    rw [hqueue]
    have hw : wrote = false := by
      cases hw : wrote
      · rfl
      · rw [hrv', hw] at hrv; simp at hrv
    have he : echo = false := by
      cases he : echo
      · rfl
      · rw [hew he] at hw; cases hw
    rw [he]; simp

theorem witer_queue_le (T : Int) (env : C03.Env) : ∀ (n : Nat) (r : RState E),
    (witer T env n r).queue.length ≤ r.queue.length := by
  intro n
  induction n with
  | zero => intro r; exact Nat.le_refl _
  | succ n ih => intro r; exact Nat.le_trans (ih _) (work_queue_le T env 0 r)

theorem witer_add (T : Int) (env : C03.Env) (a b : Nat) : ∀ r : RState E,
    witer T env (a + b) r = witer T env b (witer T env a r) := by
  induction a with
  | zero => intro r; simp [witer]
  | succ a ih =>
    intro r
    have : a + 1 + b = (a + b) + 1 := by omega
    rw [this]
    show witer T env (a + b) (work T env 0 r) = witer T env b (witer T env a (work T env 0 r))
    exact ih _

/-- **stale_then_converges_partial.** Whatever happened before (late deliveries, stale views, held-back iterations): IF `k` silent
    iterations bring the composed system in time with an event still queued — the awaited echo — (GUARD; that they do is
    the missing ranking argument), THEN from there it is C03's
    loop: for handlers with finitely many failures it empties its queue, and the object, if it still exists, carries no progress
    record and its last-handled state is its essence — C03's final state. -/
theorem stale_then_converges_partial (T : Int) (env : C03.Env) (wf : C03.WF env) (hfin : C03.FinitelyFailing env)
    (r : RState E) (k : Nat) (hin : InTime (witer T env k r)) (hu : C03.Uniform env (absS (witer T env k r)))
    (hq : (witer T env k r).queue ≠ []) (hg : (witer T env k r).srv.gone = false) :
    ∃ m, (witer T env (k + m) r).queue = [] ∧
      ((witer T env (k + m) r).srv.gone = false →
        (env.prematch = true → ∀ i ∈ env.owned, (witer T env (k + m) r).srv.P i = none) ∧
        (env.prematch = true → (witer T env k r).srv.marked = false →
          (witer T env (k + m) r).srv.base = some (witer T env k r).srv.ess)) := by
  obtain ⟨m, h1, _, h3⟩ := reactor_converges T env wf hfin _ hin hu hq hg
  refine ⟨m, by rw [witer_add]; exact h1, ?_⟩
  intro hgq
  rw [witer_add] at hgq ⊢
  exact h3 hgq

end Kopf.X01
