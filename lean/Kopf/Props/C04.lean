import Kopf.Model.C04_Diff
import Kopf.Model.C04_Essence
namespace Kopf.C04
end Kopf.C04
