/-
  C04 — property theorems only. Change detection is exact.

  `a ≈ b` (`Equiv`) is the equivalence the real `diffs.diff` decides: JSON equality (`same` =
  `diffs._same`, kopf 6b2e53c: dict key order irrelevant, a boolean never equals a number — the
  former finding F7) modulo object keys whose value is `null` (`J.dropNulls`: `diff_iter(None, None)`
  yields nothing, so a null-valued key and an absent key are the same to it). The one remaining
  deviation from JSON equality is a real deviation from the property text — with nullable /
  preserve-unknown fields a field may change between `null` and absent (finding C04-F10) — and is
  proved by a witness below.

  All theorems quantify over ALL well-formed JSON values (`J.WF`: object keys unique — what
  `json.loads` produces); there is no bound on nesting or size.
-/
import Kopf.Model.C04_Diff
import Kopf.Model.C04_Essence
import Kopf.Model.C04_Guards
import Kopf.Lemmas.C04_Marker
import Kopf.Lemmas.C04_MultiClean
import Kopf.Lemmas.C04_Shared
namespace Kopf.C04
open Kopf Kopf.J

/-- the blake2b table the examples need: `make_suffix('')` (used by `make_keys` to decide whether a V1
    key can fit at all). -/
def hashes0 : Hashes := [("", "-EnHPJQ")]

/-- Python equality modulo null-valued object keys. -/
def Equiv (a b : J) : Prop := same (dropNulls a) (dropNulls b) = true
infix:50 " ≈ " => Equiv

/-! ## the diff -/

/-- `diff a a = []` for every well-formed `a` (any nesting). -/
theorem diff_self_empty (a : J) (p : Path) (h : J.WF a) : diff a a p = [] :=
  diff_of_pyEq p (pyEq_refl a h)

/-- the diff is empty **iff** nothing differs (up to `≈`), for all well-formed values. -/
theorem diff_empty_iff (a b : J) (p : Path) (ha : J.WF a) (hb : J.WF b) :
    diff a b p = [] ↔ a ≈ b :=
  diff_nil_iff a b p ha hb

/-- applying the diff to old yields new (up to `≈`), and the result is well-formed. -/
theorem apply_diff (a b : J) (ha : J.WF a) (hb : J.WF b) :
    applyDiff (diff a b []) a ≈ b ∧ J.WF (applyDiff (diff a b []) a) :=
  ⟨(apply_diff_aux a b ha hb).2, (apply_diff_aux a b ha hb).1⟩

/-- narrowing the diff to a handler's field is exact: `reduce` of the whole-object diff **is** the
    diff of the two values at that field (`dicts.resolve(old, field, None)` etc. — what
    `ResourceHandler.adjust_cause` passes as old/new), item for item, for every path. -/
theorem reduce_exact (a b : J) (p : Path) (ha : J.WF a) (hb : J.WF b) :
    reduce (diff a b []) p = diff (resolveD a p) (resolveD b p) [] :=
  reduce_diff p a b ha hb

theorem wf_resolveD (p : Path) : ∀ (a : J), J.WF a → J.WF (resolveD a p) := by
  induction p with
  | nil => intro a h; simpa [resolveD_nil] using h
  | cons k q ih =>
    intro a h
    cases a with
    | obj kvs =>
      rw [resolveD_obj_cons]
      cases hl : lookup k kvs with
      | none => rfl
      | some x => exact ih x (wf_of_lookup (by simpa [J.WF, wf] using h) hl)
    | _ => rfl

/-- consequently the field-narrowed old/new/diff triple a handler receives obeys the same two laws. -/
theorem reduce_apply (a b : J) (p : Path) (ha : J.WF a) (hb : J.WF b) :
    applyDiff (reduce (diff a b []) p) (resolveD a p) ≈ resolveD b p := by
  rw [reduce_exact a b p ha hb]
  exact (apply_diff _ _ (wf_resolveD p a ha) (wf_resolveD p b hb)).1

theorem reduce_empty_iff (a b : J) (p : Path) (ha : J.WF a) (hb : J.WF b) :
    reduce (diff a b []) p = [] ↔ resolveD a p ≈ resolveD b p := by
  rw [reduce_exact a b p ha hb]
  exact diff_empty_iff _ _ [] (wf_resolveD p a ha) (wf_resolveD p b hb)

/-- C04-F10, null ≡ absent: a key with value `null` and a missing key are not distinguished, also
    below the root (inside arrays nulls do count): the strict reading "empty only if nothing differs"
    is false of the code here as well (Kubernetes does store nulls for nullable /
    preserve-unknown fields). -/
theorem null_absent_witness :
    diff (.obj [("a", .null)]) (.obj []) [] = []
    ∧ diff (.obj [("a", .obj [("b", .null)])]) (.obj [("a", .obj [])]) [] = []
    ∧ diff (.obj [("a", .arr [.obj [("b", .null)]])]) (.obj [("a", .arr [.obj []])]) [] ≠ [] := by
  decide

example : J.WF (.obj [("spec", .obj [("a", .num 1), ("b", .arr [.null, .obj []])])]) := by unfold J.WF; decide
example : (J.obj [("a", .num 1), ("b", .null)]) ≈ (J.obj [("a", .num 1)]) := by unfold Equiv; decide
example : ¬ ((J.obj [("a", .num 1)]) ≈ (J.obj [("a", .bool true)])) := by unfold Equiv; decide
example : ¬ ((J.obj [("a", .num 1)]) ≈ (J.obj [("a", .num 2)])) := by unfold Equiv; decide

/-! ## the essence: what never counts -/

/-- **The status stanza never counts**: setting `status` to anything (or removing it) leaves the
    essence unchanged, for every storage configuration, every body and every set of handler fields
    whose own values are the same before and after (`hx`: e.g. `@on.field('status.phase')` while
    kopf writes `status.kopf.*`). The guard is the gap: a handler field whose value the write changes
    is *meant* to count — unless the write is the framework's own (F8, `extra_status_witness`). -/
theorem status_invisible (cfg : Cfg) (extra : List (List String)) (kvs : Kvs) (v : J)
    (hx : ∀ f, f ∈ extra → resolveE (.obj (J.insert "status" v kvs)) f = resolveE (.obj kvs) f) :
    essence cfg extra (.obj (J.insert "status" v kvs)) = essence cfg extra (.obj kvs) :=
  essence_congr cfg (sameView_insert_status' kvs v extra hx)

theorem status_removal_invisible (cfg : Cfg) (extra : List (List String)) (kvs : Kvs)
    (hx : ∀ f, f ∈ extra → resolveE (.obj (erase "status" kvs)) f = resolveE (.obj kvs) f) :
    essence cfg extra (.obj (erase "status" kvs)) = essence cfg extra (.obj kvs) :=
  essence_congr cfg (sameView_erase_status' kvs extra hx)

/-- instance: a handler on `status.phase`, kopf's own progress/touch under `status.kopf`. -/
example : ∀ f, f ∈ [["status", "phase"]] →
    resolveE (.obj (J.insert "status" (.obj [("phase", .str "Running"), ("kopf", .obj [("dummy", .str "2020")])])
      [("spec", .obj []), ("status", .obj [("phase", .str "Running")])])) f =
    resolveE (.obj [("spec", .obj []), ("status", .obj [("phase", .str "Running")])]) f := by
  intro f hf; simp at hf; subst hf; rfl

/-- **System metadata and finalizers never count**: replacing `metadata` by any mapping `m'` that has
    the same `labels`, `annotations` and `ownerReferences` (so: any change of resourceVersion,
    generation, managedFields, uid, finalizers, deletionTimestamp, …; `ownerReferences` only feeds the
    ReplicaSet-of-Deployment key mark) leaves the essence unchanged — every configuration, every body. -/
theorem system_metadata_invisible (cfg : Cfg) (extra : List (List String)) (kvs m m' : Kvs)
    (hm : lookup "metadata" kvs = some (.obj m))
    (hlab : lookup "labels" m' = lookup "labels" m) (hann : lookup "annotations" m' = lookup "annotations" m)
    (hown : lookup "ownerReferences" m' = lookup "ownerReferences" m) (hx : ExtraMetaOK m m' extra) :
    essence cfg extra (.obj (J.insert "metadata" (.obj m') kvs)) = essence cfg extra (.obj kvs) :=
  essence_congr cfg (sameView_metadata kvs m m' extra hm hlab hann hown hx)

/-- corollary (an instance of `system_metadata_invisible`, not counted as a property theorem):
    adding/removing/changing the finalizer list. -/
theorem finalizers_invisible (cfg : Cfg) (extra : List (List String)) (kvs m : Kvs) (fins : J)
    (hm : lookup "metadata" kvs = some (.obj m)) (hx : ExtraAvoids "metadata" extra) :
    essence cfg extra (.obj (J.insert "metadata" (.obj (J.insert "finalizers" fins m)) kvs)) =
      essence cfg extra (.obj kvs) := by
  refine system_metadata_invisible cfg extra kvs m _ hm ?_ ?_ ?_ ?_
  · exact lookup_insert_other _ m (by decide)
  · exact lookup_insert_other _ m (by decide)
  · exact lookup_insert_other _ m (by decide)
  · intro f hf
    obtain ⟨k, ks, h1, h2⟩ := hx f hf
    exact Or.inl ⟨k, ks, h1, h2⟩

/-- **Own and other operators' annotations never count (no self-trigger, no ping-pong)**: an
    annotation `k0` whose prefix is marked as a Kopf operator's — it is `kopf.zalando.org` or a
    sub-domain (the default of both storages), or some *other* annotation marks it (the
    `kopf-managed` marker the storages write with every store/touch, or a key under a known prefix) —
    can be set, changed or removed (`A'` agrees with `A` off `k0`): the essence is unchanged. Every
    configuration, body, handler-field set that stays out of `metadata.annotations`. -/
theorem marked_annotation_invisible (cfg : Cfg) (extra : List (List String)) (kvs m A A' : Kvs)
    (k0 : String) (p0 : List Char)
    (hm : lookup "metadata" kvs = some (.obj m)) (ha : lookup "annotations" m = some (.obj A))
    (hd : AgreeOffKey k0 A' A)
    (hp0 : pfx k0 = some p0) (hr : Robust A k0 p0) (hx : ExtraAnnOK extra) :
    essence cfg extra (.obj (withAnn kvs m A')) = essence cfg extra (.obj kvs) :=
  essence_withAnn cfg extra hm ha hd hp0 hr hx

/-- **A whole group of annotations under one prefix** may appear, change or vanish in one write
    (`A'` and `A` agree off the prefix `p0`): if before and after every key under `p0` is dropped by
    the marked-prefix rule (`GroupDropped`), the essence is unchanged. This is what a Kopf-based
    operator's patch looks like: its records plus the `kopf-managed` marker. -/
theorem prefix_group_invisible (cfg : Cfg) (extra : List (List String)) (kvs m A A' : Kvs) (p0 : List Char)
    (hm : lookup "metadata" kvs = some (.obj m)) (ha : lookup "annotations" m = some (.obj A))
    (hd : AgreeOffPrefix p0 A' A) (hg : GroupDropped p0 A) (hg' : GroupDropped p0 A') (hx : ExtraAnnOK extra) :
    essence cfg extra (.obj (withAnn kvs m A')) = essence cfg extra (.obj kvs) :=
  essence_withAnn_of_filter cfg extra hm ha (filter_group_eq hd hg hg') hx

/-- **The first write of an operator with a custom prefix onto an object that already has
    annotations**: the new keys `new` (all under `p0`, the `kopf-managed` marker among them) are
    appended to annotations `A` that have nothing under `p0`: the essence is unchanged. -/
theorem first_custom_prefix_write_invisible (cfg : Cfg) (extra : List (List String)) (kvs m A new : Kvs) (p0 : List Char)
    (hm : lookup "metadata" kvs = some (.obj m)) (ha : lookup "annotations" m = some (.obj A))
    (hA : ∀ k, k ∈ keys A → pfx k ≠ some p0) (hnew : ∀ k, k ∈ keys new → pfx k = some p0)
    (hmark : p0 ∈ markedPrefixes (keys new)) (hx : ExtraAnnOK extra) :
    essence cfg extra (.obj (withAnn kvs m (A ++ new))) = essence cfg extra (.obj kvs) := by
  obtain ⟨h1, h2, h3⟩ := group_of_append hA hnew hmark
  exact prefix_group_invisible cfg extra kvs m A (A ++ new) p0 hm ha h1 h2 h3 hx

example : (∀ k, k ∈ keys [("plain", J.str "v"), ("example.com/owner", J.str "me")] → pfx k ≠ some "my-op.example.com".toList)
    ∧ (∀ k, k ∈ keys [("my-op.example.com/create_fn", J.str "{}"), ("my-op.example.com/kopf-managed", J.str "yes")] →
        pfx k = some "my-op.example.com".toList)
    ∧ "my-op.example.com".toList ∈ markedPrefixes (keys [("my-op.example.com/create_fn", J.str "{}"),
        ("my-op.example.com/kopf-managed", J.str "yes")]) := by
  refine ⟨?_, ?_, by decide⟩
  · intro k hk; simp [keys] at hk; rcases hk with rfl | rfl <;> decide
  · intro k hk; simp [keys] at hk; rcases hk with rfl | rfl <;> decide

/-- the hypotheses are met by the default storages' keys … -/
example : pfx "kopf.zalando.org/last-handled-configuration" = some "kopf.zalando.org".toList
    ∧ knownish "kopf.zalando.org".toList = true := by decide
example : pfx "kopf.zalando.org/touch-dummy" = some "kopf.zalando.org".toList := by decide
/-- … and by a custom prefix once its marker is there. -/
example : Robust [("my-op.example.com/kopf-managed", .str "yes")] "my-op.example.com/create_fn" "my-op.example.com".toList :=
  Or.inr ⟨"my-op.example.com/kopf-managed", by decide, by decide, by decide⟩

/-- **The first annotation write** on an object that has no `metadata.annotations` yet (a fresh
    object): if every key written is dropped by the marked-prefix rule (all under `kopf.zalando.org`
    or a sub-domain — the defaults —, or the `kopf-managed` marker is written along, as the storages
    do), the essence is unchanged. Every configuration and body; handler fields outside `metadata`. -/
theorem first_annotation_write_invisible (cfg : Cfg) (extra : List (List String)) (kvs m A' : Kvs)
    (hm : lookup "metadata" kvs = some (.obj m)) (ha : lookup "annotations" m = none)
    (hall : ∀ kv, kv ∈ A' → keepAnnotation (markedPrefixes (keys A')) kv.1 = false)
    (hx : ExtraAvoids "metadata" extra) :
    essence cfg extra (.obj (withAnn kvs m A')) = essence cfg extra (.obj kvs) :=
  essence_firstAnn cfg extra hm ha hall hx

/-- the hypothesis holds for what the default storages write first … -/
example : ∀ kv, kv ∈ [("kopf.zalando.org/create_fn", J.str "{}"), ("kopf.zalando.org/last-handled-configuration", J.str "{}")] →
    keepAnnotation (markedPrefixes (keys [("kopf.zalando.org/create_fn", J.str "{}"),
      ("kopf.zalando.org/last-handled-configuration", J.str "{}")])) kv.1 = false := by
  intro kv h
  simp only [List.mem_cons, List.mem_nil_iff, or_false] at h
  rcases h with rfl | rfl <;> decide
/-- … and for a custom prefix together with its marker. -/
example : ∀ kv, kv ∈ [("my-op.example.com/create_fn", J.str "{}"), ("my-op.example.com/kopf-managed", J.str "yes")] →
    keepAnnotation (markedPrefixes (keys [("my-op.example.com/create_fn", J.str "{}"),
      ("my-op.example.com/kopf-managed", J.str "yes")])) kv.1 = false := by
  intro kv h
  simp only [List.mem_cons, List.mem_nil_iff, or_false] at h
  rcases h with rfl | rfl <;> decide

/-! ## what a Kopf annotations storage writes -/

/-- **The writes of a Kopf annotations storage are invisible to every Kopf operator** (own and other:
    no self-trigger through another operator, no ping-pong), for EVERY prefix `P` (non-empty, as the
    constructors require; no `/`): the storage's patch `patchAnn` (records, touch-dummy, last-handled
    — any keys under `P`, set or purged) goes through `_store_marker` (`storeMarker`, kopf ef55390)
    and is merged into the annotations `A` (RFC 7386): the essence does not change. The marker is
    there after the write whenever the prefix is not recognised by itself (`marker_after_write`), so no
    guard on the prefix is left (finding C04-N1 is repaired). The remaining hypothesis `hA` is the
    reserved-prefix one (no visible user annotation under `P` before: finding C04-F11,
    `marker_first_write_witness`). -/
theorem kopf_storage_write_invisible (cfg : Cfg) (extra : List (List String)) (kvs m A patchAnn : Kvs) (P : String)
    (hm : lookup "metadata" kvs = some (.obj m)) (ha : lookup "annotations" m = some (.obj A))
    (hP0 : P ≠ "") (hP : '/' ∉ P.toList)
    (hkeys : ∀ k, k ∈ keys patchAnn → pfx k = some P.toList) (hnm : markerKey P ∉ keys patchAnn)
    (hA : GroupDropped P.toList A) (hx : ExtraAnnOK extra) :
    essence cfg extra (.obj (withAnn kvs m (mergeKvs A (storeMarker P A patchAnn)))) = essence cfg extra (.obj kvs) := by
  have hall : ∀ k, k ∈ keys (storeMarker P A patchAnn) → (pfx k != some P.toList) = false := by
    intro k hk
    rcases keys_storeMarker A patchAnn hk with h | h
    · simp [hkeys k h]
    · subst h; simp [pfx_markerKey hP]
  have hd : AgreeOffPrefix P.toList (mergeKvs A (storeMarker P A patchAnn)) A :=
    filter_mergeKvs (q := fun k => pfx k != some P.toList) _ A hall
  have hmark : markerKey P ∈ keys (mergeKvs A (storeMarker P A patchAnn)) ∨ knownish P.toList = true := by
    cases hw : writesMarker P with
    | true => exact Or.inl (marker_after_write A patchAnn hw hnm)
    | false =>
      right
      simp only [writesMarker, Bool.and_eq_false_iff] at hw
      rcases hw with hw | hw
      · exact absurd (by simpa using hw) hP0
      · simpa using hw
  exact prefix_group_invisible cfg extra kvs m A _ P.toList hm ha hd hA (groupDropped_of_marker hP hmark) hx

/-- the hypotheses on the patch are met by what a `kopf.dev` operator writes (no marker among the
    keys, everything under the prefix). -/
example : (∀ k, k ∈ keys [("kopf.dev/touch-dummy", J.str "2020"), ("kopf.dev/create_fn", J.str "{}")] →
      pfx k = some "kopf.dev".toList)
    ∧ markerKey "kopf.dev" ∉ keys [("kopf.dev/touch-dummy", J.str "2020"), ("kopf.dev/create_fn", J.str "{}")]
    ∧ writesMarker "kopf.dev" = true ∧ writesMarker "kopf.zalando.org" = false ∧ writesMarker "op.kopf.zalando.org" = false := by
  refine ⟨?_, by decide, by decide, by decide, by decide⟩
  intro k hk; simp [keys] at hk; rcases hk with rfl | rfl <;> decide

/-- `_store_marker` puts the marker into the patch (unless the body or the patch has it) exactly when
    the prefix is not recognised by itself. -/
theorem store_marker_spec (P : String) (bodyAnn patchAnn : Kvs) :
    (writesMarker P = true → markerKey P ∈ keys bodyAnn ∨ markerKey P ∈ keys (storeMarker P bodyAnn patchAnn)) ∧
    (writesMarker P = false → storeMarker P bodyAnn patchAnn = patchAnn) :=
  ⟨storeMarker_ensures bodyAnn patchAnn, storeMarker_silent bodyAnn patchAnn⟩

/-! ## the essence: what does count -/

/-- **Every payload stanza is in the essence, exactly**: for a top-level key other than
    apiVersion/kind/metadata/status which no configured ignored/storage field starts with, the essence
    holds the body's value unchanged (or lacks it iff the body does) — all configurations, all bodies,
    all handler fields. -/
theorem payload_exact (cfg : Cfg) (extra : List (List String)) (kvs : Kvs) (e : J) (k : String)
    (hk : PayloadKey k) (hd : AvoidKey k (diffbaseFields cfg.diffbase)) (hp : AvoidKey k (progressFields cfg.progress))
    (h : essence cfg extra (.obj kvs) = .ok e) : e.get? k = lookup k kvs :=
  essence_get? hk hd hp h

/-- the essence is injective on the payload part. -/
theorem essence_injective_on_payload (cfg : Cfg) (extra : List (List String)) (kvs kvs' : Kvs) (e : J) (k : String)
    (hk : PayloadKey k) (hd : AvoidKey k (diffbaseFields cfg.diffbase)) (hp : AvoidKey k (progressFields cfg.progress))
    (h : essence cfg extra (.obj kvs) = .ok e) (h' : essence cfg extra (.obj kvs') = .ok e) :
    lookup k kvs = lookup k kvs' := by
  rw [← payload_exact cfg extra kvs e k hk hd hp h, ← payload_exact cfg extra kvs' e k hk hd hp h']

/-- **a handler's field hidden behind a non-mapping value is an absent field** (kopf 571b1b2; before, finding
    C04-F13: `build` raised TypeError and the object was never processed): when `resolve(body, field)` hits a
    value that is no mapping (`field='spec.a.b'`, `spec.a` a string, a list, null), the handler's field
    contributes nothing — the essence is the one built without that handler, for EVERY storage configuration
    (also through the pseudo-bodies of a MultiDiffBaseStorage: `build` only removes). -/
theorem hidden_field_is_absent (cfg : Cfg) (extra : List (List String)) (body : J) (f : List String)
    (h : resolveE body f = .error .typeError) : essence cfg (f :: extra) body = essence cfg extra body :=
  essence_cons_absent (fun ⟨v, hv⟩ => by rw [h] at hv; cases hv) cfg extra

example : resolveE (.obj [("spec", .obj [("a", .str "s"), ("n", .num 5)])]) ["spec", "a", "b"] = .error .typeError := by rfl

/-- the guarded restoring loop of `build` never ends in a TypeError, whatever the body, the essence so far and
    the handlers' fields. -/
theorem handler_fields_never_type_error (src dst : J) (fs : List (List String)) :
    cherrypickSkip src dst fs ≠ .error .typeError := cherrypickSkip_no_typeError src fs dst

/-- the essence of a well-formed body is well-formed (so the diff theorems apply to essences). -/
theorem essence_wf (cfg : Cfg) (extra : List (List String)) (b e : J) (hb : J.WF b)
    (h : essence cfg extra b = .ok e) : J.WF e :=
  wf_essence hb h

/-- if two well-formed values differ (not `≈`) at some path, their diff is non-empty. -/
theorem change_detected (e e' : J) (p : Path) (hw : J.WF e) (hw' : J.WF e')
    (hne : ¬ resolveD e p ≈ resolveD e' p) : diff e e' [] ≠ [] :=
  change_detected_at p hw hw' hne

/-- **A number turned into a boolean (or back) counts** — the former finding F7, repaired in kopf
    6b2e53c: wherever two well-formed values hold a number resp. a boolean at the same path (`1` vs
    `true`, `0` vs `false`, at any depth below mappings), their diff is non-empty. -/
theorem bool_number_change_detected (e e' : J) (p : Path) (n : Int) (b : Bool) (hw : J.WF e) (hw' : J.WF e')
    (h1 : resolveD e p = .num n) (h2 : resolveD e' p = .bool b) :
    diff e e' [] ≠ [] ∧ diff e' e [] ≠ [] := by
  refine ⟨change_detected e e' p hw hw' ?_, change_detected e' e p hw' hw ?_⟩
  · rw [h1, h2]; unfold Equiv; simp [dropNulls, same]
  · rw [h1, h2]; unfold Equiv; simp [dropNulls, same]

example : diff (.obj [("spec", .obj [("a", .num 1)])]) (.obj [("spec", .obj [("a", .bool true)])]) [] ≠ []
    ∧ diff (.obj [("l", .arr [.num 0])]) (.obj [("l", .arr [.bool false])]) [] ≠ [] := by decide

/-- **Any change of a payload field counts** — changed, added or removed (`none` reads as `null`):
    if a payload stanza differs (not `≈`) between two well-formed bodies, the diff of their essences
    is non-empty, so handling is triggered. -/
theorem payload_change_detected (cfg : Cfg) (extra : List (List String)) (kvs kvs' : Kvs) (e e' : J) (k : String)
    (hk : PayloadKey k) (hd : AvoidKey k (diffbaseFields cfg.diffbase)) (hp : AvoidKey k (progressFields cfg.progress))
    (hb : J.WF (.obj kvs)) (hb' : J.WF (.obj kvs'))
    (h : essence cfg extra (.obj kvs) = .ok e) (h' : essence cfg extra (.obj kvs') = .ok e')
    (hne : ¬ (lookup k kvs).getD .null ≈ (lookup k kvs').getD .null) :
    diff e e' [] ≠ [] := by
  have hwe := essence_wf cfg extra _ e hb h
  have hwe' := essence_wf cfg extra _ e' hb' h'
  have g := payload_exact cfg extra kvs e k hk hd hp h
  have g' := payload_exact cfg extra kvs' e' k hk hd hp h'
  refine change_detected e e' [k] hwe hwe' ?_
  have r : ∀ (x : J) (o : Option J), x.get? k = o → resolveD x [k] = o.getD .null := by
    intro x o hx
    cases x with
    | obj l => rw [resolveD_top]; simp only [get?] at hx; rw [hx]
    | _ => simp only [get?] at hx; subst hx; rfl
  rw [r e _ g, r e' _ g']
  exact hne

/-- **Labels are in the essence, exactly**: for every configuration and handler-field set that leave
    `metadata` to `build`'s own rules (`MetaPlain`), `essence.metadata.labels.<lk>` is the body's label. -/
theorem label_exact (cfg : Cfg) (extra : List (List String)) (kvs : Kvs) (e : J) (lk : String)
    (hplain : MetaPlain cfg extra) (h : essence cfg extra (.obj kvs) = .ok e) :
    resolve? e ["metadata", "labels", lk] = labelOf kvs lk :=
  essence_label lk hplain h

/-- **Ordinary annotations are in the essence, exactly**: an annotation that is `Ordinary` (not
    last-applied, prefix not marked as a Kopf operator's) and not under a prefix of the operator's
    own storages (`NotOwn`) is in `essence.metadata.annotations` with the body's value. -/
theorem annotation_exact (cfg : Cfg) (extra : List (List String)) (kvs : Kvs) (e : J) (ak : String)
    (hplain : MetaPlain cfg extra) (hord : ∀ a0, bodyAnn kvs = some a0 → Ordinary ak a0) (hown : NotOwn cfg ak)
    (h : essence cfg extra (.obj kvs) = .ok e) :
    resolve? e ["metadata", "annotations", ak] = annOf kvs ak :=
  essence_annotation ak hplain hord hown h

/-- **Any change of a label counts** (changed, added, removed). -/
theorem label_change_detected (cfg : Cfg) (extra : List (List String)) (kvs kvs' : Kvs) (e e' : J) (lk : String)
    (hplain : MetaPlain cfg extra) (hb : J.WF (.obj kvs)) (hb' : J.WF (.obj kvs'))
    (h : essence cfg extra (.obj kvs) = .ok e) (h' : essence cfg extra (.obj kvs') = .ok e')
    (hne : ¬ (labelOf kvs lk).getD .null ≈ (labelOf kvs' lk).getD .null) :
    diff e e' [] ≠ [] := by
  refine change_detected e e' ["metadata", "labels", lk] (essence_wf cfg extra _ e hb h) (essence_wf cfg extra _ e' hb' h') ?_
  simp only [resolveD, label_exact cfg extra kvs e lk hplain h, label_exact cfg extra kvs' e' lk hplain h']
  exact hne

/-- **Any change of an ordinary annotation counts** (changed, added, removed; the annotation is
    ordinary and not-own in both bodies). -/
theorem ordinary_annotation_change_detected (cfg : Cfg) (extra : List (List String)) (kvs kvs' : Kvs) (e e' : J)
    (ak : String) (hplain : MetaPlain cfg extra) (hown : NotOwn cfg ak)
    (hord : ∀ a0, bodyAnn kvs = some a0 → Ordinary ak a0) (hord' : ∀ a0, bodyAnn kvs' = some a0 → Ordinary ak a0)
    (hb : J.WF (.obj kvs)) (hb' : J.WF (.obj kvs'))
    (h : essence cfg extra (.obj kvs) = .ok e) (h' : essence cfg extra (.obj kvs') = .ok e')
    (hne : ¬ (annOf kvs ak).getD .null ≈ (annOf kvs' ak).getD .null) :
    diff e e' [] ≠ [] := by
  refine change_detected e e' ["metadata", "annotations", ak] (essence_wf cfg extra _ e hb h)
    (essence_wf cfg extra _ e' hb' h') ?_
  simp only [resolveD, annotation_exact cfg extra kvs e ak hplain hord hown h,
    annotation_exact cfg extra kvs' e' ak hplain hord' hown h']
  exact hne

/-- the hypotheses are met by the default configuration, a plain user annotation, a changed label. -/
def cfgDefault : Cfg :=
  ⟨.leaf (.annotations "kopf.zalando.org" "last-handled-configuration" true []),
   [.annotations "kopf.zalando.org", .status ["status", "kopf", "progress"] ["status", "kopf", "dummy"]], hashes0⟩

example : MetaPlain cfgDefault [["spec", "field"]] := by
  refine ⟨?_, ?_, ?_⟩
  · intro f hf; simp [cfgDefault, diffbaseFields, leafFields] at hf
  · intro f hf
    simp [cfgDefault, progressFields] at hf
    rcases hf with rfl | rfl <;> exact ⟨"status", rfl, by decide⟩
  · intro f hf
    simp at hf; subst hf
    exact ⟨"spec", ["field"], rfl, by decide⟩

example : NotOwn cfgDefault "example.com/owner" := by
  intro p hp
  simp [cfgDefault, diffbasePrefixes, leafPrefixes, progressPrefixes] at hp
  subst hp
  decide

example : Ordinary "example.com/owner" [("example.com/owner", .str "me"), ("kopf.zalando.org/touch-dummy", .str "x")] :=
  ⟨by decide, fun p hp => by
    have : p = "example.com".toList := by
      have h : pfx "example.com/owner" = some "example.com".toList := by decide
      rw [h] at hp; exact (Option.some.inj hp).symm
    subst this; decide⟩

/-! ## the storages carry no state from one object to the next -/

/-- **The annotation names depend only on the body served** (`make_keys` = `mark_key` + forming is a
    function): whatever sequence of objects one storage instance serves, the answer for each object
    is the answer a fresh storage gives for that object alone — in particular a ReplicaSet owned by a
    Deployment gets its `-ofDRS` names whether or not the Deployment was served before it. The real
    storages are tied to this by the shared-instance sequence runs of the harness. -/
/- not counted as a property theorem: `serveSeq` is a `map`, the statement is definitional; the
   content is the shared-instance tie of the harness. -/
theorem keys_depend_only_on_body (h : Hashes) (v1 : Bool) (prefix_ key : String) (before after : List J) (b : J) :
    (serveSeq h v1 prefix_ key (before ++ b :: after))[before.length]? = some (keysFor h v1 prefix_ key b) := by
  simp [serveSeq]

example : (keysFor hashes0 true "kopf.zalando.org" "last-handled-configuration"
      (.obj [("kind", .str "ReplicaSet"), ("metadata", .obj [("ownerReferences", .arr [.obj [("kind", .str "Deployment")]])])])).toOption
      = some ["kopf.zalando.org/last-handled-configuration-ofDRS"]
    ∧ (keysFor hashes0 true "kopf.zalando.org" "last-handled-configuration"
      (.obj [("kind", .str "Deployment"), ("metadata", .obj [])])).toOption
      = some ["kopf.zalando.org/last-handled-configuration"] := by decide

/-! ## own keys under an unmarked prefix (the exact-key / progress-prefix route) -/

/-- **Own key, unmarked prefix, every diff-base configuration** (single Annotations/Status storages
    and `MultiDiffBaseStorage` as repaired in kopf 55b75e2): setting, changing or removing one of the
    operator's own annotation names for this object (`OwnKeyOf`: an exact key of a configured
    `AnnotationsDiffBaseStorage` as `make_keys` forms it for this body — `-ofDRS` mark included —, or
    any name under the prefix of an `AnnotationsProgressStorage`) leaves the essence the same mapping:
    the diff of the two essences is empty (no re-trigger), although the prefix is not marked
    (`markedPrefix? k0 = none`: no `kopf-managed` marker yet, or a `kopf.*` prefix for which none is
    ever written). The object has a `kind` and an annotations mapping; `MetaPlain` as above. -/
/- Guarded (`_partial` by the DESIGN convention): `hk` (the body has a `kind`) and `ha` (the
   annotations mapping exists before the write) are proof artefacts, not gaps of the code — the model
   evaluates to an empty diff without them on every case tried; the unguarded statement is not proved. -/
theorem own_key_unmarked_invisible_partial (cfg : Cfg) (extra : List (List String)) (kvs m A A' : Kvs)
    (k0 : String) (kd : J) (e e' : J) (hplain : MetaPlain cfg extra)
    (hk : lookup "kind" kvs = some kd) (hm : lookup "metadata" kvs = some (.obj m))
    (ha : lookup "annotations" m = some (.obj A)) (hd : AgreeOffKey k0 A' A) (hmark : markedPrefix? k0 = none)
    (hown : OwnKeyOf cfg (.obj kvs) k0)
    (hw : J.WF (.obj kvs)) (hw' : J.WF (.obj (withAnn kvs m A')))
    (h : essence cfg extra (.obj kvs) = .ok e) (h' : essence cfg extra (.obj (withAnn kvs m A')) = .ok e') :
    diff e e' [] = [] :=
  own_key_unmarked_general hplain hk hm ha hd hmark hown hw hw' h h'

/-- a `kopf.dev` diff-base storage: its last-handled key is unmarked and among the exact keys. -/
example : markedPrefix? "kopf.dev/last-handled-configuration" = none
    ∧ (makeKeys hashes0 true "kopf.dev".toList "last-handled-configuration".toList).toOption =
        some ["kopf.dev/last-handled-configuration"] := by decide

/-! ## what every nested storage cleans stays cleaned (MultiDiffBaseStorage: refinement, any order) -/

/-- **The stored last-handled state never counts, for every nested storage, whatever the handlers'
    fields** (every diff-base configuration: a single storage, or `MultiDiffBaseStorage` with ANY list
    of nested storages in ANY order — each nested `build` refines the essence the previous ones left,
    the pseudo-body adds back only `kind` and `metadata.ownerReferences`):
    * the field of every (nested) `StatusDiffBaseStorage` is absent from the essence — even when a
      handler field (`extra`) covers it (`@kopf.on.field(field='status')` with
      `Multi([Status(field='status.diff-base'), Annotations()])`, the transitional set-up of the docs);
    * every annotation name `make_keys` forms for the REAL body (`-ofDRS` mark included) of every
      (nested) `AnnotationsDiffBaseStorage` is absent — even with a handler on `metadata.annotations`.
    So a `store` of the last-handled state writes only to locations that are not in the essence: the
    next event's essence is the same, handling cannot trigger itself through it.

    `_partial`: the full clause "NO location a storage writes is in the essence" is false of the code —
    the `<prefix>/kopf-managed` marker written along is restored by a handler field that covers
    `metadata.annotations` (open finding F8, `multi_marker_restored_witness`). -/
theorem nested_own_writes_cleaned_partial (cfg : Cfg) (extra : List (List String)) (body e : J)
    (h : essence cfg extra body = .ok e) :
    (∀ f ig, DiffBaseLeaf.status f ig ∈ diffbaseLeaves cfg.diffbase → PseudoApart f → Absent e f) ∧
    (∀ p key v1 ig ks k, DiffBaseLeaf.annotations p key v1 ig ∈ diffbaseLeaves cfg.diffbase →
        keysFor cfg.hashes v1 p key body = .ok ks → k ∈ ks → Absent e ["metadata", "annotations", k]) :=
  ⟨fun _ _ hl hp => essence_status_field_absent hl hp h,
   fun _ _ _ _ _ _ hl hks hk => essence_own_keys_absent hl hks hk h⟩

/-- **`ignored_fields` of EVERY nested storage are ignored** (first, middle or last in the list; also
    the single storages): the field is absent from the essence whatever the handlers' fields, so a
    change of it never counts. -/
theorem nested_ignored_fields_cleaned (cfg : Cfg) (extra : List (List String)) (body e : J) (l : DiffBaseLeaf)
    (f : List String) (hl : l ∈ diffbaseLeaves cfg.diffbase) (hf : f ∈ leafIgnored l) (hp : PseudoApart f)
    (h : essence cfg extra body = .ok e) : Absent e f :=
  essence_ignored_absent hl hf hp h

/-- **The order of the nested storages does not matter for what is cleaned**: for two
    `MultiDiffBaseStorage`s whose lists are permutations of each other, both essences lack the own
    status fields, the own annotation keys and the ignored fields of ALL nested storages (the seeded
    change C04d — each nested build gets the real body, only the LAST one's cleaning survives — breaks
    exactly this). -/
theorem multi_cleaning_order_independent (ls ls' : List DiffBaseLeaf) (pc : ProgressCfg) (hs : Hashes)
    (extra : List (List String)) (body e e' : J) (hperm : ls.Perm ls')
    (h : essence ⟨.multi ls, pc, hs⟩ extra body = .ok e) (h' : essence ⟨.multi ls', pc, hs⟩ extra body = .ok e') :
    (∀ f ig, DiffBaseLeaf.status f ig ∈ ls → PseudoApart f → Absent e f ∧ Absent e' f) ∧
    (∀ p key v1 ig ks k, DiffBaseLeaf.annotations p key v1 ig ∈ ls → keysFor hs v1 p key body = .ok ks → k ∈ ks →
        Absent e ["metadata", "annotations", k] ∧ Absent e' ["metadata", "annotations", k]) ∧
    (∀ l f, l ∈ ls → f ∈ leafIgnored l → PseudoApart f → Absent e f ∧ Absent e' f) := by
  refine ⟨fun f ig hl hp => ⟨?_, ?_⟩, fun p key v1 ig ks k hl hks hk => ⟨?_, ?_⟩, fun l f hl hf hp => ⟨?_, ?_⟩⟩
  · exact essence_status_field_absent (cfg := ⟨.multi ls, pc, hs⟩) hl hp h
  · exact essence_status_field_absent (cfg := ⟨.multi ls', pc, hs⟩) (hperm.mem_iff.1 hl) hp h'
  · exact essence_own_keys_absent (cfg := ⟨.multi ls, pc, hs⟩) hl hks hk h
  · exact essence_own_keys_absent (cfg := ⟨.multi ls', pc, hs⟩) (hperm.mem_iff.1 hl) hks hk h'
  · exact essence_ignored_absent (cfg := ⟨.multi ls, pc, hs⟩) hl hf hp h
  · exact essence_ignored_absent (cfg := ⟨.multi ls', pc, hs⟩) (hperm.mem_iff.1 hl) hf hp h'

/-- the guard is met by the usual locations. -/
example : PseudoApart ["status", "diff-base"] ∧ PseudoApart ["spec", "replicas"] ∧ PseudoApart ["metadata", "labels", "tier"] := by
  refine ⟨⟨by simp, by simp, ?_⟩, ⟨by simp, by simp, ?_⟩, ⟨by simp, by simp, ?_⟩⟩ <;> (intro ⟨t, ht⟩; simp at ht)

/-! ## one storage object serving many objects (Model/C04_Shared.lean)

  The diff-base storage is ONE instance per operator; what it answers for an object must be a function of that
  object alone — otherwise "an ordinary annotation counts" depends on which OTHER objects the operator met. -/

/-- **The marked prefixes of an object do not depend on the objects served before** (the code's policy: the set is
    local to the call), for every history. -/
theorem served_prefixes_history_independent (history : List (List String)) (ks : List String) :
    servedPrefixes statelessDetect history ks = markedPrefixes ks := by
  simp only [servedPrefixes, statelessDetect]

/-- **What a storage builds for an object is what a fresh storage builds**, whatever bodies it has served before. -/
theorem served_build_history_independent (history : List J) (ignored extra : List (List String)) (body : J) :
    servedBuild statelessDetect history ignored extra body = baseBuild ignored extra body := by
  have : servedPrefixes statelessDetect (history.map annKeys) = markedPrefixes := by
    funext ks; exact served_prefixes_history_independent _ ks
  simp only [servedBuild, this, baseBuildWith_marked]

/-- **An ordinary annotation stays in the essence after any history**: an annotation name that no marked prefix of
    its OWN object covers (and that is not kubectl's) is kept, whatever objects — marked ones included — were served before. -/
theorem ordinary_annotation_kept_after_any_history (history : List (List String)) (ks : List String) (k : String)
    (hk : k ∈ ks) (hord : keepAnnotation (markedPrefixes ks) k = true) :
    k ∈ servedKept statelessDetect history ks := by
  simp only [servedKept, served_prefixes_history_independent, List.mem_filter]
  exact ⟨hk, hord⟩

/-- the hypotheses are met: `example.com/team` on an object without a marker, after an object carrying
    `example.com/kopf-managed` was served. -/
example : "example.com/team" ∈ servedKept statelessDetect [["example.com/kopf-managed", "example.com/state"]] ["example.com/team", "note"] :=
  ordinary_annotation_kept_after_any_history _ _ _ (by simp) (by decide)

/-- **The remembering variant hides every annotation under a prefix that ANY earlier object had marked** — for all
    histories, all objects: the reason why the storage must not carry the set over (seeded change C04g). -/
theorem remembering_hides_after_marked_object (pre post : List (List String)) (marked ks : List String) (p : List Char) (k : String)
    (hp : p ∈ markedPrefixes marked) (hu : underPrefix p k = true) :
    k ∉ servedKept rememberingDetect (pre ++ marked :: post) ks := by
  intro hmem
  simp only [servedKept, List.mem_filter, keepAnnotation, Bool.and_eq_true, Bool.not_eq_true', List.any_eq_false] at hmem
  have hin : p ∈ servedPrefixes rememberingDetect (pre ++ marked :: post) ks := by
    simp only [servedPrefixes, rememberingDetect]
    exact List.mem_append_left _ (serveAll_remembering_mem [] pre marked post p hp)
  have := hmem.2.1 p hin
  simp [hu] at this

end Kopf.C04
