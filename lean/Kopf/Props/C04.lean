/-
  C04 — property theorems only. Change detection is exact.

  `a ≈ b` (`Equiv`) is the equivalence the real `diffs.diff` decides: Python `==` (`J.pyEq`, so
  `True == 1`, dict key order irrelevant) modulo object keys whose value is `null` (`J.dropNulls`;
  Kubernetes never stores such keys, `diff_iter(None, None)` yields nothing). Both deviations from
  plain structural equality are visible below and shown necessary by witnesses.

  All theorems quantify over ALL well-formed JSON values (`J.WF`: object keys unique — what
  `json.loads` produces); there is no bound on nesting or size.
-/
import Kopf.Model.C04_Diff
import Kopf.Model.C04_Essence
import Kopf.Lemmas.C04_WF
namespace Kopf.C04
open Kopf Kopf.J

/-- Python equality modulo null-valued object keys. -/
def Equiv (a b : J) : Prop := pyEq (dropNulls a) (dropNulls b) = true
infix:50 " ≈ " => Equiv

/-! ## the diff -/

/-- `diff a a = []` for every well-formed `a` (any nesting). -/
theorem diff_self_empty (a : J) (p : Path) (h : J.WF a) : diff a a p = [] :=
  diff_of_pyEq p (pyEq_refl a h)

/-- the diff is empty **iff** nothing differs (up to `≈`), for all well-formed values. -/
theorem diff_empty_iff (a b : J) (p : Path) (ha : J.WF a) (hb : J.WF b) :
    diff a b p = [] ↔ a ≈ b :=
  diff_nil_iff a b p ha hb

/-- applying the diff to old yields new (up to `≈`), and the result is well-formed. -/
theorem apply_diff (a b : J) (ha : J.WF a) (hb : J.WF b) :
    applyDiff (diff a b []) a ≈ b ∧ J.WF (applyDiff (diff a b []) a) :=
  ⟨(apply_diff_aux a b ha hb).2, (apply_diff_aux a b ha hb).1⟩

/-- narrowing the diff to a handler's field is exact: `reduce` of the whole-object diff **is** the
    diff of the two values at that field (`dicts.resolve(old, field, None)` etc. — what
    `ResourceHandler.adjust_cause` passes as old/new), item for item, for every path. -/
theorem reduce_exact (a b : J) (p : Path) (ha : J.WF a) (hb : J.WF b) :
    reduce (diff a b []) p = diff (resolveD a p) (resolveD b p) [] :=
  reduce_diff p a b ha hb

theorem wf_resolveD (p : Path) : ∀ (a : J), J.WF a → J.WF (resolveD a p) := by
  induction p with
  | nil => intro a h; simpa [resolveD_nil] using h
  | cons k q ih =>
    intro a h
    cases a with
    | obj kvs =>
      rw [resolveD_obj_cons]
      cases hl : lookup k kvs with
      | none => rfl
      | some x => exact ih x (wf_of_lookup (by simpa [J.WF, wf] using h) hl)
    | _ => rfl

/-- consequently the field-narrowed old/new/diff triple a handler receives obeys the same two laws. -/
theorem reduce_apply (a b : J) (p : Path) (ha : J.WF a) (hb : J.WF b) :
    applyDiff (reduce (diff a b []) p) (resolveD a p) ≈ resolveD b p := by
  rw [reduce_exact a b p ha hb]
  exact (apply_diff _ _ (wf_resolveD p a ha) (wf_resolveD p b hb)).1

theorem reduce_empty_iff (a b : J) (p : Path) (ha : J.WF a) (hb : J.WF b) :
    reduce (diff a b []) p = [] ↔ resolveD a p ≈ resolveD b p := by
  rw [reduce_exact a b p ha hb]
  exact diff_empty_iff _ _ [] (wf_resolveD p a ha) (wf_resolveD p b hb)

/-- F7, bool-vs-int: `1` and `true` are different JSON values, yet the diff is empty — the strict
    reading of "empty only if nothing differs" is false of the code (known finding F7). -/
theorem bool_int_witness :
    diff (.obj [("spec", .obj [("a", .num 1)])]) (.obj [("spec", .obj [("a", .bool true)])]) [] = []
    ∧ (J.obj [("spec", .obj [("a", .num 1)])] == J.obj [("spec", .obj [("a", .bool true)])]) = false := by
  decide

/-- null ≡ absent: a key with value `null` and a missing key are not distinguished (Kubernetes'
    own semantics, part of `≈`), also below the root; inside arrays nulls do count. -/
theorem null_absent_witness :
    diff (.obj [("a", .null)]) (.obj []) [] = []
    ∧ diff (.obj [("a", .obj [("b", .null)])]) (.obj [("a", .obj [])]) [] = []
    ∧ diff (.obj [("a", .arr [.obj [("b", .null)]])]) (.obj [("a", .arr [.obj []])]) [] ≠ [] := by
  decide

example : J.WF (.obj [("spec", .obj [("a", .num 1), ("b", .arr [.null, .obj []])])]) := by unfold J.WF; decide
example : (J.obj [("a", .num 1), ("b", .null)]) ≈ (J.obj [("a", .bool true)]) := by unfold Equiv; decide
example : ¬ ((J.obj [("a", .num 1)]) ≈ (J.obj [("a", .num 2)])) := by unfold Equiv; decide

/-! ## the essence: what never counts -/

/-- **The status stanza never counts**: setting `status` to anything leaves the essence unchanged,
    for every storage configuration (`cfg` arbitrary), every body, every set of handler fields that
    stay out of `status`. (Handler fields inside `status` are excluded — see F8.) -/
theorem status_invisible (cfg : Cfg) (extra : List (List String)) (kvs : Kvs) (v : J)
    (hx : ExtraAvoids "status" extra) :
    essence cfg extra (.obj (J.insert "status" v kvs)) = essence cfg extra (.obj kvs) :=
  essence_congr cfg (sameView_insert_status kvs v extra hx)

theorem status_removal_invisible (cfg : Cfg) (extra : List (List String)) (kvs : Kvs)
    (hx : ExtraAvoids "status" extra) :
    essence cfg extra (.obj (erase "status" kvs)) = essence cfg extra (.obj kvs) :=
  essence_congr cfg (sameView_erase_status kvs extra hx)

/-- **System metadata and finalizers never count**: replacing `metadata` by any mapping `m'` that has
    the same `labels`, `annotations` and `ownerReferences` (so: any change of resourceVersion,
    generation, managedFields, uid, finalizers, deletionTimestamp, …; `ownerReferences` only feeds the
    ReplicaSet-of-Deployment key mark) leaves the essence unchanged — every configuration, every body. -/
theorem system_metadata_invisible (cfg : Cfg) (extra : List (List String)) (kvs m m' : Kvs)
    (hm : lookup "metadata" kvs = some (.obj m))
    (hlab : lookup "labels" m' = lookup "labels" m) (hann : lookup "annotations" m' = lookup "annotations" m)
    (hown : lookup "ownerReferences" m' = lookup "ownerReferences" m) (hx : ExtraMetaOK m m' extra) :
    essence cfg extra (.obj (J.insert "metadata" (.obj m') kvs)) = essence cfg extra (.obj kvs) :=
  essence_congr cfg (sameView_metadata kvs m m' extra hm hlab hann hown hx)

/-- instance: adding/removing/changing the finalizer list. -/
theorem finalizers_invisible (cfg : Cfg) (extra : List (List String)) (kvs m : Kvs) (fins : J)
    (hm : lookup "metadata" kvs = some (.obj m)) (hx : ExtraAvoids "metadata" extra) :
    essence cfg extra (.obj (J.insert "metadata" (.obj (J.insert "finalizers" fins m)) kvs)) =
      essence cfg extra (.obj kvs) := by
  refine system_metadata_invisible cfg extra kvs m _ hm ?_ ?_ ?_ ?_
  · exact lookup_insert_other _ m (by decide)
  · exact lookup_insert_other _ m (by decide)
  · exact lookup_insert_other _ m (by decide)
  · intro f hf
    obtain ⟨k, ks, h1, h2⟩ := hx f hf
    exact Or.inl ⟨k, ks, h1, h2⟩

/-- **Own and other operators' annotations never count (no self-trigger, no ping-pong)**: an
    annotation `k0` whose prefix is marked as a Kopf operator's — it is `kopf.zalando.org` or a
    sub-domain (the default of both storages), or some *other* annotation marks it (the
    `kopf-managed` marker the storages write with every store/touch, or a key under a known prefix) —
    can be set, changed or removed (`A'` agrees with `A` off `k0`): the essence is unchanged. Every
    configuration, body, handler-field set that stays out of `metadata.annotations`. -/
theorem marked_annotation_invisible (cfg : Cfg) (extra : List (List String)) (kvs m A A' : Kvs)
    (k0 : String) (p0 : List Char)
    (hm : lookup "metadata" kvs = some (.obj m)) (ha : lookup "annotations" m = some (.obj A))
    (hd : A'.filter (fun kv => kv.1 != k0) = A.filter (fun kv => kv.1 != k0))
    (hp0 : pfx k0 = some p0) (hr : Robust A k0 p0) (hx : ExtraAnnOK extra) :
    essence cfg extra (.obj (withAnn kvs m A')) = essence cfg extra (.obj kvs) :=
  essence_withAnn cfg extra hm ha hd hp0 hr hx

/-- the hypotheses are met by the default storages' keys … -/
example : pfx "kopf.zalando.org/last-handled-configuration" = some "kopf.zalando.org".toList
    ∧ knownish "kopf.zalando.org".toList = true := by decide
example : pfx "kopf.zalando.org/touch-dummy" = some "kopf.zalando.org".toList := by decide
/-- … and by a custom prefix once its marker is there. -/
example : Robust [("my-op.example.com/kopf-managed", .str "yes")] "my-op.example.com/create_fn" "my-op.example.com".toList :=
  Or.inr ⟨"my-op.example.com/kopf-managed", by decide, by decide, by decide⟩

/-- **The first annotation write** on an object that has no `metadata.annotations` yet (a fresh
    object): if every key written is dropped by the marked-prefix rule (all under `kopf.zalando.org`
    or a sub-domain — the defaults —, or the `kopf-managed` marker is written along, as the storages
    do), the essence is unchanged. Every configuration and body; handler fields outside `metadata`. -/
theorem first_annotation_write_invisible (cfg : Cfg) (extra : List (List String)) (kvs m A' : Kvs)
    (hm : lookup "metadata" kvs = some (.obj m)) (ha : lookup "annotations" m = none)
    (hall : ∀ kv, kv ∈ A' → keepAnnotation (markedPrefixes (keys A')) kv.1 = false)
    (hx : ExtraAvoids "metadata" extra) :
    essence cfg extra (.obj (withAnn kvs m A')) = essence cfg extra (.obj kvs) :=
  essence_firstAnn cfg extra hm ha hall hx

/-- the hypothesis holds for what the default storages write first … -/
example : ∀ kv, kv ∈ [("kopf.zalando.org/create_fn", J.str "{}"), ("kopf.zalando.org/last-handled-configuration", J.str "{}")] →
    keepAnnotation (markedPrefixes (keys [("kopf.zalando.org/create_fn", J.str "{}"),
      ("kopf.zalando.org/last-handled-configuration", J.str "{}")])) kv.1 = false := by
  intro kv h
  simp only [List.mem_cons, List.mem_nil_iff, or_false] at h
  rcases h with rfl | rfl <;> decide
/-- … and for a custom prefix together with its marker. -/
example : ∀ kv, kv ∈ [("my-op.example.com/create_fn", J.str "{}"), ("my-op.example.com/kopf-managed", J.str "yes")] →
    keepAnnotation (markedPrefixes (keys [("my-op.example.com/create_fn", J.str "{}"),
      ("my-op.example.com/kopf-managed", J.str "yes")])) kv.1 = false := by
  intro kv h
  simp only [List.mem_cons, List.mem_nil_iff, or_false] at h
  rcases h with rfl | rfl <;> decide

/-- the marker matters: the *first* write under a custom, not yet marked prefix removes a foreign
    annotation squatting under that prefix from the essence (documented assumption: the operator's
    prefix is reserved for the operator). -/
theorem marker_first_write_witness :
    let keep (A : Kvs) := keys (A.filter (fun kv => keepAnnotation (markedPrefixes (keys A)) kv.1))
    keep [("my-op.example.com/user", .str "x")] = ["my-op.example.com/user"]
    ∧ keep [("my-op.example.com/user", .str "x"), ("my-op.example.com/kopf-managed", .str "yes")] = [] := by
  decide

/-! ## the essence: what does count -/

/-- **Every payload stanza is in the essence, exactly**: for a top-level key other than
    apiVersion/kind/metadata/status which no configured ignored/storage field starts with, the essence
    holds the body's value unchanged (or lacks it iff the body does) — all configurations, all bodies,
    all handler fields. -/
theorem payload_exact (cfg : Cfg) (extra : List (List String)) (kvs : Kvs) (e : J) (k : String)
    (hk : PayloadKey k) (hd : AvoidKey k (diffbaseFields cfg.diffbase)) (hp : AvoidKey k (progressFields cfg.progress))
    (h : essence cfg extra (.obj kvs) = .ok e) : e.get? k = lookup k kvs :=
  essence_get? hk hd hp h

/-- the essence is injective on the payload part. -/
theorem essence_injective_on_payload (cfg : Cfg) (extra : List (List String)) (kvs kvs' : Kvs) (e : J) (k : String)
    (hk : PayloadKey k) (hd : AvoidKey k (diffbaseFields cfg.diffbase)) (hp : AvoidKey k (progressFields cfg.progress))
    (h : essence cfg extra (.obj kvs) = .ok e) (h' : essence cfg extra (.obj kvs') = .ok e) :
    lookup k kvs = lookup k kvs' := by
  rw [← payload_exact cfg extra kvs e k hk hd hp h, ← payload_exact cfg extra kvs' e k hk hd hp h']

/-- the essence of a well-formed body is well-formed (so the diff theorems apply to essences). -/
theorem essence_wf (cfg : Cfg) (extra : List (List String)) (b e : J) (hb : J.WF b)
    (h : essence cfg extra b = .ok e) : J.WF e :=
  wf_essence hb h

/-- **Any change of a payload field counts**: if a payload stanza differs (not `≈`) between two
    well-formed bodies, the diff of their essences is non-empty — handling is triggered. -/
theorem payload_change_detected (cfg : Cfg) (extra : List (List String)) (kvs kvs' : Kvs) (e e' x y : J) (k : String)
    (hk : PayloadKey k) (hd : AvoidKey k (diffbaseFields cfg.diffbase)) (hp : AvoidKey k (progressFields cfg.progress))
    (hb : J.WF (.obj kvs)) (hb' : J.WF (.obj kvs'))
    (h : essence cfg extra (.obj kvs) = .ok e) (h' : essence cfg extra (.obj kvs') = .ok e')
    (hx : lookup k kvs = some x) (hy : lookup k kvs' = some y) (hne : ¬ x ≈ y) :
    diff e e' [] ≠ [] := by
  have hwe := essence_wf cfg extra _ e hb h
  have hwe' := essence_wf cfg extra _ e' hb' h'
  intro hnil
  have heq := (diff_empty_iff e e' [] hwe hwe').1 hnil
  have g := payload_exact cfg extra kvs e k hk hd hp h
  have g' := payload_exact cfg extra kvs' e' k hk hd hp h'
  rw [hx] at g
  rw [hy] at g'
  cases e with
  | obj ke =>
    cases e' with
    | obj ke' =>
      have hk1 := (eqv_obj_iff (by simpa [J.WF, wf] using hwe) (by simpa [J.WF, wf] using hwe')).1 heq k
      simp only [get?] at g g'
      rw [g, g'] at hk1
      exact hne ((optRel_dn_some x y).1 hk1)
    | _ => simp [get?] at g'
  | _ => simp [get?] at g

/-- an ordinary annotation (its prefix is not marked by any annotation of the object, and it is not
    kubectl's last-applied one) passes the annotation filter of `build`; one under a marked prefix
    does not. -/
theorem ordinary_annotation_kept (A : Kvs) (k : String) (v : J) (hm : (k, v) ∈ A) (hl : k ≠ lastApplied)
    (hu : ∀ p, pfx k = some p → p ∉ markedPrefixes (keys A)) :
    (k, v) ∈ A.filter (fun kv => keepAnnotation (markedPrefixes (keys A)) kv.1) := by
  refine List.mem_filter.2 ⟨hm, ?_⟩
  have : (markedPrefixes (keys A)).any (fun p => underPrefix p k) = false := by
    cases hany : (markedPrefixes (keys A)).any (fun p => underPrefix p k) with
    | false => rfl
    | true =>
      obtain ⟨p, hp, hmem⟩ := (dropped_iff _ _).1 hany
      exact absurd hmem (hu p hp)
  simp [keepAnnotation, this, hl]

theorem marked_annotation_dropped (A : Kvs) (k : String) (p : List Char) (hp : pfx k = some p)
    (hm : p ∈ markedPrefixes (keys A)) : keepAnnotation (markedPrefixes (keys A)) k = false := by
  have : (markedPrefixes (keys A)).any (fun p => underPrefix p k) = true := (dropped_iff _ _).2 ⟨p, hp, hm⟩
  simp [keepAnnotation, this]

/-! ## the excluded points, executed (witnesses for the known findings F8, F9) -/

def diffLen (x y : Except Err J) : Option Nat :=
  match x, y with
  | .ok e, .ok e' => some (diff e e' []).length
  | _, _ => none

def cfgStatusProgress : Cfg :=
  ⟨.leaf (.annotations "kopf.zalando.org" "last-handled-configuration" true []),
   [.status ["status", "kopf", "progress"]], []⟩

/-- F8: with `StatusProgressStorage` and a handler on field `status` (outside `ExtraAvoids "status"`),
    kopf's own touch (`status.kopf.dummy`) is an essential change. -/
theorem extra_status_witness :
    diffLen
      (essence cfgStatusProgress [["status"]]
        (.obj [("metadata", .obj [("name", .str "x")]), ("spec", .obj [("a", .num 1)]), ("status", .obj [("x", .num 1)])]))
      (essence cfgStatusProgress [["status"]]
        (.obj [("metadata", .obj [("name", .str "x")]), ("spec", .obj [("a", .num 1)]),
               ("status", .obj [("x", .num 1), ("kopf", .obj [("dummy", .str "2020")])])]))
      = some 1 := by decide

def cfgMultiDev : Cfg :=
  ⟨.multi [.annotations "kopf.dev" "last-handled-configuration" true []],
   [.annotations "kopf.zalando.org", .status ["status", "kopf", "progress"]], []⟩

def rsBody (anns : List (String × J)) : J :=
  .obj [("kind", .str "ReplicaSet"),
        ("metadata", .obj [("name", .str "rs"), ("ownerReferences", .arr [.obj [("kind", .str "Deployment")]]),
                           ("annotations", .obj anns)]),
        ("spec", .obj [("replicas", .num 1)])]

/-- F9: `MultiDiffBaseStorage` re-builds from the essence, where `kind`/`ownerReferences` are gone, so
    the `-ofDRS`-marked last-handled key under the unmarked prefix `kopf.dev` is not cleaned: the
    framework's own last-handled write is an essential change. -/
theorem multi_drs_witness :
    diffLen (essence cfgMultiDev [] (rsBody [("plain", .str "v")]))
      (essence cfgMultiDev [] (rsBody [("plain", .str "v"), ("kopf.dev/last-handled-configuration-ofDRS", .str "{}")]))
      = some 1 := by decide

/-
  Not proved in Lean (covered by the differential tie and the Python oracle only), stated here so
  that the gap is visible:
  * `own_unmarked_prefix_invisible_partial` — own keys under a custom prefix that is *not* marked
    (before the first marker write; prefixes starting with `kopf.`, for which no marker is written)
    are cleaned by the exact last-handled keys (`AnnotationsDiffBaseStorage.build`) and by
    `AnnotationsProgressStorage.clear`; the essence-level invariance for that route is not proved.
    F9 (known finding) shows the route is in fact broken for `MultiDiffBaseStorage` + `-ofDRS`.
  * label / ordinary-annotation changes reach the diff of the essences (the analogue of
    `payload_change_detected` below `metadata`): proved only at the level of the annotation filter
    (`ordinary_annotation_kept`).
-/

end Kopf.C04
