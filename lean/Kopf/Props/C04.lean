/-
  C04 — property theorems only. Change detection is exact.

  `a ≈ b` (`Equiv`) is the equivalence the real `diffs.diff` decides: Python `==` (`J.pyEq`, so
  `True == 1`, dict key order irrelevant) modulo object keys whose value is `null` (`J.dropNulls`;
  Kubernetes never stores such keys, `diff_iter(None, None)` yields nothing). Both deviations from
  plain structural equality are visible below and shown necessary by witnesses.
-/
import Kopf.Model.C04_Diff
import Kopf.Model.C04_Essence
import Kopf.Lemmas.C04_Diff
namespace Kopf.C04
open Kopf Kopf.J

/-- Python equality modulo null-valued object keys. -/
def Equiv (a b : J) : Prop := pyEq (dropNulls a) (dropNulls b) = true
infix:50 " ≈ " => Equiv

/-- `diff a a = []` for every well-formed `a` (any nesting). -/
theorem diff_self_empty (a : J) (p : Path) (h : J.WF a) : diff a a p = [] :=
  diff_of_pyEq p (pyEq_refl a h)

/-- the diff is empty **iff** nothing differs (up to `≈`), for all well-formed values. -/
theorem diff_empty_iff (a b : J) (p : Path) (ha : J.WF a) (hb : J.WF b) :
    diff a b p = [] ↔ a ≈ b :=
  diff_nil_iff a b p ha hb

/-- F7, bool-vs-int: `1` and `true` are different JSON values, yet the diff is empty — the strict
    reading of "empty only if nothing differs" is false of the code (known finding F7). -/
theorem bool_int_witness :
    diff (.obj [("spec", .obj [("a", .num 1)])]) (.obj [("spec", .obj [("a", .bool true)])]) [] = []
    ∧ (J.obj [("spec", .obj [("a", .num 1)])] == J.obj [("spec", .obj [("a", .bool true)])]) = false := by
  decide

/-- null ≡ absent: a key with value `null` and a missing key are not distinguished (Kubernetes'
    own semantics, part of `≈`), also below the root; inside arrays nulls do count. -/
theorem null_absent_witness :
    diff (.obj [("a", .null)]) (.obj []) [] = []
    ∧ diff (.obj [("a", .obj [("b", .null)])]) (.obj [("a", .obj [])]) [] = []
    ∧ diff (.obj [("a", .arr [.obj [("b", .null)]])]) (.obj [("a", .arr [.obj []])]) [] ≠ [] := by
  decide

example : J.WF (.obj [("spec", .obj [("a", .num 1), ("b", .arr [.null, .obj []])])]) := by unfold J.WF; decide
example : (J.obj [("a", .num 1), ("b", .null)]) ≈ (J.obj [("a", .bool true)]) := by unfold Equiv; decide
example : ¬ ((J.obj [("a", .num 1)]) ≈ (J.obj [("a", .num 2)])) := by unfold Equiv; decide

end Kopf.C04
